/-
Model of `replace.go` (replace, replaceRunnerLTR, replaceRunnerRTL, replacementImpl,
replacementImplRTL, the evaluator loops), `split.go` (Split), `syntax/replacerdata.go`
(NewReplacerData) and the replacement scanner of `syntax/parser.go` (scanReplacement, scanDollar,
scanDecimal, scanWord, isCaptureSlot, isCaptureName).

The matching engine is *not* part of this model: every driver takes the match sequence as an
input list, in the order in which the engine delivers it (ascending for left-to-right patterns,
descending for right-to-left patterns).  Runes are `Nat` code points, strings are `List Nat`,
positions are rune indices.  `IsWordChar` is an oracle parameter.

A Go panic (slice bounds / index out of range) is modelled explicitly: the loops return
`Option`, `none` = "the Go code would panic here".
-/
namespace RegexVerif.Replace

/-! ### matches, slices -/

/-- One match as the drivers see it: `RuneIndex`, `RuneLength` and, for every group slot
    `1 … GroupCount()-1` in slot order, the last capture `(index, length)` of that group
    (`none` = the group did not capture, `matchcount[slot] = 0`).  Slot 0 is the match itself. -/
structure Match where
  index : Nat
  len : Nat
  groups : List (Option (Nat × Nat))
  deriving Repr, DecidableEq

/-- end position of a match -/
def Match.stop (m : Match) : Nat := m.index + m.len

/-- the runes `text[a], …, text[b-1]` (empty when `b ≤ a`) -/
def slice (text : List Nat) (a b : Nat) : List Nat := (text.drop a).take (b - a)

/-- Go slice expression `text[a:b]`: panics unless `a ≤ b ≤ len(text)` -/
def sliceExpr (text : List Nat) (a b : Nat) : Option (List Nat) :=
  if a ≤ b ∧ b ≤ text.length then some (slice text a b) else none

/-- `writeRunes(buf, text, a, b)`: `for i := a; i < b; i++ { buf.WriteRune(text[i]) }` — nothing
    happens when `b ≤ a`, otherwise it panics when it reads past the end -/
def sliceLoop (text : List Nat) (a b : Nat) : Option (List Nat) :=
  if a < b ∧ text.length < b then none else some (slice text a b)

/-- `(index, length)` of the last capture of a slot; slot 0 is the match -/
def groupSpan (m : Match) : Nat → Option (Nat × Nat)
  | 0 => some (m.index, m.len)
  | k + 1 => (m.groups.getD k none)

/-- `groupValueAppendToBuf(slot, buf)`: the text of the last capture, nothing when unset -/
def groupText (text : List Nat) (m : Match) (slot : Nat) : List Nat :=
  match groupSpan m slot with
  | some (i, l) => slice text i (i + l)
  | none => []

/-- the matched text -/
def matchText (text : List Nat) (m : Match) : List Nat := slice text m.index (m.index + m.len)

/-! ### replacement rules and their expansion (`replacementImpl`) -/

inductive Piece where
  | lit (s : List Nat)
  | group (slot : Nat)
  | leftPortion
  | rightPortion
  | lastGroup
  | wholeString
  deriving Repr, DecidableEq

/-- what one rule appends for a match -/
def pieceText (text : List Nat) (m : Match) : Piece → List Nat
  | .lit s => s
  | .group slot => groupText text m slot
  | .leftPortion => text.take m.index                       -- for i := 0; i < RuneIndex
  | .rightPortion => text.drop (m.index + m.len)            -- for i := RuneIndex+RuneLength; i < len
  | .lastGroup => groupText text m m.groups.length          -- slot GroupCount()-1
  | .wholeString => text

/-- `replacementImpl(data, buf, m)`: the rules in order -/
def expand (pieces : List Piece) (text : List Nat) (m : Match) : List Nat :=
  pieces.flatMap (pieceText text m)

/-- `replacementImplRTL(data, &al, m)`: the rules are appended to the list last-to-first, one
    list entry per rule -/
def expandRTL (pieces : List Piece) (text : List Nat) (m : Match) (al : List (List Nat)) : List (List Nat) :=
  al ++ pieces.reverse.map (pieceText text m)

/-! ### `ReplacerData`: integer rules and string table -/

/-- `replacementImpl`'s decoding of one integer rule (`replaceSpecials = 4`): `r ≥ 0` string lookup,
    `r < -4` group slot `-5 - r`, otherwise the special `-5 - r ∈ {-1 left, -2 right, -3 last group,
    -4 whole string}` -/
def decodeRule (strings : List (List Nat)) (r : Int) : Piece :=
  if 0 ≤ r then .lit (strings.getD r.toNat [])
  else if r < -4 then .group (-5 - r).toNat
  else if -5 - r = -1 then .leftPortion
  else if -5 - r = -2 then .rightPortion
  else if -5 - r = -3 then .lastGroup
  else .wholeString

structure ReplacerData where
  strings : List (List Nat)
  rules : List Int
  deriving Repr, DecidableEq

def ReplacerData.pieces (d : ReplacerData) : List Piece := d.rules.map (decodeRule d.strings)

/-! ### the replacement scanner (`scanReplacement` / `scanDollar`) -/

/-- what the scanner needs to know about the regex -/
structure Env where
  /-- `caps`: group number → slot; `none` = nil map (groups are `0 … capsize-1`, slot = number) -/
  caps : Option (List (Nat × Nat))
  capsize : Nat
  /-- `capnames`: group name → group number (empty when the map is nil) -/
  names : List (List Nat × Nat)
  /-- ECMAScript option -/
  ecma : Bool

/-- children of the concatenation node `scanReplacement` builds: literal runes (`NtOne`/`NtMulti`,
    one entry per rune) and references (`NtRef` with `M = n`: a group *number* when `n ≥ 0`, a special
    when `n < 0`) -/
inductive Tok where
  | ch (c : Nat)
  | ref (n : Int)
  deriving Repr, DecidableEq

inductive ScanErr where
  | overflow      -- ErrCaptureGroupOutOfRange
  | unmodelled    -- `${name}` under the ECMAScript option (scanECMACapname is not modelled)
  deriving Repr, DecidableEq

def dollar : Nat := 36

def isDigit (c : Nat) : Bool := decide (48 ≤ c ∧ c ≤ 57)

/-- `isCaptureSlot` -/
def isCaptureSlot (env : Env) (i : Nat) : Bool :=
  match env.caps with
  | some l => (l.lookup i).isSome
  | none => decide (i < env.capsize)

/-- `isCaptureName` + `captureSlotFromName` -/
def lookupName (env : Env) (name : List Nat) : Option Nat := env.names.lookup name

def maxValueDiv10 : Nat := 214748364
def maxValueMod10 : Nat := 7

/-- `scanDecimal` from the current position: value and number of digits read; `none` = overflow error -/
def scanDecimal : List Nat → Nat → Nat → Option (Nat × Nat)
  | [], i, k => some (i, k)
  | c :: rest, i, k =>
    if isDigit c then
      let d := c - 48
      if i > maxValueDiv10 ∨ (i = maxValueDiv10 ∧ d > maxValueMod10) then none
      else scanDecimal rest (i * 10 + d) (k + 1)
    else some (i, k)

/-- the ECMAScript `$n` loop after the first digit: `newcap` is the number read so far, `pos` the
    number of digits read, `best` the longest prefix that is a capture slot (number, digits) -/
def ecmaDigits (env : Env) : List Nat → Nat → Nat → Option (Nat × Nat) → Option (Option (Nat × Nat))
  | [], _, _, best => some best
  | c :: rest, newcap, pos, best =>
    if isDigit c then
      let d := c - 48
      if newcap > maxValueDiv10 ∨ (newcap = maxValueDiv10 ∧ d > maxValueMod10) then none
      else
        let newcap := newcap * 10 + d
        let best := if isCaptureSlot env newcap then some (newcap, pos + 1) else best
        ecmaDigits env rest newcap (pos + 1) best
    else some best

/-- well-formed group maps: group number 0 exists and every named group's number is a capture slot
    (true of the maps of every compiled regex; evaluated by the driver on each case) -/
def envOk (env : Env) : Bool :=
  isCaptureSlot env 0 && env.names.all (fun p => isCaptureSlot env p.2)

/-- "unrecognized $: literalize": the `$` alone, nothing consumed after it -/
def literalDollar : Tok × Nat := (.ch dollar, 0)

/-- `scanDollar`; the argument is the text after the `$`.  Result: the node and the number of runes
    consumed after the `$`. -/
def scanDollar (isWord : Nat → Bool) (env : Env) (s : List Nat) : Except ScanErr (Tok × Nat) :=
  match s with
  | [] => .ok literalDollar
  | ch0 :: tail =>
    let angled : Bool := ch0 == 123 && decide (s.length > 1)
    let body := if angled then tail else s
    let off := if angled then 1 else 0
    match body with
    | [] => .ok literalDollar          -- unreachable: `angled` needs two runes
    | ch :: bodyTail =>
      if isDigit ch then
        if !angled && env.ecma then
          let d0 := ch - 48
          let best0 := if isCaptureSlot env d0 then some (d0, 1) else none
          match ecmaDigits env bodyTail d0 1 best0 with
          | none => .error .overflow
          | some (some (capnum, used)) => .ok (.ref capnum, used)
          | some none => .ok literalDollar
        else
          match scanDecimal body 0 0 with
          | none => .error .overflow
          | some (capnum, k) =>
            if !angled then
              if isCaptureSlot env capnum then .ok (.ref capnum, k) else .ok literalDollar
            else
              match body.drop k with
              | 125 :: _ => if isCaptureSlot env capnum then .ok (.ref capnum, off + k + 1) else .ok literalDollar
              | _ => .ok literalDollar
      else if angled then
        if env.ecma then .error .unmodelled
        else if isWord ch then
          let name := body.takeWhile isWord            -- scanWord
          match body.drop name.length with
          | 125 :: _ =>
            match lookupName env name with
            | some num => .ok (.ref num, off + name.length + 1)
            | none => .ok literalDollar
          | _ => .ok literalDollar
        else .ok literalDollar
      else
        if ch = 36 then .ok (.ch dollar, 1)            -- $$
        else if ch = 38 then .ok (.ref 0, 1)           -- $&
        else if ch = 96 then .ok (.ref (-1), 1)        -- $`
        else if ch = 39 then .ok (.ref (-2), 1)        -- $'
        else if ch = 43 then .ok (.ref (-3), 1)        -- $+
        else if ch = 95 then .ok (.ref (-4), 1)        -- $_
        else .ok literalDollar

/-- `scanReplacement`: `skip` runes are still owed to the last `scanDollar` -/
def scanLoop (isWord : Nat → Bool) (env : Env) : List Nat → Nat → Except ScanErr (List Tok)
  | [], _ => .ok []
  | c :: rest, skip + 1 => let _ := c; scanLoop isWord env rest skip
  | c :: rest, 0 =>
    if c = dollar then
      match scanDollar isWord env rest with
      | .error e => .error e
      | .ok (tok, used) =>
        match scanLoop isWord env rest used with
        | .error e => .error e
        | .ok toks => .ok (tok :: toks)
    else
      match scanLoop isWord env rest 0 with
      | .error e => .error e
      | .ok toks => .ok (.ch c :: toks)

/-- slot of a referenced group number in `NewReplacerData`: `if len(caps) > 0 && slot >= 0 { slot = caps[slot] }` -/
def slotOf (env : Env) (n : Nat) : Nat :=
  match env.caps with
  | some l => if l.length > 0 then (l.lookup n).getD 0 else n
  | none => n

/-- the loop of `NewReplacerData` over the children: `sb` is the pending literal -/
def buildData (env : Env) : List Tok → List Nat → List (List Nat) → List Int → ReplacerData
  | [], sb, strings, rules =>
    if sb ≠ [] then ⟨strings ++ [sb], rules ++ [(strings.length : Int)]⟩ else ⟨strings, rules⟩
  | .ch c :: rest, sb, strings, rules => buildData env rest (sb ++ [c]) strings rules
  | .ref n :: rest, sb, strings, rules =>
    let (strings, rules) :=
      if sb ≠ [] then (strings ++ [sb], rules ++ [(strings.length : Int)]) else (strings, rules)
    let slot : Int := if 0 ≤ n then (slotOf env n.toNat : Int) else n
    buildData env rest [] strings (rules ++ [-4 - 1 - slot])

/-- `NewReplacerData(rep, caps, capsize, capnames, options)` -/
def newReplacerData (isWord : Nat → Bool) (env : Env) (rep : List Nat) : Except ScanErr ReplacerData :=
  match scanLoop isWord env rep 0 with
  | .error e => .error e
  | .ok toks => .ok (buildData env toks [] [] [])

/-- the parsed replacement as pieces -/
def parse (isWord : Nat → Bool) (env : Env) (rep : List Nat) : Except ScanErr (List Piece) :=
  match newReplacerData isWord env rep with
  | .error e => .error e
  | .ok d => .ok d.pieces

/-! ### the drivers, as folds over the delivered match sequence -/

/-- end of `replaceRunnerLTR`: `if prevat < len(text) { writeRunes(buf, text, prevat, len(text)) }` -/
def finishLTR (text : List Nat) (prevat : Nat) (buf : List Nat) : Option (List Nat) :=
  if prevat < text.length then (sliceLoop text prevat text.length).map (buf ++ ·) else some buf

/-- the `for m != nil` loop of `replaceRunnerLTR` -/
def loopLTR (text : List Nat) (pieces : List Piece) : List Match → Nat → List Nat → Int → Option (List Nat)
  | [], prevat, buf, _ => finishLTR text prevat buf
  | m :: rest, prevat, buf, count =>
    match (if m.index ≠ prevat then sliceLoop text prevat m.index else some []) with
    | none => none
    | some gap =>
      let buf := buf ++ gap ++ expand pieces text m
      let prevat := m.index + m.len
      let count := count - 1
      if count = 0 then finishLTR text prevat buf else loopLTR text pieces rest prevat buf count

def replaceLTR (text : List Nat) (ms : List Match) (pieces : List Piece) (count : Int) : Option (List Nat) :=
  loopLTR text pieces ms 0 [] count

/-- end of `replaceRunnerRTL`: the head of the text, then the collected list last-to-first -/
def finishRTL (text : List Nat) (prevat : Nat) (al : List (List Nat)) : Option (List Nat) :=
  (if prevat > 0 then sliceLoop text 0 prevat else some []).map (· ++ al.reverse.flatten)

/-- the loop of `replaceRunnerRTL` (`al` grows at its end) -/
def loopRTL (text : List Nat) (pieces : List Piece) : List Match → Nat → List (List Nat) → Int → Option (List Nat)
  | [], prevat, al, _ => finishRTL text prevat al
  | m :: rest, prevat, al, count =>
    match (if m.index + m.len ≠ prevat then (sliceExpr text (m.index + m.len) prevat).map (fun g => al ++ [g]) else some al) with
    | none => none
    | some al =>
      let prevat := m.index
      let al := expandRTL pieces text m al
      let count := count - 1
      if count = 0 then finishRTL text prevat al else loopRTL text pieces rest prevat al count

def replaceRTL (text : List Nat) (ms : List Match) (pieces : List Piece) (count : Int) : Option (List Nat) :=
  loopRTL text pieces ms text.length [] count

/-- evaluator loop, left-to-right (`text[prevat:m.RuneIndex]`, `text[prevat:]` are slice expressions) -/
def finishFuncLTR (text : List Nat) (prevat : Nat) (buf : List Nat) : Option (List Nat) :=
  if prevat < text.length then (sliceExpr text prevat text.length).map (buf ++ ·) else some buf

def loopFuncLTR (text : List Nat) (ev : Match → List Nat) : List Match → Nat → List Nat → Int → Option (List Nat)
  | [], prevat, buf, _ => finishFuncLTR text prevat buf
  | m :: rest, prevat, buf, count =>
    match (if m.index ≠ prevat then sliceExpr text prevat m.index else some []) with
    | none => none
    | some gap =>
      let buf := buf ++ gap ++ ev m
      let prevat := m.index + m.len
      let count := count - 1
      if count = 0 then finishFuncLTR text prevat buf else loopFuncLTR text ev rest prevat buf count

/-- evaluator loop, right-to-left (`text[:prevat]` is a slice expression) -/
def finishFuncRTL (text : List Nat) (prevat : Nat) (al : List (List Nat)) : Option (List Nat) :=
  (if prevat > 0 then sliceExpr text 0 prevat else some []).map (· ++ al.reverse.flatten)

def loopFuncRTL (text : List Nat) (ev : Match → List Nat) : List Match → Nat → List (List Nat) → Int → Option (List Nat)
  | [], prevat, al, _ => finishFuncRTL text prevat al
  | m :: rest, prevat, al, count =>
    match (if m.index + m.len ≠ prevat then (sliceExpr text (m.index + m.len) prevat).map (fun g => al ++ [g]) else some al) with
    | none => none
    | some al =>
      let prevat := m.index
      let al := al ++ [ev m]
      let count := count - 1
      if count = 0 then finishFuncRTL text prevat al else loopFuncRTL text ev rest prevat al count

/-- result of an API call: a value, the documented error (`count too small`), or a Go panic -/
inductive Res (α : Type) where
  | ok (a : α)
  | err
  | panic
  deriving Repr, DecidableEq

def Res.ofOption {α : Type} : Option α → Res α
  | some a => .ok a
  | none => .panic

/-- `replace(regex, data, nil, input, startAt, count)`, the matches found from `startAt` given as `ms` -/
def replace (text : List Nat) (ms : List Match) (pieces : List Piece) (count : Int) (rtl : Bool) : Res (List Nat) :=
  if count < -1 then .err
  else if count = 0 then .ok text
  else match ms with
    | [] => .ok text                        -- `if m == nil { return input, nil }`
    | _ => .ofOption (if rtl then replaceRTL text ms pieces count else replaceLTR text ms pieces count)

/-- `replace(regex, nil, evaluator, input, startAt, count)` -/
def replaceFunc (text : List Nat) (ms : List Match) (ev : Match → List Nat) (count : Int) (rtl : Bool) : Res (List Nat) :=
  if count < -1 then .err
  else if count = 0 then .ok text
  else match ms with
    | [] => .ok text
    | _ => .ofOption (if rtl then loopFuncRTL text ev ms text.length [] count else loopFuncLTR text ev ms 0 [] count)

/-! ### Split -/

def maxInt : Int := 9223372036854775807

/-- `gs[i].String()` for the groups after group 0 (an unset group gives the empty string) -/
def capTexts (text : List Nat) (m : Match) : List (List Nat) :=
  m.groups.map fun g => match g with
    | some (i, l) => slice text i (i + l)
    | none => []

/-- after the loop of `Split`: the remainder; right-to-left the collected list is reversed -/
def splitFinish (text : List Nat) (rtl : Bool) (prior : Nat) (ret : List (List Nat)) : Option (List (List Nat)) :=
  if rtl then (sliceExpr text 0 prior).map (fun g => (ret ++ [g]).reverse)
  else (sliceExpr text prior text.length).map (fun g => ret ++ [g])

/-- the `for ; m != nil && count > 0; …` loop of `Split` -/
def splitLoop (text : List Nat) (rtl : Bool) : List Match → Nat → List (List Nat) → Int → Option (List (List Nat))
  | [], prior, ret, _ => splitFinish text rtl prior ret
  | m :: rest, prior, ret, count =>
    if count > 0 then
      match (if rtl then sliceExpr text (m.index + m.len) prior else sliceExpr text prior m.index) with
      | none => none
      | some g =>
        let ret := ret ++ [g] ++ capTexts text m
        let prior := if rtl then m.index else m.index + m.len
        splitLoop text rtl rest prior ret (count - 1)
    else splitFinish text rtl prior ret

/-- `(*Regexp).Split(input, count)`, `ms` = the matches found from the default start.  In this code
    base `count` bounds the number of *matches processed* (so `count = 2` yields up to three
    pieces) except that `count = 1` returns the input and `count = 0` returns nil. -/
def split (text : List Nat) (ms : List Match) (count : Int) (rtl : Bool) : Res (List (List Nat)) :=
  if count < -1 then .err
  else if count = 0 then .ok []
  else if count = 1 then .ok [text]
  else
    let count := if count = -1 then maxInt else count
    match ms with
    | [] => .ok [text]                      -- `if txt == nil { return []string{input} }`
    | _ => .ofOption (splitLoop text rtl ms (if rtl then text.length else 0) [] count)

/-! ### validity of a delivered match sequence (what C07 guarantees) -/

/-- ascending, pairwise disjoint (touching allowed), inside `[pos, n]` -/
def validFrom (n : Nat) : Nat → List Match → Bool
  | pos, [] => decide (pos ≤ n)
  | pos, m :: rest => decide (pos ≤ m.index) && validFrom n (m.index + m.len) rest

/-- a left-to-right sequence for a text: ordered, disjoint, in bounds -/
def validLTR (text : List Nat) (ms : List Match) : Bool := validFrom text.length 0 ms

/-- descending, pairwise disjoint, inside `[0, prior]` -/
def validDesc : Nat → List Match → Bool
  | _, [] => true
  | prior, m :: rest => decide (m.index + m.len ≤ prior) && validDesc m.index rest

/-- a right-to-left sequence for a text: each match lies left of the previous one, in bounds -/
def validRTL (text : List Nat) (ms : List Match) : Bool := validDesc text.length ms

def valid (rtl : Bool) (text : List Nat) (ms : List Match) : Bool :=
  if rtl then validRTL text ms else validLTR text ms

/-! ### the specification: substitute each match in place -/

/-- the matches that a driver processes: all of them for a negative count, else the first `count` -/
def takeCount (count : Int) (ms : List Match) : List Match :=
  if count < 0 then ms else ms.take count.toNat

/-- kept text and substitutions between positions `pos` and `hi`, for matches in text order -/
def specBetween (text : List Nat) (f : Match → List Nat) : Nat → List Match → Nat → List Nat
  | pos, [], hi => slice text pos hi
  | pos, m :: rest, hi => slice text pos m.index ++ f m ++ specBetween text f (m.index + m.len) rest hi

/-- the input with each match of `ms` (ascending) replaced by `f m`, everything else kept -/
def spec (text : List Nat) (ms : List Match) (f : Match → List Nat) : List Nat :=
  specBetween text f 0 ms text.length

/-- the kept texts: before the first match, between matches, after the last -/
def gaps (text : List Nat) : Nat → List Match → List (List Nat)
  | pos, [] => [text.drop pos]
  | pos, m :: rest => slice text pos m.index :: gaps text (m.index + m.len) rest

/-- `g₀ ++ t₁ ++ g₁ ++ … ++ tₙ ++ gₙ` -/
def interleave : List (List Nat) → List (List Nat) → List Nat
  | g :: gs, t :: ts => g ++ t ++ interleave gs ts
  | gs, [] => gs.flatten
  | [], _ :: _ => []

/-- what `Split` returns for matches in text order: kept texts with the group texts of each match
    (`capf m`) after the kept text that precedes the match -/
def splitSpec (text : List Nat) (capf : Match → List (List Nat)) : Nat → List Match → Nat → List (List Nat)
  | pos, [], hi => [slice text pos hi]
  | pos, m :: rest, hi => slice text pos m.index :: (capf m ++ splitSpec text capf (m.index + m.len) rest hi)

/-- re-join the pieces of `Split` with the matched texts: after each kept text the group entries
    of that match are skipped and the matched text is put back -/
def rejoin (text : List Nat) (skip : Match → Nat) : List Match → List (List Nat) → List Nat
  | [], ps => ps.flatten
  | _ :: _, [] => []
  | m :: rest, p :: ps => p ++ matchText text m ++ rejoin text skip rest (ps.drop (skip m))

end RegexVerif.Replace
