/-
The bool-only ("quick") program, on the specification.

Go side: `syntax/writer.go` `Write` generates a second program when
`slices.Contains(code.CaptureSlotInUse, false)`; in it `emitCapture` drops the `Setmark`/`Capturemark`
pair of every capture group whose slot is not in use, and changes nothing else.
`syntax/code.go` `captureSlotsInUse` marks slot 0, every slot named by a `Ref`/`Testref` instruction
and both slots of a balancing `Capturemark`.  `regexp.go` `makeQuickCode` installs that program for
`MatchString`, `MatchRunes` (`run(quick = true, …, textInfo = nil)`) and `FindAll*Index`.

Here: dropping the mark pair of a group is removing the `cap g ·` constructor around its body
(`stripCaps`); the slots in use of a pattern of the specification's fragment (no balancing groups) are
group 0 and the groups named by `ref` / `refCond` (`slotsInUse`).  What the bool-only program no longer
records is described by `eraseCaps`: the capture log without the entries of the stripped groups.
-/
import RegexVerif.Model.Spec

namespace RegexVerif.Spec

/-- the groups that survive: group 0 (the success marker, `inUse[0] = true`) and those selected by `keep` -/
def kept (keep : Nat → Bool) (g : Nat) : Bool := g == 0 || keep g

/-- remove the capturing effect of the groups `g` with `keep g = false` (group 0 is always kept):
    `emitCapture` returning false for the `Setmark` before and the `Capturemark` after the child -/
def stripCaps (keep : Nat → Bool) : Pat → Pat
  | .empty => .empty
  | .nothing => .nothing
  | .chr p => .chr p
  | .anchor a => .anchor a
  | .seq a b => .seq (stripCaps keep a) (stripCaps keep b)
  | .alt a b => .alt (stripCaps keep a) (stripCaps keep b)
  | .quant lzy lo hi body => .quant lzy lo hi (stripCaps keep body)
  | .cap g body => if kept keep g then .cap g (stripCaps keep body) else stripCaps keep body
  | .look behind neg body => .look behind neg (stripCaps keep body)
  | .atomic body => .atomic (stripCaps keep body)
  | .ref g ci => .ref g ci
  | .refCond g yes no => .refCond g (stripCaps keep yes) (stripCaps keep no)
  | .exprCond c yes no => .exprCond (stripCaps keep c) (stripCaps keep yes) (stripCaps keep no)

/-- groups whose captures the pattern itself observes: the operands of `Ref` (`\1`, `\k<n>`) and
    `Testref` (`(?(1)…|…)`) -/
def refsOf : Pat → List Nat
  | .empty => []
  | .nothing => []
  | .chr _ => []
  | .anchor _ => []
  | .seq a b => refsOf a ++ refsOf b
  | .alt a b => refsOf a ++ refsOf b
  | .quant _ _ _ body => refsOf body
  | .cap _ body => refsOf body
  | .look _ _ body => refsOf body
  | .atomic body => refsOf body
  | .ref g _ => [g]
  | .refCond g yes no => g :: (refsOf yes ++ refsOf no)
  | .exprCond c yes no => refsOf c ++ (refsOf yes ++ refsOf no)

/-- forget the captures of the groups that are not kept -/
def eraseCaps (keep : Nat → Bool) (st : St) : St :=
  { st with caps := st.caps.filter (fun c => kept keep c.1) }

/-- `captureSlotsInUse` restricted to the specification's fragment (no balancing groups): slot 0 and
    every slot named by a `Ref`/`Testref` -/
def slotsInUse (p : Pat) : List Nat := 0 :: refsOf p

/-- the `keep` predicate of a slot list (`CaptureSlotInUse[g]`) -/
def inUse (slots : List Nat) (g : Nat) : Bool := slots.contains g

/-- the groups that capture somewhere in the pattern -/
def capsOf : Pat → List Nat
  | .empty => []
  | .nothing => []
  | .chr _ => []
  | .anchor _ => []
  | .seq a b => capsOf a ++ capsOf b
  | .alt a b => capsOf a ++ capsOf b
  | .quant _ _ _ body => capsOf body
  | .cap g body => g :: capsOf body
  | .look _ _ body => capsOf body
  | .atomic body => capsOf body
  | .ref _ _ => []
  | .refCond _ yes no => capsOf yes ++ capsOf no
  | .exprCond c yes no => capsOf c ++ (capsOf yes ++ capsOf no)

/-- `Write` emits a second program exactly when some capture slot is not in use
    (`slices.Contains(code.CaptureSlotInUse, false)`) -/
def hasQuick (p : Pat) : Bool := (capsOf p).any (fun g => !(inUse (slotsInUse p) g))

/-- the pattern the bool-only program executes -/
def quickPat (p : Pat) : Pat := stripCaps (inUse (slotsInUse p)) p

end RegexVerif.Spec
