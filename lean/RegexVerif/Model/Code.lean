/-
The compiled program (`syntax.Code` of /repo/syntax/code.go) as the writer model emits it and the
interpreter model executes it.  Shared by `Model/Writer.lean` (syntax/writer.go) and `Model/VM.lean`
(runner.go `executeDefault`).

Opcode numbers, operand counts (`opcodeSize`), the backtracking table and the modifier bits are NOT
written down here: they come from `Generated/Opcodes.lean`, which `rv extract` rewrites from
syntax/code.go on every run.

Character classes are referred to by their index in the set table; membership is an oracle
(`Model/Class.lean` models `CharSet` itself; the legs supply the rows).
-/
import RegexVerif.Generated.Opcodes

namespace RegexVerif.Code
open RegexVerif.Generated.Opcodes

/-- `syntax.Code`, the fields the interpreter reads -/
structure Prog where
  /-- `Codes` -/
  codes : Array Int
  /-- `Strings` (operands of `Multi`) -/
  strings : Array (List Nat)
  /-- `len(Sets)` -/
  nsets : Nat
  /-- `TrackCount` -/
  trackcount : Nat
  /-- `Capsize` -/
  capsize : Nat
  /-- `Caps`: sparse group number → slot (`[]` = `nil`: the identity) -/
  caps : List (Int × Int)
  /-- `RightToLeft` -/
  rtl : Bool
  deriving Inhabited, Repr

/-- an instruction word split into opcode and modifier bits (`Mask`, `Rtl`, `Back`, `Back2`, `Ci`) -/
structure Word where
  op : Nat
  rtl : Bool
  back : Bool
  back2 : Bool
  ci : Bool
  deriving Inhabited, Repr, DecidableEq

def decode (w : Nat) : Word :=
  { op := w % (flagMask + 1),
    rtl := (w / flagRtl) % 2 == 1,
    back := (w / flagBack) % 2 == 1,
    back2 := (w / flagBack2) % 2 == 1,
    ci := (w / flagCi) % 2 == 1 }

def Word.encode (w : Word) : Nat :=
  w.op + (if w.rtl then flagRtl else 0) + (if w.back then flagBack else 0) +
    (if w.back2 then flagBack2 else 0) + (if w.ci then flagCi else 0)

/-- `opcodeSize(op)`: the instruction length in words; `none` where the Go function panics -/
def sizeOf? (op : Nat) : Option Nat :=
  match opcodeSize[op]? with
  | some 0 => none
  | some n => some n
  | none => none

/-- `opcodeBacktracks(op)` -/
def backtracks (op : Nat) : Bool := (opcodeBacktracks[op]?).getD false

/-- the instruction word at `pc` (a non-negative entry of `codes`) -/
def Prog.wordAt? (p : Prog) (pc : Nat) : Option Word :=
  match p.codes[pc]? with
  | some (.ofNat w) => some (decode w)
  | _ => none

/-- operand `i` of the instruction at `pc` (`r.operand(i)` = `codes[codepos+i+1]`) -/
def Prog.operand? (p : Prog) (pc i : Nat) : Option Int := p.codes[pc + i + 1]?

/-- instruction boundaries: the code positions reached from 0 by adding instruction sizes;
    `none` when an unknown opcode or a truncated instruction is met -/
def Prog.boundaries (p : Prog) : Option (List Nat) :=
  go p.codes.size 0 []
where
  go : Nat → Nat → List Nat → Option (List Nat)
  | 0, pc, acc => if pc == p.codes.size then some acc.reverse else none
  | fuel + 1, pc, acc =>
    if pc == p.codes.size then some acc.reverse
    else match p.wordAt? pc with
      | none => none
      | some w =>
        match sizeOf? w.op with
        | none => none
        | some n => if pc + n ≤ p.codes.size then go fuel (pc + n) (pc :: acc) else none

end RegexVerif.Code
