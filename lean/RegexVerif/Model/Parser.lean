/-
Model of the pattern parser of dlclark/regexp2 (`syntax/parser.go`): `Parse` = `countCaptures`
(capture pre-scan) + `scanRegex` (main loop) and everything they call, producing the tree exactly as
the parser builds it (`syntax.VerifParseRaw`: no `reduce`, no final optimisation) together with the
capture tables.

Structure = structure of the Go code: one parser state record (`PS`: position, options, options
stack, group stack, autocap, ignoreNextParen, capture tables), one function per Go function, written
in a small state/exception monad `M`.  Results distinguish

* `ok`     normal return,
* `err`    a Go `ErrorCode` (with the state at the moment of the error: the pre-scan ignores some
           errors and goes on from the position where they happened),
* `fault`  a Go run-time panic the model makes explicit: pattern index out of range, `moveLeft`
           below 0, pop of an empty options/group stack, nil unit, slice bounds,
* `fuel`   a loop ran out of its explicit fuel.

`Props.C10.parse_total` (`Props/C10Parser.lean`, lemmas in `Lemmas/Parser*.lean`) proves that `fault` and
`fuel` are unreachable.  The large Go functions are split into one definition per branch (`bb…`, `gn…`,
`cond…`, `groupOpen…`, `cs…`, `count…`, `quant…`, `step…`) so that each can be specified on its own.

Reused models: `Model/Class.lean` (every class operation: `addRange`, `addRanges`,
`addNegativeRanges`, `addCategories`, `canonicalize`, `addLowercase`, `addCaseEquivalences`, `Copy`),
`Model/Groups.lean` (`noteSlot`, `noteName`, `assignNameSlots`, `assignOrderedNameSlots`),
`Model/EscapeParse.lean` (the `_category` predicates, `isTrueQuant`), `Model/Escape.lean` (`hexDigit`).
Unicode knowledge is an oracle record (`Oracles`): word characters, ECMAScript identifier characters,
`ToLower`/`IsLower`/`IsUpper`, `SimpleFold` orbits, `participatesInCaseConversion`, category
membership, and the canonical id of a `\p{name}`.  Category ids: 0 = " " (white space), 1 = "W",
2 = "Nd", 3 = "Ll", 4 = "Lu", 5 = "Lt", others assigned by the harness.
-/
import RegexVerif.Model.Class
import RegexVerif.Model.Groups
import RegexVerif.Model.EscapeParse
import RegexVerif.Generated.Class

namespace RegexVerif.Parser
open RegexVerif
open RegexVerif.EscapeParse (isSpaceCh isSpecialCh isQuantCh isDigitCh isTrueQuant)

/-! ## Options, node types, error codes -/

/-- `RegexOptions` as nine flags: IgnoreCase Multiline ExplicitCapture Singleline
    IgnorePatternWhitespace RightToLeft ECMAScript RE2 Unicode -/
structure Opts where
  i : Bool := false
  m : Bool := false
  n : Bool := false
  s : Bool := false
  x : Bool := false
  r : Bool := false
  e : Bool := false
  re2 : Bool := false
  u : Bool := false
  deriving DecidableEq, Repr, Inhabited

/-- the Go bit mask -/
def Opts.toMask (o : Opts) : Nat :=
  (if o.i then 1 else 0) + (if o.m then 2 else 0) + (if o.n then 4 else 0) + (if o.s then 16 else 0) +
  (if o.x then 32 else 0) + (if o.r then 64 else 0) + (if o.e then 256 else 0) + (if o.re2 then 512 else 0) +
  (if o.u then 1024 else 0)

def Opts.ofMask (k : Nat) : Opts :=
  { i := k % 2 = 1, m := k / 2 % 2 = 1, n := k / 4 % 2 = 1, s := k / 16 % 2 = 1, x := k / 32 % 2 = 1,
    r := k / 64 % 2 = 1, e := k / 256 % 2 = 1, re2 := k / 512 % 2 = 1, u := k / 1024 % 2 = 1 }

inductive NT where
  | oneloop | notoneloop | setloop | onelazy | notonelazy | setlazy
  | one | notone | set | multi | ref | bol | eol | boundary | nonboundary | beginning | start | endZ | end_
  | nothing | empty | alternate | concatenate | loop | lazyloop | capture | group | posLook | negLook
  | atomic | backRefCond | exprCond | ecmaBoundary | nonEcmaBoundary
  deriving DecidableEq, Repr, Inhabited

/-- the Go `NodeType` number -/
def NT.toNat : NT → Nat
  | .oneloop => 3 | .notoneloop => 4 | .setloop => 5 | .onelazy => 6 | .notonelazy => 7 | .setlazy => 8
  | .one => 9 | .notone => 10 | .set => 11 | .multi => 12 | .ref => 13 | .bol => 14 | .eol => 15
  | .boundary => 16 | .nonboundary => 17 | .beginning => 18 | .start => 19 | .endZ => 20 | .end_ => 21
  | .nothing => 22 | .empty => 23 | .alternate => 24 | .concatenate => 25 | .loop => 26 | .lazyloop => 27
  | .capture => 28 | .group => 29 | .posLook => 30 | .negLook => 31 | .atomic => 32 | .backRefCond => 33
  | .exprCond => 34 | .ecmaBoundary => 41 | .nonEcmaBoundary => 42

/-- the parser's `ErrorCode`s -/
inductive ErrCode where
  | internalError | unterminatedComment | invalidCharRange | invalidRepeatSize | invalidUTF8
  | captureGroupOutOfRange | unexpectedParen | missingParen | missingBrace | invalidRepeatOp
  | missingRepeatArgument | conditionalExpression | tooManyAlternates | unrecognizedGrouping
  | invalidGroupName | invalidECMAGroupName | duplicateGroupName | capNumNotZero | undefinedBackRef
  | undefinedNameRef | alternationCantCapture | alternationCantHaveComment | malformedReference
  | undefinedReference | illegalEndEscape | malformedSlashP | incompleteSlashP | unknownSlashP
  | unrecognizedEscape | missingControl | unrecognizedControl | tooFewHex | invalidHex
  | malformedNameRef | badClassInCharRange | shorthandClassInCharRange | unterminatedBracket
  | subtractionMustBeLast | reversedCharRange
  deriving DecidableEq, Repr, Inhabited

/-- Go run-time panics made explicit -/
inductive Fault where
  /-- `p.pattern[i]` with `i ≥ len` -/
  | index
  /-- `moveLeft` / `textto(startpos-1)` below 0 -/
  | negPos
  /-- `popOptions` / `popKeepOptions` on an empty stack -/
  | popOptions
  /-- `popGroup` with `p.stack == nil` -/
  | popGroup
  /-- `addChild(nil)` / `p.unit.makeQuantifier` with `p.unit == nil` -/
  | nilUnit
  /-- slice bounds out of range (`p.pattern[a:b]`) -/
  | slice
  /-- `oldcapnamelist[0]` on an empty list -/
  | emptyNames
  deriving DecidableEq, Repr, Inhabited

def maxInt32 : Nat := 2147483647

/-! ## The raw tree -/

/-- `RegexNode` as the parser builds it -/
inductive RNode where
  | mk (t : NT) (o : Opts) (ch : Nat) (str : List Nat) (set : Option Class.Class) (m n : Int)
       (kids : List RNode)
  deriving Repr, Inhabited

namespace RNode
def t : RNode → NT | mk t .. => t
def o : RNode → Opts | mk _ o .. => o
def ch : RNode → Nat | mk _ _ ch .. => ch
def str : RNode → List Nat | mk _ _ _ str .. => str
def set : RNode → Option Class.Class | mk _ _ _ _ set .. => set
def m : RNode → Int | mk _ _ _ _ _ m .. => m
def n : RNode → Int | mk _ _ _ _ _ _ n _ => n
def kids : RNode → List RNode | mk _ _ _ _ _ _ _ kids => kids
/-- `addChild` with `reduce` switched off -/
def addChild : RNode → RNode → RNode
  | mk t o ch str set m n kids, c => mk t o ch str set m n (kids ++ [c])
def withKids : RNode → List RNode → RNode
  | mk t o ch str set m n _, ks => mk t o ch str set m n ks
end RNode

/-- `newRegexNode` -/
def mkNode (t : NT) (o : Opts) : RNode := .mk t o 0 [] none 0 0 []
/-- `newRegexNodeM` -/
def mkNodeM (t : NT) (o : Opts) (m : Int) : RNode := .mk t o 0 [] none m 0 []
/-- `newRegexNodeMN` -/
def mkNodeMN (t : NT) (o : Opts) (m n : Int) : RNode := .mk t o 0 [] none m n []

/-- the tree with its tables (`RegexTree`) -/
structure RawTree where
  root : RNode
  tables : Groups.Tables
  deriving Repr

/-! ## Oracles and environment -/

structure Oracles where
  /-- `syntax.IsWordChar` -/
  isWord : Nat → Bool
  /-- `IsECMAIdentifierStartChar` -/
  ecmaStart : Nat → Bool
  /-- `IsECMAIdentifierChar` -/
  ecmaPart : Nat → Bool
  /-- `unicode.ToLower` -/
  toLower : Nat → Nat
  isLower : Nat → Bool
  isUpper : Nat → Bool
  /-- `tryFindCaseEquivalences` -/
  orbit : Nat → List Nat
  /-- `participatesInCaseConversion` -/
  participates : Nat → Bool
  /-- category membership by id -/
  cat : Nat → Nat → Bool
  /-- `canonicalUnicodeCatName` as an id (`none` = unknown) -/
  catName : List Nat → Option Nat

def catSpace : Nat := 0
def catWord : Nat := 1
def catNd : Nat := 2
def catLl : Nat := 3
def catLu : Nat := 4
def catLt : Nat := 5

/-- what `Parse` is called with -/
structure Env where
  pat : List Nat
  opts : Opts
  /-- `ParseOptions.MaintainCaptureOrder` -/
  mco : Bool
  orc : Oracles

/-- `parser.maintainCaptureOrder` -/
def Env.ord (E : Env) : Bool := E.mco || E.opts.e

def Env.cfg (E : Env) : Groups.Cfg := { mco := E.mco, ecma := E.opts.e, explicitCapture := E.opts.n }

/-! ## Parser state and the monad -/

/-- one entry of the group stack (`p.stack` with its `Parent` chain) -/
structure Frame where
  group : RNode
  alternation : RNode
  concatenation : RNode
  deriving Repr, Inhabited

structure PS where
  pos : Nat := 0
  options : Opts := {}
  optionsStack : List Opts := []
  ignoreNextParen : Bool := false
  /-- `caps` (keys), `captop`, `autocap`, `capnames`, `capnamelist` -/
  g : Groups.PState := {}
  group : RNode := mkNode .empty {}
  alternation : RNode := mkNode .empty {}
  concatenation : RNode := mkNode .empty {}
  unit : Option RNode := none
  stack : List Frame := []
  deriving Repr, Inhabited

inductive Res (α : Type) where
  | ok (a : α) (s : PS)
  | err (c : ErrCode) (s : PS)
  | fault (f : Fault)
  | fuel
  deriving Repr

def M (α : Type) : Type := PS → Res α

@[inline] def M.pure {α : Type} (a : α) : M α := fun s => .ok a s
@[inline] def M.bind {α β : Type} (m : M α) (f : α → M β) : M β := fun s =>
  match m s with
  | .ok a s' => f a s'
  | .err c s' => .err c s'
  | .fault x => .fault x
  | .fuel => .fuel

instance : Monad M where
  pure := M.pure
  bind := M.bind

def get : M PS := fun s => .ok s s
def modify (f : PS → PS) : M Unit := fun s => .ok () (f s)
def throw {α : Type} (c : ErrCode) : M α := fun s => .err c s
def fault {α : Type} (f : Fault) : M α := fun _ => .fault f
/-- run `m`; an error becomes a value (the state is the one at the error) -/
def attempt {α : Type} (m : M α) : M (Except ErrCode α) := fun s =>
  match m s with
  | .ok a s' => .ok (.ok a) s'
  | .err c s' => .ok (.error c) s'
  | .fault x => .fault x
  | .fuel => .fuel
/-- `_, _ = f()` -/
def ignoreErr {α : Type} (m : M α) : M Unit := do let _ ← attempt m; pure ()

/-- a loop with explicit fuel: `f` returns `inl b` to go on, `inr c` to leave -/
def iter {β γ : Type} (f : β → M (Sum β γ)) : Nat → β → M γ
  | 0, _ => fun _ => .fuel
  | n + 1, b => fun s =>
    match f b s with
    | .ok (.inl b') s' => iter f n b' s'
    | .ok (.inr c) s' => .ok c s'
    | .err c s' => .err c s'
    | .fault x => .fault x
    | .fuel => .fuel

/-! ## Position primitives -/

section
variable (E : Env)

def charsRight : M Nat := fun s => .ok (E.pat.length - s.pos) s
def textpos : M Nat := fun s => .ok s.pos s
def textto (p : Nat) : M Unit := modify fun s => { s with pos := p }
def moveRight (i : Nat) : M Unit := modify fun s => { s with pos := s.pos + i }
def moveLeft : M Unit := fun s => if s.pos = 0 then .fault .negPos else .ok () { s with pos := s.pos - 1 }
def charAt (i : Nat) : M Nat := fun s =>
  match E.pat[i]? with
  | some c => .ok c s
  | none => .fault .index
def rightChar (i : Nat) : M Nat := fun s =>
  match E.pat[s.pos + i]? with
  | some c => .ok c s
  | none => .fault .index
def moveRightGetChar : M Nat := do
  let c ← rightChar E 0
  moveRight 1
  pure c
/-- the text from the current position on -/
def rest : M (List Nat) := fun s => .ok (E.pat.drop s.pos) s

def opts : M Opts := fun s => .ok s.options s
def setOpts (o : Opts) : M Unit := modify fun s => { s with options := o }

/-! ## Leaf scanners (structural over the remaining text; `k` counts the runes consumed) -/

inductive BlankMode where
  | normal | line | paren

/-- the loops of `scanBlank` as one scan: `(consumed, unterminated comment)`.  `x` =
    IgnorePatternWhitespace (white space and `#…` comments are skipped too; a `#` comment ends
    before the line feed, which is white space itself); `(?#…)` comments in both modes -/
def blankGo (x : Bool) : BlankMode → List Nat → Nat → Nat × Bool
  | .normal, [], k => (k, false)
  | .normal, c :: r, k =>
    if x && isSpaceCh c then blankGo x .normal r (k + 1)
    else if x && c == 35 then blankGo x .line r (k + 1)
    else if c = 40 ∧ r.head? = some 63 ∧ r.tail.head? = some 35 then blankGo x .paren r (k + 1)
    else (k, false)
  | .line, [], k => (k, false)
  | .line, c :: r, k => if c = 10 then blankGo x .normal r (k + 1) else blankGo x .line r (k + 1)
  | .paren, [], k => (k, true)
  | .paren, c :: r, k => if c = 41 then blankGo x .normal r (k + 1) else blankGo x .paren r (k + 1)

/-- `scanBlank` -/
def scanBlank : M Unit := fun s =>
  let res := blankGo s.options.x .normal (E.pat.drop s.pos) 0
  let s' := { s with pos := s.pos + res.1 }
  if res.2 then .err .unterminatedComment s' else .ok () s'

/-- `isTrueQuantifier` -/
def isTrueQuantifier : M Bool := fun s =>
  match E.pat.drop s.pos with
  | [] => .ok false s
  | c :: r => .ok (isTrueQuant c r) s

/-- `isStopperX`: category ≥ X -/
def isStopperXCh (c : Nat) : Bool := isSpaceCh c || c == 35 || isSpecialCh c

/-- the digit loop of `scanDecimal`: `(value or overflow, consumed)`; the overflowing digit is consumed -/
def decGo : List Nat → Nat → Nat → Option Nat × Nat
  | [], acc, k => (some acc, k)
  | c :: r, acc, k =>
    if isDigitCh c then
      if acc > 214748364 ∨ (acc = 214748364 ∧ c - 48 > 7) then (none, k + 1)
      else decGo r (acc * 10 + (c - 48)) (k + 1)
    else (some acc, k)

/-- `scanDecimal` -/
def scanDecimal : M Nat := fun s =>
  let res := decGo (E.pat.drop s.pos) 0 0
  let s' := { s with pos := s.pos + res.2 }
  match res.1 with
  | some v => .ok v s'
  | none => .err .captureGroupOutOfRange s'

/-- `optionFromCode` for the letters `scanOptions` accepts (`i m n s x u`); `none` = stop
    (not an option letter, or one of `r e`: top-level only) -/
def setLetter (c : Nat) : Option (Opts → Bool → Opts) :=
  if c = 105 ∨ c = 73 then some fun o b => { o with i := b }
  else if c = 109 ∨ c = 77 then some fun o b => { o with m := b }
  else if c = 110 ∨ c = 78 then some fun o b => { o with n := b }
  else if c = 115 ∨ c = 83 then some fun o b => { o with s := b }
  else if c = 120 ∨ c = 88 then some fun o b => { o with x := b }
  else if c = 117 ∨ c = 85 then some fun o b => { o with u := b }
  else none

def optionsGo : List Nat → Bool → Opts → Nat → Opts × Nat
  | [], _, o, k => (o, k)
  | c :: r, off, o, k =>
    if c = 45 then optionsGo r true o (k + 1)
    else if c = 43 then optionsGo r false o (k + 1)
    else match setLetter c with
      | none => (o, k)
      | some f => optionsGo r off (f o (!off)) (k + 1)

/-- `scanOptions` -/
def scanOptions : M Unit := fun s =>
  let res := optionsGo (E.pat.drop s.pos) false s.options 0
  .ok () { s with options := res.1, pos := s.pos + res.2 }

def countWhile (p : Nat → Bool) : List Nat → Nat
  | [] => 0
  | c :: r => if p c then countWhile p r + 1 else 0

/-- `scanWord` -/
def scanWord : M (List Nat) := fun s =>
  let r := E.pat.drop s.pos
  let k := countWhile E.orc.isWord r
  .ok (r.take k) { s with pos := s.pos + k }

/-- result of a leaf scanner: value/consumed, error/consumed, or an index fault -/
inductive LR (α : Type) where
  | ok (a : α) (k : Nat)
  | err (c : ErrCode) (k : Nat)
  | fault

def liftL {α : Type} (f : List Nat → LR α) : M α := fun s =>
  match f (E.pat.drop s.pos) with
  | .ok a k => .ok a { s with pos := s.pos + k }
  | .err c k => .err c { s with pos := s.pos + k }
  | .fault => .fault .index

/-- the loop of `scanHex(c)` (after the `charsRight >= c` test) -/
def hexGo : Nat → List Nat → Nat → Nat → LR Nat
  | 0, _, acc, k => .ok acc k
  | _ + 1, [], _, _ => .fault
  | c + 1, ch :: r, acc, k =>
    match Escape.hexDigit ch with
    | some d => hexGo c r (acc * 16 + d) (k + 1)
    | none => .err .tooFewHex (k + 1)

/-- `scanHex(c)` -/
def scanHex (c : Nat) : M Nat :=
  liftL E fun r => if r.length ≥ c then hexGo c r 0 0 else if c > 0 then .err .tooFewHex 0 else .ok 0 0

/-- `scanHexUntilBrace` -/
def hexBraceGo : List Nat → Nat → Bool → Nat → LR Nat
  | [], _, _, k => .err .missingBrace k
  | ch :: r, acc, has, k =>
    if ch = 125 then (if has then .ok acc (k + 1) else .err .tooFewHex (k + 1))
    else match Escape.hexDigit ch with
      | none => .err .missingBrace (k + 1)
      | some d =>
        let i := acc * 16 + d
        if i > 0x10FFFF then .err .invalidHex (k + 1) else hexBraceGo r i true (k + 1)

def scanHexUntilBrace : M Nat := liftL E fun r => hexBraceGo r 0 false 0

/-- the loop of `scanOctal` (`e`: ECMAScript stops before exceeding 0377) -/
def octGo (e : Bool) : Nat → List Nat → Nat → Nat → Nat × Nat
  | 0, _, acc, k => (acc % 256, k)
  | _ + 1, [], acc, k => (acc % 256, k)
  | c + 1, ch :: r, acc, k =>
    if 48 ≤ ch ∧ ch ≤ 55 then
      if e && decide (32 ≤ acc) then (acc % 256, k) else octGo e c r (acc * 8 + (ch - 48)) (k + 1)
    else (acc % 256, k)

/-- `scanOctal` (reads `rightChar(0)` first: the caller has checked there is a digit) -/
def scanOctal : M Nat := do
  let o ← opts
  liftL E fun r =>
    match r with
    | [] => .fault
    | _ => let res := octGo o.e 3 r 0 0; .ok res.1 res.2

/-- `scanControl` -/
def scanControl : M Nat := liftL E fun r =>
  match r with
  | [] => .err .missingControl 0
  | ch :: _ =>
    let ch := if 97 ≤ ch ∧ ch ≤ 122 then ch - 32 else ch
    if 64 ≤ ch ∧ ch - 64 < 32 then .ok (ch - 64) 1 else .err .unrecognizedControl 1

/-- `scanCharEscape` (the backslash has been consumed) -/
def scanCharEscape : M Nat := do
  let ch ← moveRightGetChar E
  if 48 ≤ ch ∧ ch ≤ 55 then
    moveLeft
    scanOctal E
  else
    let pos ← textpos
    let o ← opts
    let cr ← charsRight E
    -- the cases that return at once
    if ch = 120 ∧ cr > 0 ∧ (← rest E).head? = some 123 then
      if o.e then pure ch else do moveRight 1; scanHexUntilBrace E
    else if ch = 117 ∧ o.e ∧ o.u ∧ cr > 0 ∧ (← rest E).head? = some 123 then do
      moveRight 1; scanHexUntilBrace E
    else if ch = 97 then pure 7
    else if ch = 98 then pure 8
    else if ch = 101 then pure 27
    else if ch = 102 then pure 12
    else if ch = 110 then pure 10
    else if ch = 114 then pure 13
    else if ch = 116 then pure 9
    else if ch = 118 then pure 11
    else if ch = 120 ∨ ch = 117 ∨ ch = 99 then do
      -- `r, err = …` followed by the ECMAScript rule: a failed \x \u \c is the letter itself
      let res ← attempt (if ch = 120 then scanHex E 2 else if ch = 117 then scanHex E 4 else scanControl E)
      match res with
      | .ok r => pure r
      | .error c => if o.e then do textto pos; pure ch else throw c
    else if !o.e && !o.re2 && E.orc.isWord ch then throw .unrecognizedEscape
    else pure ch

/-- Go's `a && b()`: `b` runs only when `a` holds -/
def andM (a : Bool) (b : M Bool) : M Bool := if a then b else pure false
/-- Go's `a || b()` -/
def orM (a : Bool) (b : M Bool) : M Bool := if a then pure true else b
/-- `a() && b()` -/
def andMM (a b : M Bool) : M Bool := do if (← a) then b else pure false
/-- `p.rightChar(i) == c` -/
def rcIs (i c : Nat) : M Bool := do let x ← rightChar E i; pure (x == c)
/-- `p.rightChar(i) != c` -/
def rcNe (i c : Nat) : M Bool := do let x ← rightChar E i; pure (x != c)
/-- `p.moveRightGetChar() == c` -/
def getIs (c : Nat) : M Bool := do let x ← moveRightGetChar E; pure (x == c)

/-- `rightChar(0) == c` guarded by `charsRight() > 0` -/
def nextIs (c : Nat) : M Bool := do
  let cr ← charsRight E
  if cr > 0 then do let x ← rightChar E 0; pure (x == c) else pure false

/-- `scanECMACapname` -/
def scanECMACapname : M (List Nat) := do
  let cr ← charsRight E
  iter (fun (st : List Nat × Nat) => do
      let (acc, index) := st
      let cr ← charsRight E
      if cr = 0 then pure (.inr acc) else
      let savedpos ← textpos
      let ch0 ← moveRightGetChar E
      let o ← opts
      let (ch, escaped) ← (if ch0 = 92 then do
          let cr ← charsRight E
          if cr = 0 then throw .invalidECMAGroupName else
          let c1 ← rightChar E 0
          if c1 ≠ 117 then throw .invalidECMAGroupName else
          moveRight 1
          if (← nextIs E 123) then
            if !o.u then throw .invalidECMAGroupName else do
              moveRight 1
              let v ← scanHexUntilBrace E
              pure (v, true)
          else do
            let v ← scanHex E 4
            pure (v, true)
        else pure (ch0, false) : M (Nat × Bool))
      let valid := if index = 0 then E.orc.ecmaStart ch else E.orc.ecmaPart ch
      if !valid then
        if escaped then throw .invalidECMAGroupName
        else do textto savedpos; pure (.inr acc)
      else pure (.inl (acc ++ [ch], index + 1)))
    (cr + 1) ([], 0)

/-- `scanCapname` -/
def scanCapname : M (List Nat) := do
  let o ← opts
  if o.e then scanECMACapname E else scanWord E

/-- `isGroupNameStartChar` -/
def isGroupNameStartChar (o : Opts) (ch : Nat) : Bool :=
  if o.e then E.orc.ecmaStart ch || ch == 92 else E.orc.isWord ch

/-! ## Capture tables -/

/-- a group name as Go's `string` -/
def nameStr (l : List Nat) : String := String.ofList (l.map Char.ofNat)

/-- `strconv.Itoa` as runes -/
def itoaRunes (n : Nat) : List Nat := (Groups.itoa n).toList.map Char.toNat

/-- `noteCaptureSlot` (with its `math.MaxInt32` case, which `Groups.noteSlot` leaves out) -/
def noteSlotP (i : Nat) (g : Groups.PState) : Groups.PState :=
  let g' := Groups.noteSlot i g
  if i = maxInt32 ∧ i ∉ g.caps ∧ g.captop ≤ i then { g' with captop := i } else g'

def noteCaptureSlot (i : Nat) : M Unit := modify fun s => { s with g := noteSlotP i s.g }

/-- `noteCaptureName` -/
def noteCaptureName (name : List Nat) : M Unit := fun s =>
  match Groups.noteName E.cfg (nameStr name) s.g with
  | some g' => .ok () { s with g := g' }
  | none => .err .duplicateGroupName s

def consumeAutocap : M Nat := fun s => .ok s.g.autocap { s with g := { s.g with autocap := s.g.autocap + 1 } }

/-- `consumeCaptureSlot` -/
def consumeCaptureSlot (capnum : Option Nat) : M Unit := fun s =>
  if E.ord && capnum == some s.g.autocap then .ok () { s with g := { s.g with autocap := s.g.autocap + 1 } }
  else .ok () s

def isCaptureSlot (i : Nat) : M Bool := fun s => .ok (s.g.caps.contains i) s

/-- `isCaptureName` + `captureSlotFromName` -/
def captureSlotFromName (name : List Nat) : M (Option Nat) := fun s =>
  .ok (s.g.capnames.bind fun cn => cn.lookup (nameStr name)) s

/-- `len(p.capnames) > 0` -/
def hasCapnames : M Bool := fun s => .ok (match s.g.capnames with | some (_ :: _) => true | _ => false) s

/-! ## Options stack -/

def pushOptions : M Unit := modify fun s => { s with optionsStack := s.options :: s.optionsStack }
def popOptions : M Unit := fun s =>
  match s.optionsStack with
  | o :: st => .ok () { s with options := o, optionsStack := st }
  | [] => .fault .popOptions
def popKeepOptions : M Unit := fun s =>
  match s.optionsStack with
  | _ :: st => .ok () { s with optionsStack := st }
  | [] => .fault .popOptions
def emptyOptionsStack : M Bool := fun s => .ok s.optionsStack.isEmpty s

/-! ## Static classes (`getCharSetFromOldString`, `getCharSetFromCategoryString`) -/

def ecmaSpaceT : List Nat := [0x9, 0xe, 0x20, 0x21, 0xa0, 0xa1, 0x1680, 0x1681, 0x2000, 0x200b, 0x2028, 0x202a,
  0x202f, 0x2030, 0x205f, 0x2060, 0x3000, 0x3001, 0xfeff, 0xff00]
def ecmaWordT : List Nat := [0x30, 0x3a, 0x41, 0x5b, 0x5f, 0x60, 0x61, 0x7b]
def ecmaDigitT : List Nat := [0x30, 0x3a]
def re2SpaceT : List Nat := [0x9, 0xb, 0xc, 0xe, 0x20, 0x21]

/-- the pairing loop of `getCharSetFromOldString`: boundaries `lo, hiExclusive, lo, …` -/
def oldPairs : List Nat → List (Nat × Nat)
  | [] => []
  | [a] => [(a, Class.maxRune)]
  | a :: b :: r => (a, b - 1) :: oldPairs r

/-- the ranges of `getCharSetFromOldString(setText, negate)` -/
def oldRanges (t : List Nat) (negate : Bool) : List (Nat × Nat) :=
  match t with
  | [] => []
  | a :: r => if negate then (if a = 0 then oldPairs r else oldPairs (0 :: a :: r)) else oldPairs t

/-- `getCharSetFromOldString` -/
def oldSet (t : List Nat) (negate : Bool) : Class.Flat :=
  let rs := oldRanges t negate
  let any := match rs with
    | [r] => r.1 = 0 ∧ r.2 ≥ Class.maxRune ∧ !negate
    | _ => false
  { ranges := rs, anything := any }

def anyClass : Class.Flat := oldSet [0] false
def ecmaAnyClass : Class.Flat := oldSet [0, 0xa, 0xb, 0xd, 0xe] false

def catSet (negSet negCat : Bool) (id : Nat) : Class.Flat := { neg := negSet, cats := [(id, negCat)] }

/-! ## Node constructors with case conversion -/

/-- `newRegexNodeSet(NtSet, opt, set)` -/
def nodeSet (o : Opts) (c : Class.Class) : RNode :=
  if o.i then
    .mk .set { o with i := false } 0 [] (some (Class.Class.addCaseEquivalences E.orc.cat E.orc.orbit (Class.Class.copy c))) 0 0 []
  else .mk .set o 0 [] (some c) 0 0 []

/-- `newRegexNodeCh(t, opt, ch)` for `t` = One / Notone -/
def nodeCh (t : NT) (o : Opts) (ch : Nat) : RNode :=
  if o.i && decide (ch > 0) && (E.orc.isLower ch || E.orc.isUpper ch) then
    let f := (({} : Class.Flat).addRange E.orc.cat false ch ch).addCaseEquivalences E.orc.cat E.orc.orbit false
    .mk .set { o with i := false } 0 [] (some (.leaf { f with neg := t == .notone })) 0 0 []
  else .mk t o ch [] none 0 0 []

/-- `string(rune)`: an invalid rune becomes U+FFFD -/
def fixRune (c : Nat) : Nat := if (0xD800 ≤ c ∧ c ≤ 0xDFFF) ∨ c > 0x10FFFF then 0xFFFD else c

/-- `makeQuantifier` -/
def makeQuantifier (nd : RNode) (lazy : Bool) (min max : Nat) : RNode :=
  if min = 0 ∧ max = 0 then mkNode .empty nd.o
  else if min = 1 ∧ max = 1 then nd
  else if min = max ∧ max ≤ 64 ∧ nd.t = .one then
    .mk .multi nd.o 0 (List.replicate max (fixRune nd.ch)) nd.set nd.m nd.n nd.kids
  else
    match nd with
    | .mk .one o ch str set _ _ kids => .mk (if lazy then .onelazy else .oneloop) o ch str set min max kids
    | .mk .notone o ch str set _ _ kids => .mk (if lazy then .notonelazy else .notoneloop) o ch str set min max kids
    | .mk .set o ch str set _ _ kids => .mk (if lazy then .setlazy else .setloop) o ch str set min max kids
    | _ => .mk (if lazy then .lazyloop else .loop) nd.o 0 [] none min max [nd]

/-- `reverseLeft` -/
def reverseLeft (nd : RNode) : RNode :=
  if nd.o.r && nd.t == .concatenate && !nd.kids.isEmpty then nd.withKids nd.kids.reverse else nd

/-! ## Tree-building operations -/

def setUnit (u : Option RNode) : M Unit := modify fun s => { s with unit := u }

/-- `addConcatenate` -/
def addConcatenate : M Unit := fun s =>
  match s.unit with
  | some u => .ok () { s with concatenation := s.concatenation.addChild u, unit := none }
  | none => .fault .nilUnit

/-- `addConcatenate3` -/
def addConcatenate3 (lazy : Bool) (min max : Nat) : M Unit := fun s =>
  match s.unit with
  | some u => .ok () { s with concatenation := s.concatenation.addChild (makeQuantifier u lazy min max), unit := none }
  | none => .fault .nilUnit

def isCond (t : NT) : Bool := t == .exprCond || t == .backRefCond

/-- `addGroup` -/
def addGroup : M Unit := fun s =>
  if isCond s.group.t then
    let g := s.group.addChild (reverseLeft s.concatenation)
    let s' := { s with group := g }
    if (g.t == .backRefCond && decide (g.kids.length > 2)) || decide (g.kids.length > 3) then .err .tooManyAlternates s'
    else .ok () { s' with unit := some g }
  else
    let a := s.alternation.addChild (reverseLeft s.concatenation)
    let g := s.group.addChild a
    .ok () { s with alternation := a, group := g, unit := some g }

/-- `pushGroup` -/
def pushGroup : M Unit := modify fun s =>
  { s with stack := { group := s.group, alternation := s.alternation, concatenation := s.concatenation } :: s.stack }

/-- `startGroup` -/
def startGroup (g : RNode) : M Unit := modify fun s =>
  { s with group := g, alternation := mkNode .alternate s.options, concatenation := mkNode .concatenate s.options }

/-- `popGroup` -/
def popGroup : M Unit := fun s =>
  match s.stack with
  | [] => .fault .popGroup
  | fr :: st =>
    let s1 := { s with concatenation := fr.concatenation, alternation := fr.alternation, group := fr.group, stack := st }
    if s1.group.t == .exprCond && s1.group.kids.isEmpty then
      match s1.unit with
      | none => .err .conditionalExpression s1
      | some u => .ok () { s1 with group := s1.group.addChild u, unit := none }
    else .ok () s1

/-- `addAlternate` -/
def addAlternate : M Unit := modify fun s =>
  let c := reverseLeft s.concatenation
  let s' := if isCond s.group.t then { s with group := s.group.addChild c } else { s with alternation := s.alternation.addChild c }
  { s' with concatenation := mkNode .concatenate s.options }

/-- `addToConcatenate(pos, cch, false)` -/
def addToConcatenate (pos cch : Nat) : M Unit := fun s =>
  if cch = 0 then .ok () s
  else if pos + cch > E.pat.length then .fault .slice
  else
    let sl := (E.pat.drop pos).take cch
    let o := s.options
    if cch = 1 then
      .ok () { s with concatenation := s.concatenation.addChild (nodeCh E .one o (sl.headD 0)) }
    else if !o.i || !(sl.any E.orc.participates) then
      .ok () { s with concatenation := s.concatenation.addChild (.mk .multi { o with i := false } 0 sl none 0 0 []) }
    else
      .ok () { s with concatenation := sl.foldl (fun c ch => c.addChild (nodeCh E .one o ch)) s.concatenation }

/-! ## `\p{…}` -/

/-- `parseProperty`: the canonical category as an id -/
def parseProperty : M Nat := do
  let o ← opts
  let cr ← charsRight E
  let c0 ← (if cr ≥ 1 then rightChar E 0 else pure 0 : M Nat)
  if cr ≥ 1 ∧ c0 ≠ 123 ∧ (!o.e || !o.u) then do
    let ch ← moveRightGetChar E
    match E.orc.catName [ch] with
    | some id => pure id
    | none => throw .unknownSlashP
  else if cr < 3 then throw .incompleteSlashP
  else do
    let ch ← moveRightGetChar E
    if ch ≠ 123 then throw .malformedSlashP else
    let r ← rest E
    let k := countWhile (fun c => E.orc.isWord c || c == 45 || c == 61) r
    moveRight k
    let name := r.take k
    let cr ← charsRight E
    if cr = 0 then throw .incompleteSlashP else
    let c ← moveRightGetChar E
    if c ≠ 125 then throw .incompleteSlashP else
    match E.orc.catName name with
    | some id => pure id
    | none => throw .unknownSlashP

/-- `addCategory(name, negate, caseInsensitive)` -/
def addCategory (f : Class.Flat) (id : Nat) (negate ci : Bool) : Class.Flat :=
  let f1 := if ci && (id == catLl || id == catLu || id == catLt) then
      f.addCategories [(catLl, negate), (catLu, negate), (catLt, negate)] else f
  f1.addCategories [(id, negate)]

/-! ## Classes: `scanCharSet` -/

def lcTable := RegexVerif.Generated.lcTable

/-- what the shorthand escapes add inside a class -/
def digitItem (ecma negate : Bool) : Class.Item :=
  if ecma then .ranges (oldRanges ecmaDigitT negate) else .cats [(catNd, negate)]
def spaceItem (ecma re2 negate : Bool) : Class.Item :=
  if ecma then .ranges (oldRanges ecmaSpaceT negate)
  else if re2 then .ranges (oldRanges re2SpaceT negate)
  else .cats [(catSpace, negate)]
def wordItem (ecma negate : Bool) : Class.Item :=
  if ecma then .ranges (oldRanges ecmaWordT negate) else .cats [(catWord, negate)]

/-- `addNamedASCII`: `none` = unknown name -/
def namedASCII (f : Class.Flat) (cat : Nat → Nat → Bool) (name : List Nat) (negate : Bool) : Option Class.Flat :=
  let nm := nameStr name
  if nm = "word" then some (f.addItem cat (wordItem true negate))
  else match Generated.posixTables.lookup nm with
    | some rs =>
      if rs.isEmpty then some f
      else some (f.addItem cat (if negate then .negRanges rs else .ranges rs))
    | none => none

/-- local variables of `scanCharSet` -/
structure CS where
  cc : Class.Flat
  sub : Option Class.Class := none
  chPrev : Nat := 0
  inRange : Bool := false
  firstChar : Bool := true

def CS.add (cat : Nat → Nat → Bool) (c : CS) (it : Class.Item) : CS := { c with cc := c.cc.addItem cat it }

/-- `closed`: the class that `scanCharSet` returns -/
def csFinish (ci so : Bool) (c : CS) : M Class.Class :=
  let cat := E.orc.cat
  let hasSub := c.sub.isSome
  let fl := if so then c.cc
    else if ci then Class.Flat.addLowercase cat E.orc.toLower lcTable hasSub c.cc
    else Class.Flat.finish cat hasSub c.cc
  pure (match c.sub with | none => .leaf fl | some s => .minus fl s)

/-- a subtraction `-[…]`: scan the nested class (`sub`), it must be the last item; `next` = the next
    turn of the loop -/
def csSubtract (sub : M Class.Class) (next : CS → M Class.Class) (c : CS) : M Class.Class := do
  let sub ← sub
  let c := { c with sub := some sub }
  let cr ← charsRight E
  if (← andM (cr > 0) (rcNe E 0 93)) then throw .subtractionMustBeLast else next c

/-- the end of a range `a-ch` -/
def csRangeEnd (sub : Bool → M Class.Class) (next : CS → M Class.Class) (so : Bool) (c : CS) (ch : Nat)
    (translated : Bool) : M Class.Class :=
  let cat := E.orc.cat
  let c := { c with inRange := false }
  if so then next c
  else if ch = 91 ∧ !translated ∧ !c.firstChar then
    csSubtract E (sub false) next (c.add cat (.range c.chPrev c.chPrev))
  else if c.chPrev > ch then throw .reversedCharRange
  else next (c.add cat (.range c.chPrev ch))

/-- `-[` outside a range: a subtraction (scan-only: the nested class is skipped, its errors ignored) -/
def csDashBracket (sub : Bool → M Class.Class) (next : CS → M Class.Class) (so : Bool) (c : CS) : M Class.Class :=
  if !so then do
    moveRight 1
    csSubtract E (sub false) next c
  else do
    moveRight 1
    ignoreErr (sub true)
    next c

/-- the range / subtraction / single character tail of the loop body -/
def csTail (sub : Bool → M Class.Class) (next : CS → M Class.Class) (so : Bool) (c : CS) (ch : Nat)
    (translated : Bool) : M Class.Class := do
  let cat := E.orc.cat
  let cr ← charsRight E
  if c.inRange then csRangeEnd E sub next so c ch translated
  else if (← andM (cr ≥ 2) (andMM (rcIs E 0 45) (rcNe E 1 93))) then do
    moveRight 1
    next { c with chPrev := ch, inRange := true }
  else if (← andM (cr ≥ 1 ∧ ch = 45 ∧ !translated) (rcIs E 0 91)) ∧ !c.firstChar then
    csDashBracket E sub next so c
  else if so then next c
  else next (c.add cat (.range ch ch))

/-- a shorthand class (`\d \s \w` …) inside the set -/
def csShorthand (next : CS → M Class.Class) (so : Bool) (o : Opts) (c : CS) (it : Class.Item) : M Class.Class :=
  let cat := E.orc.cat
  if so then next c
  else if c.inRange then
    if !o.e then throw .badClassInCharRange
    else
      let c1 : CS := (c.add cat (.range c.chPrev c.chPrev)).add cat (.range 45 45)
      let c2 : CS := { c1 with inRange := false }
      next (c2.add cat it)
  else next (c.add cat it)

/-- `\p` under ECMAScript without Unicode: the letter `p` -/
def csLetterP (next : CS → M Class.Class) (so : Bool) (c : CS) (ch : Nat) : M Class.Class := do
  let cat := E.orc.cat
  if so then next c
  else if c.inRange then
    if c.chPrev > ch then throw .reversedCharRange
    else next { (c.add cat (.range c.chPrev ch)) with inRange := false }
  else do
    let cr ← charsRight E
    if (← andM (cr ≥ 2) (andMM (rcIs E 0 45) (rcNe E 1 93))) then do
      let c := c.add cat (.range 45 45)
      moveRight 1
      let chLast ← moveRightGetChar E
      if ch > chLast then throw .reversedCharRange
      else next (c.add cat (.range ch chLast))
    else next (c.add cat (.range ch ch))

/-- `\p` / `\P` inside the set -/
def csProperty (next : CS → M Class.Class) (ci so : Bool) (o : Opts) (c : CS) (ch : Nat) : M Class.Class :=
  if o.e ∧ !o.u ∧ ch = 80 ∧ c.inRange then throw .shorthandClassInCharRange
  else if o.e ∧ !o.u ∧ ch = 112 then csLetterP E next so c ch
  else do
    let id ← parseProperty E
    if so then next c
    else if c.inRange then throw .shorthandClassInCharRange
    else next { c with cc := addCategory c.cc id (ch ≠ 112) ci }

/-- a backslash inside the set (consumed; one more rune is there) -/
def csEscape (sub : Bool → M Class.Class) (next : CS → M Class.Class) (ci so : Bool) (o : Opts) (c : CS) :
    M Class.Class := do
  let cat := E.orc.cat
  let ch ← moveRightGetChar E
  if ch = 68 ∨ ch = 100 then csShorthand E next so o c (digitItem (o.e || o.re2) (ch = 68))
  else if ch = 83 ∨ ch = 115 then csShorthand E next so o c (spaceItem o.e o.re2 (ch = 83))
  else if ch = 87 ∨ ch = 119 then csShorthand E next so o c (wordItem (o.e || o.re2) (ch = 87))
  else if ch = 112 ∨ ch = 80 then csProperty E next ci so o c ch
  else if ch = 45 then next (if so then c else c.add cat (.range 45 45))
  else do
    moveLeft
    let v ← scanCharEscape E
    csTail E sub next so c v true

/-- `[:` inside the set (the `[` consumed): a POSIX name `[:alpha:]` under RE2, else the letters -/
def csPosix (sub : Bool → M Class.Class) (next : CS → M Class.Class) (so : Bool) (o : Opts) (c : CS) (ch : Nat) :
    M Class.Class := do
  let cat := E.orc.cat
  let savePos ← textpos
  moveRight 1
  let cr ← charsRight E
  let negate ← andM (cr > 1) (rcIs E 0 94)
  if negate then moveRight 1
  let nm ← scanWord E
  let c ← (if !so ∧ o.re2 then
      match namedASCII c.cc cat nm negate with
      | some fl => pure { c with cc := fl }
      | none => throw .invalidCharRange
    else pure c : M CS)
  let cr ← charsRight E
  if cr < 2 then do textto savePos; csTail E sub next so c ch false
  else do
    let a ← moveRightGetChar E
    if a ≠ 58 then do textto savePos; csTail E sub next so c ch false
    else do
      let b ← moveRightGetChar E
      if b ≠ 93 then do textto savePos; csTail E sub next so c ch false
      else if o.re2 then next c
      else csTail E sub next so c ch false

/-- one turn of the loop of `scanCharSet` (`sub` = the nested `scanCharSet`, `next` = the next turn) -/
def csBody (sub : Bool → M Class.Class) (next : CS → M Class.Class) (ci so : Bool) (c : CS) : M Class.Class := do
  let cat := E.orc.cat
  let o ← opts
  let cr ← charsRight E
  if cr = 0 then throw .unterminatedBracket else
  let ch ← moveRightGetChar E
  let cr ← charsRight E
  if ch = 93 ∧ !c.firstChar then csFinish E ci so c
  else if ch = 93 ∧ o.e then csFinish E ci so (if so then c else c.add cat (.ranges []))
  else if ch = 93 then csTail E sub next so c ch false
  else if ch = 92 ∧ cr > 0 then csEscape E sub next ci so o c
  else if ch = 91 then do
    if (← andM (cr > 0) (rcIs E 0 58)) ∧ !c.inRange then csPosix E sub next so o c ch
    else csTail E sub next so c ch false
  else csTail E sub next so c ch false

/-- the `^` after `[` -/
def csNegate : M Bool := do
  if (← nextIs E 94) then do moveRight 1; pure true else pure false

mutual
/-- `scanCharSet(caseInsensitive, scanOnly)` (the `[` has been consumed) -/
def scanCharSet : Nat → Bool → Bool → M Class.Class
  | 0, _, _ => fun _ => .fuel
  | f + 1, ci, so => do
    let neg ← csNegate E
    csLoop f ci so { cc := { neg := neg, building := true } }

/-- the `for ; p.charsRight() > 0; firstChar = false` loop and what follows it -/
def csLoop : Nat → Bool → Bool → CS → M Class.Class
  | 0, _, _, _ => fun _ => .fuel
  | f + 1, ci, so, c =>
    csBody E (fun so' => scanCharSet f ci so') (fun c => csLoop f ci so { c with firstChar := false }) ci so c
end

/-! ## Backslash escapes -/

def typeFromCode (o : Opts) (ch : Nat) : NT :=
  if ch = 98 then (if o.e then .ecmaBoundary else .boundary)
  else if ch = 66 then (if o.e then .nonEcmaBoundary else .nonboundary)
  else if ch = 65 then .beginning
  else if ch = 71 then .start
  else if ch = 90 then .endZ
  else if ch = 122 then .end_
  else .nothing

/-- the node handed back in `scanOnly` mode (`nil` in Go; never looked at) -/
def dummy : RNode := mkNode .nothing {}

/-- "Not backreference: must be char code": back to the character after the backslash -/
def bbCharCode (scanOnly : Bool) (o : Opts) (backpos : Nat) : M RNode := do
  textto backpos
  let v ← scanCharEscape E
  if scanOnly then pure dummy else
  let v := if o.i then E.orc.toLower v else v
  pure (nodeCh E .one o v)

/-- after `\k`: `<` or `'` — (opened, closing delimiter) -/
def bbKOpen (o : Opts) : M (Bool × Nat) := do
  let cr ← charsRight E
  if cr ≥ 2 then do
    moveRight 1
    let c ← moveRightGetChar E
    if c = 60 ∨ (!o.e ∧ c = 39) then pure (true, if c = 39 then 39 else 62) else pure (false, 0)
  else pure (false, 0)

/-- the head of `scanBasicBackslash` (one rune is there): `\k<` `\k'` `\<` `\'` —
    (angled, k, closing delimiter, current rune) -/
def bbHead (o : Opts) : M (Bool × Bool × Nat × Nat) := do
  let cr ← charsRight E
  let ch0 ← rightChar E 0
  let hasNames ← hasCapnames
  if ch0 = 107 ∧ (!o.e ∨ o.u ∨ hasNames) then do
    let r ← bbKOpen E o
    let cr ← charsRight E
    if !r.1 ∨ cr = 0 then throw .malformedNameRef else
    let c ← rightChar E 0
    pure (true, true, r.2, c)
  else if !o.e ∧ (ch0 = 60 ∨ ch0 = 39) ∧ cr > 1 then do
    moveRight 1
    let c ← rightChar E 0
    pure (true, false, (if ch0 = 39 then 39 else 62), c)
  else pure (false, false, 0, ch0)

/-- `\<12>` `\k<12>` -/
def bbAngledNumber (scanOnly : Bool) (o : Opts) (backpos close : Nat) : M RNode := do
  let capnum ← scanDecimal E
  let cr ← charsRight E
  if (← andM (cr > 0) (getIs E close)) then
    if (← isCaptureSlot capnum) then pure (mkNodeM .ref o capnum) else throw .undefinedBackRef
  else bbCharCode E scanOnly o backpos

/-- `\12` -/
def bbNumber (scanOnly : Bool) (o : Opts) (backpos : Nat) : M RNode := do
  let capnum ← scanDecimal E
  if scanOnly then pure dummy
  else if (← isCaptureSlot capnum) then pure (mkNodeM .ref o capnum)
  else if capnum ≤ 9 ∧ !o.e then throw .undefinedBackRef
  else bbCharCode E scanOnly o backpos

/-- `\<name>` `\k<name>` -/
def bbName (scanOnly : Bool) (o : Opts) (backpos close : Nat) (k : Bool) : M RNode := do
  let capname ← scanCapname E
  let cr ← charsRight E
  if (← andM (!capname.isEmpty ∧ cr > 0) (getIs E close)) then
    if scanOnly then pure dummy
    else match (← captureSlotFromName capname) with
      | some slot => pure (mkNodeM .ref o slot)
      | none => throw .undefinedNameRef
  else if k then throw .malformedNameRef
  else bbCharCode E scanOnly o backpos

/-- `scanBasicBackslash(scanOnly)` -/
def scanBasicBackslash (scanOnly : Bool) : M RNode := do
  let cr ← charsRight E
  if cr = 0 then throw .illegalEndEscape else
  let o ← opts
  let backpos ← textpos
  -- (angled, k, close, ch)
  let hd ← bbHead E o
  if hd.1 ∧ isDigitCh hd.2.2.2 then bbAngledNumber E scanOnly o backpos hd.2.2.1
  else if !hd.1 ∧ 49 ≤ hd.2.2.2 ∧ hd.2.2.2 ≤ 57 then bbNumber E scanOnly o backpos
  else if hd.1 then bbName E scanOnly o backpos hd.2.2.1 hd.2.1
  else bbCharCode E scanOnly o backpos

/-- `\p{…}` / `\P{…}` outside a class -/
def bsProperty (o : Opts) (ch : Nat) : M RNode := do
  moveRight 1
  let id ← parseProperty E
  let f := addCategory {} id (ch ≠ 112) o.i
  let f := if o.i then Class.Flat.addLowercase E.orc.cat E.orc.toLower lcTable false f else f
  pure (nodeSet E o (.leaf f))

/-- `scanBackslash(scanOnly)` -/
def scanBackslash (scanOnly : Bool) : M RNode := do
  let cr ← charsRight E
  if cr = 0 then throw .illegalEndEscape else
  let o ← opts
  let ch ← rightChar E 0
  let er := o.e || o.re2
  if ch = 98 ∨ ch = 66 ∨ ch = 65 ∨ ch = 71 ∨ ch = 90 ∨ ch = 122 then do
    moveRight 1; pure (mkNode (typeFromCode o ch) o)
  else if ch = 119 then do
    moveRight 1; pure (nodeSet E o (.leaf (if er then oldSet ecmaWordT false else catSet false false catWord)))
  else if ch = 87 then do
    moveRight 1; pure (nodeSet E o (.leaf (if er then oldSet ecmaWordT true else catSet true false catWord)))
  else if ch = 115 then do
    moveRight 1
    pure (nodeSet E o (.leaf (if o.e then oldSet ecmaSpaceT false else if o.re2 then oldSet re2SpaceT false else catSet false false catSpace)))
  else if ch = 83 then do
    moveRight 1
    pure (nodeSet E o (.leaf (if o.e then oldSet ecmaSpaceT true else if o.re2 then oldSet re2SpaceT true else catSet true false catSpace)))
  else if ch = 100 then do
    moveRight 1; pure (nodeSet E o (.leaf (if er then oldSet ecmaDigitT false else catSet false false catNd)))
  else if ch = 68 then do
    moveRight 1; pure (nodeSet E o (.leaf (if er then oldSet ecmaDigitT true else catSet false true catNd)))
  else if (ch = 112 ∨ ch = 80) ∧ !(o.e && !o.u) then bsProperty E o ch
  else scanBasicBackslash E scanOnly

/-! ## Groups -/

/-- `scanPythonNamedBackref` -/
def scanPythonNamedBackref : M RNode := do
  moveRight 3
  let cr ← charsRight E
  if cr = 0 then throw .malformedNameRef else
  let o ← opts
  let ch ← rightChar E 0
  if !isGroupNameStartChar E o ch then throw .invalidGroupName else
  let capname ← scanCapname E
  let cr ← charsRight E
  if capname.isEmpty ∨ cr = 0 then throw .malformedNameRef else
  let c ← moveRightGetChar E
  if c ≠ 41 then throw .malformedNameRef else
  match (← captureSlotFromName capname) with
  | some slot => pure (mkNodeM .ref o slot)
  | none => throw .undefinedNameRef

/-- `BreakRecognize`: the error message slices `p.pattern[start:p.textpos()]` -/
def breakRecognize {α : Type} (start : Nat) : M α := fun s =>
  if start ≤ s.pos ∧ s.pos ≤ E.pat.length then .err .unrecognizedGrouping s else .fault .slice

def optInt (x : Option Nat) : Int := match x with | some v => v | none => -1

/-- the slot of an explicitly numbered group `(?<12>` as the main parse sees it -/
def gnSlotOfNumber (capnum : Nat) : M (Option Nat) := do
  if E.ord then captureSlotFromName (itoaRunes capnum)
  else do if (← isCaptureSlot capnum) then pure (some capnum) else pure none

/-- `(?<…`: the part before `-` (one rune is there) — (slot if defined, "starts with `-`") -/
def gnFirst (o : Opts) (close : Nat) : M (Option Nat × Bool) := do
  let ch ← rightChar E 0
  if isDigitCh ch ∧ !o.e then do
    let capnum ← scanDecimal E
    if capnum = 0 then throw .capNumNotZero else
    let cn ← gnSlotOfNumber E capnum
    let cr ← charsRight E
    if (← andM (cr > 0) (andMM (rcNe E 0 close) (rcNe E 0 45))) then throw .invalidGroupName
    else pure (cn, false)
  else if isGroupNameStartChar E o ch then do
    let capname ← scanCapname E
    let cn ← captureSlotFromName capname
    let cr ← charsRight E
    if (← andM (cr > 0) (andMM (rcNe E 0 close) (rcNe E 0 45))) then
      throw (if o.e then .invalidECMAGroupName else .invalidGroupName)
    else pure (cn, false)
  else if ch = 45 then pure (none, true)
  else throw (if o.e then .invalidECMAGroupName else .invalidGroupName)

/-- `(?<a-…`: the balancing part after `-` (the `-` consumed) -/
def gnUncap (close : Nat) : M (Option Nat) := do
  let cr ← charsRight E
  if cr = 0 then throw .invalidGroupName else
  let ch ← rightChar E 0
  if isDigitCh ch then do
    let un ← scanDecimal E
    if !(← isCaptureSlot un) then throw .undefinedBackRef else
    let cr ← charsRight E
    if (← andM (cr > 0) (rcNe E 0 close)) then throw .invalidGroupName else pure (some un)
  else if E.orc.isWord ch then do
    let uncapname ← scanCapname E
    match (← captureSlotFromName uncapname) with
    | none => throw .undefinedNameRef
    | some un =>
      let cr ← charsRight E
      if (← andM (cr > 0) (rcNe E 0 close)) then throw .invalidGroupName else pure (some un)
  else throw .invalidGroupName

/-- `(?<…`: the part from `-` on -/
def gnSecond (o : Opts) (close : Nat) (capnum : Option Nat) (proceed : Bool) : M (Option Nat) := do
  let cr ← charsRight E
  let hasDash ← andM (!o.e ∧ (capnum.isSome ∨ proceed) ∧ cr > 0) (rcIs E 0 45)
  if hasDash then do
    moveRight 1
    gnUncap E close
  else pure none

/-- `(?<…`: the closing delimiter and the Capture node -/
def gnClose (start close : Nat) (capnum uncapnum : Option Nat) : M (Option RNode) := do
  let cr ← charsRight E
  if (capnum.isSome ∨ uncapnum.isSome) ∧ cr > 0 then do
    let c ← moveRightGetChar E
    if c = close then do
      consumeCaptureSlot E capnum
      let o ← opts
      pure (some (mkNodeMN .capture o (optInt capnum) (optInt uncapnum)))
    else breakRecognize E start
  else breakRecognize E start

/-- the name / number part of `(?<…>`, `(?'…'` (after `<` or `'`, first character not `=`/`!`) -/
def scanGroupName (start close : Nat) : M (Option RNode) := do
  let o ← opts
  let r1 ← gnFirst E o close
  let uncapnum ← gnSecond E o close r1.1 r1.2
  gnClose E start close r1.1 uncapnum

/-- `(?(12)` / `(?(name)`: a condition on a group, if it reads as one -/
def condEarly (o : Opts) : M (Option RNode) := do
  let cr ← charsRight E
  if cr > 0 then do
    let ch ← rightChar E 0
    if isDigitCh ch then do
      let capnum ← scanDecimal E
      let cr ← charsRight E
      if (← andM (cr > 0) (getIs E 41)) then
        if (← isCaptureSlot capnum) then pure (some (mkNodeM .backRefCond o capnum))
        else throw .undefinedReference
      else throw .malformedReference
    else if E.orc.isWord ch then do
      let capname ← scanCapname E
      match (← captureSlotFromName capname) with
      | some slot =>
        let cr ← charsRight E
        if (← andM (cr > 0) (getIs E 41)) then pure (some (mkNodeM .backRefCond o slot)) else pure none
      | none => pure none
    else pure none
  else pure none

/-- `(?(` followed by an expression: back to the inner `(`, which opens a non-capturing group -/
def condExpr (o : Opts) (parenPos : Nat) : M (Option RNode) := do
  if parenPos = 0 then fault .negPos else
  textto (parenPos - 1)
  modify fun s => { s with ignoreNextParen := true }
  let cr ← charsRight E
  if (← andM (cr ≥ 3) (rcIs E 1 63)) then do
    let rc2 ← rightChar E 2
    if rc2 = 35 then throw .alternationCantHaveComment
    else if rc2 = 39 then throw .alternationCantCapture
    else if (← andM (cr ≥ 4 ∧ rc2 = 60) (andMM (rcNe E 3 33) (rcNe E 3 61))) then throw .alternationCantCapture
    else pure (some (mkNode .exprCond o))
  else pure (some (mkNode .exprCond o))

/-- the `(?(` case of `scanGroupOpen` -/
def scanCondition : M (Option RNode) := do
  let o ← opts
  let parenPos ← textpos
  match (← condEarly E o) with
  | some nd => pure (some nd)
  | none => condExpr E o parenPos

/-- `(` not followed by `?` (or `(?)`): a capture group, or a plain group under ExplicitCapture /
    after a condition -/
def groupOpenPlain (o : Opts) : M (Option RNode) := do
  let s ← get
  if o.n ∨ s.ignoreNextParen then do
    modify fun s => { s with ignoreNextParen := false }
    pure (some (mkNode .group o))
  else do
    let a ← consumeAutocap
    pure (some (mkNodeMN .capture o a (-1)))

/-- the default case of the switch of `scanGroupOpen`: inline options `(?imnsx-imnsx)` / `(?imnsx-imnsx:` -/
def groupOpenDefault (start : Nat) : M (Option RNode) := do
  moveLeft
  let s ← get
  if s.group.t ≠ .exprCond then scanOptions E
  let cr ← charsRight E
  if cr = 0 then breakRecognize E start else
  let c ← moveRightGetChar E
  if c = 41 then pure none
  else if c ≠ 58 then breakRecognize E start
  else do let o ← opts; pure (some (mkNode .group o))

/-- `(?<` and `(?'`: lookbehind or a named / numbered group -/
def groupOpenAngle (start : Nat) (o : Opts) (close : Nat) : M (Option RNode) := do
  let cr ← charsRight E
  if cr = 0 then breakRecognize E start else
  let c ← moveRightGetChar E
  if c = 61 then
    if close = 39 then breakRecognize E start
    else do let o := { o with r := true }; setOpts o; pure (some (mkNode .posLook o))
  else if c = 33 then
    if close = 39 then breakRecognize E start
    else do let o := { o with r := true }; setOpts o; pure (some (mkNode .negLook o))
  else do
    moveLeft
    scanGroupName E start close

/-- `(?P<name>` under RE2 (the `P` consumed) -/
def groupOpenPython (start : Nat) (o : Opts) : M (Option RNode) := do
  let cr ← charsRight E
  if cr < 3 then breakRecognize E start else
  let c ← moveRightGetChar E
  if c ≠ 60 then breakRecognize E start else
  let c ← moveRightGetChar E
  moveLeft
  if E.orc.isWord c then do
    let capname ← scanCapname E
    let capnum ← captureSlotFromName capname
    let cr ← charsRight E
    if (← andM (cr > 0) (rcNe E 0 62)) then throw .invalidGroupName
    else if capnum.isSome ∧ cr > 0 then do
      let c ← moveRightGetChar E
      if c = 62 then do
        consumeCaptureSlot E capnum
        pure (some (mkNodeMN .capture o (optInt capnum) (-1)))
      else breakRecognize E start
    else breakRecognize E start
  else throw .invalidGroupName

/-- the switch of `scanGroupOpen` on the rune after `(?` -/
def groupOpenSwitch (start : Nat) (o : Opts) (ch : Nat) : M (Option RNode) :=
  if ch = 58 then pure (some (mkNode .group o))
  else if ch = 61 then do let o := { o with r := false }; setOpts o; pure (some (mkNode .posLook o))
  else if ch = 33 then do let o := { o with r := false }; setOpts o; pure (some (mkNode .negLook o))
  else if ch = 62 then pure (some (mkNode .atomic o))
  else if ch = 39 then groupOpenAngle E start o 39
  else if ch = 60 then groupOpenAngle E start o 62
  else if ch = 40 then scanCondition E
  else if ch = 80 ∧ o.re2 then groupOpenPython E start o
  else groupOpenDefault E start

/-- is the `(` followed by something other than a `(?…` construct? -/
def groupOpenIsPlain : M Bool := do
  let cr ← charsRight E
  let c0 ← (if cr > 0 then rightChar E 0 else pure 0 : M Nat)
  let c1 ← (if cr > 1 then rightChar E 1 else pure 0 : M Nat)
  pure (decide (cr = 0 ∨ c0 ≠ 63 ∨ (c0 = 63 ∧ cr > 1 ∧ c1 = 41)))

/-- `scanGroupOpen` (the `(` has been consumed); `none` = options only / nothing to open -/
def scanGroupOpen : M (Option RNode) := do
  let start ← textpos
  let o ← opts
  if (← groupOpenIsPlain E) then groupOpenPlain o
  else do
    modify fun s => { s with ignoreNextParen := false }
    moveRight 1
    let cr ← charsRight E
    if cr = 0 then breakRecognize E start else
    let ch ← moveRightGetChar E
    groupOpenSwitch E start o ch

/-! ## The capture pre-scan -/

/-- pre-scan, `(?<` / `(?'` (the `?` consumed, `<` or `'` next, one more rune after it): note the
    name or number -/
def countNamed (o : Opts) : M Unit := do
  moveRight 1
  let ch ← rightChar E 0
  if (ch ≠ 48 ∨ !o.e) ∧ isGroupNameStartChar E o ch then
    if isDigitCh ch ∧ !o.e then do
      let dec ← scanDecimal E
      if E.ord then noteCaptureName E (itoaRunes dec) else noteCaptureSlot dec
    else do
      let capname ← scanCapname E
      noteCaptureName E capname
  modify fun s => { s with ignoreNextParen := false }

/-- pre-scan, `(?P<` under RE2 (the `?` consumed, `P<` next, one more rune after it) -/
def countPython : M Unit := do
  moveRight 2
  let ch ← rightChar E 0
  if E.orc.isWord ch then do
    let capname ← scanCapname E
    noteCaptureName E capname
  modify fun s => { s with ignoreNextParen := false }

/-- pre-scan, `(?` followed by anything else: inline options; `(?i)` keeps them, `(?i)(` … -/
def countOptions : M Unit := do
  scanOptions E
  let cr ← charsRight E
  if (← andM (cr > 0) (rcIs E 0 41)) then do
    moveRight 1
    popKeepOptions
    modify fun s => { s with ignoreNextParen := false }
  else if (← andM (cr > 0) (rcIs E 0 40)) then
    -- `continue`: ignoreNextParen stays set
    modify fun s => { s with ignoreNextParen := true }
  else modify fun s => { s with ignoreNextParen := false }

/-- pre-scan, `(?` (the `?` not yet consumed; the options have been pushed) -/
def countQuestion (o : Opts) : M Unit := do
  moveRight 1
  let cr ← charsRight E
  let c0 ← (if cr > 0 then rightChar E 0 else pure 0 : M Nat)
  if cr > 1 ∧ (c0 = 60 ∨ c0 = 39) then countNamed E o
  else if (← andM (o.re2 ∧ cr > 2 ∧ c0 = 80) (rcIs E 1 60)) then countPython E
  else countOptions E

/-- pre-scan, `(` not followed by `?`: an automatically numbered group unless ExplicitCapture /
    after `(?i)(` -/
def countPlain : M Unit := do
  let s ← get
  let o ← opts
  if !o.n ∧ !s.ignoreNextParen then do
    let a ← consumeAutocap
    noteCaptureSlot a
  modify fun s => { s with ignoreNextParen := false }

/-- pre-scan, `(?#` or `#` under IgnorePatternWhitespace (its first rune consumed): back to it and
    skip the comment (an unterminated comment is reported by the main scan) -/
def countComment : M Unit := do
  moveLeft
  ignoreErr (scanBlank E)

/-- pre-scan, `(` (consumed) -/
def countParen (o : Opts) : M Unit := do
  let cr ← charsRight E
  if (← andM (cr ≥ 2) (andMM (rcIs E 1 35) (rcIs E 0 63))) then do
    countComment E
    modify fun s => { s with ignoreNextParen := false }
  else do
    pushOptions
    let cr ← charsRight E
    if (← andM (cr > 0) (rcIs E 0 63)) then countQuestion E o
    else countPlain

/-- one turn of the loop of `countCaptures` -/
def countStep : M Unit := do
  let ch ← moveRightGetChar E
  let o ← opts
  if ch = 92 then do
    let cr ← charsRight E
    if cr > 0 then ignoreErr (scanBackslash E true)
  else if ch = 35 then
    if o.x then countComment E else pure ()
  else if ch = 91 then ignoreErr (scanCharSet E (2 * E.pat.length + 4) false true)
  else if ch = 41 then do
    if !(← emptyOptionsStack) then popOptions
  else if ch = 40 then countParen E o
  else pure ()

/-- `assignNameSlots` -/
def assignNameSlots : M Groups.Tables := fun s =>
  if E.ord then .ok (Groups.assignOrderedNameSlots E.cfg s.g) s
  else if s.g.capnames.isSome ∧ s.g.capnamelist.isEmpty then .fault .emptyNames
  else .ok (Groups.assignNameSlots s.g) s

/-- `countCaptures` -/
def countCaptures (fuel : Nat) : M Groups.Tables := do
  modify fun s => { s with g := Groups.initState }
  iter (fun (_ : Unit) => do
      let cr ← charsRight E
      if cr = 0 then pure (.inr ()) else do
        countStep E
        pure (.inl ())) fuel ()
  assignNameSlots E

/-! ## The main loop -/

/-- `{n,` … : the upper bound (`startpos` = after the `{`, `min` = n) -/
def quantMax (startpos min : Nat) : M Nat := do
  let pos1 ← textpos
  if startpos < pos1 then do
    if (← nextIs E 44) then do
      moveRight 1
      let cr ← charsRight E
      if (← orM (cr = 0) (rcIs E 0 125)) then pure maxInt32 else scanDecimal E
    else pure min
  else pure min

/-- `{n,m` … : the closing brace -/
def quantClosed (startpos : Nat) : M Bool := do
  let pos2 ← textpos
  let cr ← charsRight E
  if startpos = pos2 ∨ cr = 0 then pure false else do
    let c ← moveRightGetChar E
    pure (c == 125)

/-- `{n}` `{n,}` `{n,m}` (the `{` consumed); `none` = not a quantifier after all: the unit is added and
    the scan resumes at the `{` -/
def quantBrace : M (Option (Nat × Nat)) := do
  let startpos ← textpos
  let min ← scanDecimal E
  let max ← quantMax E startpos min
  let closed ← quantClosed E startpos
  if !closed then do
    addConcatenate
    if startpos = 0 then fault .negPos else
    textto (startpos - 1)
    pure none
  else pure (some (min, max))

/-- the bounds of the quantifier `ch` -/
def quantBounds (ch : Nat) : M (Option (Nat × Nat)) :=
  if ch = 42 then pure (some (0, maxInt32))
  else if ch = 63 then pure (some (0, 1))
  else if ch = 43 then pure (some (1, maxInt32))
  else if ch = 123 then quantBrace E
  else throw .internalError

/-- what follows the bounds: blanks, the lazy `?`, the quantified unit joins the concatenation -/
def quantApply (min max : Nat) : M Unit := do
  scanBlank E
  let lazy ← (if (← nextIs E 63) then do moveRight 1; pure true else pure false : M Bool)
  if min > max then throw .invalidRepeatSize else
  addConcatenate3 lazy min max

/-- the quantifier part of one turn of `scanRegex` (`ch` = the quantifier character, consumed) -/
def scanQuantifier (ch : Nat) : M Unit := do
  let s ← get
  if s.unit.isNone then pure () else
  match (← quantBounds E ch) with
  | none => pure ()
  | some mm => quantApply E mm.1 mm.2

/-- the run of ordinary characters at the head of a turn -/
def skipOrdinary : Nat → M Unit :=
  fun fuel => iter (fun (_ : Unit) => do
    let cr ← charsRight E
    if cr = 0 then pure (.inr ()) else
    let o ← opts
    let ch ← rightChar E 0
    let stop := if o.x then isStopperXCh ch else isSpecialCh ch
    if stop ∧ (ch ≠ 123 ∨ (← isTrueQuantifier E)) then pure (.inr ())
    else do moveRight 1; pure (.inl ())) fuel ()

/-- the rune that ends the run of ordinary characters: `(33, false)` = end of the pattern,
    `(32, false)` = not a special rune, else the rune (consumed) and whether it is a quantifier -/
def stepHead : M (Nat × Bool) := do
  let cr ← charsRight E
  if cr = 0 then pure (33, false) else do
    let c ← rightChar E 0
    if isSpecialCh c then do moveRight 1; pure (c, isQuantCh c) else pure (32, false)

/-- the run of ordinary characters `[startpos, endpos)` joins the concatenation; before a
    quantifier its last rune becomes the unit.  Returns `wasPrevQuantifier`. -/
def stepLiteral (startpos endpos : Nat) (isQuant wasPrev0 : Bool) : M Bool := do
  if startpos < endpos then do
    let cch := endpos - startpos - (if isQuant then 1 else 0)
    if cch > 0 then addToConcatenate E startpos cch
    if isQuant then do
      let c ← charAt E (endpos - 1)
      let o ← opts
      setUnit (some (nodeCh E .one o c))
    pure false
  else pure wasPrev0

/-- after the switch of `scanRegex`: the unit with its quantifier, if one follows -/
def stepAfter (isQuant : Bool) : M (Sum Bool Unit) := do
  scanBlank E
  let cr ← charsRight E
  let isQuant ← (if cr > 0 then isTrueQuantifier E else pure isQuant : M Bool)
  if cr = 0 ∨ !isQuant then do
    addConcatenate
    pure (.inl isQuant)
  else do
    let q ← moveRightGetChar E
    scanQuantifier E q
    pure (.inl isQuant)

/-- is the `(` (consumed) the start of `(?P=name)` under RE2? -/
def stepIsPythonRefCore (o : Opts) : M Bool := do
  let cr ← charsRight E
  andM (o.re2 ∧ cr ≥ 3) (andMM (rcIs E 0 63) (andMM (rcIs E 1 80) (rcIs E 2 61)))

/-- `p.useRE2() && !p.ignoreNextParen && p.charsRight() >= 3 && …` (/repo debc02b: not while the parser
    waits for the parenthesis that opens the condition of `(?(…)yes|no)`) -/
def stepIsPythonRef (o : Opts) : M Bool := fun s =>
  if s.ignoreNextParen then .ok false s else stepIsPythonRefCore E o s

/-- `(` in `scanRegex`, other than `(?P=` -/
def stepOpen (isQuant : Bool) : M (Sum Bool Unit) := do
  pushOptions
  match (← scanGroupOpen E) with
  | none => popKeepOptions
  | some grouper => do pushGroup; startGroup grouper
  pure (.inl isQuant)

/-- `)` in `scanRegex` -/
def stepClose (isQuant : Bool) : M (Sum Bool Unit) := do
  let s ← get
  if s.stack.isEmpty then throw .unexpectedParen else
  addGroup
  popGroup
  popOptions
  let s ← get
  if s.unit.isNone then pure (.inl isQuant) else stepAfter E isQuant

/-- `.` -/
def dotNode (o : Opts) : RNode :=
  if o.s then nodeSet E o (.leaf anyClass)
  else if o.e then nodeSet E o (.leaf ecmaAnyClass)
  else nodeCh E .notone o 10

/-- the switch of `scanRegex` on the special rune `ch` (consumed) -/
def stepSwitch (o : Opts) (ch : Nat) (isQuant wasPrev : Bool) : M (Sum Bool Unit) := do
  if ch = 91 then do
    let cc ← scanCharSet E (2 * E.pat.length + 4) o.i false
    setUnit (some (nodeSet E o cc))
    stepAfter E isQuant
  else if ch = 40 then do
    if (← stepIsPythonRef E o) then do
      let nd ← scanPythonNamedBackref E
      setUnit (some nd)
      stepAfter E isQuant
    else stepOpen E isQuant
  else if ch = 124 then do addAlternate; pure (.inl isQuant)
  else if ch = 41 then stepClose E isQuant
  else if ch = 92 then do
    let nd ← scanBackslash E false
    setUnit (some nd)
    stepAfter E isQuant
  else if ch = 94 then do
    setUnit (some (mkNode (if o.m then .bol else .beginning) o))
    stepAfter E isQuant
  else if ch = 36 then do
    setUnit (some (mkNode (if o.m then .eol else if o.re2 ∨ o.e then .end_ else .endZ) o))
    stepAfter E isQuant
  else if ch = 46 then do
    setUnit (some (dotNode E o))
    stepAfter E isQuant
  else if ch = 123 ∨ ch = 42 ∨ ch = 43 ∨ ch = 63 then do
    let s ← get
    if s.unit.isNone then throw (if wasPrev then .invalidRepeatOp else .missingRepeatArgument) else
    moveLeft
    stepAfter E isQuant
  else throw .internalError

/-- the head of one turn: blanks, the run of ordinary characters, blanks — `(startpos, endpos)` -/
def stepRun : M (Nat × Nat) := do
  scanBlank E
  let startpos ← textpos
  let cr ← charsRight E
  skipOrdinary E (cr + 1)
  let endpos ← textpos
  scanBlank E
  pure (startpos, endpos)

/-- one turn of the loop of `scanRegex`; the loop-carried variable is `isQuant`;
    `inl` = next turn, `inr` = `BreakOuterScan` -/
def scanStep (isQuant0 : Bool) : M (Sum Bool Unit) := do
  let run ← stepRun E
  let hd ← stepHead E
  let wasPrev ← stepLiteral E run.1 run.2 hd.2 isQuant0
  let o ← opts
  if hd.1 = 33 then pure (.inr ())
  else if hd.1 = 32 then pure (.inl hd.2)
  else stepSwitch E o hd.1 hd.2 wasPrev

/-- `scanRegex` -/
def scanRegex (fuel : Nat) : M RNode := do
  let o ← opts
  startGroup (mkNodeMN .capture o 0 (-1))
  iter (fun (isQuant : Bool) => do
      let cr ← charsRight E
      if cr = 0 then pure (.inr ()) else scanStep E isQuant) fuel false
  let s ← get
  if !s.stack.isEmpty then throw .missingParen else
  addGroup
  let s ← get
  match s.unit with
  | some u => pure u
  | none => fault .nilUnit

end

/-! ## `Parse` -/

inductive Outcome where
  | ok (t : RawTree)
  | error (c : ErrCode)
  | fault (f : Fault)
  | fuel
  deriving Repr

/-- `reset` + the tables of the pre-scan as the main parse sees them -/
def resetState (E : Env) (t : Groups.Tables) : PS :=
  { pos := 0, options := E.opts,
    g := { caps := t.caps, captop := t.captop, autocap := 1, capnames := t.capnames, capnamelist := t.caplist.getD [] } }

/-- `Parse` with explicit fuel for the two outer loops -/
def parseFuel (E : Env) (fuel : Nat) : Outcome :=
  match countCaptures E fuel { options := E.opts } with
  | .err c _ => .error c
  | .fault f => .fault f
  | .fuel => .fuel
  | .ok t _ =>
    match scanRegex E fuel (resetState E t) with
    | .err c _ => .error c
    | .fault f => .fault f
    | .fuel => .fuel
    | .ok root _ => .ok { root := root, tables := t }

/-! ## Well-formedness of the raw tree (what the reducer and the writer rely on) -/

def isLeafType (t : NT) : Bool :=
  !(t == .alternate || t == .concatenate || t == .loop || t == .lazyloop || t == .capture || t == .group ||
    t == .posLook || t == .negLook || t == .atomic || t == .backRefCond || t == .exprCond)

def isSetType (t : NT) : Bool := t == .set || t == .setloop || t == .setlazy

def isRepType (t : NT) : Bool :=
  t == .oneloop || t == .notoneloop || t == .setloop || t == .onelazy || t == .notonelazy || t == .setlazy ||
  t == .loop || t == .lazyloop

/-- the local conditions on one node: child count per node type, a set exactly on the set family,
    `0 ≤ M ≤ N` on repeaters, group numbers registered in `caps`, a Multi of at least two runes -/
def nodeOk (caps : List Nat) (t : NT) (str : List Nat) (set : Option Class.Class) (m n : Int) (nk : Nat) : Bool :=
  (if isLeafType t then nk == 0
   else if t == .concatenate then true
   else if t == .alternate then decide (nk ≥ 1)
   else if t == .backRefCond then decide (1 ≤ nk ∧ nk ≤ 2)
   else if t == .exprCond then decide (2 ≤ nk ∧ nk ≤ 3)
   else nk == 1) &&
  (set.isSome == isSetType t) &&
  (!isRepType t || (decide (0 ≤ m) && decide (m ≤ n))) &&
  (!(t == .ref || t == .backRefCond) || (decide (0 ≤ m) && caps.contains m.toNat)) &&
  (!(t == .capture) || ((m == -1 || (decide (0 ≤ m) && caps.contains m.toNat)) &&
                        (n == -1 || (decide (0 ≤ n) && caps.contains n.toNat)) && !(m == -1 && n == -1))) &&
  (!(t == .multi) || decide (str.length ≥ 2))

mutual
def wfNode (caps : List Nat) : RNode → Bool
  | .mk t _ _ str set m n kids => nodeOk caps t str set m n kids.length && wfKids caps kids
def wfKids (caps : List Nat) : List RNode → Bool
  | [] => true
  | k :: ks => wfNode caps k && wfKids caps ks
end

/-- a well-formed raw tree: root = Capture 0, every node locally well-formed, tables consistent -/
def wfTree (t : RawTree) : Bool :=
  t.root.t == .capture && t.root.m == 0 && wfNode t.tables.caps t.root && t.tables.caps.contains 0 &&
  t.tables.caps.all (fun c => decide (c < t.tables.captop ∨ c = maxInt32))

/-- `Parse`: every turn of either outer loop consumes at least one rune, so `length + 1` turns suffice
    (`Props.C10.parse_total`) -/
def parse (E : Env) : Outcome := parseFuel E (E.pat.length + 1)

end RegexVerif.Parser
