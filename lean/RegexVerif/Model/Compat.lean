/-
Model of the regexp-compatible adapter, method by method (C06).

* `compat/regexp.go` — all 21 methods of `compat.Matcher` and their helpers `findStringMatch`,
  `findRunesMatch`, `forEachStringMatch`, `matchStrings`, `captureString`, `matchIndexes`,
  `matchRuneIndexes`, `captureIndex`, `runeCaptureIndex`, `readRunes`, `must`,
  `bytesToRunesAndOffsets` (the last two tables are the ones of `Model/Utf8.lean`);
* the regexp2 calls the adapter makes, as functions of ONE engine answer (`Ans`): the sequence
  `FindStringMatch, FindNextMatch, …` with the groups of every match, in RUNE indices, plus the
  error channel (a match-time error instead of the `nil` that ends the sequence):
  `MatchString`/`MatchRunes`, `FindStringMatch`/`FindRunesMatch`, `FindNextMatch`,
  `FindAllRunesIndex`, `FindAllStringIndex` (regexp.go `findAllRunesIndex` with its `makeIndex`
  closure over `newStringByteMapper`), `Capture.ByteRange` (`stringByteOffsets`);
* the SPECIFICATION: Go's `regexp` package (`src/regexp/regexp.go`), every one of the 21 methods as a
  function of the standard library's own search `ff pos` = `doExecute(…, pos, …)` = "the leftmost
  match at or after BYTE position `pos`", in byte offsets: `Find*` = `ff 0` rendered as the
  documentation says (nil = no match, `result[2*n:2*n+2]`, `-1` pairs), `FindAll*` = the loop
  `allMatches` ("at most n", negative n = all, "empty matches abutting a preceding match are ignored",
  nil when nothing is delivered).

The input is a list of decoding steps `(rune, bytes)`: what `for range s` / `utf8.DecodeRune` /
`strings.Reader.ReadRune` yield, one step per rune, with the bytes the step consumed (an invalid byte
is one step `(U+FFFD, [byte])`).  `decoded` forgets the byte values and gives the `(rune, width)` list
of `Model/Utf8.lean`; `bytesOf` is the input itself.  A `[]byte` argument may be nil (`none`).

Go results carry their nil-ness: a slice is `Option (List …)` with `none` = nil; a `[]byte` element
of a `[][]byte` is again an `Option`; strings have no nil.  Index results are `Int` (they contain `-1`).
A call that can panic returns `Res`; every slice expression and every table lookup of the adapter
is bounds-checked in the model (`panic`), `must(err)` panics exactly on `Call.error`.
-/
import RegexVerif.Model.Utf8

namespace RegexVerif.Compat
open RegexVerif.Utf8

/-! ### Go calls: panics and `(value, error)` pairs -/

/-- a Go call that returns a value or panics -/
inductive Res (α : Type) where
  | ok : α → Res α
  | panic : Res α
deriving DecidableEq, Repr

namespace Res

def bind {α β : Type} : Res α → (α → Res β) → Res β
  | ok a, f => f a
  | panic, _ => panic

def map {α β : Type} (f : α → β) : Res α → Res β
  | ok a => ok (f a)
  | panic => panic

/-- `for i := range xs { out[i] = f(xs[i]) }` where `f` may panic -/
def mapM {α β : Type} (f : α → Res β) : List α → Res (List β)
  | [] => ok []
  | x :: xs => (f x).bind fun y => (mapM f xs).map (y :: ·)

end Res

/-- the `(value, error)` pair of a regexp2 call -/
inductive Call (α : Type) where
  | val : α → Call α
  | error : Call α
deriving DecidableEq, Repr

def Call.map {α β : Type} (f : α → β) : Call α → Call β
  | .val a => .val (f a)
  | .error => .error

/-- `v, err := …; must(err)` -/
def must {α : Type} : Call α → Res α
  | .val a => .ok a
  | .error => .panic

/-! ### the input -/

/-- the `(rune, width)` steps of `Model/Utf8.lean` -/
def decoded (segs : List (Int × List Nat)) : List (Int × Nat) := segs.map fun s => (s.1, s.2.length)

/-- the bytes of the input -/
def bytesOf (segs : List (Int × List Nat)) : List Nat := segs.flatMap (·.2)

/-- `len(s)` in bytes -/
def byteLen (d : List (Int × Nat)) : Nat := (widths d).sum

/-- a `[]byte` argument: `none` is the nil slice; `string(b)` of it is `""` -/
def segsOf (b : Option (List (Int × List Nat))) : List (Int × List Nat) := b.getD []

def bytesOfB (b : Option (List (Int × List Nat))) : Option (List Nat) := b.map bytesOf

/-- `b[lo:hi]` on a `[]byte` whose capacity is its length; `nil[0:0]` is nil -/
def sliceBytes (b : Option (List Nat)) (lo hi : Int) : Res (Option (List Nat)) :=
  if 0 ≤ lo ∧ lo ≤ hi ∧ hi ≤ (((b.getD []).length : Nat) : Int) then
    .ok (b.map fun l => (l.drop lo.toNat).take (hi.toNat - lo.toNat))
  else .panic

/-- `s[lo:hi]` on a string -/
def sliceStr (s : List Nat) (lo hi : Int) : Res (List Nat) :=
  if 0 ≤ lo ∧ lo ≤ hi ∧ hi ≤ ((s.length : Nat) : Int) then .ok ((s.drop lo.toNat).take (hi.toNat - lo.toNat))
  else .panic

/-- `offsets[i]` on a Go slice -/
def tableAt (t : List Nat) (i : Nat) : Res Nat :=
  match t[i]? with
  | some x => .ok x
  | none => .panic

/-- `var out []T; … append …; return out`: nothing appended leaves the nil slice -/
def nilIfEmpty {α : Type} (l : List α) : Option (List α) := if l.isEmpty then none else some l

/-! ### the engine's answer -/

/-- one `*regexp2.Match` as the adapter reads it: `RuneIndex`, `RuneLength`, and for the groups
    1, 2, … of `m.Groups()` the group's own `Capture` (its last capture) as `(RuneIndex, RuneLength)`,
    `none` when `len(Captures) == 0`.  Group 0 is the match itself (`g[0] = m.Group`, one capture). -/
structure RMatch where
  index : Nat
  len : Nat
  caps : List (Option (Nat × Nat))
deriving DecidableEq, Repr

/-- `m.Groups()` -/
def RMatch.groups (m : RMatch) : List (Option (Nat × Nat)) := some (m.index, m.len) :: m.caps

/-- the engine's answer on one input: `ms` is the sequence `FindStringMatch(s)`, `FindNextMatch(m)`, …
    (equally `FindRunesMatch` on the decoded runes, and the successive scans of
    `findAllRunesIndex`); the call after the last element returns `nil`, or — `err` — a match-time
    error (a timeout).  `rtl` is `re.RightToLeft()`. -/
structure Ans where
  rtl : Bool
  ms : List RMatch
  err : Bool
deriving DecidableEq, Repr

/-- the next call of the sequence: `FindStringMatch` / `FindRunesMatch` / `FindNextMatch` -/
def nextCall (ms : List RMatch) (err : Bool) : Call (Option RMatch) :=
  match ms with
  | m :: _ => .val (some m)
  | [] => if err then .error else .val none

/-- `re.re.MatchString(s)` / `re.re.MatchRunes(r)` -/
def r2IsMatch (a : Ans) : Call Bool := (nextCall a.ms a.err).map Option.isSome

/-- `prevEnd` after a delivered match: "where the match ended in scan direction" -/
def keptEnd (rtl : Bool) (m : RMatch) : Int := if rtl then (m.index : Int) else ((m.index + m.len : Nat) : Int)

/-- the loop of regexp2's `findAllRunesIndex` (regexp.go:360-385) over the successive scans;
    `mk` is the `makeIndex` closure; state `prevEnd, n` -/
def r2FindAllLoop (rtl : Bool) (mk : Nat → Nat → Nat × Nat) (err : Bool) :
    List RMatch → Int → Int → Call (List (Nat × Nat))
  | [], _, n => if n = 0 then .val [] else if err then .error else .val []
  | m :: rest, prevEnd, n =>
    if n = 0 then .val []
    else if m.len ≠ 0 ∨ (m.index : Int) ≠ prevEnd then
      (r2FindAllLoop rtl mk err rest (keptEnd rtl m) (if n > 0 then n - 1 else n)).map (mk m.index m.len :: ·)
    else r2FindAllLoop rtl mk err rest prevEnd n

/-- `findAllRunesIndex`: `if len(out) == 0 { return nil, nil }` -/
def r2FindAll (a : Ans) (mk : Nat → Nat → Nat × Nat) (n : Int) : Call (Option (List (Nat × Nat))) :=
  if n = 0 then .val none
  else (r2FindAllLoop a.rtl mk a.err a.ms (-1) n).map nilIfEmpty

/-- `re.re.FindAllRunesIndex(runes, n)`: rune index pairs -/
def r2FindAllRunesIndex (a : Ans) (n : Int) : Call (Option (List (Nat × Nat))) :=
  r2FindAll a (fun i l => (i, i + l)) n

/-- `re.re.FindAllStringIndex(s, n)`: byte index pairs through `newStringByteMapper(s)` -/
def r2FindAllStringIndex (a : Ans) (d : List (Int × Nat)) (n : Int) : Call (Option (List (Nat × Nat))) :=
  let mp := newStringByteMapper d
  r2FindAll a (fun i l => (mapIndex mp i, mapIndex mp (i + l))) n

/-! ### helpers of compat/regexp.go -/

/-- `findStringMatch` / `findRunesMatch`: the first match, `must(err)` -/
def findFirst (a : Ans) : Res (Option RMatch) := must (nextCall a.ms a.err)

/-- `captureIndex(c)`: `start, length := c.ByteRange(); []int{start, start + length}` on a match of
    string input (`stringByteOffsets`, built lazily, nil = identity) -/
def captureIndex (d : List (Int × Nat)) (c : Nat × Nat) : Res (List Int) :=
  match byteRange (stringByteOffsets d) c.1 c.2 with
  | some (start, length) => .ok [(start : Int), ((start + length : Nat) : Int)]
  | none => .panic

/-- `captureString(s, c)`: `start, length := c.ByteRange(); s[start : start+length]` — the bytes of the
    input, not a re-encoding of the runes -/
def captureString (segs : List (Int × List Nat)) (c : Nat × Nat) : Res (List Nat) :=
  match byteRange (stringByteOffsets (decoded segs)) c.1 c.2 with
  | some (start, length) => sliceStr (bytesOf segs) (start : Int) ((start + length : Nat) : Int)
  | none => .panic

/-- `runeCaptureIndex(c, offsets)`: `[]int{offsets[c.RuneIndex], offsets[c.RuneIndex+c.RuneLength]}` -/
def runeCaptureIndex (offsets : List Nat) (c : Nat × Nat) : Res (List Int) :=
  (tableAt offsets c.1).bind fun s => (tableAt offsets (c.1 + c.2)).map fun (e : Nat) => [(s : Int), (e : Int)]

/-- `matchStrings(s, m)`: one string per group, `""` for a group without capture -/
def matchStrings (segs : List (Int × List Nat)) (m : RMatch) : Res (List (List Nat)) :=
  Res.mapM (fun g => match g with
    | none => .ok []
    | some c => captureString segs c) m.groups

/-- the `out[2*i], out[2*i+1] = …` loop of `matchIndexes` / `matchRuneIndexes` over a per-capture
    conversion `conv` -/
def groupIndexes (conv : Nat × Nat → Res (List Int)) : List (Option (Nat × Nat)) → Res (List Int)
  | [] => .ok []
  | none :: gs => (groupIndexes conv gs).map fun t => (-1) :: (-1) :: t
  | some c :: gs =>
    (conv c).bind fun idx =>
      match idx with
      | s :: e :: _ => (groupIndexes conv gs).map fun t => s :: e :: t
      | _ => .panic                                               -- idx[0], idx[1]

/-- `matchIndexes(m)` -/
def matchIndexes (d : List (Int × Nat)) (m : RMatch) : Res (List Int) := groupIndexes (captureIndex d) m.groups

/-- `matchRuneIndexes(m, offsets)` -/
def matchRuneIndexes (offsets : List Nat) (m : RMatch) : Res (List Int) :=
  groupIndexes (runeCaptureIndex offsets) m.groups

/-- a rune reader: the `(rune, size)` results of `ReadRune` until it fails, and whether that failure
    is `io.EOF` (`fail = false`) or any other error -/
structure Reader where
  items : List (Int × Nat)
  fail : Bool
deriving DecidableEq, Repr

/-- `readRunes(r)`: on ANY error of `ReadRune` (not only `io.EOF`: like `inputReader.step` of the
    regexp package) it returns `(text, offsets, nil)` — what was read; its error result is always nil,
    so the `must(err)` behind it never panics.  `offsets[i]` = sum of the sizes `ReadRune` reported
    for the first `i` runes, whatever they are. -/
def readRunesR (r : Reader) : Call (List Int × List Nat) := .val (readRunes r.items)

/-- the loop of `forEachStringMatch` (compat/regexp.go:288-308); `ms` is what is left of the sequence
    with the current match `m` at its head, state `prevEnd, n`.  Result: what `f` returned for the
    matches handed to it, in order. -/
def forEachLoop {β : Type} (rtl : Bool) (f : RMatch → Res β) (err : Bool) : List RMatch → Int → Int → Res (List β)
  | [], _, _ => if err then .panic else .ok []                     -- `must(err)` of the call that ended the sequence
  | m :: rest, prevEnd, n =>
    if n = 0 then .ok []
    else if m.len ≠ 0 ∨ (m.index : Int) ≠ prevEnd then
      (f m).bind fun x =>
        if n > 0 then
          if n - 1 = 0 then .ok [x]                                -- `n--; if n == 0 { break }`
          else (forEachLoop rtl f err rest (keptEnd rtl m) (n - 1)).map (x :: ·)
        else (forEachLoop rtl f err rest (keptEnd rtl m) n).map (x :: ·)
    else forEachLoop rtl f err rest prevEnd n

/-- `forEachStringMatch(s, n, f)` -/
def forEachStringMatch {β : Type} (a : Ans) (n : Int) (f : RMatch → Res β) : Res (List β) :=
  forEachLoop a.rtl f a.err a.ms (-1) n

/-! ### the 21 methods -/

/-- `MatchString(s)` -/
def MatchString (a : Ans) : Res Bool := must (r2IsMatch a)

/-- `Match(b)` = `MatchString(string(b))` -/
def Match (a : Ans) : Res Bool := MatchString a

/-- `MatchReader(r)`: `readRunes`, `must`, `MatchRunes`, `must` -/
def MatchReader (a : Ans) (r : Reader) : Res Bool :=
  (must (readRunesR r)).bind fun _ => must (r2IsMatch a)

/-- `FindStringIndex(s)` -/
def FindStringIndex (a : Ans) (segs : List (Int × List Nat)) : Res (Option (List Int)) :=
  (findFirst a).bind fun m =>
    match m with
    | none => .ok none
    | some m => (captureIndex (decoded segs) (m.index, m.len)).map some

/-- `FindIndex(b)`: `findStringMatch(string(b))`, `captureIndex` -/
def FindIndex (a : Ans) (b : Option (List (Int × List Nat))) : Res (Option (List Int)) :=
  FindStringIndex a (segsOf b)

/-- `Find(b)`: `loc := re.FindIndex(b); if loc == nil { return nil }; return b[loc[0]:loc[1]]` -/
def Find (a : Ans) (b : Option (List (Int × List Nat))) : Res (Option (List Nat)) :=
  (FindIndex a b).bind fun loc =>
    match loc with
    | none => .ok none
    | some (lo :: hi :: _) => sliceBytes (bytesOfB b) lo hi
    | some _ => .panic

/-- `FindString(s)`: `""` when there is no match -/
def FindString (a : Ans) (segs : List (Int × List Nat)) : Res (List Nat) :=
  (findFirst a).bind fun m =>
    match m with
    | none => .ok []
    | some m => captureString segs (m.index, m.len)

/-- `FindReaderIndex(r)` -/
def FindReaderIndex (a : Ans) (r : Reader) : Res (Option (List Int)) :=
  (must (readRunesR r)).bind fun to =>
    (findFirst a).bind fun m =>
      match m with
      | none => .ok none
      | some m => (runeCaptureIndex to.2 (m.index, m.len)).map some

/-- `FindStringSubmatchIndex(s)` -/
def FindStringSubmatchIndex (a : Ans) (segs : List (Int × List Nat)) : Res (Option (List Int)) :=
  (findFirst a).bind fun m =>
    match m with
    | none => .ok none
    | some m => (matchIndexes (decoded segs) m).map some

/-- `FindSubmatchIndex(b)` = `FindStringSubmatchIndex(string(b))` -/
def FindSubmatchIndex (a : Ans) (b : Option (List (Int × List Nat))) : Res (Option (List Int)) :=
  FindStringSubmatchIndex a (segsOf b)

/-- the `for i := range out { start, end := loc[2*i], loc[2*i+1]; if start >= 0 { out[i] = b[start:end] } }`
    loop of `FindSubmatch` / `FindAllSubmatch` (`len(loc)/2` elements: an odd tail is not read) -/
def submatchSlices (b : Option (List Nat)) : List Int → Res (List (Option (List Nat)))
  | s :: e :: rest =>
    (if s ≥ 0 then sliceBytes b s e else .ok none).bind fun x => (submatchSlices b rest).map (x :: ·)
  | _ => .ok []

/-- `FindSubmatch(b)` -/
def FindSubmatch (a : Ans) (b : Option (List (Int × List Nat))) : Res (Option (List (Option (List Nat)))) :=
  (FindSubmatchIndex a b).bind fun loc =>
    match loc with
    | none => .ok none
    | some loc => (submatchSlices (bytesOfB b) loc).map some

/-- `FindStringSubmatch(s)` -/
def FindStringSubmatch (a : Ans) (segs : List (Int × List Nat)) : Res (Option (List (List Nat))) :=
  (findFirst a).bind fun m =>
    match m with
    | none => .ok none
    | some m => (matchStrings segs m).map some

/-- `FindReaderSubmatchIndex(r)` -/
def FindReaderSubmatchIndex (a : Ans) (r : Reader) : Res (Option (List Int)) :=
  (must (readRunesR r)).bind fun to =>
    (findFirst a).bind fun m =>
      match m with
      | none => .ok none
      | some m => (matchRuneIndexes to.2 m).map some

/-- `FindAllStringIndex(s, n)`: regexp2's `FindAllStringIndex`, `must` -/
def FindAllStringIndex (a : Ans) (segs : List (Int × List Nat)) (n : Int) : Res (Option (List (List Int))) :=
  (must (r2FindAllStringIndex a (decoded segs) n)).map fun locs =>
    locs.map fun l => l.map fun p => [(p.1 : Int), (p.2 : Int)]

/-- `FindAllIndex(b, n)`: `bytesToRunesAndOffsets`, regexp2's `FindAllRunesIndex`, `must`, then
    `loc[0] = byteOffsets[loc[0]]; loc[1] = byteOffsets[loc[1]]` unless the table is nil -/
def FindAllIndex (a : Ans) (b : Option (List (Int × List Nat))) (n : Int) : Res (Option (List (List Int))) :=
  let byteOffsets := (bytesToRunesAndOffsets (decoded (segsOf b))).2
  (must (r2FindAllRunesIndex a n)).bind fun locs =>
    match locs with
    | none => .ok none                                         -- ranging over a nil `locs` does nothing
    | some locs =>
      match byteOffsets with
      | none => .ok (some (locs.map fun p => [(p.1 : Int), (p.2 : Int)]))
      | some t =>
        (Res.mapM (fun p : Nat × Nat =>
          (tableAt t p.1).bind fun s => (tableAt t p.2).map fun (e : Nat) => [(s : Int), (e : Int)]) locs).map some

/-- `FindAll(b, n)` -/
def FindAll (a : Ans) (b : Option (List (Int × List Nat))) (n : Int) : Res (Option (List (Option (List Nat)))) :=
  (FindAllIndex a b n).bind fun locs =>
    match locs with
    | none => .ok none
    | some locs =>
      (Res.mapM (fun loc : List Int =>
        match loc with
        | lo :: hi :: _ => sliceBytes (bytesOfB b) lo hi
        | _ => .panic) locs).map some

/-- `FindAllString(s, n)`: `if n == 0 { return nil }; var out []string; forEachStringMatch(… append …)` -/
def FindAllString (a : Ans) (segs : List (Int × List Nat)) (n : Int) : Res (Option (List (List Nat))) :=
  if n = 0 then .ok none
  else (forEachStringMatch a n fun m => captureString segs (m.index, m.len)).map nilIfEmpty

/-- `FindAllStringSubmatchIndex(s, n)` -/
def FindAllStringSubmatchIndex (a : Ans) (segs : List (Int × List Nat)) (n : Int) : Res (Option (List (List Int))) :=
  if n = 0 then .ok none
  else (forEachStringMatch a n (matchIndexes (decoded segs))).map nilIfEmpty

/-- `FindAllSubmatchIndex(b, n)` = `FindAllStringSubmatchIndex(string(b), n)` -/
def FindAllSubmatchIndex (a : Ans) (b : Option (List (Int × List Nat))) (n : Int) : Res (Option (List (List Int))) :=
  FindAllStringSubmatchIndex a (segsOf b) n

/-- `FindAllSubmatch(b, n)` -/
def FindAllSubmatch (a : Ans) (b : Option (List (Int × List Nat))) (n : Int) :
    Res (Option (List (List (Option (List Nat))))) :=
  (FindAllSubmatchIndex a b n).bind fun locs =>
    match locs with
    | none => .ok none
    | some locs => (Res.mapM (submatchSlices (bytesOfB b)) locs).map some

/-- `FindAllStringSubmatch(s, n)` -/
def FindAllStringSubmatch (a : Ans) (segs : List (Int × List Nat)) (n : Int) : Res (Option (List (List (List Nat)))) :=
  if n = 0 then .ok none
  else (forEachStringMatch a n (matchStrings segs)).map nilIfEmpty

/-! ### the specification: Go's `regexp` package

`ff pos` is `re.doExecute(nil, b, s, pos, re.prog.NumCap, nil)` followed by `re.pad`: the leftmost
match at or after byte position `pos` with the `(start, end)` byte pairs of the groups 1, 2, … (`none`
= the `-1, -1` pair of a group that did not participate).  For the reader methods `ff 0` is the
search in the text read, offsets counting the sizes `ReadRune` reported. -/

/-- one match of the standard library, byte offsets -/
structure SMatch where
  lo : Nat
  hi : Nat
  caps : List (Option (Nat × Nat))
deriving DecidableEq, Repr

namespace Std

/-- `result[2*n:2*n+2]` for n = 0, 1, …: the padded capture slice -/
def locOf (m : SMatch) : List Int :=
  (m.lo : Int) :: (m.hi : Int) :: m.caps.flatMap fun g =>
    match g with
    | none => [-1, -1]
    | some (s, e) => [(s : Int), (e : Int)]

/-- all groups, group 0 first -/
def groupsOf (m : SMatch) : List (Option (Nat × Nat)) := some (m.lo, m.hi) :: m.caps

/-- `b[lo:hi:hi]` (nil stays nil) / `s[lo:hi]`, for offsets the library itself produced -/
def textB (b : Option (List Nat)) (lo hi : Nat) : Option (List Nat) := b.map fun l => (l.drop lo).take (hi - lo)

def textS (s : List Nat) (lo hi : Nat) : List Nat := (s.drop lo).take (hi - lo)

/-- "reports whether … contains any match" -/
def Match (ff : Nat → Option SMatch) : Bool := (ff 0).isSome

/-- "a two-element slice of integers defining the location of the leftmost match … nil indicates no match" -/
def FindIndex (ff : Nat → Option SMatch) : Option (List Int) := (ff 0).map fun m => [(m.lo : Int), (m.hi : Int)]

/-- "a slice holding the text of the leftmost match in b … nil indicates no match" -/
def Find (ff : Nat → Option SMatch) (b : Option (List Nat)) : Option (List Nat) :=
  match ff 0 with
  | none => none
  | some m => textB b m.lo m.hi

/-- "If there is no match, the return value is an empty string" -/
def FindString (ff : Nat → Option SMatch) (s : List Nat) : List Nat :=
  match ff 0 with
  | none => []
  | some m => textS s m.lo m.hi

/-- "result[2*n:2*n+2] identifies the indexes of the nth submatch … If an index is negative … that
    subexpression did not match"; nil = no match -/
def FindSubmatchIndex (ff : Nat → Option SMatch) : Option (List Int) := (ff 0).map locOf

/-- text of the match and of the submatches; "if … text is nil, it means that subexpression did not
    match" -/
def submatchB (b : Option (List Nat)) (m : SMatch) : List (Option (List Nat)) :=
  (groupsOf m).map fun g =>
    match g with
    | none => none
    | some (s, e) => textB b s e

def submatchS (s : List Nat) (m : SMatch) : List (List Nat) :=
  (groupsOf m).map fun g =>
    match g with
    | none => []
    | some (lo, hi) => textS s lo hi

def FindSubmatch (ff : Nat → Option SMatch) (b : Option (List Nat)) : Option (List (Option (List Nat))) :=
  (ff 0).map (submatchB b)

def FindStringSubmatch (ff : Nat → Option SMatch) (s : List Nat) : Option (List (List Nat)) :=
  (ff 0).map (submatchS s)

/-- `inputString.step(pos)` / `inputBytes.step(pos)`: the width of the rune at byte position `pos`, 0 at
    the end of the text (a position inside a multi-byte rune decodes as one invalid byte: width 1) -/
def stepWidth : List (Int × Nat) → Nat → Nat
  | [], _ => 0
  | s :: rest, pos => if pos = 0 then s.2 else if pos < s.2 then 1 else stepWidth rest (pos - s.2)

/-- the loop of `(*Regexp).allMatches` (regexp.go:769-811) in byte positions; state
    `pos, i, prevMatchEnd`; `endp` = `len(s)`, `cap` = the limit `n` (already `len+1` when negative);
    `fuel` bounds the iterations (`pos` grows every time).  Result: the delivered matches. -/
def allLoop (ff : Nat → Option SMatch) (d : List (Int × Nat)) (endp cap : Nat) : Nat → Nat → Nat → Int → List SMatch
  | 0, _, _, _ => []
  | fuel + 1, pos, i, prevMatchEnd =>
    if i < cap ∧ pos ≤ endp then
      match ff pos with
      | none => []
      | some m =>
        if m.hi = pos then
          -- an empty match at pos: not accepted right after a previous match; step over one rune
          let width := stepWidth d pos
          let pos' := if width > 0 then pos + width else endp + 1
          if (m.lo : Int) = prevMatchEnd then allLoop ff d endp cap fuel pos' i (m.hi : Int)
          else m :: allLoop ff d endp cap fuel pos' (i + 1) (m.hi : Int)
        else m :: allLoop ff d endp cap fuel m.hi (i + 1) (m.hi : Int)
    else []

/-- `if n < 0 { n = len(s) + 1 }; re.allMatches(s, b, n, deliver)`: the delivered matches -/
def allMatches (ff : Nat → Option SMatch) (d : List (Int × Nat)) (n : Int) : List SMatch :=
  allLoop ff d (byteLen d) (if n < 0 then byteLen d + 1 else n.toNat) (byteLen d + 2) 0 0 (-1)

/-- "the 'All' version of FindIndex … A return value of nil indicates no match" -/
def FindAllIndex (ff : Nat → Option SMatch) (d : List (Int × Nat)) (n : Int) : Option (List (List Int)) :=
  nilIfEmpty ((allMatches ff d n).map fun m => [(m.lo : Int), (m.hi : Int)])

def FindAll (ff : Nat → Option SMatch) (d : List (Int × Nat)) (b : Option (List Nat)) (n : Int) :
    Option (List (Option (List Nat))) :=
  nilIfEmpty ((allMatches ff d n).map fun m => textB b m.lo m.hi)

def FindAllString (ff : Nat → Option SMatch) (d : List (Int × Nat)) (s : List Nat) (n : Int) : Option (List (List Nat)) :=
  nilIfEmpty ((allMatches ff d n).map fun m => textS s m.lo m.hi)

def FindAllSubmatchIndex (ff : Nat → Option SMatch) (d : List (Int × Nat)) (n : Int) : Option (List (List Int)) :=
  nilIfEmpty ((allMatches ff d n).map locOf)

def FindAllSubmatch (ff : Nat → Option SMatch) (d : List (Int × Nat)) (b : Option (List Nat)) (n : Int) :
    Option (List (List (Option (List Nat)))) :=
  nilIfEmpty ((allMatches ff d n).map (submatchB b))

def FindAllStringSubmatch (ff : Nat → Option SMatch) (d : List (Int × Nat)) (s : List Nat) (n : Int) :
    Option (List (List (List Nat))) :=
  nilIfEmpty ((allMatches ff d n).map (submatchS s))

end Std

/-! ### "the two engines agree on matches" -/

/-- byte offset of rune index `i` -/
def off (d : List (Int × Nat)) (i : Nat) : Nat := byteOffsetSpec d i

/-- a regexp2 match seen in byte offsets -/
def toStd (d : List (Int × Nat)) (m : RMatch) : SMatch :=
  { lo := off d m.index, hi := off d (m.index + m.len),
    caps := m.caps.map fun g => g.map fun c => (off d c.1, off d (c.1 + c.2)) }

/-- the match and all its captures lie inside the `n` runes of the input (C08 `captures_in_bounds`) -/
def RMatch.Valid (n : Nat) (m : RMatch) : Prop :=
  m.index + m.len ≤ n ∧ ∀ g ∈ m.caps, ∀ c, g = some c → c.1 + c.2 ≤ n

instance (n : Nat) (m : RMatch) : Decidable (m.Valid n) := by unfold RMatch.Valid; infer_instance

/-- the byte position at which the search for the match after `m` starts: the end of `m`, one rune
    further after an empty match, beyond the input when that rune does not exist -/
def nextPos (d : List (Int × Nat)) (m : RMatch) : Nat :=
  if m.len ≠ 0 then off d (m.index + m.len)
  else if m.index < d.length then off d (m.index + 1)
  else byteLen d + 1

/-- **Searching from byte position `pos`, the standard library walks through regexp2's matches.**
    `Walk d ff pos ms`: the sequence `ms` (rune offsets) is what regexp2 still has to deliver when
    the standard library's search stands at `pos`: either both are finished (`ff pos` finds nothing,
    or `pos` is beyond the input), or the next regexp2 match `m`, seen in byte offsets, is what the
    standard library finds from `pos` and from every position up to the start of `m` (the leftmost
    match at or after `q` does not depend on `q` as long as `q` does not pass it), and the two go on
    alike behind `m`. -/
inductive Walk (d : List (Int × Nat)) (ff : Nat → Option SMatch) : Nat → List RMatch → Prop where
  | stop (pos : Nat) : (pos ≤ byteLen d → ff pos = none) → Walk d ff pos []
  | step (pos : Nat) (m : RMatch) (rest : List RMatch) :
      pos ≤ off d m.index → (∀ q, pos ≤ q → q ≤ off d m.index → ff q = some (toStd d m)) →
      Walk d ff (nextPos d m) rest → Walk d ff pos (m :: rest)

/-- **The single hypothesis: the two engines agree on matches.**  For the input decoded as `d`,
    regexp2's answer `a` (match sequence with groups, rune indices) and the standard library's search
    `ff` (byte positions): no match-time error, left-to-right, every regexp2 match inside the input,
    and from the start of the input the standard library walks through regexp2's sequence. -/
structure EnginesAgree (d : List (Int × Nat)) (a : Ans) (ff : Nat → Option SMatch) : Prop where
  noErr : a.err = false
  ltr : a.rtl = false
  valid : ∀ m ∈ a.ms, m.Valid d.length
  walk : Walk d ff 0 a.ms

end RegexVerif.Compat
