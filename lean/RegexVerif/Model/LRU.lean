/-
Model of the replacement cache of `regexp.go`: `replacerDataCache` (`container/list` + map, guarded by
`mu`), its methods `get` / `add`, and `(*Regexp).getReplacerData`.

The Go structure keeps a doubly linked list `ll` (front = most recently used) and a map from key to
list element.  The model is the list of `(key, value)` pairs, most recent first; the map is the
function "first entry with this key" (`List.lookup`).  With the no-duplicate-keys invariant (which
`add` maintains and `Props/C12` proves) the two views coincide.

Keys `κ` are replacement strings, values `ν` are parsed replacements (`*syntax.ReplacerData`);
parsing (`syntax.NewReplacerData`) is a parameter of the model.
-/
namespace RegexVerif.LRU

variable {κ ν ε : Type} [DecidableEq κ]

/-- `replacerDataCache` without its mutex: `ll` as a list of entries (front first) and `maxSize`. -/
structure Cache (κ ν : Type) where
  entries : List (κ × ν)
  maxSize : Nat
  deriving Repr

/-- `newReplacerDataCache(maxSize)` -/
def empty (maxSize : Nat) : Cache κ ν := { entries := [], maxSize := maxSize }

/-- the map `cache[key]` followed by `.Value.data` -/
def lookup (k : κ) : List (κ × ν) → Option ν
  | [] => none
  | e :: es => if e.1 = k then some e.2 else lookup k es

/-- `ll.Remove(ele)` for the element the map holds for `k`: the first entry with that key -/
def removeKey (k : κ) : List (κ × ν) → List (κ × ν)
  | [] => []
  | e :: es => if e.1 = k then es else e :: removeKey k es

def keys (es : List (κ × ν)) : List κ := es.map (·.1)

/-- `(*replacerDataCache).get`: a hit moves the element to the front. -/
def get (c : Cache κ ν) (k : κ) : Option ν × Cache κ ν :=
  match lookup k c.entries with
  | some v => (some v, { c with entries := (k, v) :: removeKey k c.entries })
  | none => (none, c)

/-- `(*replacerDataCache).add`: an existing key gets the new data and moves to the front; a new key
    is pushed at the front and, if the list is now longer than `maxSize` (> 0), the back element is
    removed from the list and from the map. -/
def add (c : Cache κ ν) (k : κ) (v : ν) : Cache κ ν :=
  match lookup k c.entries with
  | some _ => { c with entries := (k, v) :: removeKey k c.entries }
  | none =>
    let es := (k, v) :: c.entries
    if c.maxSize > 0 ∧ es.length > c.maxSize then { c with entries := es.dropLast }
    else { c with entries := es }

/-- `(*Regexp).getReplacerData`.  `cache = none` models `re.replaceCache == nil`; `cacheable k` is
    `re.optimizations.cacheReplacerData(replacement)` (byte-length limit).  A parse error is returned
    without touching the cache. -/
def getReplacerData (parse : κ → Except ε ν) (cacheable : κ → Bool)
    (cache : Option (Cache κ ν)) (k : κ) : Except ε ν × Option (Cache κ ν) :=
  match cache with
  | none => (parse k, none)
  | some c =>
    if cacheable k then
      match get c k with
      | (some v, c') => (.ok v, some c')
      | (none, c') =>
        match parse k with
        | .error e => (.error e, some c')
        | .ok v => (.ok v, some (add c' k v))
    else (parse k, some c)

/-- the key that `add c k _` removes from the cache, if any: the least recently used one -/
def evicted (c : Cache κ ν) (k : κ) : Option κ :=
  match lookup k c.entries with
  | some _ => none
  | none => if c.maxSize > 0 ∧ c.entries.length + 1 > c.maxSize then (k :: keys c.entries).getLast? else none

end RegexVerif.LRU
