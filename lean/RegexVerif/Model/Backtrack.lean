/-
The executable backtracking matcher: continuation-passing, depth-first, first success wins.
It is what the driver runs; `Lemmas/Backtrack.lean` proves it returns exactly the highest-priority
success of the specification `Spec.m` (`run_eq`).
-/
import RegexVerif.Model.Spec

namespace RegexVerif.Spec

/-- continuation-passing counterpart of `iter` -/
def iterK {α : Type} (f : St → (St → Option α) → Option α) (lzy : Bool) (lo : Nat) (hi : Option Nat) :
    Nat → Nat → St → (St → Option α) → Option α
  | 0, cnt, st, k => if lo ≤ cnt then k st else none
  | fuel + 1, cnt, st, k =>
    let stop : Unit → Option α := fun _ => if lo ≤ cnt then k st else none
    let more : Unit → Option α := fun _ =>
      if canGo hi cnt then
        f st (fun st' => if st'.pos == st.pos && lo ≤ cnt + 1 then k st' else iterK f lzy lo hi fuel (cnt + 1) st' k)
      else none
    if lzy then (stop ()).orElse more else (more ()).orElse stop

/-- `run e p rtl st k`: try the ways `p` can match from `st` in priority order, feeding each to
    the continuation `k`; the first `some` wins. -/
def run (e : Env) : Pat → Bool → {α : Type} → St → (St → Option α) → Option α
  | .empty, _, _, st, k => k st
  | .nothing, _, _, _, _ => none
  | .chr p, rtl, _, st, k =>
    match stepChar e rtl st.pos with
    | some (r, pos') => if p.test e r then k { st with pos := pos' } else none
    | none => none
  | .anchor a, _, _, st, k => if anchorHolds e a st.pos then k st else none
  | .seq a b, rtl, _, st, k =>
    if rtl then run e b rtl st (fun st' => run e a rtl st' k) else run e a rtl st (fun st' => run e b rtl st' k)
  | .alt a b, rtl, _, st, k => (run e a rtl st k).orElse (fun _ => run e b rtl st k)
  | .quant lzy lo hi body, rtl, _, st, k =>
    iterK (fun st k => run e body rtl st k) lzy lo hi (e.n + lo + 1) 0 st k
  | .cap g body, rtl, _, st, k =>
    run e body rtl st (fun st' =>
      k { st' with caps := st'.caps ++ [(g, min st.pos st'.pos, max st.pos st'.pos - min st.pos st'.pos)] })
  | .look behind neg body, _, _, st, k =>
    match run e body behind st some with
    | none => if neg then k st else none
    | some st' => if neg then none else k { pos := st.pos, caps := st'.caps }
  | .atomic body, rtl, _, st, k =>
    match run e body rtl st some with
    | none => none
    | some st' => k st'
  | .ref g ci, rtl, _, st, k =>
    match lastCap st.caps g with
    | none => none
    | some (s, len) =>
      match refMatch e ci rtl s len st.pos with
      | some pos' => k { st with pos := pos' }
      | none => none
  | .refCond g yes no, rtl, _, st, k => if hasCap st.caps g then run e yes rtl st k else run e no rtl st k
  | .exprCond c yes no, rtl, _, st, k =>
    match run e c rtl st some with
    | some st' => run e yes rtl { pos := st.pos, caps := st'.caps } k
    | none => run e no rtl st k

/-- one attempt with the executable matcher -/
def attemptRun (e : Env) (p : Pat) (rtl : Bool) (i : Nat) : Option St :=
  run e (.cap 0 p) rtl { pos := i, caps := [] } some

/-- find with the executable matcher -/
def findRun (e : Env) (p : Pat) (rtl : Bool) (start : Nat) : Option St :=
  (scanOrder rtl start e.n).findSome? (attemptRun e p rtl)

end RegexVerif.Spec
