/-
Model of the compile-time analyses of regexp2 whose results are published in
`syntax.FindOptimizations` (C04), on the specification's pattern AST (`Spec.Pat`), i.e. on the image
of the engine's own reduced tree under the harness conversion `gen.FromGoTree`:

* `syntax/tree.go`           `addMinLength`, `multiplyMinLength`, `ComputeMinLength`,
                             `addMaxLength`, `multiplyMaxLength`, `computeMaxLength`
* `syntax/prefix.go`         `findLeadingOrTrailingAnchor`
* `syntax/prefixanalyzer.go` `findPrefix`/`tryFindPrefix` (left-to-right), `commonPrefixLen`
* `syntax/optimizations.go`  `newFindOptimizationsForNode`: the right-to-left `Bol` filter on the
                             published leading anchor

Conventions of the conversion that the model relies on: a character loop (`Oneloop`, `Setlazy`, …) is
`quant` over a `chr`; its atomic variants are `atomic (quant …)`; `Multi` is a right-nested `seq` of
`chr (one _ false)`; n-ary `Concatenate`/`Alternate` are right-nested binary `seq`/`alt` in PATTERN
order; `Capture` is `cap`; `Empty` and `UpdateBumpalong` are `empty`; `-1`/`NtUnknown` are `none`.
Go `int` is 64 bits and every count in a tree is a non-negative int32, so `Nat` arithmetic is exact.
-/
import RegexVerif.Model.Spec

namespace RegexVerif.Facts
open RegexVerif.Spec

/-- `math.MaxInt32` -/
def maxInt32 : Nat := 2147483647

/-- `const maxMinLength = math.MaxInt32 - 1` -/
def maxMinLength : Nat := 2147483646

/-! ### minimum length (`ComputeMinLength`) -/

/-- `addMinLength` -/
def addMinLength (x y : Nat) : Nat :=
  if x ≥ maxMinLength ∨ y ≥ maxMinLength ∨ x > maxMinLength - y then maxMinLength else x + y

/-- `multiplyMinLength` -/
def multiplyMinLength (x y : Nat) : Nat :=
  if x = 0 ∨ y = 0 then 0
  else if x ≥ maxMinLength ∨ y ≥ maxMinLength ∨ x > maxMinLength / y then maxMinLength
  else x * y

/-- is the pattern a single-character node (`One`, `Notone`, `Set`)? -/
def isChr : Pat → Bool
  | .chr _ => true
  | _ => false

/-- `(*RegexNode).ComputeMinLength` -/
def minLen : Pat → Nat
  | .chr _ => 1                                   -- One, Notone, Set
  | .quant _ lo _ body =>
    if isChr body then lo                         -- Oneloop … Setlazy (and, under `atomic`, the atomic loops): n.M
    else multiplyMinLength lo (minLen body)       -- Loop, Lazyloop
  | .alt a b => min (minLen a) (minLen b)         -- Alternate
  | .refCond _ yes no => min (minLen yes) (minLen no)
  | .exprCond _ yes no => min (minLen yes) (minLen no)
  | .seq a b => addMinLength (minLen a) (minLen b) -- Concatenate (and Multi: one per character)
  | .atomic b => minLen b
  | .cap _ b => minLen b
  | .empty => 0
  | .nothing => 0
  | .anchor _ => 0
  | .look _ _ _ => 0
  | .ref _ _ => 0

/-! ### maximum length (`computeMaxLength`; `-1` is `none`) -/

/-- `addMaxLength` on non-negative arguments -/
def addMaxLength (x y : Nat) : Option Nat :=
  if x ≥ maxInt32 ∨ y ≥ maxInt32 ∨ x > (maxInt32 - 1) - y then none else some (x + y)

/-- `multiplyMaxLength` on non-negative arguments -/
def multiplyMaxLength (x y : Nat) : Option Nat :=
  if x = 0 ∨ y = 0 then some 0
  else if x ≥ maxInt32 ∨ y ≥ maxInt32 ∨ x > (maxInt32 - 1) / y then none
  else some (x * y)

/-- `(*RegexNode).computeMaxLength` -/
def maxLen : Pat → Option Nat
  | .chr _ => some 1
  | .quant _ _ hi body =>
    match hi with
    | none => none                                -- n.N == math.MaxInt32
    | some h =>
      if isChr body then some h                   -- character loops: n.N
      else match maxLen body with                 -- Loop, Lazyloop
        | some c => multiplyMaxLength h c
        | none => none
  | .alt a b =>
    match maxLen a, maxLen b with
    | some x, some y => some (max x y)
    | _, _ => none
  | .refCond _ yes no =>
    match maxLen yes, maxLen no with
    | some x, some y => some (max x y)
    | _, _ => none
  | .exprCond _ yes no =>
    match maxLen yes, maxLen no with
    | some x, some y => some (max x y)
    | _, _ => none
  | .seq a b =>
    match maxLen a, maxLen b with
    | some x, some y => addMaxLength x y
    | _, _ => none
  | .atomic b => maxLen b
  | .cap _ b => maxLen b
  | .empty => some 0
  | .nothing => some 0
  | .anchor _ => some 0
  | .look _ _ _ => some 0
  | .ref _ _ => none

/-! ### leading and trailing anchors (`findLeadingOrTrailingAnchor`) -/

/-- the node types `findLeadingOrTrailingAnchor` returns: `Bol, Eol, Beginning, Start, EndZ, End,
    Boundary` (and `ECMABoundary`, which the conversion does not produce); `Nonboundary` is not one. -/
def countedAnchor : Anchor → Option Anchor
  | .bol => some .bol
  | .eol => some .eol
  | .beginning => some .beginning
  | .start => some .start
  | .endz => some .endz
  | .end => some .end
  | .boundary => some .boundary
  | .nonboundary => none
  | .begz => none

/-- children a concatenation skips over when it looks for its first/last child: `Empty`, `PosLook`,
    `NegLook` (a `seq` of such children is the tail of an n-ary concatenation made of them) -/
def skippable : Pat → Bool
  | .empty => true
  | .look _ _ _ => true
  | .seq a b => skippable a && skippable b
  | _ => false

/-- `findLeadingOrTrailingAnchor` from the pattern's start (`fromEnd = false`) or end (`true`) -/
def edgeAnchor (fromEnd : Bool) : Pat → Option Anchor
  | .anchor a => countedAnchor a
  | .atomic b => edgeAnchor fromEnd b
  | .cap _ b => edgeAnchor fromEnd b
  | .seq a b =>
    if fromEnd then (if skippable b then edgeAnchor fromEnd a else edgeAnchor fromEnd b)
    else (if skippable a then edgeAnchor fromEnd b else edgeAnchor fromEnd a)
  | .alt a b =>
    match edgeAnchor fromEnd a with
    | none => none
    | some x => if edgeAnchor fromEnd b = some x then some x else none
  | _ => none

/-- `findLeadingOrTrailingAnchor(root, true)`: the first child in EMISSION order leads, which for a
    right-to-left pattern is the last child in pattern order -/
def leadingAnchor (rtl : Bool) (p : Pat) : Option Anchor := edgeAnchor rtl p

/-- `findLeadingOrTrailingAnchor(root, false)` -/
def trailingAnchor (rtl : Bool) (p : Pat) : Option Anchor := edgeAnchor (!rtl) p

/-- the published `FindOptimizations.LeadingAnchor`: `Bol` is filtered out for right-to-left -/
def publishedLeadingAnchor (rtl : Bool) (p : Pat) : Option Anchor :=
  match leadingAnchor rtl p with
  | some .bol => if rtl then none else some .bol
  | r => r

/-! ### leading literal prefix (`findPrefix` / `tryFindPrefix`, left-to-right)

The Go code appends to a `bytes.Buffer`, so a prefix is a list of BYTES; `utf8` is the encoder
(`WriteRune`, `string([]rune)`), a parameter.  The result pair is (bytes appended, the function's
return value "continue with the following nodes"). -/

/-- byte-wise longest common prefix (`commonPrefixLen` applied) -/
def commonPrefix : List Nat → List Nat → List Nat
  | a :: as, b :: bs => if a = b then a :: commonPrefix as bs else []
  | _, _ => []

/-- `k` copies of `l` -/
def rep : Nat → List Nat → List Nat
  | 0, _ => []
  | k + 1, l => l ++ rep k l

/-- case-sensitive single character `One` -/
def isOne : Pat → Bool
  | .chr (.one _ false) => true
  | _ => false

/-- the `Oneloopatomic` image: `tryFindPrefix` has no case for it (it is commented out) -/
def isAtomicOneLoop : Pat → Bool
  | .quant _ _ _ body => isOne body
  | _ => false

/-- `tryFindPrefix` for a left-to-right, case-sensitive tree: (bytes appended, return value).
    The `Alternate` case computes the common prefix of ALL branches as a running intersection
    (`vsbSlice = vsbSlice[:addedLength]`), which for the right-nested binary form is the common prefix
    of the first branch and of the rest (`commonPrefix` is associative, `Lemmas/Facts.lean`). -/
def leadingPrefix (utf8 : Nat → List Nat) : Pat → List Nat × Bool
  | .chr (.one c false) => (utf8 c, true)                         -- One (Multi: a seq of these)
  | .chr _ => ([], false)
  | .seq a b =>                                                   -- Concatenate
    let ia := leadingPrefix utf8 a
    if ia.2 then
      let ib := leadingPrefix utf8 b
      (ia.1 ++ ib.1, ib.2)
    else (ia.1, false)
  | .alt a b => (commonPrefix (leadingPrefix utf8 a).1 (leadingPrefix utf8 b).1, false)   -- Alternate
  | .quant _ lo hi body =>                                        -- Oneloop/Onelazy (cut-off 32), Loop/Lazyloop (4)
    let ib := leadingPrefix utf8 body
    if lo = 0 then ([], false)
    else if ib.2 then
      let limit := min (if isOne body then 32 else 4) lo
      (rep limit ib.1, hi == some limit)
    else (ib.1, false)
  | .atomic b => if isAtomicOneLoop b then ([], false) else leadingPrefix utf8 b
  | .cap _ b => leadingPrefix utf8 b
  | .empty => ([], true)
  | .anchor _ => ([], true)
  | .look _ _ _ => ([], true)
  | .nothing => ([], false)
  | .ref _ _ => ([], false)
  | .refCond _ _ _ => ([], false)
  | .exprCond _ _ _ => ([], false)

/-! #### the `Alternate` case before the fix d917f9b (kept to document the defect)

`vsbSlice` was the first branch's whole prefix `p0` for the whole loop, and every later branch
OVERWROTE `addedLength` with its overlap with `vsbSlice` (the loop stopping early when that is 0): the
result was the overlap of the first branch with the LAST one examined. -/

def altFoldOld (p0 : List Nat) : List (List Nat) → List Nat
  | [] => p0
  | [q] => commonPrefix p0 q
  | q :: rest => if commonPrefix p0 q = [] then [] else altFoldOld p0 rest

/-- the prefixes of the branches of a (right-nested) alternation, each by the current analysis -/
def altBranches (utf8 : Nat → List Nat) : Pat → List (List Nat)
  | .alt a b => (leadingPrefix utf8 a).1 :: altBranches utf8 b
  | p => [(leadingPrefix utf8 p).1]

/-- what the old code published for a top-level alternation -/
def leadingPrefixOldAlt (utf8 : Nat → List Nat) : Pat → List Nat
  | .alt a b =>
    let p0 := (leadingPrefix utf8 a).1
    if p0 = [] then [] else altFoldOld p0 (altBranches utf8 b)
  | p => (leadingPrefix utf8 p).1

/-- Go's UTF-8 encoder (`utf8.AppendRune`): surrogates and values above U+10FFFF encode as U+FFFD -/
def utf8enc (r : Nat) : List Nat :=
  if r < 0x80 then [r]
  else if r < 0x800 then [0xC0 + r / 64, 0x80 + r % 64]
  else if (0xD800 ≤ r ∧ r ≤ 0xDFFF) ∨ r > 0x10FFFF then [0xEF, 0xBF, 0xBD]
  else if r < 0x10000 then [0xE0 + r / 4096, 0x80 + (r / 64) % 64, 0x80 + r % 64]
  else [0xF0 + r / 262144, 0x80 + (r / 4096) % 64, 0x80 + (r / 64) % 64, 0x80 + r % 64]

end RegexVerif.Facts
