/-
makeDeadline of fastclock.go in atomic steps, under arbitrary interleaving (C14, second model).

Model/Clock.lean executes the whole of makeDeadline as one event.  The Go function is several steps:

    clockEnd := fast.clockEnd.read()                  -- lock-free atomic read          (step 1)
    end := fast.current.read() + deadlineTicks(d)     -- lock-free atomic read          (step 2)
    if end > clockEnd {                               -- locals only: part of step 2
        Lock
        if !running && !start.IsZero() { current.write(ticks(Since(start))) }
        end = current.read() + deadlineTicks(d)
        extendClock(end)                              -- mutex held
        Unlock                                                                          (step 3)
    }
    return end

and other goroutines (other makeDeadline calls, the updater runClock, stopClock) run between them.
This file is a small-step model: every goroutine inside makeDeadline has a program counter and its
locals, and an event executes the next step of one goroutine.  The clock itself is the state of
Model/Clock.lean and the steps are built from the same functions (`refresh`, `extendClock`, `tick`,
`stop`, `deadlineTicks`); the timing discipline of tick/idle is that of `Clock.step`.

Why a critical section is ONE step.  All accesses to `start` and `running` happen under `fast.mu`, so
critical sections are serialised among themselves.  What goroutines outside the mutex can observe of a
critical section are the atomics `current` and `clockEnd`; a lock-free reader reads `clockEnd` first
and `current` second.  Every critical section of fastclock.go writes `current` at most once and
`clockEnd` at most once, `current` first (the locked block of makeDeadline: `current` or nothing, then
`clockEnd` or nothing; one iteration of runClock: `current`; stopClock: `clockEnd` or nothing).  In
the two-section variants every critical section has at most one write and linearises at it.  In the
merged section of the new variant a lock-free reader could see the write of `current` without the
write of `clockEnd` only by reading `clockEnd` before and `current` after the section's first write;
`current` only grows and `clockEnd` is not changed by a section between its two writes, so what that
reader computes is what it would compute if the whole section came between its two reads - an
interleaving of whole steps.  (A reader that sees the new `clockEnd` has also seen the new
`current`.)  The comparison `end > clockEnd` is on locals and is executed together with the read
that precedes it.

The three variants.
* `Variant.new`: the code above (one locked section: refresh, recompute, extendClock).
* `Variant.split`: /repo at 648a49f.  The same reads and the same recomputation, but the locked block
  ended after the recomputation and `extendClock(end)` took the mutex a second time (step 4).  A clock
  (re)started by that second section is `running` with a `current` as old as the first section; if the
  goroutine was descheduled in between, deadlines computed by others from it are early by that delay
  (Props.C14.split_sections_stale_after_restart).
* `Variant.old`: the code before 648a49f: `current` was read first, `clockEnd` second, two sections, and
  the locked block recomputed `end` only when it had refreshed `current` itself
  (`if !running && started`), so a goroutine that had read a stale `current` kept it when another
  goroutine restarted the clock in between (Props.C14.old_makeDeadline_stale_deadline,
  old_makeDeadline_stale_fastpath).

Program counters and the schedule points of the verif build (`verifClockPoint`, used by leg I to hold
a goroutine): `gotFirst` = standing at point 1 (after the `clockEnd` read); `needLock` = at point 2
(after the `current` read) with `end > clockEnd`; `needExtend` = at point 3 (between the two sections;
old/split only); `done` = returned (4).  `step`/`run` are computable, so a schedule of leg I can be
replayed here: `begin` = `begin d`, "advance g to point k" = `stepG g` until its pc is the one above,
sleeps = `idle`/`tick`.

Timing.  Steps take no time; time passes in `tick dt` / `idle dt` events, which may come between any
two steps and are enabled exactly as in `Clock.step` (while an updater is alive time does not pass
beyond `lastWrite + period + eps`; a wake-up comes no sooner than `period` after the last).
-/
import RegexVerif.Model.Clock
namespace RegexVerif.ClockConc
open RegexVerif.Clock

/-- which makeDeadline: before 648a49f, at 648a49f (two critical sections), current (one) -/
inductive Variant where
  | old
  | split
  | new
  deriving DecidableEq, Repr

/-- program counter of a goroutine inside makeDeadline: what it has done so far -/
inductive PC where
  /-- called, nothing read yet -/
  | start
  /-- the first atomic read is done (new/split: `clockEnd`, kept in `ce`; old: `current`, `e` computed) -/
  | gotFirst
  /-- both reads done, `end > clockEnd`: about to take the mutex -/
  | needLock
  /-- old/split only: the locked block is done (`e` is final), about to call extendClock -/
  | needExtend
  /-- returned `e` -/
  | done
  deriving DecidableEq, Repr

/-- a makeDeadline call in flight (or finished and not yet retired) -/
structure G where
  /-- real time (ns) at which the call began -/
  t0 : Int
  /-- the MatchTimeout -/
  d : Int
  pc : PC
  /-- local `clockEnd` -/
  ce : Int
  /-- local `end`; the returned deadline once `pc = done` -/
  e : Int
  /-- ghost: number of StopTimeoutClock calls before this call began -/
  s0 : Nat
  /-- ghost: real time (ns) at which the deadline was *made*: the time of the step that computed the
      current value of `e` (the lock-free read of `current`, or the locked section).  `t0 ≤ tMade`; the
      two differ by however long the goroutine was descheduled between the call and that step. -/
  tMade : Int
  deriving DecidableEq, Repr

structure CState where
  clk : State
  gs : List G
  /-- ghost: number of `stop` events so far -/
  stops : Nat
  deriving Repr

def CState.init : CState := { clk := State.init, gs := [], stops := 0 }

/-- the next step of goroutine `g` on clock `s`: new clock, new locals.  `none`: it has returned. -/
def stepG (v : Variant) (p : Params) (s : State) (g : G) : Option (State × G) :=
  let D := deadlineTicks p.period g.d
  match v, g.pc with
  | _, .done => none
  -- current code: clockEnd, current, one locked section
  | .new, .start => some (s, { g with pc := .gotFirst, ce := s.clockEnd })
  | .new, .gotFirst =>
    let e := s.current + D
    some (s, { g with e := e, tMade := s.now, pc := if e > g.ce then .needLock else .done })
  | .new, .needLock =>
    let s1 := refresh s
    let e := s1.current + D
    some (extendClock p s1 e, { g with e := e, tMade := s.now, pc := .done })
  | .new, .needExtend => none
  -- 648a49f: the same, extendClock in a second section
  | .split, .start => some (s, { g with pc := .gotFirst, ce := s.clockEnd })
  | .split, .gotFirst =>
    let e := s.current + D
    some (s, { g with e := e, tMade := s.now, pc := if e > g.ce then .needLock else .done })
  | .split, .needLock =>
    let s1 := refresh s
    some (s1, { g with e := s1.current + D, tMade := s.now, pc := .needExtend })
  | .split, .needExtend => some (extendClock p s g.e, { g with pc := .done })
  -- before 648a49f: current, clockEnd, recompute only after an own refresh, two sections
  | .old, .start => some (s, { g with pc := .gotFirst, e := s.current + D, tMade := s.now })
  | .old, .gotFirst =>
    some (s, { g with ce := s.clockEnd, pc := if g.e > s.clockEnd then .needLock else .done })
  | .old, .needLock =>
    let s1 := refresh s
    some (s1, { g with e := if !s.running && s.started then s1.current + D else g.e,
                       tMade := if !s.running && s.started then s.now else g.tMade, pc := .needExtend })
  | .old, .needExtend => some (extendClock p s g.e, { g with pc := .done })

inductive Event where
  /-- a runner calls makeDeadline(d) now -/
  | begin (d : Int)
  /-- goroutine `i` executes its next step -/
  | stepG (i : Nat)
  /-- the updater wakes `dt` ns after the previous event -/
  | tick (dt : Int)
  /-- `dt` ns pass -/
  | idle (dt : Int)
  /-- the locked block of stopClock -/
  | stop
  /-- the runner of a finished call `i` returns; its deadline is forgotten -/
  | retire (i : Nat)
  deriving Repr

def newG (s : CState) (d : Int) : G :=
  { t0 := s.clk.now, d := d, pc := .start, ce := 0, e := 0, s0 := s.stops, tMade := s.clk.now }

/-- enabledness + effect.  New goroutines are appended, so indices of the others do not move
    (until a `retire`).  tick/idle/stop are the events of `Clock.step`. -/
def step (v : Variant) (p : Params) (s : CState) : Event → Option CState
  | .begin d => if 0 ≤ d ∧ d ≤ maxInt64 then some { s with gs := s.gs ++ [newG s d] } else none
  | .stepG i =>
    match s.gs[i]? with
    | none => none
    | some g =>
      match stepG v p s.clk g with
      | none => none
      | some r => some { s with clk := r.1, gs := s.gs.set i r.2 }
  | .tick dt =>
    match Clock.step p s.clk (.tick dt) with
    | some c => some { s with clk := c }
    | none => none
  | .idle dt =>
    match Clock.step p s.clk (.idle dt) with
    | some c => some { s with clk := c }
    | none => none
  | .stop => some { s with clk := stop s.clk, stops := s.stops + 1 }
  | .retire i =>
    match s.gs[i]? with
    | none => none
    | some g => if g.pc = .done then some { s with gs := s.gs.eraseIdx i } else none

/-- run an event sequence from a state -/
def run (v : Variant) (p : Params) : CState → List Event → Option CState
  | s, [] => some s
  | s, e :: es =>
    match step v p s e with
    | none => none
    | some s' => run v p s' es

/-- states reachable from program start (zero clock, no call in flight) -/
inductive Reachable (v : Variant) (p : Params) : CState → Prop where
  | init : Reachable v p CState.init
  | step {s s' : CState} (e : Event) : Reachable v p s → step v p s e = some s' → Reachable v p s'

/-- one complete call executed with nothing in between: `begin d`, then `n` steps of the new
    goroutine (its index is the number of goroutines before) -/
def soloEvents (s : CState) (d : Int) (n : Nat) : List Event :=
  .begin d :: List.replicate n (.stepG s.gs.length)

/-! ### deterministic simulation used by leg I (forced interleavings on the real clock)

The harness drives real `makeDeadline` calls from schedule point to schedule point and measures the
real time of every step; the wake-ups of the updater in between are not observed.  As in
`Clock.simulate` (leg H) the model lets the updater tick on the ideal schedule (exactly every
`period`, eps = 0: `Clock.advanceTo`) up to the time of each observed step and then executes that step
with `ClockConc.step` - the simulation is built from the functions the theorems are about. -/

/-- the schedule point a goroutine stands at: 0 = called, 1 = after the `clockEnd` read, 2 = after the
    `current` read and about to take the mutex, 3 = between the two sections (old/split), 4 = returned -/
def PC.code : PC → Nat
  | .start => 0
  | .gotFirst => 1
  | .needLock => 2
  | .needExtend => 3
  | .done => 4

inductive SimEv where
  /-- goroutine `id` calls makeDeadline(d) at real time `t` -/
  | begin (id : Nat) (d t : Int)
  /-- goroutine `id` was observed at its next schedule point (or returning) at real time `t` -/
  | step (id : Nat) (t : Int)
  deriving Repr

/-- what the model says after an observed event -/
structure SimObs where
  id : Nat
  /-- the event changed the goroutine (a `step` of a goroutine that has returned changes nothing: the
      lock-free path has one step less than the harness has observation points) -/
  moved : Bool
  /-- schedule point after the event (`PC.code`) -/
  pc : Nat
  /-- local `end` (the returned deadline when `pc = 4`) and the ghost `tMade` -/
  e : Int
  tMade : Int
  /-- an updater was running right before the step (after the ideal ticks up to `t`) -/
  wasRunning : Bool
  /-- the clock after the step -/
  current : Int
  clockEnd : Int
  running : Bool
  deriving Repr

/-- the simulation keeps the harness identifiers of the goroutines next to the state (`gs[i]` belongs
    to `ids[i]`; nothing is retired) -/
def simStep (v : Variant) (p : Params) (st : CState × List Nat) : SimEv → (CState × List Nat) × SimObs
  | .begin id d t =>
    let s : CState := { st.1 with clk := advanceTo p st.1.clk t }
    let obs (moved : Bool) : SimObs :=
      { id := id, moved := moved, pc := 0, e := 0, tMade := s.clk.now, wasRunning := s.clk.running,
        current := s.clk.current, clockEnd := s.clk.clockEnd, running := s.clk.running }
    match step v p s (.begin d) with
    | some s' => ((s', st.2 ++ [id]), obs true)
    | none => ((s, st.2), obs false)
  | .step id t =>
    let s : CState := { st.1 with clk := advanceTo p st.1.clk t }
    let obs (moved : Bool) (s' : CState) (i : Nat) : SimObs :=
      match s'.gs[i]? with
      | some g =>
        { id := id, moved := moved, pc := g.pc.code, e := g.e, tMade := g.tMade, wasRunning := s.clk.running,
          current := s'.clk.current, clockEnd := s'.clk.clockEnd, running := s'.clk.running }
      | none =>
        { id := id, moved := false, pc := 9, e := 0, tMade := 0, wasRunning := s.clk.running,
          current := s'.clk.current, clockEnd := s'.clk.clockEnd, running := s'.clk.running }
    match st.2.idxOf? id with
    | none => ((s, st.2), obs false s s.gs.length)
    | some i =>
      match step v p s (.stepG i) with
      | some s' => ((s', st.2), obs true s' i)
      | none => ((s, st.2), obs false s i)

def simulate (v : Variant) (p : Params) : CState × List Nat → List SimEv → List SimObs
  | _, [] => []
  | s, a :: as => let r := simStep v p s a; r.2 :: simulate v p r.1 as

/-- the clock as the harness saw it (`VerifClockState`) right before a schedule, at real time `now`.
    The time of the updater's last wake-up is not observable: it lies in the tick `current` and within
    one period before `now`; the earliest such time is taken (the model's next wake-up then comes at
    most one period after `now`). -/
def observedClock (p : Params) (current clockEnd : Int) (running started : Bool) (startNs now : Int) : State :=
  let w := startNs + tickNs * current
  let w := if w < now then w else now
  let w := if w < now - p.period then now - p.period else w
  { current := current, clockEnd := clockEnd, started := started, startNs := if started then startNs else 0,
    running := running, now := now, lastWrite := if running then w else now, pending := [] }

end RegexVerif.ClockConc
