/-
Strict variants of the group lookups and drivers of `Model/Replace.lean`.

`Model/Replace.lean` totalises three accesses that are *indexed* in the Go code and panic there when
out of range:

* `m.matchcount[slot]` / `m.matches[slot]` in `groupValueAppendToBuf` (match.go) — the model's
  `groupSpan` is `getD … none`: a slot the match does not have reads as "unset";
* `m.text.runes[index]` for `index` in the capture span (`groupValueAppendToBuf`), `m.text.runes[i]`
  for `i < m.RuneIndex` (`$\``), `c.text.runes[c.RuneIndex : c.RuneIndex+c.RuneLength]`
  (`Capture.String`, used by `Split`) — the model's `groupText`/`capTexts`/`pieceText` use the total
  `slice` / `take`;
* `data.Strings[r]` in `replacementImpl` — the model's `decodeRule` is `getD … []`.

The definitions below are the same functions with those accesses made explicit: `none` /
`Res.panic` = "the Go code indexes out of range here".  The existing (total) definitions are not
changed; `Lemmas/ReplaceStrict.lean` proves that a strict run that does not panic returns what the
total run returns, and that strict runs do not panic for parsed replacements and well-formed matches.

(The slice *expressions* are bounded by `len` here, as in `sliceExpr`; Go bounds a slice of a slice
by `cap`, so the strict variants panic at least wherever Go does.)
-/
import RegexVerif.Model.Replace

namespace RegexVerif.Replace

/-! ### all-or-nothing collection of partial results -/

/-- the list of values when every entry is `some`, else `none` (the first panic aborts the loop) -/
def collect {β : Type} : List (Option β) → Option (List β)
  | [] => some []
  | none :: _ => none
  | some b :: rest => (collect rest).map (b :: ·)

/-! ### group lookups -/

/-- `m.matchcount[slot]` with `m.matches[slot]`: `none` = index out of range (the match has the
    slots `0 … m.groups.length`, `GroupCount() = m.groups.length + 1`), `some none` = the group did
    not capture -/
def groupSpan? (m : Match) : Nat → Option (Option (Nat × Nat))
  | 0 => some (some (m.index, m.len))
  | k + 1 => m.groups[k]?

/-- `groupValueAppendToBuf(slot, buf)`: index `matchcount`, then
    `for ; index < last; index++ { buf.WriteRune(m.text.runes[index]) }` -/
def groupText? (text : List Nat) (m : Match) (slot : Nat) : Option (List Nat) :=
  match groupSpan? m slot with
  | none => none
  | some none => some []
  | some (some (i, l)) => sliceLoop text i (i + l)

/-- what one rule appends for a match, or the panic -/
def pieceText? (text : List Nat) (m : Match) : Piece → Option (List Nat)
  | .lit s => some s
  | .group slot => groupText? text m slot
  | .leftPortion => sliceLoop text 0 m.index                  -- for i := 0; i < RuneIndex: runes[i]
  | .rightPortion => some (text.drop (m.index + m.len))       -- bounded by len(runes): cannot panic
  | .lastGroup => groupText? text m m.groups.length           -- slot GroupCount()-1 always exists
  | .wholeString => some text

/-- `replacementImpl(data, buf, m)` on decoded rules -/
def expand? (pieces : List Piece) (text : List Nat) (m : Match) : Option (List Nat) :=
  (collect (pieces.map (pieceText? text m))).map List.flatten

/-- `replacementImplRTL(data, &al, m)` on decoded rules: the entries appended to the list -/
def expandRTL? (pieces : List Piece) (text : List Nat) (m : Match) : Option (List (List Nat)) :=
  collect (pieces.reverse.map (pieceText? text m))

/-! ### integer rules against the string table -/

/-- `decodeRule` with `data.Strings[r]` indexed: `none` = `r ≥ len(data.Strings)` -/
def decodeRule? (strings : List (List Nat)) (r : Int) : Option Piece :=
  if 0 ≤ r then (strings[r.toNat]?).map Piece.lit
  else some (decodeRule strings r)

/-- one integer rule of a `ReplacerData` expanded for a match -/
def ruleText? (strings : List (List Nat)) (text : List Nat) (m : Match) (r : Int) : Option (List Nat) :=
  match decodeRule? strings r with
  | none => none
  | some p => pieceText? text m p

/-- `replacementImpl(data, buf, m)` on the integer rules -/
def expandData? (d : ReplacerData) (text : List Nat) (m : Match) : Option (List Nat) :=
  (collect (d.rules.map (ruleText? d.strings text m))).map List.flatten

/-- `replacementImplRTL(data, &al, m)` on the integer rules -/
def expandDataRTL? (d : ReplacerData) (text : List Nat) (m : Match) : Option (List (List Nat)) :=
  collect (d.rules.reverse.map (ruleText? d.strings text m))

/-! ### the drivers; the expansion of a match is a parameter that may panic -/

/-- `loopLTR` with a partial expansion `ex` -/
def loopLTRStrict (text : List Nat) (ex : Match → Option (List Nat)) : List Match → Nat → List Nat → Int → Option (List Nat)
  | [], prevat, buf, _ => finishLTR text prevat buf
  | m :: rest, prevat, buf, count =>
    match (if m.index ≠ prevat then sliceLoop text prevat m.index else some []) with
    | none => none
    | some gap =>
      match ex m with
      | none => none
      | some e =>
        let buf := buf ++ gap ++ e
        let prevat := m.index + m.len
        let count := count - 1
        if count = 0 then finishLTR text prevat buf else loopLTRStrict text ex rest prevat buf count

/-- `loopRTL` with a partial expansion `exR` (the list entries one match contributes) -/
def loopRTLStrict (text : List Nat) (exR : Match → Option (List (List Nat))) : List Match → Nat → List (List Nat) → Int → Option (List Nat)
  | [], prevat, al, _ => finishRTL text prevat al
  | m :: rest, prevat, al, count =>
    match (if m.index + m.len ≠ prevat then (sliceExpr text (m.index + m.len) prevat).map (fun g => al ++ [g]) else some al) with
    | none => none
    | some al =>
      match exR m with
      | none => none
      | some es =>
        let prevat := m.index
        let al := al ++ es
        let count := count - 1
        if count = 0 then finishRTL text prevat al else loopRTLStrict text exR rest prevat al count

/-- `loopFuncLTR` with an evaluator that may panic -/
def loopFuncLTRStrict (text : List Nat) (ev : Match → Option (List Nat)) : List Match → Nat → List Nat → Int → Option (List Nat)
  | [], prevat, buf, _ => finishFuncLTR text prevat buf
  | m :: rest, prevat, buf, count =>
    match (if m.index ≠ prevat then sliceExpr text prevat m.index else some []) with
    | none => none
    | some gap =>
      match ev m with
      | none => none
      | some e =>
        let buf := buf ++ gap ++ e
        let prevat := m.index + m.len
        let count := count - 1
        if count = 0 then finishFuncLTR text prevat buf else loopFuncLTRStrict text ev rest prevat buf count

/-- `loopFuncRTL` with an evaluator that may panic -/
def loopFuncRTLStrict (text : List Nat) (ev : Match → Option (List Nat)) : List Match → Nat → List (List Nat) → Int → Option (List Nat)
  | [], prevat, al, _ => finishFuncRTL text prevat al
  | m :: rest, prevat, al, count =>
    match (if m.index + m.len ≠ prevat then (sliceExpr text (m.index + m.len) prevat).map (fun g => al ++ [g]) else some al) with
    | none => none
    | some al =>
      match ev m with
      | none => none
      | some e =>
        let prevat := m.index
        let al := al ++ [e]
        let count := count - 1
        if count = 0 then finishFuncRTL text prevat al else loopFuncRTLStrict text ev rest prevat al count

/-- `replace` with partial expansions (`ex` left-to-right, `exR` right-to-left) -/
def replaceWith (text : List Nat) (ms : List Match) (ex : Match → Option (List Nat))
    (exR : Match → Option (List (List Nat))) (count : Int) (rtl : Bool) : Res (List Nat) :=
  if count < -1 then .err
  else if count = 0 then .ok text
  else match ms with
    | [] => .ok text
    | _ => .ofOption (if rtl then loopRTLStrict text exR ms text.length [] count else loopLTRStrict text ex ms 0 [] count)

/-- `replace(regex, data, nil, …)` on decoded rules, every group lookup indexed as in Go -/
def replaceStrict (text : List Nat) (ms : List Match) (pieces : List Piece) (count : Int) (rtl : Bool) : Res (List Nat) :=
  replaceWith text ms (expand? pieces text) (expandRTL? pieces text) count rtl

/-- `replace(regex, data, nil, …)` on the integer rules and string table of a `ReplacerData` -/
def replaceDataStrict (text : List Nat) (ms : List Match) (d : ReplacerData) (count : Int) (rtl : Bool) : Res (List Nat) :=
  replaceWith text ms (expandData? d text) (expandDataRTL? d text) count rtl

/-- `replace(regex, nil, evaluator, …)` with an evaluator that may panic (e.g. one that reads
    groups of the match by slot) -/
def replaceFuncStrict (text : List Nat) (ms : List Match) (ev : Match → Option (List Nat)) (count : Int) (rtl : Bool) : Res (List Nat) :=
  if count < -1 then .err
  else if count = 0 then .ok text
  else match ms with
    | [] => .ok text
    | _ => .ofOption (if rtl then loopFuncRTLStrict text ev ms text.length [] count else loopFuncLTRStrict text ev ms 0 [] count)

/-! ### Split -/

/-- `gs[i].String()` for the groups after group 0: `runes[RuneIndex : RuneIndex+RuneLength]` is a
    slice expression (an unset group is the zero `Capture`: `runes[0:0]`) -/
def capTexts? (text : List Nat) (m : Match) : Option (List (List Nat)) :=
  collect (m.groups.map fun g => match g with
    | some (i, l) => sliceExpr text i (i + l)
    | none => some [])

/-- `splitLoop` with the group texts sliced as in Go -/
def splitLoopStrict (text : List Nat) (rtl : Bool) : List Match → Nat → List (List Nat) → Int → Option (List (List Nat))
  | [], prior, ret, _ => splitFinish text rtl prior ret
  | m :: rest, prior, ret, count =>
    if count > 0 then
      match (if rtl then sliceExpr text (m.index + m.len) prior else sliceExpr text prior m.index) with
      | none => none
      | some g =>
        match capTexts? text m with
        | none => none
        | some caps =>
          let ret := ret ++ [g] ++ caps
          let prior := if rtl then m.index else m.index + m.len
          splitLoopStrict text rtl rest prior ret (count - 1)
    else splitFinish text rtl prior ret

/-- `(*Regexp).Split(input, count)` with the group texts sliced as in Go -/
def splitStrict (text : List Nat) (ms : List Match) (count : Int) (rtl : Bool) : Res (List (List Nat)) :=
  if count < -1 then .err
  else if count = 0 then .ok []
  else if count = 1 then .ok [text]
  else
    let count := if count = -1 then maxInt else count
    match ms with
    | [] => .ok [text]
    | _ => .ofOption (splitLoopStrict text rtl ms (if rtl then text.length else 0) [] count)

/-! ### well-formed matches, rules and tables (all decidable) -/

/-- a capture span inside the text -/
def spanOk (text : List Nat) : Option (Nat × Nat) → Bool
  | some (i, l) => decide (i + l ≤ text.length)
  | none => true

/-- a match of a regex with `capsize` group slots on `text`: it has exactly the slots
    `0 … capsize-1` (`len(matchcount) = capsize`) and the match and every capture lie inside the
    text (C08's `captures_in_bounds`) -/
def MatchOk (capsize : Nat) (text : List Nat) (m : Match) : Bool :=
  decide (m.groups.length + 1 = capsize) && decide (m.index + m.len ≤ text.length) && m.groups.all (spanOk text)

/-- a rule that names a group names one of the slots `0 … capsize-1` -/
def pieceOk (capsize : Nat) : Piece → Bool
  | .group slot => decide (slot < capsize)
  | _ => true

/-- the `caps` table maps into the slots `0 … capsize-1` (true of every compiled regex: the slots are
    assigned `0, 1, …, capsize-1` by `assignNameSlots`) -/
def capsOk (env : Env) : Bool :=
  match env.caps with
  | some l => l.all (fun p => decide (p.2 < env.capsize))
  | none => true

end RegexVerif.Replace
