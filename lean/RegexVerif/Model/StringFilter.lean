/-
Model of the raw-string (byte-level) prefix filters of regexp2 — `/repo/stringprefixfilter.go` — and of
the byte-string helpers of `/repo/helpers/indexof.go` they call.

These filters run on the UNDECODED Go string before a string entry point converts its input to runes:
`MatchString`, `FindStringMatch(StartingAt)`, `FindAllStringIndex` (and `Split`, the adapter and
`ReplaceFunc`, which start from `FindStringMatch`) ask the filter for a candidate BYTE index, decode the
string, map the candidate to a rune index (`decodeStringWithStart` / `getRunesAndStart`, modelled in
`Model/Utf8.lean` as `runeStart`) and start the scan there.  A filter that answers "no" although a match
exists, or a candidate behind the first match, makes the string entry points lose matches the rune entry
points find (properties C02, C03).

Conventions.  A Go string is a `List Nat` of BYTES (0..255).  A filter is a function
`(input : List Nat) (startAt : Nat) → Nat × Bool` returning `(candidateByteIndex, ok)` exactly as the Go
closure does (`(0, false)` on every failing exit).  Runes are `Nat` (a decoded rune is never negative).

Part 1 (namespace `RegexVerif.Utf8`) is the byte-level UTF-8 knowledge the filters rely on, mirrored from
package `unicode/utf8`: `DecodeRuneInString` (`decodeRune`: one rune per invalid byte, U+FFFD width 1),
the `for range s` loop (`decodeB`, and `decode` in the segment form of `Model/Utf8.lean`, so that the
existing rune→byte mappers apply), `DecodeLastRuneInString` (`lastRuneSize`, with its backward scan of
at most `UTFMax` bytes) and `utf8.AppendRune` / `string(rune)` (`encodeRune`).

Part 2 is package `strings` as the filters use it, modelled by WHAT the functions return (Go's standard
library is an oracle, not an object of verification): `Index` / `Contains` / `HasPrefix` / `IndexByte` /
`IndexAny` with ASCII `chars` (the first suffix / byte satisfying a test), `IndexRune` (three cases:
a byte; U+FFFD = the first position of the `range` loop that decodes to U+FFFD, which includes every
invalid byte; otherwise the encoding of the rune, and never an invalid rune) and `IndexAny`/`ContainsAny`
with arbitrary `chars` (the first position of the `range` loop whose rune is one of `chars`).

Part 3 mirrors `helpers.IndexStringIgnoreCaseASCII`, `EqualStringIgnoreCaseASCII`,
`indexASCIIByteIgnoreCase`, `foldASCII` line by line (loop with fuel).

Part 4 mirrors every filter constructor and closure body, `newStringPrefixFilter`'s decision which filter
(or none) is installed, `findStringPrefixCandidate`, `findStringMatchStart`, `hasMinRequiredBytes`,
`isStringRuneBoundary`, `isASCIIString`.  Loops run on fuel `len(input) + 2`; the search position grows
in every iteration (`Lemmas/StringFilter.lean`, `loop_rule`).
-/
import RegexVerif.Model.Utf8
import RegexVerif.Model.Finders

namespace RegexVerif.Utf8

/-! ## 1. package unicode/utf8 on byte lists -/

/-- a continuation byte `10xxxxxx` (`!utf8.RuneStart(b)`) -/
def isCont (b : Nat) : Bool := decide (0x80 ≤ b) && decide (b ≤ 0xBF)

/-- `utf8.DecodeRuneInString(s)`: `(rune, size)`; `(RuneError, 0)` for the empty string, `(RuneError, 1)`
    for every byte that does not start a well-formed sequence (continuation bytes, 0xC0, 0xC1, 0xF5..0xFF,
    a lead byte whose sequence is truncated, overlong (E0 80..9F, F0 80..8F), a surrogate (ED A0..BF) or
    above U+10FFFF (F4 90..BF)) — the `first` / `acceptRanges` tables of the package written as ranges -/
def decodeRune : List Nat → Nat × Nat
  | [] => (0xFFFD, 0)
  | b0 :: t =>
    if b0 < 0x80 then (b0, 1)
    else if b0 < 0xC2 then (0xFFFD, 1)
    else if b0 < 0xE0 then
      match t with
      | b1 :: _ => if isCont b1 then ((b0 - 0xC0) * 64 + (b1 - 0x80), 2) else (0xFFFD, 1)
      | [] => (0xFFFD, 1)
    else if b0 < 0xF0 then
      match t with
      | b1 :: b2 :: _ =>
        if decide ((if b0 = 0xE0 then 0xA0 else 0x80) ≤ b1) && decide (b1 ≤ (if b0 = 0xED then 0x9F else 0xBF)) && isCont b2 then
          ((b0 - 0xE0) * 4096 + (b1 - 0x80) * 64 + (b2 - 0x80), 3)
        else (0xFFFD, 1)
      | _ => (0xFFFD, 1)
    else if b0 < 0xF5 then
      match t with
      | b1 :: b2 :: b3 :: _ =>
        if decide ((if b0 = 0xF0 then 0x90 else 0x80) ≤ b1) && decide (b1 ≤ (if b0 = 0xF4 then 0x8F else 0xBF)) && isCont b2 && isCont b3 then
          ((b0 - 0xF0) * 262144 + (b1 - 0x80) * 4096 + (b2 - 0x80) * 64 + (b3 - 0x80), 4)
        else (0xFFFD, 1)
      | _ => (0xFFFD, 1)
    else (0xFFFD, 1)

/-- the `for strIdx, ch := range s` loop: one `(rune, width)` per iteration (`fuel` ≥ `len(s)`) -/
def decodeAux : Nat → List Nat → List (Nat × Nat)
  | 0, _ => []
  | _ + 1, [] => []
  | fuel + 1, b :: t =>
    let r := decodeRune (b :: t)
    r :: decodeAux fuel (t.drop (r.2 - 1))

/-- what `range s` yields -/
def decodeB (s : List Nat) : List (Nat × Nat) := decodeAux s.length s

/-- the same in the segment form of `Model/Utf8.lean` (runes as `Int`): the existing mappers
    (`byteOffsetSpec`, `runeStart`, `newStringByteMapper`, …) take it as their argument -/
def decode (s : List Nat) : List (Int × Nat) := (decodeB s).map fun x => ((x.1 : Int), x.2)

/-- `[]rune(s)` -/
def runesOf (s : List Nat) : List Nat := (decodeB s).map (·.1)

/-- byte offset of rune index `k` of the string `s` -/
def byteOff (s : List Nat) (k : Nat) : Nat := (((decodeB s).map (·.2)).take k).sum

/-- the backward scan of `utf8.DecodeLastRuneInString`:
    `for start--; start >= lim; start-- { if RuneStart(s[start]) { break } }; if start < 0 { start = 0 }`.
    The argument is `start + 1` before the decrement; the result is `start` after the clamp. -/
def scanBack (s : List Nat) (lim : Nat) : Nat → Nat
  | 0 => 0
  | j + 1 => if j < lim then j else if !isCont (s.getD j 0) then j else scanBack s lim j

/-- the `size` result of `utf8.DecodeLastRuneInString(s)` (0 only for the empty string) -/
def lastRuneSize (s : List Nat) : Nat :=
  if s.isEmpty then 0
  else
    let e := s.length
    if s.getD (e - 1) 0 < 0x80 then 1
    else
      let start := scanBack s (e - 4) (e - 1)
      let size := (decodeRune (s.drop start)).2
      if start + size ≠ e then 1 else size

/-- `utf8.ValidRune` for a non-negative rune -/
def validRune (r : Nat) : Bool := decide (r < 0xD800) || (decide (0xDFFF < r) && decide (r ≤ 0x10FFFF))

/-- `utf8.AppendRune(nil, r)` = `string(rune(r))`: invalid runes are encoded as U+FFFD -/
def encodeRune (r : Nat) : List Nat :=
  if r < 0x80 then [r]
  else if r < 0x800 then [0xC0 + r / 64, 0x80 + r % 64]
  else if !validRune r then [0xEF, 0xBF, 0xBD]
  else if r < 0x10000 then [0xE0 + r / 4096, 0x80 + r / 64 % 64, 0x80 + r % 64]
  else [0xF0 + r / 262144, 0x80 + r / 4096 % 64, 0x80 + r / 64 % 64, 0x80 + r % 64]

/-- `string([]rune)` -/
def encodeRunes (rs : List Nat) : List Nat := (rs.map encodeRune).flatten

end RegexVerif.Utf8

namespace RegexVerif.StringFilter
open RegexVerif.Utf8 RegexVerif.Finders

/-! ## 2. package strings, by what its functions return -/

/-- offset of the first suffix of `s` (the empty one included) satisfying `P`, counted from `i` -/
def firstSuffix (P : List Nat → Bool) : List Nat → Nat → Option Nat
  | [], i => if P [] then some i else none
  | b :: t, i => if P (b :: t) then some i else firstSuffix P t (i + 1)

/-- `strings.Index(s, sub)` (`-1` = `none`; `Index(s, "") = 0`) -/
def indexBytes (s sub : List Nat) : Option Nat := firstSuffix (fun u => sub.isPrefixOf u) s 0

/-- the string is non-empty and its first byte satisfies `Q` -/
def headSat (Q : Nat → Bool) : List Nat → Bool
  | b :: _ => Q b
  | [] => false

/-- the first byte of `s` satisfying `Q` -/
def indexByteP (Q : Nat → Bool) (s : List Nat) : Option Nat := firstSuffix (headSat Q) s 0

/-- `strings.IndexByte(s, c)` -/
def indexByte (s : List Nat) (c : Nat) : Option Nat := indexByteP (· == c) s

/-- offset of the first segment of a `range` loop whose rune satisfies `Q` -/
def firstSeg (Q : Nat → Bool) : List (Nat × Nat) → Nat → Option Nat
  | [], _ => none
  | (r, w) :: t, off => if Q r then some off else firstSeg Q t (off + w)

/-- `strings.IndexRune(s, r)` for `r ≥ 0` -/
def indexRune (s : List Nat) (r : Nat) : Option Nat :=
  if r < 0x80 then indexByte s r
  else if r = 0xFFFD then firstSeg (· == 0xFFFD) (decodeB s) 0
  else if !validRune r then none
  else indexBytes s (encodeRune r)

/-- `strings.ContainsRune(s, r)` -/
def containsRune (s : List Nat) (r : Nat) : Bool := (indexRune s r).isSome

/-- the rune `string(rune(r))` decodes to -/
def sanitize (r : Nat) : Nat := if validRune r then r else 0xFFFD

/-- `strings.IndexAny(s, string(chars))` for a rune slice `chars`: the first position of `range s` whose
    rune (U+FFFD for an invalid byte) is one of the runes of `string(chars)` -/
def indexAnyRunes (s : List Nat) (chars : List Nat) : Option Nat :=
  firstSeg (fun c => (chars.map sanitize).contains c) (decodeB s) 0

/-! ## 3. helpers/indexof.go, the byte-string part -/

/-- `helpers.indexASCIIByteIgnoreCase(s, ch)` -/
def indexASCIIByteIgnoreCase (s : List Nat) (ch : Nat) : Option Nat :=
  let ch := foldASCII ch
  let lower := indexByte s ch
  if ch < 97 ∨ ch > 122 then lower
  else
    let upper := indexByte s (ch - 32)
    match lower with
    | none => upper
    | some l =>
      match upper with
      | some u => if u < l then some u else some l
      | none => some l

/-- `helpers.EqualStringIgnoreCaseASCII(s, prefix)` -/
def equalStringIgnoreCaseASCII (s pre : List Nat) : Bool :=
  if s.length < pre.length then false else prefixOf eqAsciiFold pre s

/-- the loop of `helpers.IndexStringIgnoreCaseASCII`: `for start, end := 0, len(s)-len(prefix); start <= end; { … }` -/
def isicLoop (s pre : List Nat) (end_ : Nat) : Nat → Nat → Option Nat
  | 0, _ => none
  | fuel + 1, start =>
    if start ≤ end_ then
      match indexASCIIByteIgnoreCase (s.drop start) (pre.headD 0) with
      | none => none
      | some offset =>
        if start + offset > end_ then none
        else
          let i := start + offset
          if equalStringIgnoreCaseASCII ((s.drop i).take pre.length) pre then some i
          else isicLoop s pre end_ fuel (i + 1)
    else none

/-- `helpers.IndexStringIgnoreCaseASCII(s, prefix)` -/
def indexStringIgnoreCaseASCII (s pre : List Nat) : Option Nat :=
  if pre.isEmpty then some 0
  else if s.length < pre.length then none          -- `end < 0`: the loop body never runs
  else isicLoop s pre (s.length - pre.length) (s.length + 1) 0

/-! ## 4. stringprefixfilter.go -/

/-- `StringPrefixFilter`: `(input, startAt) ↦ (candidateByteIndex, ok)` -/
abbrev Filter := List Nat → Nat → Nat × Bool

/-- `hasMinRequiredBytes(input, startAt, minRequiredLength)` for `startAt ≥ 0` -/
def hasMinRequiredBytes (input : List Nat) (startAt minLen : Nat) : Bool :=
  decide (startAt ≤ input.length) && (decide (minLen = 0) || decide (minLen ≤ input.length - startAt))

/-- `isASCIIString` -/
def isASCIIString (s : List Nat) : Bool := s.all (fun b => decide (b < 0x80))

/-- the loop of `isStringRuneBoundary`: `for strIdx := range s { == index → true; > index → false }; false` -/
def rangeHits (index : Nat) : List (Nat × Nat) → Nat → Bool
  | [], _ => false
  | (_, w) :: t, off => if off = index then true else if off > index then false else rangeHits index t (off + w)

/-- `isStringRuneBoundary(s, index)` for `index ≥ 0` -/
def isStringRuneBoundary (s : List Nat) (index : Nat) : Bool :=
  if index = 0 ∨ index = s.length then true
  else if index > s.length then false
  else rangeHits index (decodeB s) 0

/-- the decision of one loop iteration -/
inductive Step where
  | found (c : Nat)
  | giveUp
  | next (searchAt : Nat)
deriving Repr, DecidableEq

/-- the loop shape of the searching filters:
    `for searchAt := s0; guard(searchAt); { i := index(input[searchAt:]) (none → return 0, false); step(i) }; return 0, false` -/
def loop (guard : Nat → Bool) (idx : Nat → Option Nat) (step : Nat → Step) : Nat → Nat → Nat × Bool
  | 0, _ => (0, false)
  | fuel + 1, s =>
    if guard s then
      match idx s with
      | none => (0, false)
      | some i =>
        match step i with
        | .found c => (c, true)
        | .giveUp => (0, false)
        | .next s' => loop guard idx step fuel s'
    else (0, false)

/-- `stringFixedDistanceCandidateStart(input, startAt, byteIndex, distance)`: walk `distance` runes back
    from `byteIndex` with `DecodeLastRuneInString`, not below `startAt` (`none` = `0, false`) -/
def candidateStart (input : List Nat) (startAt : Nat) : Nat → Nat → Option Nat
  | 0, cand => some cand
  | d + 1, cand =>
    if cand ≤ startAt then none
    else
      let size := lastRuneSize (input.take cand)
      if size = 0 then none else candidateStart input startAt d (cand - size)

/-- the shared tail of the three fixed-distance loops: candidate valid and long enough → found; valid
    but too late for the minimum length → give up; not valid → go on -/
def fixedStep (input : List Nat) (startAt distance minLen : Nat) (hit next : Nat) : Step :=
  match candidateStart input startAt distance hit with
  | some c => if hasMinRequiredBytes input c minLen then .found c else .giveUp
  | none => .next next

/-! ### `stringIndexPrefixFilter` -/

def prefixFilterBody (pre : List Nat) (ignoreCase : Bool) (minLen : Nat) : Filter := fun input startAt =>
  if !hasMinRequiredBytes input startAt minLen then (0, false)
  else
    match (if ignoreCase then indexStringIgnoreCaseASCII (input.drop startAt) pre else indexBytes (input.drop startAt) pre) with
    | none => (0, false)
    | some offset => (startAt + offset, true)

def stringIndexPrefixFilter (pre : List Nat) (ignoreCase : Bool) (minLen : Nat) : Option Filter :=
  if pre.isEmpty then none
  else if ignoreCase && !isASCIIString pre then none
  else some (prefixFilterBody pre ignoreCase minLen)

/-! ### `stringIndexPrefixesFilter`, `indexAnyPrefixFallback`, `compileASCIIStringSetPrefixFilter` -/

/-- the `best` update of `indexAnyPrefixFallback` -/
def bestOf (best : Option Nat) (offset : Option Nat) : Option Nat :=
  match offset with
  | none => best
  | some o =>
    match best with
    | none => some o
    | some b => if o < b then some o else some b

def indexAnyPrefixFallback (prefixes : List (List Nat)) (ignoreCase : Bool) (minLen : Nat) : Filter := fun input startAt =>
  if !hasMinRequiredBytes input startAt minLen then (0, false)
  else
    let remaining := input.drop startAt
    let best := prefixes.foldl (fun best pre =>
      bestOf best (if ignoreCase then indexStringIgnoreCaseASCII remaining pre else indexBytes remaining pre)) none
    match best with
    | none => (0, false)
    | some b => (startAt + b, true)

/-- `asciiStringSetPrefixFilter`: `firstChars` and the prefixes; the bucket `prefixesByFirst[b]` is the
    sub-list of the prefixes starting with `b`, in order -/
structure AsciiSetFilter where
  firstChars : List Nat
  prefixes : List (List Nat)
  minRequiredBytes : Nat

def AsciiSetFilter.bucket (f : AsciiSetFilter) (b : Nat) : List (List Nat) :=
  f.prefixes.filter (fun p => p.head? == some b)

/-- `compileASCIIStringSetPrefixFilter` -/
def compileASCIIStringSetPrefixFilter (prefixes : List (List Nat)) (ignoreCase : Bool) (minLen : Nat) : Option AsciiSetFilter :=
  if ignoreCase then none
  else if prefixes.any (fun p => p.isEmpty || !isASCIIString p) then none
  else
    let hasSharedFirst := prefixes.any fun p => decide (1 < (prefixes.filter (fun q => q.head? == p.head?)).length)
    if !hasSharedFirst then none
    else
      let firstBytes := (List.range 256).filter fun b => prefixes.any (fun p => p.head? == some b)
      if firstBytes.isEmpty then none
      else some ⟨firstBytes, prefixes, minLen⟩

/-- `(*asciiStringSetPrefixFilter).index`; `strings.IndexAny` with ASCII `chars` finds the first byte
    that is one of them -/
def AsciiSetFilter.index (f : AsciiSetFilter) : Filter := fun input startAt =>
  if !hasMinRequiredBytes input startAt f.minRequiredBytes then (0, false)
  else
    loop (fun s => decide (s < input.length))
      (fun s => (indexByteP (fun b => f.firstChars.contains b) (input.drop s)).map (s + ·))
      (fun i =>
        if (f.bucket (input.getD i 0)).any (fun p => decide (p.length ≤ input.length - i) && p.isPrefixOf (input.drop i)) then .found i
        else .next (i + 1))
      (input.length + 2) startAt

def stringIndexPrefixesFilter (prefixes : List (List Nat)) (ignoreCase : Bool) (minLen : Nat) : Option Filter :=
  if prefixes.isEmpty then none
  else if ignoreCase && prefixes.any (fun p => !isASCIIString p) then none
  else
    match compileASCIIStringSetPrefixFilter prefixes ignoreCase minLen with
    | some f => some f.index
    | none => some (indexAnyPrefixFallback prefixes ignoreCase minLen)

/-! ### `stringFixedDistanceSetFilter`, `asciiSetStringScanner` -/

/-- what the filters read of `syntax.FixedDistanceSet` (the `CharSet` itself is not consulted) -/
structure SetB where
  chars : List Nat := []
  negated : Bool := false
  range : Option (Nat × Nat) := none
  distance : Int := 0

/-- `asciiSetStringScanner` -/
structure Scanner where
  chars : List Nat
  first : Nat
  last : Nat
  useRange : Bool
  distance : Nat

/-- `newASCIISetStringScanner` -/
def newASCIISetStringScanner (set : SetB) : Option Scanner :=
  if set.negated || decide (set.distance < 0) then none
  else
    match set.range with
    | some (lo, hi) => if hi > 0x7F then none else some ⟨[], lo, hi, true, set.distance.toNat⟩
    | none =>
      if set.chars.isEmpty then none
      else if set.chars.any (fun ch => decide (ch > 0x7F)) then none
      else some ⟨set.chars, 0, 0, false, set.distance.toNat⟩

/-- `asciiSetStringScanner.index` (`IndexByte` / `IndexAny` with ASCII chars / the range loop) -/
def Scanner.index (sc : Scanner) (input : List Nat) : Option Nat :=
  if !sc.useRange then indexByteP (fun b => sc.chars.contains b) input
  else indexByteP (fun b => decide (sc.first ≤ b) && decide (b ≤ sc.last)) input

def setFilterBody (sc : Scanner) (minLen : Nat) : Filter := fun input startAt =>
  if !hasMinRequiredBytes input startAt minLen then (0, false)
  else
    loop (fun s => decide (s < input.length))
      (fun s => (sc.index (input.drop s)).map (s + ·))
      (fun i => fixedStep input startAt sc.distance minLen i (i + 1))
      (input.length + 2) startAt

def stringFixedDistanceSetFilter (set : SetB) (minLen : Nat) : Option Filter :=
  (newASCIISetStringScanner set).map fun sc => setFilterBody sc minLen

/-! ### `stringFixedDistanceCharFilter` -/

/-- the Go loop has no guard (`for { … }`): `searchAt ≤ len(input)` holds whenever it is reached (a
    violation would be a slice panic), which is the guard here -/
def fixedCharFilterBody (ch distance minLen : Nat) : Filter := fun input startAt =>
  if !hasMinRequiredBytes input startAt minLen then (0, false)
  else
    loop (fun s => decide (s ≤ input.length))
      (fun s => (indexRune (input.drop s) ch).map (s + ·))
      (fun i =>
        let size := (decodeRune (input.drop i)).2
        match fixedStep input startAt distance minLen i (i + size) with
        | .next s' => if size = 0 then .giveUp else .next s'
        | st => st)
      (input.length + 2) startAt

def stringFixedDistanceCharFilter (ch : Nat) (distance : Int) (minLen : Nat) : Option Filter :=
  if distance < 0 then none else some (fixedCharFilterBody ch distance.toNat minLen)

/-! ### `stringFixedDistanceStringFilter` -/

def maxStringFilterLiteralLen : Nat := 8

def fixedStringFilterBody (lit : List Nat) (distance minLen : Nat) : Filter := fun input startAt =>
  if !hasMinRequiredBytes input startAt minLen then (0, false)
  else
    loop (fun s => decide (s + lit.length ≤ input.length))
      (fun s => (indexBytes (input.drop s) lit).map (s + ·))
      (fun i => fixedStep input startAt distance minLen i (i + 1))
      (input.length + 2) startAt

def stringFixedDistanceStringFilter (lit : List Nat) (distance : Int) (minLen : Nat) : Option Filter :=
  if lit.isEmpty || decide (distance < 0) || decide (lit.length > maxStringFilterLiteralLen) then none
  else some (fixedStringFilterBody lit distance.toNat minLen)

/-! ### `stringLiteralAfterLoopFilter` -/

/-- what the filter reads of `syntax.LiteralAfterLoop`: `str` are the BYTES of `String`, `chars` and
    `char` runes; `hasLoopSet` = `LoopNode != nil && LoopNode.Set != nil` -/
structure LitB where
  str : List Nat := []
  strIgnoreCase : Bool := false
  char : Nat := 0
  chars : List Nat := []
  hasLoopSet : Bool := false

/-- `stringHasLiteralAfterLoop(input, searchAt, literal)` -/
def stringHasLiteralAfterLoop (input : List Nat) (searchAt : Nat) (l : LitB) : Bool :=
  if !l.str.isEmpty then
    if l.strIgnoreCase then (indexStringIgnoreCaseASCII (input.drop searchAt) l.str).isSome
    else (indexBytes (input.drop searchAt) l.str).isSome
  else if !l.chars.isEmpty then (indexAnyRunes (input.drop searchAt) l.chars).isSome
  else containsRune (input.drop searchAt) l.char

def literalAfterLoopFilterBody (l : LitB) (minLen : Nat) : Filter := fun input startAt =>
  if !hasMinRequiredBytes input startAt minLen then (0, false)
  else if !stringHasLiteralAfterLoop input startAt l then (0, false)
  else (startAt, true)

def stringLiteralAfterLoopFilter (l : Option LitB) (minLen : Nat) : Option Filter :=
  match l with
  | none => none
  | some l =>
    if !l.hasLoopSet then none
    else if l.strIgnoreCase && (l.str.isEmpty || !isASCIIString l.str) then none
    else some (literalAfterLoopFilterBody l minLen)

/-! ### `newStringPrefixFilter` -/

/-- what `newStringPrefixFilter` reads of `syntax.FindOptimizations`; strings as BYTES -/
structure StrOpts where
  mode : Mode := .noSearch
  minLen : Nat := 0
  leadingPrefix : List Nat := []
  prefixes : List (List Nat) := []
  sets : List SetB := []
  fixedChar : Nat := 0
  fixedString : List Nat := []
  fixedDistance : Int := 0
  literalAfterLoop : Option LitB := none

/-- what it reads of `syntax.Code` -/
structure CodeB where
  rightToLeft : Bool := false
  usesStartAnchor : Bool := false
  opts : Option StrOpts := none

/-- which constructor built the installed filter (evidence histogram, failure keys) -/
inductive Kind where
  | «prefix» | prefixIgnoreCase | prefixesSet | prefixesFallback | prefixesFallbackIgnoreCase
  | set | fixedChar | fixedString | literalAfterLoop
deriving Repr, DecidableEq

def Kind.name : Kind → String
  | .«prefix» => "prefix" | .prefixIgnoreCase => "prefix-ic" | .prefixesSet => "prefixes-set"
  | .prefixesFallback => "prefixes-fallback" | .prefixesFallbackIgnoreCase => "prefixes-fallback-ic"
  | .set => "set" | .fixedChar => "fixed-char" | .fixedString => "fixed-string" | .literalAfterLoop => "literal-after-loop"

/-- the U+FFFD guard: a U+FFFD in one of the literal STRINGS (an invalid byte decodes to it as well) -/
def hasRuneError (o : StrOpts) : Bool :=
  containsRune o.leadingPrefix 0xFFFD || containsRune o.fixedString 0xFFFD ||
  (match o.literalAfterLoop with | some l => containsRune l.str 0xFFFD | none => false) ||
  o.prefixes.any (fun p => containsRune p 0xFFFD)

def prefixesKind (prefixes : List (List Nat)) (ignoreCase : Bool) (minLen : Nat) : Kind :=
  if (compileASCIIStringSetPrefixFilter prefixes ignoreCase minLen).isSome then .prefixesSet
  else if ignoreCase then .prefixesFallbackIgnoreCase else .prefixesFallback

/-- `newStringPrefixFilter(code)`: the installed filter and its kind, `none` = `nil` -/
def newStringPrefixFilter (code : CodeB) : Option (Kind × Filter) :=
  match code.opts with
  | none => none
  | some o =>
    if code.rightToLeft then none
    else if code.usesStartAnchor then none
    else if hasRuneError o then none
    else
      match o.mode with
      | .leadingStringLtr => (stringIndexPrefixFilter o.leadingPrefix false o.minLen).map (Kind.«prefix», ·)
      | .leadingStringOrdinalIgnoreCaseLtr => (stringIndexPrefixFilter o.leadingPrefix true o.minLen).map (Kind.prefixIgnoreCase, ·)
      | .leadingStringsLtr => (stringIndexPrefixesFilter o.prefixes false o.minLen).map (prefixesKind o.prefixes false o.minLen, ·)
      | .leadingStringsOrdinalIgnoreCaseLtr => (stringIndexPrefixesFilter o.prefixes true o.minLen).map (prefixesKind o.prefixes true o.minLen, ·)
      | .leadingSetLtr =>
        match o.sets with
        | [] => none
        | set :: _ =>
          if set.range.isNone && (set.chars.isEmpty || decide (set.chars.length > 5)) then none
          else (stringFixedDistanceSetFilter set o.minLen).map (Kind.set, ·)
      | .fixedDistanceCharLtr => (stringFixedDistanceCharFilter o.fixedChar o.fixedDistance o.minLen).map (Kind.fixedChar, ·)
      | .fixedDistanceStringLtr => (stringFixedDistanceStringFilter o.fixedString o.fixedDistance o.minLen).map (Kind.fixedString, ·)
      | .literalAfterLoopLtr => (stringLiteralAfterLoopFilter o.literalAfterLoop o.minLen).map (Kind.literalAfterLoop, ·)
      | _ => none

/-! ### `findStringPrefixCandidate`, `findStringMatchStart` -/

/-- `(*Regexp).findStringPrefixCandidate(input, startAt)` -/
def findStringPrefixCandidate (filter : Option Filter) (rtl : Bool) (input : List Nat) (startAt : Nat) : Nat × Bool :=
  match filter with
  | none => (startAt, true)
  | some f =>
    if rtl then (startAt, true)
    else
      let r := f input startAt
      if !r.2 then (0, false)
      else if r.1 < startAt || r.1 > input.length || !isStringRuneBoundary input r.1 then (startAt, true)
      else (r.1, true)

inductive StartError where
  | startAtTooLarge
  | startAtNotRuneBoundary
deriving Repr, DecidableEq

/-- `(*Regexp).findStringMatchStart(input, startAt)`; a negative `startAt` is "from the beginning in scan
    direction" -/
def findStringMatchStart (filter : Option Filter) (rtl : Bool) (input : List Nat) (startAt : Int) :
    Except StartError (Nat × Bool) :=
  if startAt > (input.length : Int) then .error .startAtTooLarge
  else if startAt ≥ 0 ∧ !isStringRuneBoundary input startAt.toNat then .error .startAtNotRuneBoundary
  else
    let startAt : Nat := if startAt < 0 then (if rtl then input.length else 0) else startAt.toNat
    .ok (findStringPrefixCandidate filter rtl input startAt)


/-! ### the filter as the string entry points use it -/

/-- What `Model/Api.lean` calls `filter`, made concrete: a left-to-right string entry point calls
    `findStringMatchStart(s, -1)`; on `ok` it decodes the string and maps the candidate BYTE index to a RUNE
    index (`getRunesAndStart` / `decodeStringWithStart`, modelled by `Utf8.runeStart` on the decoded segments),
    replacing "not found" (`-1`) by 0.  `none` = the entry point answers "no match" without running a program. -/
def runeFilter (filter : Option Filter) (input : List Nat) : Nat → Option Nat := fun _ =>
  match findStringMatchStart filter false input (-1) with
  | .error _ => none
  | .ok r =>
    if r.2 then
      let rs := runeStart (decode input) (r.1 : Int)
      some (if rs < 0 then 0 else rs.toNat)
    else none

end RegexVerif.StringFilter
