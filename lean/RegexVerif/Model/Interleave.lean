/-
Interleaving semantics for calls on one shared Regexp (property C11).

Shared between goroutines (and only reachable through atomic operations -- `sync.Pool.Get/Put`,
the cache's mutex): the runner pool, the buffer pool, the replacement cache.  Everything else a call
touches is owned by the calling goroutine from the `get` that handed it out to the `put` that gives
it back; that ownership discipline is what the model fixes: a step of goroutine `g` reads and
writes `g`'s local state and performs at most one atomic operation on the shared state.

A call is a script of steps
    [lruGet, lruAdd]?  getRunner  poolGet  runStep^(1+n)  putRunner  poolPut
(`lruGet`/`lruAdd` only for `Replace`; the first `runStep` is program selection + `scanInit`; the
runner reads the text through the pooled buffer it owns on every step, as `Runtext` aliases it).
Which pooled runner/buffer `sync.Pool` hands out is chosen by the schedule.

The runner, buffer and parse operations are parameters (`Sem`); `Lemmas/Interleave` states what is
assumed of them (`Laws`); `Model/RunnerSem` is the instance built from the C12 models and
`Lemmas/RunnerSem.runnerLaws` proves the laws for it.
-/
import RegexVerif.Model.LRU

namespace RegexVerif.Interleave
open RegexVerif

inductive Step where
  | lruGet | lruAdd | getRunner | poolGet | runStep | putRunner | poolPut
  deriving DecidableEq, Repr

/-- the operations a call is made of -/
structure Sem (R B O Args Res κ ν : Type) where
  freshR : R                                   -- `runnerPool.New`
  startR : Args → List Int → R → R             -- select the program, `scanInit` on the decoded text
  stepR : Args → List Int → R → R              -- one more piece of `scan` (reads the text)
  finishR : Args → Option ν → R → Res          -- the call's result (for Replace: using the parsed replacement)
  putR : R → R                                 -- `putRunner`'s resets
  obs : R → O                                  -- the observable part of a runner
  freshB : Args → B                            -- `make([]rune, len(s), class)`
  fits : Args → B → Bool                       -- `poolIndex` class matches and `cap >= needed`
  decodeB : Args → B → B                       -- the decode loop
  visB : B → List Int                          -- the slice the matcher sees
  putB : B → B                                 -- `put`: length reset
  parse : κ → Option ν                         -- `syntax.NewReplacerData` (`none` = error)

structure Call (Args κ : Type) where
  args : Args
  repl : Option κ          -- the replacement string of a `Replace` call
  nsteps : Nat             -- how many further `runStep`s the scan takes

def script {Args κ : Type} (c : Call Args κ) : List Step :=
  (match c.repl with | some _ => [Step.lruGet, Step.lruAdd] | none => []) ++
  [Step.getRunner, Step.poolGet] ++ List.replicate (1 + c.nsteps) Step.runStep ++ [Step.putRunner, Step.poolPut]

structure Shared (R B κ ν : Type) where
  runners : List R
  bufs : List B
  cache : LRU.Cache κ ν

/-- what a goroutine holds while inside a call -/
structure Local (R B Res ν : Type) where
  todo : List Step
  runner : Option R
  started : Bool
  buf : Option B
  data : Option ν          -- parsed replacement
  miss : Bool              -- `lruGet` missed: `lruAdd` will insert
  res : Option Res

def Local.init {R B Res ν Args κ : Type} (c : Call Args κ) : Local R B Res ν :=
  { todo := script c, runner := none, started := false, buf := none, data := none, miss := false, res := none }

def removeAt {α : Type} : List α → Nat → List α
  | [], _ => []
  | _ :: xs, 0 => xs
  | x :: xs, j + 1 => x :: removeAt xs j

variable {R B O Args Res κ ν : Type} [DecidableEq κ]

/-- `re.replaceCache.get(replacement)`; on a miss the replacement is parsed (outside the lock) -/
def doLruGet (M : Sem R B O Args Res κ ν) (c : Call Args κ) (S : Shared R B κ ν) (L : Local R B Res ν) :
    Shared R B κ ν × Local R B Res ν :=
  match c.repl with
  | none => (S, L)
  | some k =>
    match LRU.lookup k S.cache.entries with
    | some v => ({ S with cache := (LRU.get S.cache k).2 }, { L with data := some v, miss := false })
    | none => (S, { L with data := M.parse k, miss := true })

/-- `re.replaceCache.add(replacement, data)` after a miss and a successful parse -/
def doLruAdd (c : Call Args κ) (S : Shared R B κ ν) (L : Local R B Res ν) : Shared R B κ ν × Local R B Res ν :=
  match c.repl, L.data, L.miss with
  | some k, some v, true => ({ S with cache := LRU.add S.cache k v }, L)
  | _, _, _ => (S, L)

/-- `re.getRunner()` -/
def doGetRunner (M : Sem R B O Args Res κ ν) (choice : Nat) (S : Shared R B κ ν) (L : Local R B Res ν) :
    Shared R B κ ν × Local R B Res ν :=
  match S.runners[choice]? with
  | some r => ({ S with runners := removeAt S.runners choice }, { L with runner := some r, started := false })
  | none => (S, { L with runner := some M.freshR, started := false })

/-- `pooledRuneBuffers.get` + the decode loop; a pooled buffer that does not fit is dropped -/
def doPoolGet (M : Sem R B O Args Res κ ν) (c : Call Args κ) (choice : Nat) (S : Shared R B κ ν) (L : Local R B Res ν) :
    Shared R B κ ν × Local R B Res ν :=
  match S.bufs[choice]? with
  | some b =>
    if M.fits c.args b then ({ S with bufs := removeAt S.bufs choice }, { L with buf := some (M.decodeB c.args b) })
    else ({ S with bufs := removeAt S.bufs choice }, { L with buf := some (M.decodeB c.args (M.freshB c.args)) })
  | none => (S, { L with buf := some (M.decodeB c.args (M.freshB c.args)) })

/-- one piece of `scan` on the owned runner, reading the text through the owned buffer -/
def doRunStep (M : Sem R B O Args Res κ ν) (c : Call Args κ) (L : Local R B Res ν) : Local R B Res ν :=
  match L.runner, L.buf with
  | some r, some b =>
    if L.started then { L with runner := some (M.stepR c.args (M.visB b) r) }
    else { L with runner := some (M.startR c.args (M.visB b) r), started := true }
  | _, _ => L

/-- the result is taken, then `re.putRunner(r)` -/
def doPutRunner (M : Sem R B O Args Res κ ν) (c : Call Args κ) (S : Shared R B κ ν) (L : Local R B Res ν) :
    Shared R B κ ν × Local R B Res ν :=
  match L.runner with
  | some r => ({ S with runners := M.putR r :: S.runners },
               { L with runner := none, res := if L.started then some (M.finishR c.args L.data r) else none })
  | none => (S, L)

/-- `pooledRuneBuffers.put` -/
def doPoolPut (M : Sem R B O Args Res κ ν) (S : Shared R B κ ν) (L : Local R B Res ν) :
    Shared R B κ ν × Local R B Res ν :=
  match L.buf with
  | some b => ({ S with bufs := M.putB b :: S.bufs }, { L with buf := none })
  | none => (S, L)

/-- one step of the goroutine executing call `c`; `choice` is the index of the pooled item
    `sync.Pool.Get` returns (out of range: it returns nil and a new item is made) -/
def stepG (M : Sem R B O Args Res κ ν) (c : Call Args κ) (choice : Nat)
    (S : Shared R B κ ν) (L : Local R B Res ν) : Shared R B κ ν × Local R B Res ν :=
  match L.todo with
  | [] => (S, L)
  | st :: rest =>
    let L := { L with todo := rest }
    match st with
    | .lruGet => doLruGet M c S L
    | .lruAdd => doLruAdd c S L
    | .getRunner => doGetRunner M choice S L
    | .poolGet => doPoolGet M c choice S L
    | .runStep => (S, doRunStep M c L)
    | .putRunner => doPutRunner M c S L
    | .poolPut => doPoolPut M S L

/-- the whole system: shared state and one local state per goroutine -/
structure State (R B Res κ ν : Type) where
  shared : Shared R B κ ν
  locals : Nat → Local R B Res ν

/-- a schedule: which goroutine moves, and what `sync.Pool` would pick -/
abbrev Schedule := List (Nat × Nat)

def exec1 (M : Sem R B O Args Res κ ν) (calls : Nat → Call Args κ) (sch : Nat × Nat)
    (σ : State R B Res κ ν) : State R B Res κ ν :=
  let r := stepG M (calls sch.1) sch.2 σ.shared (σ.locals sch.1)
  { shared := r.1, locals := fun g => if g = sch.1 then r.2 else σ.locals g }

def exec (M : Sem R B O Args Res κ ν) (calls : Nat → Call Args κ) : Schedule → State R B Res κ ν → State R B Res κ ν
  | [], σ => σ
  | s :: rest, σ => exec M calls rest (exec1 M calls s σ)

def initState (calls : Nat → Call Args κ) (S : Shared R B κ ν) : State R B Res κ ν :=
  { shared := S, locals := fun g => Local.init (calls g) }

/-- the call alone: the same semantics, one goroutine, its script run to the end on brand-new shared
    state (empty pools, empty cache of any bound) -/
def alone (M : Sem R B O Args Res κ ν) (c : Call Args κ) (maxSize : Nat) : Option Res :=
  ((exec M (fun _ => c) (List.replicate (script c).length (0, 0))
      (initState (fun _ => c) { runners := [], bufs := [], cache := LRU.empty maxSize })).locals 0).res

end RegexVerif.Interleave
