/-
Line-by-line mirrors of the rune-slice searches of `helpers/indexof.go` — the loops behind the candidate
finders of `runner.go` (`Model/Finders.lean` models them by what they return, `findUp`: "the first index
satisfying the test"; `Lemmas/IndexOf.lean` proves that these loops compute exactly that).

Conventions.  A rune slice is a `List Nat` whose capacity equals its length (Go checks the upper bound of a
slice expression against the CAPACITY; every call site passes `text[a:]` of a text with `cap = len`, and leg Ix
clips its slices).  A function that can panic in Go returns `Option`: `none` = run-time panic (index out of
range, slice bounds out of range); `some r` = the value returned, `-1` included.  `unicode.ToLower` is the
oracle argument `lower`.  Loop variables that run over Go `int`s are kept as the `Nat` "number of iterations
left" where the Go variable can go negative (`for i := end; i >= 0; i--` is a recursion on `i + 1`;
`for i := 0; i <= end; i++` is a recursion on `end + 1 - i` together with `i`).  The byte-string helpers of the
same file (`IndexStringIgnoreCaseASCII`, …) are mirrored in `Model/StringFilter.lean`; `foldASCII` is shared
(`Finders.foldASCII`).

Library calls are modelled by their documentation: `slices.Contains(find, c)` = `find.contains c`,
`slices.Index(in, v)` = the first index with `in[i] == v` (the same `range` loop), `bytes.Equal` over the
`unsafe` byte views of two rune slices = equality of the two rune slices (4 bytes per rune, both views taken
the same way).
-/
import RegexVerif.Model.Finders

namespace RegexVerif.IndexOf
open RegexVerif.Finders (foldASCII)

/-! ### shared loop shapes -/

/-- `for i, c := range in { if test(c) { return i } }; return -1` (`i` = the index of the head) -/
def rangeLoop (test : Nat → Bool) : List Nat → Nat → Int
  | [], _ => -1
  | c :: rest, i => if test c then (i : Int) else rangeLoop test rest (i + 1)

/-- `for i := len(in) - 1; i >= 0; i-- { if test(in[i]) { return i } }; return -1`, as a recursion on `i + 1` -/
def downLoop (test : Nat → Bool) (inp : List Nat) : Nat → Option Int
  | 0 => some (-1)
  | i + 1 =>
    match inp[i]? with
    | none => none
    | some c => if test c then some (i : Int) else downLoop test inp i

/-- `in[lo:hi]` of a slice with `cap = len`: panics unless `lo <= hi <= len(in)` -/
def slice (inp : List Nat) (lo hi : Nat) : Option (List Nat) :=
  if lo ≤ hi ∧ hi ≤ inp.length then some ((inp.drop lo).take (hi - lo)) else none

/-- `bytesEqual(a, b)`: `&a[0]` and `&b[0]` panic on an empty slice; otherwise `bytes.Equal` of the two byte
    views, i.e. equality of the rune slices -/
def bytesEqual (a b : List Nat) : Option Bool :=
  match a, b with
  | [], _ => none
  | _ :: _, [] => none
  | _ :: _, _ :: _ => some (decide (a = b))

/-- the loop of `IndexOf` / `IndexOfIgnoreCase` / `IndexOfIgnoreCaseAscii`:
    ```
    for i := 0; i <= end; i++ {
        if !head(in[i]) { continue }        // resp. `if head(in[i]) { … }`
        if body(i) { return i }
    }
    return -1
    ```
    `k = end + 1 - i` iterations are left -/
def fwdLoop (inp : List Nat) (head : Nat → Bool) (body : Nat → Option Bool) : Nat → Nat → Option Int
  | 0, _ => some (-1)
  | k + 1, i =>
    match inp[i]? with
    | none => none
    | some c =>
      if head c then
        match body i with
        | none => none
        | some true => some (i : Int)
        | some false => fwdLoop inp head body k (i + 1)
      else fwdLoop inp head body k (i + 1)

/-- ```
    match := true
    for j := j0; j < len(find); j++ { if !eq(in[i+j], find[j]) { match = false; break } }
    ```
    `rest` = `find[j0:]`, `j` = the index of its head -/
def cmpFrom (eq : Nat → Nat → Bool) (inp : List Nat) (i : Nat) : List Nat → Nat → Option Bool
  | [], _ => some true
  | f :: rest, j =>
    match inp[i + j]? with
    | none => none
    | some c => if eq c f then cmpFrom eq inp i rest (j + 1) else some false

/-- `len(in) - len(find) + 1` as a number of iterations (`0` when `end < 0`) -/
def iterations (inp find : List Nat) : Nat := inp.length + 1 - find.length

/-! ### `IndexOfAny…`, `IndexOfAnyExcept…`, `IndexFunc` -/

/-- `IndexOfAny(in, find)` -/
def indexOfAny (inp find : List Nat) : Option Int :=
  if find.length = 0 then some (-1)
  else some (rangeLoop (fun c => find.contains c) inp 0)

/-- `IndexOfAny1(in, find)` = `slices.Index(in, find)` -/
def indexOfAny1 (inp : List Nat) (find : Nat) : Option Int :=
  some (rangeLoop (fun c => c == find) inp 0)

/-- `IndexOfAny2(in, find1, find2)` -/
def indexOfAny2 (inp : List Nat) (find1 find2 : Nat) : Option Int :=
  some (rangeLoop (fun c => c == find1 || c == find2) inp 0)

/-- `IndexOfAny3(in, find1, find2, find3)` -/
def indexOfAny3 (inp : List Nat) (find1 find2 find3 : Nat) : Option Int :=
  some (rangeLoop (fun c => c == find1 || c == find2 || c == find3) inp 0)

/-- `IndexOfAnyInRange(in, first, last)` -/
def indexOfAnyInRange (inp : List Nat) (first last : Nat) : Option Int :=
  some (rangeLoop (fun c => decide (c ≥ first) && decide (c ≤ last)) inp 0)

/-- `found := false; for _, b := range bad { if b == c { found = true; break } }` -/
def foundIn (c : Nat) : List Nat → Bool
  | [] => false
  | b :: rest => if b == c then true else foundIn c rest

/-- `IndexOfAnyExcept(in, bad)` -/
def indexOfAnyExcept (inp bad : List Nat) : Option Int :=
  some (rangeLoop (fun c => !foundIn c bad) inp 0)

/-- `IndexOfAnyExcept1(in, bad)` -/
def indexOfAnyExcept1 (inp : List Nat) (bad : Nat) : Option Int :=
  some (rangeLoop (fun c => c != bad) inp 0)

/-- `IndexOfAnyExcept2(in, bad1, bad2)` -/
def indexOfAnyExcept2 (inp : List Nat) (bad1 bad2 : Nat) : Option Int :=
  some (rangeLoop (fun c => c != bad1 && c != bad2) inp 0)

/-- `IndexOfAnyExcept3(in, bad1, bad2, bad3)` -/
def indexOfAnyExcept3 (inp : List Nat) (bad1 bad2 bad3 : Nat) : Option Int :=
  some (rangeLoop (fun c => c != bad1 && c != bad2 && c != bad3) inp 0)

/-- `IndexOfAnyExceptInRange(in, first, last)`: `if c > last { return i }; if c < first { return i }` -/
def indexOfAnyExceptInRange (inp : List Nat) (first last : Nat) : Option Int :=
  some (rangeLoop (fun c => if c > last then true else if c < first then true else false) inp 0)

/-- `IndexFunc(in, f)` -/
def indexFunc (inp : List Nat) (f : Nat → Bool) : Option Int :=
  some (rangeLoop f inp 0)

/-! ### the right-to-left searches -/

/-- the loop of `LastIndexOf`: `for i := end; i >= 0; i-- { … }` as a recursion on `i + 1` -/
def lastIndexOfLoop (inp find : List Nat) (first last lastOffset : Nat) : Nat → Option Int
  | 0 => some (-1)
  | i + 1 =>
    match inp[i]? with
    | none => none
    | some a =>
      if a == first then
        match inp[i + lastOffset]? with
        | none => none
        | some b =>
          if b == last then
            match slice inp i (i + find.length) with
            | none => none
            | some s =>
              match bytesEqual s find with
              | none => none
              | some true => some (i : Int)
              | some false => lastIndexOfLoop inp find first last lastOffset i
          else lastIndexOfLoop inp find first last lastOffset i
      else lastIndexOfLoop inp find first last lastOffset i

/-- `LastIndexOf(in, find)` -/
def lastIndexOf (inp find : List Nat) : Option Int :=
  match find[0]? with
  | none => none                                    -- `first := find[0]`
  | some first =>
    let lastOffset := find.length - 1
    match find[lastOffset]? with
    | none => none
    | some last => lastIndexOfLoop inp find first last lastOffset (iterations inp find)

/-- `LastIndexOfAnyExcept1(in, not)` -/
def lastIndexOfAnyExcept1 (inp : List Nat) (not : Nat) : Option Int :=
  downLoop (fun c => c != not) inp inp.length

/-- `LastIndexOfAny1(in, find)` -/
def lastIndexOfAny1 (inp : List Nat) (find : Nat) : Option Int :=
  downLoop (fun c => c == find) inp inp.length

/-- `LastIndexOfAnyInRange(in, first, last)` -/
def lastIndexOfAnyInRange (inp : List Nat) (first last : Nat) : Option Int :=
  downLoop (fun c => decide (c ≥ first) && decide (c ≤ last)) inp inp.length

/-! ### the sub-slice searches -/

/-- the comparison of `IndexOfIgnoreCase` / `StartsWithIgnoreCase`: `!(t != c && unicode.ToLower(t) != c)` -/
def eqLowerGo (lower : Nat → Nat) (t c : Nat) : Bool := !(t != c && lower t != c)

/-- `IndexOfIgnoreCase(in, find)` (`find` is expected in lower case) -/
def indexOfIgnoreCase (lower : Nat → Nat) (inp find : List Nat) : Option Int :=
  match find[0]? with
  | none => none                                    -- `first := find[0]`
  | some first =>
    fwdLoop inp (fun c => !(c != first && lower c != first))
      (fun i => cmpFrom (eqLowerGo lower) inp i (find.drop 1) 1) (iterations inp find) 0

/-- `IndexOfIgnoreCaseAscii(in, find)` -/
def indexOfIgnoreCaseAscii (inp find : List Nat) : Option Int :=
  if find.length = 0 then some 0
  else
    match find[0]? with
    | none => none
    | some f0 =>
      let first := foldASCII f0
      fwdLoop inp (fun c => !(foldASCII c != first))
        (fun i => cmpFrom (fun t c => !(foldASCII t != foldASCII c)) inp i (find.drop 1) 1) (iterations inp find) 0

/-- `IndexOf(in, find)` -/
def indexOf (inp find : List Nat) : Option Int :=
  match find[0]? with
  | none => none                                    -- `first := find[0]`
  | some first =>
    fwdLoop inp (fun c => c == first)
      (fun i => match slice inp i (i + find.length) with
        | none => none
        | some s => bytesEqual s find) (iterations inp find) 0

/-- `StartsWith(in, find)` -/
def startsWith (inp find : List Nat) : Option Bool :=
  if inp.length < find.length then some false
  else
    match slice inp 0 find.length with
    | none => none
    | some s => bytesEqual s find

/-- the loop of `StartsWithIgnoreCase`: `for i := 0; i < len(find); i++ { if in[i] == find[i] { continue };
    if unicode.ToLower(in[i]) != find[i] { return false } }; return true` -/
def swicLoop (lower : Nat → Nat) (inp : List Nat) : List Nat → Nat → Option Bool
  | [], _ => some true
  | f :: rest, i =>
    match inp[i]? with
    | none => none
    | some c =>
      if c == f then swicLoop lower inp rest (i + 1)
      else if lower c != f then some false
      else swicLoop lower inp rest (i + 1)

/-- `StartsWithIgnoreCase(in, find)` (`find` is expected in lower case) -/
def startsWithIgnoreCase (lower : Nat → Nat) (inp find : List Nat) : Option Bool :=
  if inp.length < find.length then some false
  else swicLoop lower inp find 0

/-- `Equals(in, start, length, find)` -/
def equals (inp : List Nat) (start length : Nat) (find : List Nat) : Option Bool :=
  if find.length = 0 then some true
  else
    match slice inp start (start + length) with
    | none => none
    | some s => bytesEqual s find

/-- the loop of `EqualsIgnoreCase`: `for j := 0; j < len(find); j++ { inChar := in[start+j]; findChar := find[j];
    if inChar != findChar && ToLower(inChar) != ToLower(findChar) { return false } }; return true` -/
def eqicLoop (lower : Nat → Nat) (inp : List Nat) (start : Nat) : List Nat → Nat → Option Bool
  | [], _ => some true
  | f :: rest, j =>
    match inp[start + j]? with
    | none => none
    | some c => if c != f && lower c != lower f then some false else eqicLoop lower inp start rest (j + 1)

/-- `EqualsIgnoreCase(in, start, length, find)`.  The loop does not look at `length`: it compares `len(find)`
    runes from `start` on. -/
def equalsIgnoreCase (lower : Nat → Nat) (inp : List Nat) (start length : Nat) (find : List Nat) : Option Bool :=
  match equals inp start length find with
  | none => none
  | some true => some true
  | some false => eqicLoop lower inp start find 0

/-! ### the dispatchers of `runner.go` over these helpers -/

/-- `offset < 0` ↦ no candidate; otherwise `searchStart + offset` (a panic is no candidate either: the
    connecting theorems show it does not happen) -/
def absIdx (searchStart : Nat) : Option Int → Option Nat
  | some r => if r < 0 then none else some (searchStart + r.toNat)
  | none => none

/-- `indexOfAnyRunes(input, find)` (runner.go) -/
def indexOfAnyRunes (inp find : List Nat) : Option Int :=
  match find with
  | [] => some (-1)
  | [a] => indexOfAny1 inp a
  | [a, b] => indexOfAny2 inp a b
  | [a, b, c] => indexOfAny3 inp a b c
  | _ => indexOfAny inp find

/-- `indexOfSet(chars, set)` (runner.go) -/
def indexOfSet (inp : List Nat) (s : Finders.FDSet) : Option Int :=
  if decide (s.chars.length > 0) && !s.negated then indexOfAny inp s.chars
  else if decide (s.chars.length > 0) && s.negated then indexOfAnyExcept inp s.chars
  else
    match s.range with
    | some (first, last) =>
      if s.negated then indexOfAnyExceptInRange inp first last else indexOfAnyInRange inp first last
    | none => indexFunc inp s.mem

/-- `indexOfLiteralAfterLoop(r, literal, searchStart)` (runner.go), with `-1` ↦ `none` -/
def indexOfLiteralAfterLoop (lower : Nat → Nat) (l : Finders.LitAfterLoop) (text : List Nat) (searchStart : Nat) : Option Nat :=
  let search := text.drop searchStart
  if !l.str.isEmpty then
    if l.strIgnoreCase then
      absIdx searchStart (if Finders.isAscii l.str then indexOfIgnoreCaseAscii search l.str else indexOfIgnoreCase lower search l.str)
    else absIdx searchStart (indexOf search l.str)
  else if decide (l.chars.length > 0) then absIdx searchStart (indexOfAny search l.chars)
  else absIdx searchStart (indexOfAny1 search l.char)

/-! ### the searching finders of `runner.go` with their helper calls spelled out

`Model/Finders.lean` writes `findUp <test> …` where the Go code calls a helper on `r.Runtext[searchStart:]` and
adds `searchStart` to a non-negative answer.  The definitions below are the same finders with the call itself
(`Lemmas/IndexOf.lean` proves them EQUAL to the ones of `Model/Finders.lean`, position by position). -/

open RegexVerif.Finders in
/-- the search of `findLeadingStringLeftToRight` -/
def leadingStringSearch (lower : Nat → Nat) (pat : List Nat) (ignoreCase : Bool) (search : List Nat) : Option Int :=
  if ignoreCase then
    (if isAscii pat then indexOfIgnoreCaseAscii search pat else indexOfIgnoreCase lower search pat)
  else indexOf search pat

open RegexVerif.Finders in
/-- `findLeadingStringLeftToRight(r, prefix, ignoreCase)` -/
def finderLeadingStringIx (lower : Nat → Nat) (pat : List Nat) (ignoreCase : Bool) (text : List Nat)
    (minLen pos : Nat) : Bool × Nat :=
  let n := text.length
  if pat.isEmpty then (true, pos)
  else
    match absIdx pos (leadingStringSearch lower pat ignoreCase (text.drop pos)) with
    | none => (false, n)
    | some start => if hasLen minLen n start then (true, start) else (false, n)

open RegexVerif.Finders in
/-- `findFixedDistanceCharLeftToRight(r, ch, distance)` -/
def finderFixedCharIx (c d : Nat) (text : List Nat) (minLen pos : Nat) : Bool × Nat :=
  let n := text.length
  ltrResult n (searchLoop (fun s => decide (s < n))
    (fun s => absIdx s (indexOfAny1 (text.drop s) c))
    (fixedStep d n minLen pos) (n + 1) (pos + d))

open RegexVerif.Finders in
/-- `findFixedDistanceStringLeftToRight(r, literal, distance)` -/
def finderFixedStringIx (lit : List Nat) (d : Nat) (text : List Nat) (minLen pos : Nat) : Bool × Nat :=
  let n := text.length
  if lit.isEmpty then (true, pos)
  else
    ltrResult n (searchLoop (fun s => decide (s + lit.length ≤ n))
      (fun s => absIdx s (indexOf (text.drop s) lit))
      (fixedStep d n minLen pos) (n + 1) (pos + d))

open RegexVerif.Finders in
/-- `findFixedDistanceSetsLeftToRight(r, sets)` -/
def finderFixedSetsIx (sets : List FDSet) (text : List Nat) (minLen pos : Nat) : Bool × Nat :=
  let n := text.length
  match sets with
  | [] => (false, pos)
  | primary :: _ =>
    if primary.set.isNone then (false, pos)
    else
      ltrResult n (searchLoop (fun s => decide (s < n))
        (fun s => absIdx s (indexOfSet (text.drop s) primary))
        (fun i =>
          let start := i - primary.distance
          if decide (n < start + minLen) then .giveUp
          else if decide (pos ≤ start) && hasLen minLen n start && fixedSetsMatchAt sets text start then .found start
          else .next)
        (n + 1) (pos + primary.distance))

open RegexVerif.Finders in
/-- `findLiteralAfterLoopLeftToRight(r, literal)` -/
def finderLiteralAfterLoopIx (lower : Nat → Nat) (l : LitAfterLoop) (text : List Nat) (minLen pos : Nat) : Bool × Nat :=
  let n := text.length
  match l.loopSet with
  | none => (false, pos)
  | some S =>
    ltrResult n (searchLoop (fun s => decide (s < n))
      (fun s => indexOfLiteralAfterLoop lower l text s)
      (fun i =>
        let start := walkBack S text pos i
        if hasLen minLen n start then .found start else .next)
      (n + 1) pos)

end RegexVerif.IndexOf
