/-
Model of the timeout clock of regexp2 (fastclock.go, and the timeout rule of runner.go) as a timed
transition system.

Go state                     model
  fast.current   (atomic)      `State.current`   ticks
  fast.clockEnd  (atomic)      `State.clockEnd`  ticks
  fast.start     (time.Time)   `State.started` (= !start.IsZero()) and `State.startNs`
  fast.running                 `State.running`
  the wall clock               `State.now` (ns, monotone; `time.Since(fast.start) = now - startNs`)
  deadlines held by runners    `State.pending`
  (ghost)                      `State.lastWrite`: the real time at which `current` was last written,
                               which is also the time the clock goroutine last woke up / was started

All quantities are `Int`; durations and ticks of the Go code are int64, and the theorems of
Props/C14 show that for 0 ≤ d ≤ MaxInt64 no intermediate value leaves the int64 range
(`deadline_no_wrap`, `no_int64_overflow`), which is what makes the unbounded model faithful.

Timing assumptions (the *partial* part of C14): `time.Sleep(clockPeriod)` followed by re-taking the
mutex returns after at least `period` and at most `period + eps`; `eps` is a parameter.  A whole
makeDeadline call (two lock-free atomic reads, then one critical section) is one atomic event in this
file; Model/ClockConc.lean executes it step by step under arbitrary interleaving, and
Props.C14.conc_sequential_eq shows that the steps of a call executed in a row are this event.
-/
namespace RegexVerif.Clock

/-- math.MaxInt64 -/
def maxInt64 : Int := 9223372036854775807

/-- nanoseconds per tick: 2^20 -/
def tickNs : Int := 1048576

/-- `durationToTicks`: `fasttime(d) >> 20` (arithmetic shift = floor division by 2^20). -/
def ticks (x : Int) : Int := x >>> 20

/-- two's-complement wrap-around of an int64 addition result -/
def wrap64 (x : Int) : Int := (x + 9223372036854775808) % 18446744073709551616 - 9223372036854775808

structure Params where
  /-- `clockPeriod` in ns -/
  period : Int
  /-- assumption: largest overshoot of `time.Sleep(clockPeriod)` + mutex acquisition in runClock -/
  eps : Int
  /-- the slop added to clockEnd by extendClock (`time.Second`) in ns -/
  slop : Int
  deriving Repr

/-- `time.Second` -/
def goSlop : Int := 1000000000
/-- `DefaultClockPeriod` = 100 ms -/
def goDefaultPeriod : Int := 100000000

def Params.Valid (p : Params) : Prop :=
  0 ≤ p.period ∧ p.period ≤ maxInt64 ∧ 0 ≤ p.eps ∧ 0 ≤ p.slop ∧ p.slop ≤ maxInt64

/-- `deadlineTicks` of fastclock.go (after fix 45a1777): saturating `durationToTicks(d+clockPeriod)`. -/
def deadlineTicks (period d : Int) : Int :=
  if d > maxInt64 - period then ticks maxInt64 else ticks (d + period)

/-- the formula before 45a1777: the int64 sum wraps before it is scaled down -/
def oldDeadlineTicks (period d : Int) : Int := ticks (wrap64 (d + period))

/-- the duration whose tick count `deadlineTicks` returns: `min (d + period) MaxInt64` -/
def effDur (period d : Int) : Int :=
  if d > maxInt64 - period then maxInt64 else d + period

/-- a deadline held by a runner -/
structure Deadline where
  /-- real time (ns) at which makeDeadline was called -/
  t0 : Int
  /-- the MatchTimeout -/
  d : Int
  /-- the `fasttime` returned by makeDeadline -/
  dl : Int
  /-- ghost: no clock goroutine was running when the deadline was made (so `current` was read afresh) -/
  fresh : Bool
  deriving DecidableEq, Repr

structure State where
  current : Int
  clockEnd : Int
  started : Bool
  startNs : Int
  running : Bool
  now : Int
  lastWrite : Int
  pending : List Deadline
  deriving Repr

def State.init : State :=
  { current := 0, clockEnd := 0, started := false, startNs := 0, running := false, now := 0, lastWrite := 0, pending := [] }

/-- `t.reached()` -/
def reached (s : State) (dl : Int) : Bool := decide (dl ≤ s.current)

/-- the locked block of makeDeadline: refresh a stale `current` when no updater is running -/
def refresh (s : State) : State :=
  { s with
    current := if !s.running && s.started then ticks (s.now - s.startNs) else s.current
    lastWrite := if !s.running && s.started then s.now else s.lastWrite }

/-- `extendClock(end)`: set `start` if it is zero, raise `clockEnd` to `end + 1s`, start the updater if
    none is running (the ghost `lastWrite` then marks the birth of the goroutine) -/
def extendClock (p : Params) (s : State) (e : Int) : State :=
  let shutdown := e + ticks p.slop
  { s with
    started := true
    startNs := if s.started then s.startNs else s.now
    clockEnd := if shutdown > s.clockEnd then shutdown else s.clockEnd
    running := true
    lastWrite := if s.running then s.lastWrite else s.now }

/-- `makeDeadline(d)`: new state and the returned deadline -/
def makeDeadline (p : Params) (s : State) (d : Int) : State × Int :=
  let e := s.current + deadlineTicks p.period d
  if e > s.clockEnd then
    let s1 := refresh s
    let e1 := s1.current + deadlineTicks p.period d
    (extendClock p s1 e1, e1)
  else (s, e)

/-- `startTimeoutWatch` with the ignoreTimeout rule of `scan`: MatchTimeout = MaxInt64 creates no
    deadline and the runner never checks one. -/
def startWatch (p : Params) (s : State) (d : Int) : State :=
  if d = maxInt64 then s
  else
    let r := makeDeadline p s d
    { r.1 with pending := { t0 := s.now, d := d, dl := r.2, fresh := !s.running } :: r.1.pending }

/-- one iteration of the loop of runClock, `dt` ns after the previous event: store the time, then
    evaluate the loop condition; leaving the loop clears `running`. -/
def tick (s : State) (dt : Int) : State :=
  let cur := ticks (s.now + dt - s.startNs)
  { s with now := s.now + dt, current := cur, lastWrite := s.now + dt, running := decide (cur ≤ s.clockEnd) }

/-- the locked block of `stopClock`.  Deadlines pending at that moment are no longer covered by the
    clock (StopTimeoutClock "abandons" the clock): the model drops them from `pending`. -/
def stop (s : State) : State :=
  { s with clockEnd := if s.running then 0 else s.clockEnd, pending := [] }

inductive Event where
  /-- a runner calls startTimeoutWatch with MatchTimeout `d` (no time passes) -/
  | make (d : Int)
  /-- the clock goroutine wakes `dt` ns after the previous event -/
  | tick (dt : Int)
  /-- StopTimeoutClock writes clockEnd -/
  | stop
  /-- `dt` ns pass with no event -/
  | idle (dt : Int)
  /-- the runner holding the i-th pending deadline returns (match found, failed or timed out) -/
  | finish (i : Nat)
  deriving Repr

/-- enabledness + effect.  Time may not pass beyond `lastWrite + period + eps` while the clock
    goroutine is alive (it wakes by then), and a tick comes no sooner than `period` after the
    previous one. -/
def step (p : Params) (s : State) : Event → Option State
  | .make d => if 0 ≤ d ∧ d ≤ maxInt64 then some (startWatch p s d) else none
  | .tick dt =>
    if s.running = true ∧ 0 ≤ dt ∧ s.lastWrite + p.period ≤ s.now + dt ∧ s.now + dt ≤ s.lastWrite + p.period + p.eps
    then some (tick s dt) else none
  | .stop => some (stop s)
  | .idle dt =>
    if 0 ≤ dt ∧ (s.running = true → s.now + dt ≤ s.lastWrite + p.period + p.eps)
    then some { s with now := s.now + dt } else none
  | .finish i => if i < s.pending.length then some { s with pending := s.pending.eraseIdx i } else none

/-- run an event sequence from a state -/
def run (p : Params) : State → List Event → Option State
  | s, [] => some s
  | s, e :: es => match step p s e with
    | none => none
    | some s' => run p s' es

/-- states reachable from the initial state (program start: zero clock) -/
inductive Reachable (p : Params) : State → Prop where
  | init : Reachable p State.init
  | step {s s' : State} (e : Event) : Reachable p s → step p s e = some s' → Reachable p s'

/-! ### deterministic simulation used by the correspondence leg

API-level events with measured timestamps; between them the clock goroutine ticks on the ideal
schedule (exactly every `period`, eps = 0). -/

inductive Api where
  | make (id : Nat) (t d : Int)
  | stop (t tret : Int)
  | probe (t : Int)
  | fin (id : Nat) (t : Int)
  deriving Repr

inductive Obs where
  /-- armed, deadline, earliest real time at which `reached` can hold (`startNs + 2^20·dl`), the same
      plus one period, clock was not running before the call (so `current` was exact) -/
  | make (id : Nat) (armed : Bool) (dl lo hi : Int) (fresh : Bool)
  /-- time at which the ideal clock leaves its loop after the stop -/
  | stop (exitT : Int)
  /-- running, earliest real time at which a tick makes `current > clockEnd` -/
  | probe (running : Bool) (endT : Int)
  | fin (id : Nat) (known reachedNow : Bool)
  deriving Repr

/-- let time pass until `t`, ticking on the ideal schedule -/
def advance (p : Params) : Nat → State → Int → State
  | 0, s, _ => s
  | fuel + 1, s, t =>
    if s.running ∧ 0 < p.period ∧ s.lastWrite + p.period ≤ t then
      advance p fuel (tick s (s.lastWrite + p.period - s.now)) t
    else if s.now < t then { s with now := t } else s

def advanceFuel (p : Params) (s : State) (t : Int) : Nat :=
  if 0 < p.period then ((t - s.lastWrite) / p.period).toNat + 2 else 1

def advanceTo (p : Params) (s : State) (t : Int) : State := advance p (advanceFuel p s t) s t

/-- after `stop`: the updater's next wake-ups, until it has left its loop.  StopTimeoutClock returned at
    `tret`, so the real updater was gone by then: the wake-up is placed at `lastWrite + period` or at
    `tret`, whichever is earlier (the phase of the real updater is not observable). -/
def drain (p : Params) (tret : Int) : Nat → State → State
  | 0, s => s
  | fuel + 1, s =>
    if s.running then
      let w := if s.lastWrite + p.period < tret then s.lastWrite + p.period else tret
      drain p tret fuel (tick s (if w < s.now then 0 else w - s.now))
    else s

/-- the simulation keeps the identifiers of pending deadlines next to the state -/
def simStep (p : Params) (sids : State × List Nat) : Api → (State × List Nat) × Obs
  | .make id t d =>
    let s := advanceTo p sids.1 t
    let fresh := !s.running
    let s' := startWatch p s d
    if d = maxInt64 then ((s', sids.2), .make id false 0 0 0 fresh)
    else
      let dl := match s'.pending with
        | e :: _ => e.dl
        | [] => 0
      let lo := s'.startNs + tickNs * dl
      ((s', id :: sids.2), .make id true dl lo (lo + p.period) fresh)
  | .stop t tret =>
    let s := advanceTo p sids.1 t
    let s' := drain p tret 64 (stop s)
    let s'' := if s'.now < tret then { s' with now := tret } else s'
    ((s'', []), .stop s'.now)
  | .probe t =>
    let s := advanceTo p sids.1 t
    ((s, sids.2), .probe s.running (s.startNs + tickNs * (s.clockEnd + 1)))
  | .fin id t =>
    let s := advanceTo p sids.1 t
    match sids.2.idxOf? id with
    | some i =>
      let r := match s.pending[i]? with
        | some e => reached s e.dl
        | none => false
      (({ s with pending := s.pending.eraseIdx i }, sids.2.eraseIdx i), .fin id true r)
    | none => ((s, sids.2), .fin id false false)

def simulate (p : Params) : State × List Nat → List Api → List Obs
  | _, [] => []
  | s, a :: as => let r := simStep p s a; r.2 :: simulate p r.1 as

/-- the state in which a history starts when the clock was used before in the process:
    started at `startNs`, no updater running, `current` stale -/
def State.stopped (startNs now : Int) : State :=
  { current := ticks (now - startNs), clockEnd := 0, started := true, startNs := startNs, running := false,
    now := now, lastWrite := now, pending := [] }

end RegexVerif.Clock
