/-
Re-casing a pattern (C20, pattern side): `Spec.recase e ch p` is the pattern `p` in which the letters
of the case-insensitive character tests are written in the other case wherever the choice function
`ch` says so.

* a ci literal `Pred.one c true` / ci negated literal `Pred.notone c true`: `c` is replaced by its
  simple case partner `e.partner c` (unchanged when it has none);
* a ci class `Pred.set cls true`: every range `(lo, hi)` of every `Cls.base` (a single class member
  is the range `(c, c)`), whatever the negation flag, on both sides of every `Cls.diff`: the lower
  and the upper endpoint are re-cased *independently* (two choice bits per range);
* case-sensitive tests, named classes, anchors, back-references and the shape of the pattern stay.

A choice function is indexed by the *path* to the letter: the list of child indexes from the root of
the pattern down to the leaf (`seq a b`: `a` is child 0, `b` child 1; `exprCond c y n`: 0, 1, 2; one
child: 0; `Cls.diff a b`: 0, 1), followed inside a `Cls.base` by `[i, 0]` for the lower and `[i, 1]` for
the upper endpoint of the `i`-th range.  Distinct letters have distinct paths, so *every* way of
re-casing any subset of the letters of the pattern — every occurrence on its own — is `recase e ch p`
for some `ch` (`Props/C20.lean`, `recased_iff_recase`).

What leg F of C20 does in Go (`flipPattern` in harness/internal/legs/c20.go: literals; class members;
both endpoints of a range together) is the special case in which the two bits of a range agree.
-/
import RegexVerif.Model.Spec

namespace RegexVerif.Spec

/-- which letters to re-case: a bit for every path (see the file header) -/
abbrev Choice := List Nat → Bool

/-- the choice function of the `i`-th child -/
def Choice.sub (ch : Choice) (i : Nat) : Choice := fun path => ch (i :: path)

/-- a rune in the other case when `b` is set and it has a simple case partner; otherwise itself -/
def recaseRune (e : Env) (b : Bool) (c : Nat) : Nat :=
  if b then
    match e.partner c with
    | some q => q
    | none => c
  else c

/-- the ranges of one `Cls.base`, `i` is the index of the first range of the list; the two endpoints
    of a range are re-cased independently -/
def recaseRanges (e : Env) (ch : Choice) : Nat → List (Nat × Nat) → List (Nat × Nat)
  | _, [] => []
  | i, (lo, hi) :: rs => (recaseRune e (ch [i, 0]) lo, recaseRune e (ch [i, 1]) hi) :: recaseRanges e ch (i + 1) rs

/-- a class: all ranges of all `base` parts, negated or not, on both sides of a subtraction -/
def recaseCls (e : Env) : Choice → Cls → Cls
  | ch, .base neg rs ns => .base neg (recaseRanges e ch 0 rs) ns
  | ch, .diff a b => .diff (recaseCls e (ch.sub 0) a) (recaseCls e (ch.sub 1) b)

/-- a character test: only the case-insensitive ones have letters whose case is free -/
def recasePred (e : Env) (ch : Choice) : Pred → Pred
  | .one c true => .one (recaseRune e (ch []) c) true
  | .notone c true => .notone (recaseRune e (ch []) c) true
  | .set cls true => .set (recaseCls e ch cls) true
  | p => p

/-- **the re-cased pattern** -/
def recase (e : Env) : Choice → Pat → Pat
  | _, .empty => .empty
  | _, .nothing => .nothing
  | ch, .chr p => .chr (recasePred e ch p)
  | _, .anchor a => .anchor a
  | ch, .seq a b => .seq (recase e (ch.sub 0) a) (recase e (ch.sub 1) b)
  | ch, .alt a b => .alt (recase e (ch.sub 0) a) (recase e (ch.sub 1) b)
  | ch, .quant lzy lo hi body => .quant lzy lo hi (recase e (ch.sub 0) body)
  | ch, .cap g body => .cap g (recase e (ch.sub 0) body)
  | ch, .look behind neg body => .look behind neg (recase e (ch.sub 0) body)
  | ch, .atomic body => .atomic (recase e (ch.sub 0) body)
  | _, .ref g ci => .ref g ci
  | ch, .refCond g yes no => .refCond g (recase e (ch.sub 0) yes) (recase e (ch.sub 1) no)
  | ch, .exprCond c yes no => .exprCond (recase e (ch.sub 0) c) (recase e (ch.sub 1) yes) (recase e (ch.sub 2) no)

end RegexVerif.Spec
