/-
The bytecode writer (`syntax/writer.go`): `Write`, `codeFromTree`, `emitFragment`, `emitCapture`,
`patchJump`, `stringCode`, `setCode`, `mapCapnum`, `emit/emit1/emit2`, and `captureSlotsInUse`
(`syntax/code.go`).

Go walks the reduced `RegexNode` tree with an explicit stack, calls `emitFragment` before and after
every child of an interior node and at every leaf, and patches forward jumps afterwards
(`patchJump`).  It runs twice: a counting pass (sizes `emitted`, increments `trackcount` once per
`emit*` call whose opcode `opcodeBacktracks`) and an emitting pass.  Here the same program is
produced by STRUCTURAL recursion over the tree: `size` is what the counting pass computes for a
sub-tree, `emitNode` at a code offset produces the instructions of that sub-tree with the jump
operands the later `patchJump` calls write (their values are positions `curPos()` reaches, i.e. sums
of sizes).  Leg Wr (harness/internal/legs/writer.go) compares the result with `syntax.Write` word for
word on every explored tree.

One instruction = one call of `emit`/`emit1`/`emit2` (`Instr`: the opcode word as passed, modifier
bits included, and its operands); `Codes` is the concatenation of their words (`flatten`);
`TrackCount` counts the calls whose opcode backtracks.

Sets are carried as their `CharSet.Hash()` bytes (`mapHashFill`): that string is the key of
`sethash`, so two set nodes share a table entry exactly when these payloads are equal.  Strings are
keyed by `string(str)` (`strKey`: runes that are not scalar values collapse to U+FFFD).

Opcode numbers, `opcodeSize` and `opcodeBacktracks` come from `Generated/Opcodes.lean`.  A leaf's
node type is passed through as the opcode (`InstOp(node.T|bits)`), as the Go code does.
-/
import RegexVerif.Model.Code

namespace RegexVerif.Writer
open RegexVerif.Generated.Opcodes

/-- `math.MaxInt32`: the "unbounded" maximum of a loop -/
def maxInt32 : Int := 2147483647

/-- A reduced `*syntax.RegexNode` tree as the writer reads it.  Leaves keep their node type `t`
    (numerically the opcode), the two option bits `emitFragment` reads (`RightToLeft`, `IgnoreCase`)
    and the payload fields; interior nodes keep `M`/`N` where the writer reads them.  The child
    counts of the fixed-arity nodes are what the parser produces (`Loop`, `Capture`, `Group`, the
    lookarounds and `Atomic` have one child; `BackRefCond` one or two; `ExprCond` two or three). -/
inductive GoNode where
  /-- `NtEmpty` -/
  | empty
  /-- `NtNothing, NtBol, NtEol, NtBoundary, NtNonboundary, NtECMABoundary, NtNonECMABoundary,
      NtBeginning, NtStart, NtEndZ, NtEnd, NtUpdateBumpalong`: `w.emit(InstOp(node.T))` -/
  | bare (t : Nat)
  /-- `NtOne`, `NtNotone` -/
  | char (t : Nat) (rtl ci : Bool) (ch : Int)
  /-- `NtSet`; `set` = `node.Set.Hash()` -/
  | set (rtl ci : Bool) (set : List Nat)
  /-- `NtMulti` -/
  | multi (rtl ci : Bool) (str : List Nat)
  /-- `NtRef`, `m` = group number -/
  | ref (rtl ci : Bool) (m : Int)
  /-- `NtOneloop, NtNotoneloop, NtOnelazy, NtNotonelazy, NtOneloopatomic, NtNotoneloopatomic` -/
  | charloop (t : Nat) (rtl ci : Bool) (ch : Int) (m n : Int)
  /-- `NtSetloop, NtSetlazy, NtSetloopatomic` -/
  | setloop (t : Nat) (rtl ci : Bool) (set : List Nat) (m n : Int)
  /-- `NtConcatenate` -/
  | concat (cs : List GoNode)
  /-- `NtAlternate` -/
  | alt (cs : List GoNode)
  /-- `NtLoop` / `NtLazyloop` -/
  | loop (lzy : Bool) (m n : Int) (c : GoNode)
  /-- `NtCapture`: `m` = group, `n` = the group a balancing construct pops, or −1 -/
  | capture (m n : Int) (c : GoNode)
  /-- `NtGroup` -/
  | group (c : GoNode)
  /-- `NtPosLook` (`(?=…)`, `(?<=…)`) -/
  | poslook (c : GoNode)
  /-- `NtNegLook` -/
  | neglook (c : GoNode)
  /-- `NtAtomic` -/
  | atomic (c : GoNode)
  /-- `NtBackRefCond` with one child -/
  | backrefcond1 (m : Int) (yes : GoNode)
  /-- `NtBackRefCond` with two children -/
  | backrefcond2 (m : Int) (yes no : GoNode)
  /-- `NtExprCond` with two children -/
  | exprcond2 (cond yes : GoNode)
  /-- `NtExprCond` with three children -/
  | exprcond3 (cond yes no : GoNode)
  /-- any other node type or child count: `emitFragment` returns "unexpected opcode" -/
  | other (t : Int)
  deriving Inhabited, Repr

/-- one `emit`/`emit1`/`emit2` call: the opcode word (with `Rtl`/`Ci` bits) and the operands -/
structure Instr where
  op : Nat
  args : List Int
  deriving Inhabited, Repr, DecidableEq

abbrev Code := List Instr

def i0 (op : Nat) : Instr := ⟨op, []⟩
def i1 (op : Nat) (a : Int) : Instr := ⟨op, [a]⟩
def i2 (op : Nat) (a b : Int) : Instr := ⟨op, [a, b]⟩

/-- the words an instruction occupies in `Codes` -/
def Instr.words (i : Instr) : List Int := (i.op : Int) :: i.args

/-- `Codes` -/
def flatten : Code → List Int
  | [] => []
  | i :: rest => i.words ++ flatten rest

/-- length in words (`w.count` / the advance of `w.curpos`) -/
def codeLen : Code → Nat
  | [] => 0
  | i :: rest => 1 + i.args.length + codeLen rest

/-- the opcode without modifier bits (`op & Mask`) -/
def Instr.opcode (i : Instr) : Nat := i.op % (flagMask + 1)

/-- `w.trackcount` after the counting pass: one per `emit*` call with `opcodeBacktracks(op)` -/
def trackCount : Code → Nat
  | [] => 0
  | i :: rest => (if Code.backtracks i.opcode then 1 else 0) + trackCount rest

/-- the string and set tables of the writer (`stringtable`/`settable`; the hash maps are their inverse) -/
structure Tables where
  strings : List (List Nat)
  sets : List (List Nat)
  deriving Inhabited, Repr, DecidableEq

/-- `stringCode` / `setCode`: the index of the first earlier entry with the same map key, else a new
    entry at the end -/
def internKey (key : List Nat → List Nat) (tbl : List (List Nat)) (x : List Nat) : Nat × List (List Nat) :=
  let i := (tbl.map key).idxOf (key x)
  (i, if i < tbl.length then tbl else tbl ++ [x])

/-- the key of `stringhash` is `string(str)`, which replaces every rune that is not a Unicode scalar value
    by U+FFFD; since /repo 'fix: the set and string tables of the writer …' a hit is confirmed by comparing
    the runes, so the table is keyed by the string itself (before: `x\uD800` and `x\uDC00` shared an entry) -/
def strKey (s : List Nat) : List Nat := s

/-- the key of `sethash` is the `mapHashFill` string, which is the payload itself -/
def setKey (s : List Nat) : List Nat := s

/-- writer state that does not change during the walk: `w.caps` and `w.quickCaptureSlots` -/
structure Cfg where
  caps : Option (List (Int × Int))
  quick : Option (List Bool)
  deriving Inhabited, Repr

/-- a Go `map[int]int` read: the zero value for a missing key -/
def mapGet (m : List (Int × Int)) (k : Int) : Int :=
  match m.find? (fun p => p.1 == k) with
  | some p => p.2
  | none => 0

/-- a Go map write, on an association list kept sorted by key -/
def mapSet : List (Int × Int) → Int → Int → List (Int × Int)
  | [], k, v => [(k, v)]
  | (k', v') :: rest, k, v =>
    if k < k' then (k, v) :: (k', v') :: rest
    else if k == k' then (k, v) :: rest
    else (k', v') :: mapSet rest k v

/-- `mapCapnum` -/
def mapCapnum (cfg : Cfg) (capnum : Int) : Int :=
  if capnum == -1 then -1
  else match cfg.caps with
    | some m => mapGet m capnum
    | none => capnum

/-- `emitCapture` -/
def emitCapture (cfg : Cfg) (m n : Int) : Bool :=
  match cfg.quick with
  | none => true
  | some q =>
    let capnum := mapCapnum cfg m
    let uncapnum := mapCapnum cfg n
    if uncapnum != -1 then true
    else capnum ≥ 0 && (capnum ≥ q.length || q.getD capnum.toNat false)

/-- the `Rtl`/`Ci` bits `emitFragment` derives from `node.Options` -/
def bits (rtl ci : Bool) : Nat := (if rtl then flagRtl else 0) ||| (if ci then flagCi else 0)

/-- the repeat operand of the variable part of a loop: `MaxInt32` when unbounded, else `N − M` -/
def repArg (m n : Int) : Int := if n == maxInt32 then maxInt32 else n - m

/-- `node.T == NtOneloop || node.T == NtOnelazy || node.T == NtOneloopatomic` -/
def isOneFamily (t : Nat) : Bool := t == opOneloop || t == opOnelazy || t == opOneloopatomic

/-- `node.N < math.MaxInt32 || node.M > 1`: the loop needs a counter -/
def counted (m n : Int) : Bool := n < maxInt32 || m > 1

/-- words emitted before the body of a `Loop`/`Lazyloop` -/
def loopHeadLen (m n : Int) : Nat := (if counted m n then 2 else 1) + (if m == 0 then 2 else 0)

/-- words emitted after the body of a `Loop`/`Lazyloop` -/
def loopTailLen (m n : Int) : Nat := if counted m n then 3 else 2

/-- size in words of the fixed part of a single-character loop -/
def repLen (m n : Int) : Nat := (if m > 0 then 3 else 0) + (if n > m then 3 else 0)

mutual
/-- what the counting pass adds to `w.count` for a sub-tree -/
def size (cfg : Cfg) : GoNode → Nat
  | .empty => 0
  | .bare _ => 1
  | .char _ _ _ _ => 2
  | .set _ _ _ => 2
  | .multi _ _ _ => 2
  | .ref _ _ _ => 2
  | .charloop _ _ _ _ m n => repLen m n
  | .setloop _ _ _ _ m n => repLen m n
  | .concat cs => sizeList cfg cs
  | .alt cs => sizeAlt cfg cs
  | .loop _ m n c => loopHeadLen m n + size cfg c + loopTailLen m n
  | .capture m n c => if emitCapture cfg m n then 1 + size cfg c + 3 else size cfg c
  | .group c => size cfg c
  | .poslook c => 2 + size cfg c + 2
  | .neglook c => 3 + size cfg c + 2
  | .atomic c => 1 + size cfg c + 1
  | .backrefcond1 _ y => 6 + size cfg y + 3
  | .backrefcond2 _ y n => 6 + size cfg y + 3 + size cfg n
  | .exprcond2 c y => 4 + size cfg c + 2 + size cfg y + 4
  | .exprcond3 c y n => 4 + size cfg c + 2 + size cfg y + 4 + size cfg n
  | .other _ => 0
/-- children of a `Concatenate` -/
def sizeList (cfg : Cfg) : List GoNode → Nat
  | [] => 0
  | c :: cs => size cfg c + sizeList cfg cs
/-- children of an `Alternate`: every branch but the last is framed by `Lazybranch` … `Goto` -/
def sizeAlt (cfg : Cfg) : List GoNode → Nat
  | [] => 0
  | c :: cs => if cs.isEmpty then size cfg c else 2 + size cfg c + 2 + sizeAlt cfg cs
end

mutual
/-- the instructions of a sub-tree whose first word lands at code offset `a`, given the tables built
    so far; returns the tables after it -/
def emitNode (cfg : Cfg) (a : Nat) (tb : Tables) : GoNode → Code × Tables
  | .empty => ([], tb)
  | .bare t => ([i0 t], tb)
  | .char t rtl ci ch => ([i1 (t ||| bits rtl ci) ch], tb)
  | .set rtl ci s =>
    let r := internKey setKey tb.sets s
    ([i1 (opSet ||| bits rtl ci) r.1], { tb with sets := r.2 })
  | .multi rtl ci s =>
    let r := internKey strKey tb.strings s
    ([i1 (opMulti ||| bits rtl ci) r.1], { tb with strings := r.2 })
  | .ref rtl ci m => ([i1 (opRef ||| bits rtl ci) (mapCapnum cfg m)], tb)
  | .charloop t rtl ci ch m n =>
    ((if m > 0 then [i2 ((if isOneFamily t then opOnerep else opNotonerep) ||| bits rtl ci) ch m] else []) ++
      (if n > m then [i2 (t ||| bits rtl ci) ch (repArg m n)] else []), tb)
  | .setloop t rtl ci s m n =>
    let r := internKey setKey tb.sets s
    ((if m > 0 then [i2 (opSetrep ||| bits rtl ci) r.1 m] else []) ++
      (if n > m then [i2 (t ||| bits rtl ci) r.1 (repArg m n)] else []),
     if m > 0 || n > m then { tb with sets := r.2 } else tb)
  | .concat cs => emitList cfg a tb cs
  | .alt cs => emitAlt cfg a (a + sizeAlt cfg cs) tb cs
  | .loop lzy m n c =>
    let body := a + loopHeadLen m n
    let r := emitNode cfg body tb c
    let after := body + size cfg c
    let lz := if lzy then 1 else 0
    ((if counted m n then (if m == 0 then [i1 opNullcount 0] else [i1 opSetcount (1 - m)])
        else (if m == 0 then [i0 opNullmark] else [i0 opSetmark])) ++
      (if m == 0 then [i1 opGoto after] else []) ++
      r.1 ++
      (if counted m n then [i2 (opBranchcount + lz) body (repArg m n)] else [i1 (opBranchmark + lz) body]),
     r.2)
  | .capture m n c =>
    if emitCapture cfg m n then
      let r := emitNode cfg (a + 1) tb c
      ([i0 opSetmark] ++ r.1 ++ [i2 opCapturemark (mapCapnum cfg m) (mapCapnum cfg n)], r.2)
    else emitNode cfg a tb c
  | .group c => emitNode cfg a tb c
  | .poslook c =>
    let r := emitNode cfg (a + 2) tb c
    ([i0 opSetjump, i0 opSetmark] ++ r.1 ++ [i0 opGetmark, i0 opForejump], r.2)
  | .neglook c =>
    let r := emitNode cfg (a + 3) tb c
    ([i0 opSetjump, i1 opLazybranch (a + 3 + size cfg c + 1 : Nat)] ++ r.1 ++ [i0 opBackjump, i0 opForejump], r.2)
  | .atomic c =>
    let r := emitNode cfg (a + 1) tb c
    ([i0 opSetjump] ++ r.1 ++ [i0 opForejump], r.2)
  | .backrefcond1 m y =>
    let r := emitNode cfg (a + 6) tb y
    let g := a + 6 + size cfg y
    ([i0 opSetjump, i1 opLazybranch (g + 2 : Nat), i1 opTestref (mapCapnum cfg m), i0 opForejump] ++ r.1 ++
      [i1 opGoto (g + 3 : Nat), i0 opForejump], r.2)
  | .backrefcond2 m y n =>
    let r := emitNode cfg (a + 6) tb y
    let g := a + 6 + size cfg y
    let r2 := emitNode cfg (g + 3) r.2 n
    ([i0 opSetjump, i1 opLazybranch (g + 2 : Nat), i1 opTestref (mapCapnum cfg m), i0 opForejump] ++ r.1 ++
      [i1 opGoto (g + 3 + size cfg n : Nat), i0 opForejump] ++ r2.1, r2.2)
  | .exprcond2 c y =>
    let r := emitNode cfg (a + 4) tb c
    let yp := a + 4 + size cfg c + 2
    let r2 := emitNode cfg yp r.2 y
    let g := yp + size cfg y
    ([i0 opSetjump, i0 opSetmark, i1 opLazybranch (g + 2 : Nat)] ++ r.1 ++ [i0 opGetmark, i0 opForejump] ++ r2.1 ++
      [i1 opGoto (g + 4 : Nat), i0 opGetmark, i0 opForejump], r2.2)
  | .exprcond3 c y n =>
    let r := emitNode cfg (a + 4) tb c
    let yp := a + 4 + size cfg c + 2
    let r2 := emitNode cfg yp r.2 y
    let g := yp + size cfg y
    let r3 := emitNode cfg (g + 4) r2.2 n
    ([i0 opSetjump, i0 opSetmark, i1 opLazybranch (g + 2 : Nat)] ++ r.1 ++ [i0 opGetmark, i0 opForejump] ++ r2.1 ++
      [i1 opGoto (g + 4 + size cfg n : Nat), i0 opGetmark, i0 opForejump] ++ r3.1, r3.2)
  | .other _ => ([], tb)
/-- the children of a `Concatenate`, one after the other -/
def emitList (cfg : Cfg) (a : Nat) (tb : Tables) : List GoNode → Code × Tables
  | [] => ([], tb)
  | c :: cs =>
    let r := emitNode cfg a tb c
    let r2 := emitList cfg (a + size cfg c) r.2 cs
    (r.1 ++ r2.1, r2.2)
/-- the children of an `Alternate` whose code ends at `fin`: `Lazybranch next; cᵢ; Goto fin` for every
    branch but the last (`next` = the first word after that `Goto`), the last branch bare -/
def emitAlt (cfg : Cfg) (a fin : Nat) (tb : Tables) : List GoNode → Code × Tables
  | [] => ([], tb)
  | c :: cs =>
    if cs.isEmpty then emitNode cfg a tb c
    else
      let r := emitNode cfg (a + 2) tb c
      let next := a + 2 + size cfg c + 2
      let r2 := emitAlt cfg next fin r.2 cs
      ([i1 opLazybranch (next : Nat)] ++ r.1 ++ [i1 opGoto (fin : Nat)] ++ r2.1, r2.2)
end

/-- the node types each leaf constructor stands for (the `case` labels of `emitFragment`) -/
def bareTypes : List Nat := [opNothing, opBol, opEol, opBoundary, opNonboundary, opECMABoundary, opNonECMABoundary,
  opBeginning, opStart, opEndZ, opEnd, opUpdateBumpalong]
def charTypes : List Nat := [opOne, opNotone]
def charloopTypes : List Nat := [opNotoneloop, opNotoneloopatomic, opNotonelazy, opOneloop, opOneloopatomic, opOnelazy]
def setloopTypes : List Nat := [opSetloop, opSetlazy, opSetloopatomic]

mutual
/-- `emitFragment` returns no error anywhere in the tree: known node types, and no childless
    `Concatenate`/`Alternate` (a childless interior node is emitted as a leaf and hits `default:`) -/
def GoNode.ok : GoNode → Bool
  | .empty => true
  | .bare t => bareTypes.contains t
  | .char t _ _ _ => charTypes.contains t
  | .set _ _ _ => true
  | .multi _ _ _ => true
  | .ref _ _ _ => true
  | .charloop t _ _ _ _ _ => charloopTypes.contains t
  | .setloop t _ _ _ _ _ => setloopTypes.contains t
  | .concat cs => !cs.isEmpty && okList cs
  | .alt cs => !cs.isEmpty && okList cs
  | .loop _ _ _ c => c.ok
  | .capture _ _ c => c.ok
  | .group c => c.ok
  | .poslook c => c.ok
  | .neglook c => c.ok
  | .atomic c => c.ok
  | .backrefcond1 _ y => y.ok
  | .backrefcond2 _ y n => y.ok && n.ok
  | .exprcond2 c y => c.ok && y.ok
  | .exprcond3 c y n => c.ok && y.ok && n.ok
  | .other _ => false
def okList : List GoNode → Bool
  | [] => true
  | c :: cs => c.ok && okList cs
end

/-- the loop of `codeFromTree`: `Lazybranch` over the whole program (patched to the position of
    `Stop`), the root's fragment at offset 2, `Stop` -/
def codeFromTree (cfg : Cfg) (root : GoNode) : Code × Tables :=
  let r := emitNode cfg 2 ⟨[], []⟩ root
  ([i1 opLazybranch (2 + size cfg root : Nat)] ++ r.1 ++ [i0 opStop], r.2)

/-- what `codeFromTree` reads of the `RegexTree` besides the root -/
structure TreeInfo where
  /-- `Captop` -/
  captop : Int
  /-- `Capnumlist` (`none` = nil) -/
  capnumlist : Option (List Int)
  /-- `Caps` before `Write` (sorted by key) -/
  caps : List (Int × Int)
  /-- `Options & RightToLeft` -/
  rtl : Bool
  deriving Inhabited, Repr

/-- `for i := 0; i < len(tree.Capnumlist); i++ { w.caps[tree.Capnumlist[i]] = i }` -/
def setSlots : List (Int × Int) → List Int → Nat → List (Int × Int)
  | m, [], _ => m
  | m, k :: ks, i => setSlots (mapSet m k i) ks (i + 1)

/-- the head of `codeFromTree`: `(capsize, w.caps)` -/
def writerCaps (ti : TreeInfo) : Int × Option (List (Int × Int)) :=
  match ti.capnumlist with
  | none => (ti.captop, none)
  | some l =>
    if ti.captop == (l.length : Int) then (ti.captop, none)
    else ((l.length : Int), some (setSlots ti.caps l 0))

/-- set `inUse[capnum] = true` when `capnum >= 0 && capnum < len(inUse)` -/
def markSlot (u : List Bool) (c : Option Int) : List Bool :=
  match c with
  | some c => if c ≥ 0 && c < u.length then u.set c.toNat true else u
  | none => u

/-- the loop of `captureSlotsInUse` over the code words from the current position on; `fuel` bounds
    the number of instructions (every instruction has at least one word) -/
def slotsWalk : Nat → List Int → List Bool → List Bool
  | 0, _, u => u
  | _, [], u => u
  | fuel + 1, w :: rest, u =>
    let op := w.toNat % (flagMask + 1)
    let u' :=
      if op == opRef || op == opTestref then markSlot u rest[0]?
      else if op == opCapturemark then
        (if rest[1]? != some (-1) then markSlot (markSlot u rest[0]?) rest[1]? else u)
      else u
    match Code.sizeOf? op with
    | none => u'
    | some n => slotsWalk fuel (rest.drop (n - 1)) u'

/-- `captureSlotsInUse(codes, capsize)` -/
def captureSlotsInUse (codes : List Int) (capsize : Nat) : List Bool :=
  slotsWalk codes.length codes ((List.replicate capsize false).set 0 true)

/-- everything `Write` computes that the model covers -/
structure Written where
  prog : Code.Prog
  /-- `Sets`, by payload -/
  sets : List (List Nat)
  /-- `CaptureSlotInUse` -/
  slotInUse : List Bool
  /-- `QuickCodes` (`none` = nil) -/
  quick : Option (List Int)
  deriving Inhabited, Repr

/-- the configuration of the main writer -/
def mainCfg (ti : TreeInfo) : Cfg := ⟨(writerCaps ti).2, none⟩

/-- `Capsize` -/
def capsize (ti : TreeInfo) : Nat := (writerCaps ti).1.toNat

/-- the instructions of the main program -/
def mainCode (ti : TreeInfo) (root : GoNode) : Code := (codeFromTree (mainCfg ti) root).1

/-- `CaptureSlotInUse` of the main program -/
def slotsInUse (ti : TreeInfo) (root : GoNode) : List Bool :=
  captureSlotsInUse (flatten (mainCode ti root)) (capsize ti)

/-- the configuration of the second writer (`newWriter(code.CaptureSlotInUse)`) -/
def quickCfg (ti : TreeInfo) (root : GoNode) : Cfg := ⟨(writerCaps ti).2, some (slotsInUse ti root)⟩

/-- `syntax.Write(tree)` without the search facts: the compiled program -/
def emit (ti : TreeInfo) (root : GoNode) : Code.Prog :=
  let r := codeFromTree (mainCfg ti) root
  { codes := (flatten r.1).toArray,
    strings := r.2.strings.toArray,
    nsets := r.2.sets.length,
    trackcount := trackCount r.1,
    capsize := capsize ti,
    caps := ((writerCaps ti).2).getD [],
    rtl := ti.rtl }

/-- `QuickCodes`: present when some capture slot is not in use
    (`slices.Contains(code.CaptureSlotInUse, false)`) -/
def quickCodes (ti : TreeInfo) (root : GoNode) : Option (List Int) :=
  if (slotsInUse ti root).contains false then
    some (flatten (codeFromTree (quickCfg ti root) root).1)
  else none

/-- the bool-only program as `makeQuickCode` builds it: the main `Code` with `Codes` replaced -/
def emitQuick (ti : TreeInfo) (root : GoNode) : Option Code.Prog :=
  (quickCodes ti root).map (fun q => { emit ti root with codes := q.toArray })

/-- `syntax.Write`: `none` when `emitFragment` reports an error -/
def write (ti : TreeInfo) (root : GoNode) : Option Written :=
  if root.ok then
    some { prog := emit ti root, sets := (codeFromTree (mainCfg ti) root).2.sets,
           slotInUse := slotsInUse ti root, quick := quickCodes ti root }
  else none

/-! ### well-formedness: of a tree (what the parser guarantees) and of a program -/

/-- a group number of the tree maps to a slot of the capture array -/
def slotOk (cfg : Cfg) (capsize : Nat) (g : Int) : Bool :=
  let c := mapCapnum cfg g
  0 ≤ c && c < capsize

mutual
/-- every group number used by a `Ref`, a `Capture` or a `BackRefCond` maps to a slot below
    `Capsize`; the popped group of a `Capture` may be −1 (an ordinary capture), and when it is not the
    captured group may be −1 (`(?<-g>…)`, pop only) -/
def capsOk (cfg : Cfg) (capsize : Nat) : GoNode → Bool
  | .empty => true
  | .bare _ => true
  | .char _ _ _ _ => true
  | .set _ _ _ => true
  | .multi _ _ _ => true
  | .ref _ _ m => slotOk cfg capsize m
  | .charloop _ _ _ _ _ _ => true
  | .setloop _ _ _ _ _ _ => true
  | .concat cs => capsOkList cfg capsize cs
  | .alt cs => capsOkList cfg capsize cs
  | .loop _ _ _ c => capsOk cfg capsize c
  | .capture m n c =>
    (if n == -1 then slotOk cfg capsize m else (m == -1 || slotOk cfg capsize m) && slotOk cfg capsize n) &&
      capsOk cfg capsize c
  | .group c => capsOk cfg capsize c
  | .poslook c => capsOk cfg capsize c
  | .neglook c => capsOk cfg capsize c
  | .atomic c => capsOk cfg capsize c
  | .backrefcond1 m y => slotOk cfg capsize m && capsOk cfg capsize y
  | .backrefcond2 m y n => slotOk cfg capsize m && capsOk cfg capsize y && capsOk cfg capsize n
  | .exprcond2 c y => capsOk cfg capsize c && capsOk cfg capsize y
  | .exprcond3 c y n => capsOk cfg capsize c && capsOk cfg capsize y && capsOk cfg capsize n
  | .other _ => true
def capsOkList (cfg : Cfg) (capsize : Nat) : List GoNode → Bool
  | [] => true
  | c :: cs => capsOk cfg capsize c && capsOkList cfg capsize cs
end

mutual
/-- loop bounds as the parser leaves them: `0 ≤ M ≤ N ≤ MaxInt32`; characters are non-negative -/
def boundsOk : GoNode → Bool
  | .empty => true
  | .bare _ => true
  | .char _ _ _ ch => 0 ≤ ch
  | .set _ _ _ => true
  | .multi _ _ _ => true
  | .ref _ _ _ => true
  | .charloop _ _ _ ch m n => 0 ≤ ch && 0 ≤ m && m ≤ n && n ≤ maxInt32
  | .setloop _ _ _ _ m n => 0 ≤ m && m ≤ n && n ≤ maxInt32
  | .concat cs => boundsOkList cs
  | .alt cs => boundsOkList cs
  | .loop _ m n c => 0 ≤ m && m ≤ n && n ≤ maxInt32 && boundsOk c
  | .capture _ _ c => boundsOk c
  | .group c => boundsOk c
  | .poslook c => boundsOk c
  | .neglook c => boundsOk c
  | .atomic c => boundsOk c
  | .backrefcond1 _ y => boundsOk y
  | .backrefcond2 _ y n => boundsOk y && boundsOk n
  | .exprcond2 c y => boundsOk c && boundsOk y
  | .exprcond3 c y n => boundsOk c && boundsOk y && boundsOk n
  | .other _ => true
def boundsOkList : List GoNode → Bool
  | [] => true
  | c :: cs => boundsOk c && boundsOkList cs
end

/-- the tree well-formedness the parser guarantees and leg Wr evaluates on every explored tree:
    known node types with the child counts of the constructors, group numbers that map into the capture
    array, ordered loop bounds -/
def treeWf (ti : TreeInfo) (root : GoNode) : Bool :=
  root.ok && capsOk (mainCfg ti) (capsize ti) root && boundsOk root

/-- opcodes whose first operand is a code position -/
def jumpOps : List Nat := [opLazybranch, opBranchmark, opLazybranchmark, opBranchcount, opLazybranchcount, opGoto]
/-- opcodes whose first operand is an index of the set table -/
def setOps : List Nat := [opSet, opSetrep, opSetloop, opSetlazy, opSetloopatomic]

/-- `0 ≤ x < n` -/
def inRange (x : Option Int) (n : Nat) : Bool :=
  match x with
  | some v => 0 ≤ v && v < n
  | none => false

/-- the operands of the instruction at boundary `pc` are meaningful: a jump goes to an instruction
    boundary, string / set / capture operands index their tables -/
def instrOk (p : Code.Prog) (bs : List Nat) (pc : Nat) : Bool :=
  match p.wordAt? pc with
  | none => false
  | some w =>
    (if jumpOps.contains w.op then
        (match p.operand? pc 0 with
         | some (.ofNat t) => bs.contains t
         | _ => false)
      else true) &&
    (if w.op == opMulti then inRange (p.operand? pc 0) p.strings.size else true) &&
    (if setOps.contains w.op then inRange (p.operand? pc 0) p.nsets else true) &&
    (if w.op == opRef || w.op == opTestref then inRange (p.operand? pc 0) p.capsize else true) &&
    (if w.op == opCapturemark then
        (if p.operand? pc 1 == some (-1) then inRange (p.operand? pc 0) p.capsize
         else (p.operand? pc 0 == some (-1) || inRange (p.operand? pc 0) p.capsize) && inRange (p.operand? pc 1) p.capsize)
      else true)

/-- a program the interpreter can run without leaving its tables: the code array splits into known
    instructions (`boundaries`), every instruction's operands are in range, every jump lands on an
    instruction, the first instruction is `Lazybranch` and the last is `Stop` -/
def wfProg (p : Code.Prog) : Bool :=
  match p.boundaries with
  | none => false
  | some bs =>
    bs.all (instrOk p bs) &&
    ((p.wordAt? 0).map (·.op) == some opLazybranch) &&
    (match bs.getLast? with
     | some l => (p.wordAt? l).map (·.op) == some opStop
     | none => false)

/-! ### the bool-only program as a tree transformation -/

mutual
/-- the tree the second writer effectively compiles: a `Capture` whose `Setmark`/`Capturemark` pair
    `emitCapture` drops becomes a plain `Group` around its body (cf. `Spec.stripCaps` of Model/Quick.lean
    on the specification's patterns) -/
def stripTree (cfg : Cfg) : GoNode → GoNode
  | .empty => .empty
  | .bare t => .bare t
  | .char t rtl ci ch => .char t rtl ci ch
  | .set rtl ci s => .set rtl ci s
  | .multi rtl ci s => .multi rtl ci s
  | .ref rtl ci m => .ref rtl ci m
  | .charloop t rtl ci ch m n => .charloop t rtl ci ch m n
  | .setloop t rtl ci s m n => .setloop t rtl ci s m n
  | .concat cs => .concat (stripList cfg cs)
  | .alt cs => .alt (stripList cfg cs)
  | .loop lzy m n c => .loop lzy m n (stripTree cfg c)
  | .capture m n c => if emitCapture cfg m n then .capture m n (stripTree cfg c) else .group (stripTree cfg c)
  | .group c => .group (stripTree cfg c)
  | .poslook c => .poslook (stripTree cfg c)
  | .neglook c => .neglook (stripTree cfg c)
  | .atomic c => .atomic (stripTree cfg c)
  | .backrefcond1 m y => .backrefcond1 m (stripTree cfg y)
  | .backrefcond2 m y n => .backrefcond2 m (stripTree cfg y) (stripTree cfg n)
  | .exprcond2 c y => .exprcond2 (stripTree cfg c) (stripTree cfg y)
  | .exprcond3 c y n => .exprcond3 (stripTree cfg c) (stripTree cfg y) (stripTree cfg n)
  | .other t => .other t
def stripList (cfg : Cfg) : List GoNode → List GoNode
  | [] => []
  | c :: cs => stripTree cfg c :: stripList cfg cs
end

end RegexVerif.Writer
