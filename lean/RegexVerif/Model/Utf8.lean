/-
Model of the rune-index → byte-index conversions of regexp2 (C08):

* `match.go`      `stringByteOffsets`, `runeByteOffsets`, `matchText.byteRange`
* `regexp.go`     `newStringByteMapper`, `stringByteMapper.byteIndex` (delta table + `sort.Search`),
                  the rune-start lookup of `getRunesAndStart`
* `runner.go`     `decodeStringWithStart` (same lookup)
* `compat/regexp.go` `bytesToRunesAndOffsets`, `readRunes`

A decoded string is a list of *segments* `(rune, width)`: what Go's `for strIdx, ch := range s`
(equivalently `utf8.DecodeRune`) yields, one segment per loop iteration, `width` being the number of
bytes the iteration consumed.  The decoding contract (`segOK`) is the one of package unicode/utf8:
an invalid byte decodes as U+FFFD with width 1, a literal U+FFFD has width 3, and otherwise the width is
`utf8.RuneLen` of the rune.  Runes are `Int` (a `[]rune` handed to the rune entry points may hold any
int32), widths, rune indexes and byte offsets are `Nat`.

Go arrays that are filled front to back (`byteOffsets[runeIndex] = …` with `runeIndex` counting up)
are modelled as lists that grow at the end; `nil` is `none`.
-/
namespace RegexVerif.Utf8

/-- `utf8.RuneError` -/
def runeError : Int := 0xFFFD

/-- `utf8.RuneLen` (−1 for surrogates, negative values and values above U+10FFFF) -/
def runeLen (r : Int) : Int :=
  if r < 0 then -1
  else if r ≤ 0x7F then 1
  else if r ≤ 0x7FF then 2
  else if 0xD800 ≤ r ∧ r ≤ 0xDFFF then -1
  else if r ≤ 0xFFFF then 3
  else if r ≤ 0x10FFFF then 4
  else -1

/-- the decoding contract for one segment of `for range s` -/
def segOK (s : Int × Nat) : Bool :=
  if s.1 = runeError then decide (s.2 = 1 ∨ s.2 = 3)
  else decide (runeLen s.1 = (s.2 : Int))

/-- a segment list that a Go string can decode to -/
def WF (segs : List (Int × Nat)) : Prop := ∀ s ∈ segs, segOK s = true

instance (segs : List (Int × Nat)) : Decidable (WF segs) := by unfold WF; infer_instance

def widths (segs : List (Int × Nat)) : List Nat := segs.map (·.2)
def runes (segs : List (Int × Nat)) : List Int := segs.map (·.1)

/-- **Specification**: the byte offset of rune index `i` is the sum of the widths of the first `i`
    segments. -/
def byteOffsetSpec (segs : List (Int × Nat)) (i : Nat) : Nat := ((widths segs).take i).sum

/-! ### lazily allocated offset tables (`stringByteOffsets`, `runeByteOffsets`, `bytesToRunesAndOffsets`)

The three Go functions have the same shape: walk the input keeping the element index and the byte
position; as long as every element so far is one byte wide no table exists (`nil` = identity);
the first element that is not (`trig x ≠ 1`, or position ≠ index) allocates the table, fills the
identity prefix and from then on every iteration stores the byte position; the total length is
stored last.  They differ in what the trigger looks at (`trig`; `posTest` says whether it also tests
position ≠ index) and in what advances the position (`adv`). -/

def lazyLoop {α : Type} (trig adv : α → Nat) (posTest : Bool) :
    List α → Nat → Nat → Option (List Nat) → Option (List Nat)
  | [], _, pos, bo => bo.map (· ++ [pos])                     -- byteOffsets[n] = len(s)
  | x :: rest, idx, pos, bo =>
    let bo := bo.map (· ++ [pos])                             -- if byteOffsets != nil { byteOffsets[idx] = pos }
    let bo := match bo with
      | none =>
        if (posTest = true ∧ pos ≠ idx) ∨ trig x ≠ 1 then     -- allocate, identity prefix, current entry
          some (List.range idx ++ [pos])
        else none
      | some l => some l
    lazyLoop trig adv posTest rest (idx + 1) (pos + adv x) bo

/-- the length `stringByteOffsets` and `newStringByteMapper` compute for one iteration:
    `utf8.RuneLen(ch)`, replaced by the decoder's width when `ch == utf8.RuneError` -/
def computedLen (s : Int × Nat) : Nat := if s.1 = runeError then s.2 else (runeLen s.1).toNat

/-- `stringByteOffsets(s)`: `strIdx` of `range` is the true byte position (advances by the width) -/
def stringByteOffsets (segs : List (Int × Nat)) : Option (List Nat) :=
  lazyLoop computedLen (·.2) true segs 0 0 none

/-- the length `runeByteOffsets` adds per rune: `utf8.RuneLen(ch)`, or `RuneLen(RuneError)` when negative -/
def encLen (ch : Int) : Nat :=
  let rl := runeLen ch
  let rl := if rl < 0 then runeLen runeError else rl
  rl.toNat

/-- `runeByteOffsets(runes)` (its trigger is `runeLen != 1` alone: `posTest = false`) -/
def runeByteOffsets (rs : List Int) : Option (List Nat) :=
  lazyLoop encLen encLen false rs 0 0 none

/-- compat `bytesToRunesAndOffsets(b)`: `utf8.DecodeRune` gives rune and width, both used as they come -/
def bytesToRunesAndOffsets (segs : List (Int × Nat)) : List Int × Option (List Nat) :=
  (runes segs, lazyLoop (fun s : Int × Nat => s.2) (·.2) true segs 0 0 none)

/-- compat `readRunes(r)`: offsets start as `[0]`, every `ReadRune` appends `last + size` -/
def readRunesLoop : List (Int × Nat) → List Int → List Nat → Nat → List Int × List Nat
  | [], text, offs, _ => (text, offs)
  | (ch, w) :: rest, text, offs, last => readRunesLoop rest (text ++ [ch]) (offs ++ [last + w]) (last + w)

def readRunes (segs : List (Int × Nat)) : List Int × List Nat := readRunesLoop segs [] [0] 0

/-- reading an offset table: `nil` means "byte index = rune index"; an index outside the table is a
    Go panic (`none`) -/
def offsetAt (bo : Option (List Nat)) (i : Nat) : Option Nat :=
  match bo with
  | none => some i
  | some l => l[i]?

/-- `matchText.byteRange(runeIndex, runeLength)` on a built table -/
def byteRange (bo : Option (List Nat)) (runeIndex runeLength : Nat) : Option (Nat × Nat) :=
  match bo with
  | none => some (runeIndex, runeLength)
  | some l =>
    match l[runeIndex]?, l[runeIndex + runeLength]? with
    | some a, some b => some (a, b - a)
    | _, _ => none

/-! ### `newStringByteMapper` / `byteIndex` -/

structure Mapper where
  runeIndexes : List Nat
  deltas : List Nat
  deriving Repr, DecidableEq

def nsbmLoop : List (Int × Nat) → Nat → Nat → Option Mapper → Option Mapper
  | [], _, _, m => m
  | s :: rest, runeIndex, delta, m =>
    let rl := computedLen s
    if rl ≠ 1 then
      let mp := m.getD ⟨[], []⟩                          -- if mapper == nil { mapper = &stringByteMapper{} }
      let delta := delta + (rl - 1)
      nsbmLoop rest (runeIndex + 1) delta
        (some ⟨mp.runeIndexes ++ [runeIndex + 1], mp.deltas ++ [delta]⟩)
    else nsbmLoop rest (runeIndex + 1) delta m

def newStringByteMapper (segs : List (Int × Nat)) : Option Mapper := nsbmLoop segs 0 0 none

/-- `sort.Search(n, f)`: `i, j := 0, n; for i < j { h := (i+j)/2; if !f(h) { i = h+1 } else { j = h } }`.
    `fuel` bounds the iterations (`j - i` shrinks every time, so `n` is enough). -/
def searchLoop (f : Nat → Bool) : Nat → Nat → Nat → Nat
  | 0, i, _ => i
  | fuel + 1, i, j =>
    if i < j then
      let h := (i + j) / 2
      if !f h then searchLoop f fuel (h + 1) j else searchLoop f fuel i h
    else i

def sortSearch (n : Nat) (f : Nat → Bool) : Nat := searchLoop f n 0 n

/-- `(*stringByteMapper).byteIndex` -/
def byteIndex (m : Mapper) (runeIndex : Nat) : Nat :=
  let k := sortSearch m.runeIndexes.length (fun i => decide (m.runeIndexes.getD i 0 > runeIndex))
  if k = 0 then runeIndex                                  -- i := k - 1; if i < 0 { return runeIndex }
  else runeIndex + m.deltas.getD (k - 1) 0

/-- the `makeIndex` closure of `FindAllStringIndex` (nil mapper = identity) -/
def mapIndex (m : Option Mapper) (runeIndex : Nat) : Nat :=
  match m with
  | none => runeIndex
  | some mp => byteIndex mp runeIndex

/-! ### byte index → rune index (`decodeStringWithStart`, `getRunesAndStart` with `startAt ≥ 0`) -/

def runeStartLoop (startAt : Int) : List (Int × Nat) → Nat → Nat → Int → Int
  | [], n, strIdx, rs => if startAt ≥ 0 ∧ startAt = (strIdx : Int) then (n : Int) else rs   -- startAt == len(s)
  | s :: rest, n, strIdx, rs =>
    let rs := if startAt ≥ 0 ∧ (strIdx : Int) = startAt then (n : Int) else rs
    runeStartLoop startAt rest (n + 1) (strIdx + s.2) rs

/-- the rune index `decodeStringWithStart(s, startAt)` reports for byte index `startAt` (−1: not found) -/
def runeStart (segs : List (Int × Nat)) (startAt : Int) : Int := runeStartLoop startAt segs 0 0 (-1)

end RegexVerif.Utf8
