/-
Set-valued search facts (C04): a proved VALIDATOR for what `syntax.FindOptimizations` publishes about
the characters at and after the start of a match.

The Go analyses (`findFirstCharClass`, `tryFindRawFixedSets`/`findFixedDistanceSets`,
`findPrefixes`/`findPrefixesCore` in `syntax/prefixanalyzer.go`, the substitution of a leading positive
lookahead's facts in `newFindOptimizations`) sort by character frequency, cap sizes, merge `CharSet`s
in place and give up in many situations.  They are NOT mirrored here.  Instead this file computes, by
structural recursion on the specification's pattern AST (the image of the engine's own tree under
`gen.FromGoTree`), OVER-APPROXIMATIONS that are proved sound against `Spec.m` (Lemmas/SetFacts.lean):

* `first`/`firstSet p rtl` — the characters a non-empty match of `p` can begin with in scan direction
  (`none`: the pattern may match the empty string or starts with a back-reference);
* `setAt p k` — the characters that can stand `k` positions after the start of a left-to-right match
  (`none`: offset `k` is not reached through fixed-width pieces on every path);
* `prefixes norm maxLen maxCount p` — a finite list of literal strings one of which every
  left-to-right match starts with, up to the normalisation `norm` of runes (`[[]]`: nothing known),
  with an "exact" flag (the strings are the whole match);
* `leadLook p` — the body of the positive lookahead that every left-to-right match of `p` evaluates at
  its start position: every position fact of the body is a fact of `p`.

A symbolic character set is a list of single-character tests (`Spec.Pred`, the leaves of the pattern)
read as their UNION; membership is `memPreds`, evaluated with the oracle environment exactly as the
matcher evaluates the leaves.  A published engine set `E` is sound as soon as `E ⊇` one of the
over-approximations (`Props/C04.lean`: `published_set_sound`, `published_first_sound`,
`checkPrefixes_sound`); inclusion over Unicode categories is not decidable inside Lean, so that
inclusion is checked by the harness (leg V of C04) by expanding both sides with Go's `unicode` tables.
-/
import RegexVerif.Model.Facts

namespace RegexVerif.SetFacts
open RegexVerif.Spec RegexVerif.Facts

deriving instance DecidableEq for Cls
deriving instance DecidableEq for Pred
deriving instance DecidableEq for Pat

/-- membership in a symbolic set: some leaf test accepts the rune -/
def memPreds (e : Env) (S : List Pred) (r : Nat) : Bool := S.any (fun p => p.test e r)

/-- the rune a match starting at `pos` consumes first: `text[pos]` left-to-right, `text[pos-1]`
    right-to-left -/
def charAt (e : Env) (rtl : Bool) (pos : Nat) : Option Nat :=
  if rtl then (if pos = 0 then none else e.text[pos - 1]?) else e.text[pos]?

/-! ### the first character -/

/-- concatenation in scan order: a head that always consumes decides alone, a nullable head adds the
    tail's characters, an unanalysable part that can be reached makes the whole unanalysable -/
def seqFirst (x y : Option (List Pred × Bool)) : Option (List Pred × Bool) :=
  match x with
  | none => none
  | some (s, false) => some (s, false)
  | some (s, true) =>
    match y with
    | none => none
    | some (t, n) => some (s ++ t, n)

/-- alternation (and the branches of a conditional): union; nullable if a branch is -/
def altFirst (x y : Option (List Pred × Bool)) : Option (List Pred × Bool) :=
  match x, y with
  | some (s, m), some (t, n) => some (s ++ t, m || n)
  | _, _ => none

/-- `(S, nullable)`: every success of `p` in direction `rtl` either consumes nothing (only if
    `nullable`) or begins with a character of `S`.  `none`: a back-reference can be reached before
    anything is consumed.  Lookarounds and anchors are zero-width: they constrain, never extend, the
    set, so skipping them keeps an over-approximation. -/
def first : Pat → Bool → Option (List Pred × Bool)
  | .empty, _ => some ([], true)
  | .nothing, _ => some ([], false)
  | .chr p, _ => some ([p], false)
  | .anchor _, _ => some ([], true)
  | .seq a b, rtl =>
    if rtl then seqFirst (first b rtl) (first a rtl) else seqFirst (first a rtl) (first b rtl)
  | .alt a b, rtl => altFirst (first a rtl) (first b rtl)
  | .quant _ lo _ body, rtl =>
    match first body rtl with
    | some (s, n) => some (s, n || lo == 0)
    | none => none
  | .cap _ b, rtl => first b rtl
  | .look _ _ _, _ => some ([], true)
  | .atomic b, rtl => first b rtl
  | .ref _ _, _ => none
  | .refCond _ yes no, rtl => altFirst (first yes rtl) (first no rtl)
  | .exprCond _ yes no, rtl => altFirst (first yes rtl) (first no rtl)

/-- the set of characters every match of `p` begins with, when `p` cannot match the empty string -/
def firstSet (p : Pat) (rtl : Bool) : Option (List Pred) :=
  match first p rtl with
  | some (s, false) => some s
  | _ => none

/-! ### the character at a fixed offset (left-to-right) -/

/-- the exact width of every success, when the length analyses of `Model/Facts.lean` agree
    (`Props.C04.fixedLength_sound`) -/
def width (p : Pat) : Option Nat := if maxLen p = some (minLen p) then some (minLen p) else none

/-- union of two sets that must both be known -/
def both (x y : Option (List Pred)) : Option (List Pred) :=
  match x, y with
  | some s, some t => some (s ++ t)
  | _, _ => none

/-- the characters that can stand at offset `k` from the start of a left-to-right match: offset `k`
    lies in the head of a concatenation, or behind a fixed-width head; in every branch of an
    alternation; in iteration `k / w` of a loop with at least that many guaranteed iterations of a
    body of fixed width `w`, or in the first guaranteed iteration -/
def setAt : Pat → Nat → Option (List Pred)
  | .chr p, k => if k = 0 then some [p] else none
  | .seq a b, k =>
    match setAt a k with
    | some s => some s
    | none =>
      match width a with
      | some w => if w ≤ k then setAt b (k - w) else none
      | none => none
  | .alt a b, k => both (setAt a k) (setAt b k)
  | .quant _ lo _ body, k =>
    if lo = 0 then none
    else
      match width body with
      | some w => if 0 < w ∧ k / w < lo then setAt body (k % w) else setAt body k
      | none => setAt body k
  | .cap _ b, k => setAt b k
  | .atomic b, k => setAt b k
  | .refCond _ yes no, k => both (setAt yes k) (setAt no k)
  | .exprCond _ yes no, k => both (setAt yes k) (setAt no k)
  | _, _ => none

/-! ### leading literal strings (left-to-right, case-sensitive) -/

/-- membership in a class that mentions no named class does not depend on the oracle tables -/
def pureMem : Cls → Option (Nat → Bool)
  | .base neg rs ns => if ns.isEmpty then some (fun r => inRanges rs r != neg) else none
  | .diff a b =>
    match pureMem a, pureMem b with
    | some f, some g => some (fun r => f r && !g r)
    | _, _ => none

/-- a list containing every rune of the class, when it is a positive list of at most `maxCount` runes
    (minus a subtracted class, exactly when that one is pure, else not at all: still a superset) -/
def clsChars (maxCount : Nat) : Cls → Option (List Nat)
  | .base neg rs ns =>
    if neg = false ∧ ns.isEmpty = true ∧ (rs.map (fun p => p.2 + 1 - p.1)).sum ≤ maxCount then
      some (rs.flatMap (fun p => List.range' p.1 (p.2 + 1 - p.1)))
    else none
  | .diff a b =>
    match clsChars maxCount a with
    | some cs =>
      match pureMem b with
      | some g => some (cs.filter (fun r => !g r))
      | none => some cs
    | none => none

/-- the runes of a positive case-sensitive leaf, when there are at most `maxCount` of them -/
def setChars (maxCount : Nat) : Pred → Option (List Nat)
  | .one c false => some [c]
  | .set c false => clsChars maxCount c
  | _ => none

/-- every string of `A` continued by every string of `B` -/
def cross (A B : List (List Nat)) : List (List Nat) := A.flatMap (fun a => B.map (fun b => a ++ b))

/-- may the strings of `A` be extended (budget: number of strings, length reached so far)? -/
def canExtend (maxLen maxCount : Nat) (A C : List (List Nat)) : Bool :=
  decide (C.length ≤ maxCount) && A.all (fun a => decide (a.length < maxLen))

/-- the runes of a leaf, normalised (`norm`: identity, or lower-casing for the ordinal-ignore-case
    lists) and without duplicates -/
def normChars (norm : Nat → Nat) (cs : List Nat) : List Nat := (cs.map norm).eraseDups

/-- `n` guaranteed iterations of a body with exact strings `B`: (strings, all `n` iterations are in) -/
def power (maxLen maxCount : Nat) (B : List (List Nat)) : Nat → List (List Nat) × Bool
  | 0 => ([[]], true)
  | n + 1 =>
    let r := power maxLen maxCount B n
    if r.2 then
      let c := cross r.1 B
      if canExtend maxLen maxCount r.1 c then (c, true) else (r.1, false)
    else r

/-- `(L, exact)`: the NORMALISED text at the start of every left-to-right success begins with a string
    of `L`; if `exact`, the success consumed exactly that many characters.  `([[]], false)` says
    nothing.  `norm` maps runes to representatives (identity: case-sensitive strings); `maxLen` and
    `maxCount` bound the enumeration (any values are sound): strings are not extended once one has
    reached `maxLen`, a concatenation hands its tail the share `maxCount / |head strings|`. -/
def prefixes (norm : Nat → Nat) (maxLen : Nat) : Nat → Pat → List (List Nat) × Bool
  | maxCount, .chr pr =>
    match setChars maxCount pr with
    | some cs => ((normChars norm cs).map (fun c => [c]), true)
    | none => ([[]], false)
  | maxCount, .seq a b =>
    let ia := prefixes norm maxLen maxCount a
    if ia.2 then
      let ib := prefixes norm maxLen (maxCount / ia.1.length) b
      let c := cross ia.1 ib.1
      if canExtend maxLen maxCount ia.1 c then (c, ib.2) else (ia.1, false)
    else (ia.1, false)
  | maxCount, .alt a b =>
    let ia := prefixes norm maxLen maxCount a
    let ib := prefixes norm maxLen maxCount b
    if ia.1.length + ib.1.length ≤ maxCount then (ia.1 ++ ib.1, ia.2 && ib.2) else ([[]], false)
  | maxCount, .quant _ lo hi body =>
    if lo = 0 then ([[]], false)
    else
      let ib := prefixes norm maxLen maxCount body
      if ib.2 then
        let r := power maxLen maxCount ib.1 (min lo maxLen)
        (r.1, r.2 && decide (lo ≤ maxLen) && hi == some lo)
      else (ib.1, false)
  | maxCount, .cap _ b => prefixes norm maxLen maxCount b
  | maxCount, .atomic b => prefixes norm maxLen maxCount b
  | _, .empty => ([[]], true)
  | _, .anchor _ => ([[]], true)
  | _, .look _ _ _ => ([[]], true)
  | _, .nothing => ([[]], false)
  | _, .ref _ _ => ([[]], false)
  | _, .refCond _ _ _ => ([[]], false)
  | _, .exprCond _ _ _ => ([[]], false)

/-- `x` is a prefix of `t` up to the relation `R published-rune text-rune` (equality: case-sensitive
    search; `t == x || toLower t == x`: the engine's ordinal-ignore-case comparison) -/
def rPrefix (R : Nat → Nat → Bool) : List Nat → List Nat → Bool
  | [], _ => true
  | _ :: _, [] => false
  | a :: x, b :: t => R a b && rPrefix R x t

/-- the validator for a published prefix list `E`: every (normalised) string the over-approximation
    allows a match to start with starts with a published string -/
def checkPrefixes (E L : List (List Nat)) : Bool :=
  L.all (fun l => E.any (fun x => rPrefix (fun a b => a == b) x l))

/-! ### a leading positive lookahead -/

/-- `(some body, _)`: every left-to-right success of `p` evaluates the positive lookahead `(?=body)`
    at its start position; `(none, true)`: `p` is zero-width (the search continues behind it).
    Superset of Go's `findLeadingPositiveLookahead` (which also stops at `\B`). -/
def leadLook : Pat → Option Pat × Bool
  | .look false false body => (some body, false)
  | .look _ _ _ => (none, true)
  | .anchor _ => (none, true)
  | .empty => (none, true)
  | .cap _ b => leadLook b
  | .atomic b => leadLook b
  | .quant _ lo _ body => if lo = 0 then (none, false) else ((leadLook body).1, false)
  | .seq a b =>
    match leadLook a with
    | (some x, _) => (some x, false)
    | (none, true) => leadLook b
    | (none, false) => (none, false)
  | _ => (none, false)

/-! ### the candidates the harness compares a published set with -/

/-- the over-approximations of the character at offset `k` computed from `q` itself: the fixed-offset
    set and, at offset 0, the first-character set -/
def ownCandidates (q : Pat) (k : Nat) : List (List Pred) :=
  (setAt q k).toList ++ (if k = 0 then (firstSet q false).toList else [])

/-- all proved over-approximations of the character at offset `k` of a left-to-right match: those of
    the pattern and those of the body of a leading positive lookahead (whose facts
    `newFindOptimizations` publishes when the pattern itself yields nothing) -/
def setCandidates (p : Pat) (k : Nat) : List (List Pred) :=
  match (leadLook p).1 with
  | some b => ownCandidates p k ++ ownCandidates b k
  | none => ownCandidates p k

/-- the prefix lists a published `LeadingPrefixes`/`LeadingPrefix` is compared with: of the pattern and
    of the body of its leading positive lookahead -/
def prefixCandidates (norm : Nat → Nat) (maxLen maxCount : Nat) (p : Pat) : List (List (List Nat)) :=
  match (leadLook p).1 with
  | some b => [(prefixes norm maxLen maxCount p).1, (prefixes norm maxLen maxCount b).1]
  | none => [(prefixes norm maxLen maxCount p).1]

end RegexVerif.SetFacts
