/-
Small-step model of the bytecode interpreter `executeDefault` of /repo/runner.go.

One call of `step` is one iteration of the Go loop `for { switch r.operator { … } … }`: the body of the
`case` selected by `r.operator` followed by the way the case leaves — `r.advance(i); continue`,
`r.goTo(t); continue`, `break`/`goto BreakBackward` (then `r.backtrack()`), or `return nil`.
The state at the start of an iteration is exactly what the hook `VerifAttemptTrace` reports
(`codepos`, `operator`, `Runtextpos`, used slots of `runtrack`/`runstack`/`runcrawl`); leg W compares
that sequence step by step.

What is a value here and what is a fault:
 * `runtrack`, `runstack`, `runcrawl` are modelled by their *used part*, top first.  Their capacity is
   not in the state: `step` reports whether the iteration passed through `ensureStorage` (the checks
   inside `goTo` and `backtrack`), and the capacity argument (Props/C13, section VM) is a layer on top.
 * every Go slice access that can be out of range is an explicit `Outcome.fault`, never a default value:
   `Codes[…]` (`codeIndex`), `Strings[…]` (`stringIndex`), `Sets[…]` (`setIndex`), `Runtext[…]` (`textIndex`),
   the peeks after `trackPop/trackPopN` (`trackUnderflow`), `backtrack()` on an empty stack (`trackEmpty`),
   capture numbers outside the capture arrays (`capSlot`), `popcrawl` on an empty crawl stack
   (`crawlUnderflow`).  An operator without a `case` is `unknownOp` (Go returns an error there, it does
   not panic).
 * four faults are raised *early*, at the instruction that leaves the envelope in which the used-part
   view of the stacks is faithful; Go itself would go on with stale or foreign slots and panic (or
   compute garbage) later: `stackUnderflow` (a `stackPop` below the bottom — Go panics at the next peek or
   push), `tracktoRange` (`trackto(n)` with `n` above the current depth, negative, not at a frame
   boundary, or 0 — which would drop the frame of the `Lazybranch` at code position 0 that every
   compiled program keeps at the bottom), `textposRange` (`textto(v)` of a grouping-stack value outside
   `[0, len(text)]`), and `unknownOp` for a code word that is negative or ≥ 1024 at the moment it is fetched.
   `capRange` is a real Go panic (a backreference reads a captured interval that is not inside the text)
   but is classed with these because excluding it needs the capture bounds of C08, which in turn need the
   marks on the grouping stack to be text positions.
   None of them occurs in a run of a compiled program explored by leg W (the leg would report a
   difference, since Go returns a result there).
 * the capture arrays are `MatchBuilder.Builder` (model of match.go, property C08) with its own in-bounds
   theorems; the interpreter-level checks (`capSlot`) guard the slot numbers it is called with.

Unicode knowledge is a parameter (`Env`): set membership, `unicode.ToLower`, word characters.
Operands that Go converts with `rune(…)` are compared as integers (`Prog.wf` bounds them).
-/
import RegexVerif.Model.Code
import RegexVerif.Model.MatchBuilder
import RegexVerif.Model.Capacity

namespace RegexVerif.VM
open RegexVerif.Code RegexVerif.Generated.Opcodes RegexVerif

/-! ## opcodes -/

/-- the opcodes of syntax/code.go as an inductive type (numbering: `Generated/Opcodes.lean`) -/
inductive Op where
  | onerep | notonerep | setrep | oneloop | notoneloop | setloop | onelazy | notonelazy | setlazy
  | one | notone | set | multi | ref | bol | eol | boundary | nonboundary | beginning | start
  | endz | end_ | nothing | lazybranch | branchmark | lazybranchmark | nullcount | setcount
  | branchcount | lazybranchcount | nullmark | setmark | capturemark | getmark | setjump | backjump
  | forejump | testref | goto | prune | stop | ecmaboundary | nonecmaboundary | oneloopatomic
  | notoneloopatomic | setloopatomic | updatebumpalong
  deriving DecidableEq, Repr, Inhabited

/-- opcode number ↦ opcode, built from the regenerated constants -/
def opTable : List (Nat × Op) :=
  [(opOnerep, .onerep), (opNotonerep, .notonerep), (opSetrep, .setrep), (opOneloop, .oneloop),
   (opNotoneloop, .notoneloop), (opSetloop, .setloop), (opOnelazy, .onelazy), (opNotonelazy, .notonelazy),
   (opSetlazy, .setlazy), (opOne, .one), (opNotone, .notone), (opSet, .set), (opMulti, .multi), (opRef, .ref),
   (opBol, .bol), (opEol, .eol), (opBoundary, .boundary), (opNonboundary, .nonboundary),
   (opBeginning, .beginning), (opStart, .start), (opEndZ, .endz), (opEnd, .end_), (opNothing, .nothing),
   (opLazybranch, .lazybranch), (opBranchmark, .branchmark), (opLazybranchmark, .lazybranchmark),
   (opNullcount, .nullcount), (opSetcount, .setcount), (opBranchcount, .branchcount),
   (opLazybranchcount, .lazybranchcount), (opNullmark, .nullmark), (opSetmark, .setmark),
   (opCapturemark, .capturemark), (opGetmark, .getmark), (opSetjump, .setjump), (opBackjump, .backjump),
   (opForejump, .forejump), (opTestref, .testref), (opGoto, .goto), (opPrune, .prune), (opStop, .stop),
   (opECMABoundary, .ecmaboundary), (opNonECMABoundary, .nonecmaboundary),
   (opOneloopatomic, .oneloopatomic), (opNotoneloopatomic, .notoneloopatomic),
   (opSetloopatomic, .setloopatomic), (opUpdateBumpalong, .updatebumpalong)]

def Op.ofNat? (n : Nat) : Option Op := (opTable.find? (fun e => e.1 == n)).map (·.2)

def Op.toNat (o : Op) : Nat := ((opTable.find? (fun e => e.2 == o)).map (·.1)).getD 0

/-- which `case` of the switch: `op`, `op | Back`, `op | Back2` -/
inductive Mode where
  | fwd | back | back2
  deriving DecidableEq, Repr, Inhabited

/-- `r.operator` keeps the Back/Back2 bits; both set has no `case` -/
def modeOf (w : Word) : Option Mode :=
  match w.back, w.back2 with
  | false, false => some .fwd
  | true, false => some .back
  | false, true => some .back2
  | true, true => none

/-- `int(r.operator)` as `VerifAttemptTrace` reports it (Rtl and Ci are stripped by `setOperator`) -/
def operatorNum (w : Word) : Nat :=
  w.op + (if w.back then flagBack else 0) + (if w.back2 then flagBack2 else 0)

/-! ## environment, state, outcomes -/

/-- the input of one attempt and the oracles the interpreter consults -/
structure Env where
  /-- `r.Runtext` (`Runtextend = len`) -/
  text : Array Nat
  /-- `r.Runtextstart` (origin of `\G`) -/
  textstart : Int
  /-- `r.code.Sets[i].CharIn(ch)` -/
  setMem : Nat → Nat → Bool
  /-- `unicode.ToLower` -/
  toLower : Nat → Nat
  /-- `syntax.IsWordChar`, or `isRE2WordChar` when the RE2 option is set -/
  wordChar : Nat → Bool
  /-- `syntax.IsECMAWordChar` -/
  ecmaWordChar : Nat → Bool
  /-- `r.re.options & (RE2|ECMAScript) != 0` (read by `EndZ`) -/
  endzStrict : Bool
  /-- `r.re.options & ECMAScript != 0` (read by `Ref` on an unmatched group) -/
  ecma : Bool

def Env.len (env : Env) : Int := env.text.size

inductive Fault where
  | codeIndex | stringIndex | setIndex | textIndex | trackUnderflow | trackEmpty | capSlot | unknownOp
  | stackUnderflow | crawlUnderflow | tracktoRange | textposRange | capRange
  deriving DecidableEq, Repr, Inhabited

def Fault.name : Fault → String
  | .codeIndex => "codeIndex" | .stringIndex => "stringIndex" | .setIndex => "setIndex"
  | .textIndex => "textIndex" | .trackUnderflow => "trackUnderflow" | .trackEmpty => "trackEmpty"
  | .capSlot => "capSlot" | .unknownOp => "unknownOp" | .stackUnderflow => "stackUnderflow"
  | .crawlUnderflow => "crawlUnderflow" | .tracktoRange => "tracktoRange" | .textposRange => "textposRange"
  | .capRange => "capRange"

/-- the faults excluded by `Prog.wf` and the frame invariant alone (Props/C10 `step_safe`); the others
    depend on the discipline of the grouping stack -/
def Fault.structural : Fault → Bool
  | .codeIndex | .stringIndex | .setIndex | .textIndex | .trackUnderflow | .trackEmpty | .capSlot
  | .unknownOp => true
  | _ => false

/-- interpreter state at the top of the loop -/
structure VMState where
  /-- `r.codepos` -/
  codepos : Nat
  /-- `r.operator` with `r.rightToLeft`, `r.caseInsensitive` (what `setOperator` stored) -/
  oper : Word
  /-- `r.Runtextpos` -/
  textpos : Int
  /-- used part of `runtrack`, top first (`runtrack[Runtrackpos:]`) -/
  track : List Int
  /-- used part of `runstack`, top first -/
  stack : List Int
  /-- `runmatch` and the used part of `runcrawl` -/
  cap : MatchBuilder.Runner
  deriving Repr

/-- how a `case` body leaves -/
inductive Exit where
  /-- `r.advance(i); continue` -/
  | advance (i : Nat)
  /-- `r.goTo(t); continue` -/
  | goto (t : Int)
  /-- `break` / `goto BreakBackward`: `r.backtrack()` -/
  | back
  /-- `return nil` -/
  | halt
  deriving Repr

inductive Outcome where
  /-- next iteration; `checked` = this iteration went through `ensureStorage`
      (`goTo` with `newpos <= codepos`, `backtrack` with `newpos < codepos`) -/
  | next (s : VMState) (checked : Bool)
  /-- `return nil` at `Stop` (match iff `matchcount[0] > 0`) -/
  | stop (s : VMState)
  | fault (f : Fault)
  deriving Repr

abbrev M := Except Fault

/-! ## primitives -/

/-- `r.operand(i)` = `r.code.Codes[r.codepos+i+1]` -/
def operand (p : Prog) (s : VMState) (i : Nat) : M Int :=
  match p.codes[s.codepos + i + 1]? with
  | some v => .ok v
  | none => .error .codeIndex

/-- `r.Runtext[j]` -/
def charAt (env : Env) (j : Int) : M Nat :=
  if 0 ≤ j then
    match env.text[j.toNat]? with
    | some c => .ok c
    | none => .error .textIndex
  else .error .textIndex

/-- `r.bump()` -/
def bump (s : VMState) : Int := if s.oper.rtl then -1 else 1

/-- `r.forwardchars()` -/
def forwardchars (env : Env) (s : VMState) : Int := if s.oper.rtl then s.textpos else env.len - s.textpos

/-- `r.forwardcharnext()`: the character read and the new `Runtextpos` -/
def forwardcharnext (env : Env) (rtl : Bool) (pos : Int) : M (Nat × Int) :=
  if rtl then (charAt env (pos - 1)).map (fun c => (c, pos - 1))
  else (charAt env pos).map (fun c => (c, pos + 1))

/-- the `for` loops of the single-character instructions: read up to `k` characters in direction `rtl`
    from `pos` while `pred` holds; the number of characters that satisfied `pred` (`< k` iff a read
    failed the test) -/
def scan (env : Env) (pred : Nat → Bool) (rtl : Bool) : Nat → Int → M Nat
  | 0, _ => .ok 0
  | k + 1, pos =>
    match forwardcharnext env rtl pos with
    | .error f => .error f
    | .ok (c, pos') => if pred c then (scan env pred rtl k pos').map (· + 1) else .ok 0

def isCh (x : Int) (c : Nat) : Bool := (c : Int) == x

/-- `r.code.Sets[i].CharIn(·)` -/
def setPred (p : Prog) (env : Env) (i : Int) : M (Nat → Bool) :=
  if 0 ≤ i ∧ i.toNat < p.nsets then .ok (env.setMem i.toNat) else .error .setIndex

/-- the character test of the One/Notone/Set families: `sel` = 0 one, 1 notone, 2 set; `x` = operand 0 -/
def charPred (p : Prog) (env : Env) (sel : Nat) (x : Int) : M (Nat → Bool) :=
  match sel with
  | 0 => .ok (isCh x)
  | 1 => .ok (fun c => !isCh x c)
  | _ => setPred p env x

/-! ### backtracking stack -/

def push0 (s : VMState) : VMState := { s with track := (s.codepos : Int) :: s.track }
def push1 (s : VMState) (a : Int) : VMState := { s with track := (s.codepos : Int) :: a :: s.track }
def push2 (s : VMState) (a b : Int) : VMState := { s with track := (s.codepos : Int) :: b :: a :: s.track }
def push3 (s : VMState) (a b c : Int) : VMState :=
  { s with track := (s.codepos : Int) :: c :: b :: a :: s.track }
def pushNeg1 (s : VMState) (a : Int) : VMState := { s with track := (-(s.codepos : Int)) :: a :: s.track }
def pushNeg2 (s : VMState) (a b : Int) : VMState :=
  { s with track := (-(s.codepos : Int)) :: b :: a :: s.track }

def spush (s : VMState) (a : Int) : VMState := { s with stack := a :: s.stack }
/-- `stackPush2(I1, I2)`: `I2` ends on top -/
def spush2 (s : VMState) (a b : Int) : VMState := { s with stack := b :: a :: s.stack }

def textto (s : VMState) (v : Int) : VMState := { s with textpos := v }

/-- `textto` of a value taken from the grouping stack (early fault outside `[0, len]`) -/
def texttoStack (env : Env) (s : VMState) (v : Int) : M VMState :=
  if 0 ≤ v ∧ v ≤ env.len then .ok (textto s v) else .error .textposRange

/-- a saved code position as `backtrack()` reads it: position and whether it selects the Back2 case -/
def savedPos (c : Int) : Nat × Bool := if c < 0 then ((-c).toNat, true) else (c.toNat, false)

/-- `r.code.Codes[pos]` as an instruction word (`setOperator`) -/
def fetch (p : Prog) (pos : Nat) : M Word :=
  match p.codes[pos]? with
  | none => .error .codeIndex
  | some w => if 0 ≤ w ∧ w < 1024 then .ok (decode w.toNat) else .error .unknownOp

/-- number of data slots under the saved code position of a backtracking frame = what the Back / Back2
    case of the opcode pops after `backtrack()` popped the position -/
def frameData : Op → Bool → Option Nat
  | .oneloop, false | .notoneloop, false | .setloop, false
  | .onelazy, false | .notonelazy, false | .setlazy, false => some 2
  | .lazybranch, false => some 1
  | .branchmark, false => some 2
  | .branchmark, true => some 1
  | .lazybranchmark, false => some 2
  | .lazybranchmark, true => some 2
  | .nullcount, false | .setcount, false | .nullmark, false | .setmark, false | .setjump, false => some 0
  | .branchcount, false => some 1
  | .branchcount, true => some 2
  | .lazybranchcount, false => some 3
  | .lazybranchcount, true => some 1
  | .capturemark, false | .getmark, false | .forejump, false => some 1
  | _, _ => none

/-- total size of the frame whose top slot is `c` -/
def frameSize (p : Prog) (c : Int) : Option Nat :=
  match fetch p (savedPos c).1 with
  | .error _ => none
  | .ok w => ((Op.ofNat? w.op).bind (fun o => frameData o (savedPos c).2)).map (· + 1)

/-- drop whole frames from the top until exactly `k` slots are gone -/
def cutFrames (p : Prog) : Nat → Nat → List Int → Option (List Int)
  | _, 0, t => some t
  | 0, _ + 1, _ => none
  | _ + 1, _ + 1, [] => none
  | fuel + 1, k + 1, c :: rest =>
    match frameSize p c with
    | none => none
    | some sz =>
      if sz ≤ k + 1 ∧ sz ≤ rest.length + 1 then cutFrames p fuel (k + 1 - sz) ((c :: rest).drop sz) else none

/-- `r.trackto(newpos)`: cut the backtracking stack back to depth `newpos` -/
def trackto (p : Prog) (s : VMState) (newpos : Int) : M VMState :=
  if 0 ≤ newpos ∧ newpos.toNat ≤ s.track.length then
    match cutFrames p s.track.length (s.track.length - newpos.toNat) s.track with
    | some [] => .error .tracktoRange
    | some (c :: t) => .ok { s with track := c :: t }
    | none => .error .tracktoRange
  else .error .tracktoRange

/-! ### captures -/

def capOk (p : Prog) (c : Int) : Bool := decide (0 ≤ c) && decide (c.toNat < p.capsize)

/-- `r.runmatch.isMatched(c)` (a negative `c` indexes `matchcount` out of range) -/
def isMatched (s : VMState) (c : Int) : M Bool :=
  if c < 0 then .error .capSlot else .ok (MatchBuilder.isMatched s.cap.m c.toNat)

/-- `r.uncapture()` -/
def uncapture (s : VMState) : M VMState :=
  match s.cap.crawl with
  | [] => .error .crawlUnderflow
  | _ :: _ => .ok { s with cap := MatchBuilder.uncapture s.cap }

/-- `for r.Crawlpos() != target { r.uncapture() }` -/
def uncaptureTo (target : Int) : Nat → VMState → M VMState
  | 0, s => if (s.cap.crawl.length : Int) = target then .ok s else .error .crawlUnderflow
  | fuel + 1, s =>
    if (s.cap.crawl.length : Int) = target then .ok s
    else match uncapture s with
      | .error f => .error f
      | .ok s' => uncaptureTo target fuel s'

/-! ### string comparison -/

/-- the comparison loops of `runematch`/`refmatch`: `k` characters ending before `a` resp. `b`, compared
    from the last one backwards; `get` reads the left operand -/
def cmpBack (env : Env) (ci : Bool) (get : Int → M Nat) : Nat → Int → Int → M Bool
  | 0, _, _ => .ok true
  | k + 1, a, b =>
    match get (a - 1), charAt env (b - 1) with
    | .error f, _ => .error f
    | _, .error f => .error f
    | .ok x, .ok y =>
      if x = (if ci then env.toLower y else y) then cmpBack env ci get k (a - 1) (b - 1) else .ok false

/-- `r.runematch(str)`: `none` = no match (`Runtextpos` unchanged), `some pos` = the new `Runtextpos` -/
def runematch (env : Env) (s : VMState) (str : List Nat) : M (Option Int) :=
  let c : Int := str.length
  if forwardchars env s < c then .ok none
  else
    let pos := if s.oper.rtl then s.textpos else s.textpos + c
    match cmpBack env s.oper.ci (fun i => .ok (str.getD i.toNat 0)) str.length c pos with
    | .error f => .error f
    | .ok false => .ok none
    | .ok true => .ok (some (if s.oper.rtl then s.textpos - c else s.textpos + c))

/-- `r.refmatch(index, len)`; with `ci` both sides go through `unicode.ToLower` -/
def refmatch (env : Env) (s : VMState) (index len : Int) : M (Option Int) :=
  if len < 0 then .error .capRange          -- Go: the loop `for c != 0 { c-- … }` runs off the text
  else if forwardchars env s < len then .ok none
  else
    let pos := if s.oper.rtl then s.textpos else s.textpos + len
    let get : Int → M Nat := fun i =>
      match charAt env i with
      | .ok x => .ok (if s.oper.ci then env.toLower x else x)
      | .error _ => .error .capRange
    match cmpBack env s.oper.ci get len.toNat (index + len) pos with
    | .error f => .error f
    | .ok false => .ok none
    | .ok true => .ok (some (if s.oper.rtl then s.textpos - len else s.textpos + len))

/-- `r.IsBoundary(index)` / `r.IsECMABoundary(index)` with the word test `w` -/
def isBoundary (env : Env) (w : Nat → Bool) (index : Int) : M Bool :=
  match (if index > 0 then (charAt env (index - 1)).map w else .ok false),
        (if index < env.len then (charAt env index).map w else .ok false) with
  | .error f, _ => .error f
  | _, .error f => .error f
  | .ok a, .ok b => .ok (a != b)

/-! ## the cases of the switch -/

abbrev Res := M (VMState × Exit)

/-- One / Notone / Set -/
def caseChar (p : Prog) (env : Env) (sel : Nat) (s : VMState) : Res :=
  if forwardchars env s < 1 then .ok (s, .back)
  else do
    let x ← operand p s 0
    let pred ← charPred p env sel x
    let (c, pos) ← forwardcharnext env s.oper.rtl s.textpos
    if pred c then pure (textto s pos, .advance 1) else pure (textto s pos, .back)

/-- Onerep / Notonerep / Setrep -/
def caseRep (p : Prog) (env : Env) (sel : Nat) (s : VMState) : Res := do
  let c ← operand p s 1
  if forwardchars env s < c then pure (s, .back)
  else
    let x ← operand p s 0
    let pred ← charPred p env sel x
    let m ← scan env pred s.oper.rtl c.toNat s.textpos
    if m < c.toNat then pure (textto s (s.textpos + bump s * (m + 1)), .back)
    else pure (textto s (s.textpos + bump s * m), .advance 2)

/-- Oneloop / Notoneloop / Setloop and their atomic variants (`atomic`: no frame is pushed) -/
def caseLoop (p : Prog) (env : Env) (sel : Nat) (atomic : Bool) (s : VMState) : Res := do
  let c0 ← operand p s 1
  let c := if c0 > forwardchars env s then forwardchars env s else c0
  let x ← operand p s 0
  let pred ← charPred p env sel x
  let m ← scan env pred s.oper.rtl c.toNat s.textpos
  let s1 := textto s (s.textpos + bump s * m)
  if m > 0 ∧ !atomic then pure (push2 s1 ((m : Int) - 1) (s1.textpos - bump s), .advance 2)
  else pure (s1, .advance 2)

/-- Oneloop | Back, Notoneloop | Back, Setloop | Back -/
def caseLoopBack (s : VMState) : Res :=
  match s.track with
  | pos :: i :: rest =>
    let s1 := textto { s with track := rest } pos
    if i > 0 then .ok (push2 s1 (i - 1) (pos - bump s), .advance 2) else .ok (s1, .advance 2)
  | _ => .error .trackUnderflow

/-- Onelazy / Notonelazy / Setlazy -/
def caseLazy (p : Prog) (env : Env) (s : VMState) : Res := do
  let c0 ← operand p s 1
  let c := if c0 > forwardchars env s then forwardchars env s else c0
  if c > 0 then pure (push2 s (c - 1) s.textpos, .advance 2) else pure (s, .advance 2)

/-- Onelazy | Back, Notonelazy | Back, Setlazy | Back -/
def caseLazyBack (p : Prog) (env : Env) (sel : Nat) (s : VMState) : Res :=
  match s.track with
  | pos :: i :: rest => do
    let s1 := { s with track := rest }
    let x ← operand p s 0
    let pred ← charPred p env sel x
    let (c, pos') ← forwardcharnext env s.oper.rtl pos
    if pred c then
      if i > 0 then pure (push2 (textto s1 pos') (i - 1) (pos + bump s), .advance 2)
      else pure (textto s1 pos', .advance 2)
    else pure (textto s1 pos', .back)
  | _ => .error .trackUnderflow

def caseMulti (p : Prog) (env : Env) (s : VMState) : Res := do
  let i ← operand p s 0
  if 0 ≤ i then
    match p.strings[i.toNat]? with
    | none => .error .stringIndex
    | some str =>
      match ← runematch env s str with
      | none => pure (s, .back)
      | some pos => pure (textto s pos, .advance 1)
  else .error .stringIndex

def caseRef (p : Prog) (env : Env) (s : VMState) : Res := do
  let capnum ← operand p s 0
  if ← isMatched s capnum then
    match ← refmatch env s (MatchBuilder.matchIndex s.cap.m capnum.toNat)
        (MatchBuilder.matchLength s.cap.m capnum.toNat) with
    | none => pure (s, .back)
    | some pos => pure (textto s pos, .advance 1)
  else if env.ecma then pure (s, .advance 1) else pure (s, .back)

def caseTestref (p : Prog) (s : VMState) : Res := do
  let c ← operand p s 0
  if ← isMatched s c then pure (s, .advance 1) else pure (s, .back)

/-- a zero-width test: `advance(0)` when `ok`, else backtrack -/
def assertion (s : VMState) (ok : Bool) : VMState × Exit := if ok then (s, .advance 0) else (s, .back)

def caseBol (env : Env) (s : VMState) : Res :=
  if s.textpos > 0 then (charAt env (s.textpos - 1)).map (fun c => assertion s (c == 10))
  else .ok (s, .advance 0)

def caseEol (env : Env) (s : VMState) : Res :=
  if env.len - s.textpos > 0 then (charAt env s.textpos).map (fun c => assertion s (c == 10))
  else .ok (s, .advance 0)

def caseBoundary (env : Env) (w : Nat → Bool) (want : Bool) (s : VMState) : Res :=
  (isBoundary env w s.textpos).map (fun b => assertion s (b == want))

def caseEndZ (env : Env) (s : VMState) : Res :=
  let rchars := env.len - s.textpos
  if rchars > 1 then .ok (s, .back)
  else if env.endzStrict then .ok (assertion s (decide (¬ rchars > 0)))
  else if rchars = 1 then (charAt env s.textpos).map (fun c => assertion s (c == 10))
  else .ok (s, .advance 0)

def caseGoto (p : Prog) (s : VMState) : Res := (operand p s 0).map (fun t => (s, .goto t))

def caseLazybranchBack (p : Prog) (s : VMState) : Res :=
  match s.track with
  | tp :: rest => (operand p s 0).map (fun t => (textto { s with track := rest } tp, .goto t))
  | _ => .error .trackUnderflow

/-- Setmark|Back, Nullmark|Back: `stackPop()` -/
def casePop1Back (s : VMState) : Res :=
  match s.stack with
  | _ :: rest => .ok ({ s with stack := rest }, .back)
  | _ => .error .stackUnderflow

/-- Setcount|Back, Nullcount|Back, Setjump|Back: `stackPopN(2)` -/
def casePop2Back (s : VMState) : Res :=
  match s.stack with
  | _ :: _ :: rest => .ok ({ s with stack := rest }, .back)
  | _ => .error .stackUnderflow

def caseGetmark (env : Env) (s : VMState) : Res :=
  match s.stack with
  | v :: rest => (texttoStack env (push1 { s with stack := rest } v) v).map (fun s' => (s', .advance 0))
  | _ => .error .stackUnderflow

/-- Getmark|Back and the first half of Capturemark|Back, Branchmark|Back2: `trackPop(); stackPush(trackPeek())` -/
def restoreMark (s : VMState) : M VMState :=
  match s.track with
  | v :: rest => .ok (spush { s with track := rest } v)
  | _ => .error .trackUnderflow

def caseRestoreBack (s : VMState) : Res := (restoreMark s).map (fun s' => (s', .back))

def caseCapturemark (p : Prog) (s : VMState) : Res := do
  let c0 ← operand p s 0
  let c1 ← operand p s 1
  let unmatched ← if c1 != -1 then (isMatched s c1).map (fun b => !b) else pure false
  if unmatched then pure (s, .back)
  else
    match s.stack with
    | v :: rest =>
      let s1 := { s with stack := rest }
      if c1 != -1 then
        -- transferCapture(c0, c1, v, textpos): `isMatched c1` holds, so `c1` is a slot; `c0` may be -1
        if c0 = -1 ∨ capOk p c0 then
          pure (push1 { s1 with cap := MatchBuilder.transferCapture s1.cap c0 c1.toNat v s.textpos } v, .advance 2)
        else .error .capSlot
      else if capOk p c0 then
        pure (push1 { s1 with cap := MatchBuilder.capture s1.cap c0.toNat v s.textpos } v, .advance 2)
      else .error .capSlot
    | _ => .error .stackUnderflow

def caseCapturemarkBack (p : Prog) (s : VMState) : Res := do
  let c0 ← operand p s 0
  let c1 ← operand p s 1
  let s1 ← restoreMark s
  let s2 ← uncapture s1
  if c0 != -1 && c1 != -1 then
    let s3 ← uncapture s2
    pure (s3, .back)
  else pure (s2, .back)

def caseBranchmark (p : Prog) (s : VMState) : Res :=
  match s.stack with
  | mark :: rest =>
    let s1 := { s with stack := rest }
    if s.textpos - mark != 0 then
      (operand p s 0).map (fun t => (spush (push2 s1 mark s.textpos) s.textpos, .goto t))
    else .ok (pushNeg1 s1 mark, .advance 1)
  | _ => .error .stackUnderflow

def caseBranchmarkBack (s : VMState) : Res :=
  match s.track, s.stack with
  | tp :: mark :: rest, _ :: srest =>
    .ok (pushNeg1 (textto { s with track := rest, stack := srest } tp) mark, .advance 1)
  | _ :: _ :: _, [] => .error .stackUnderflow
  | _, _ => .error .trackUnderflow

def caseLazybranchmark (s : VMState) : Res :=
  match s.stack with
  | old :: rest =>
    let s1 := { s with stack := rest }
    if s.textpos != old then
      if old != -1 then .ok (push2 s1 old s.textpos, .advance 1)
      else .ok (push2 s1 s.textpos s.textpos, .advance 1)
    else .ok (pushNeg2 s1 old 0, .advance 1)
  | _ => .error .stackUnderflow

def caseLazybranchmarkBack (p : Prog) (s : VMState) : Res :=
  match s.track with
  | pos :: old :: rest =>
    (operand p s 0).map (fun t => (textto (spush (pushNeg2 { s with track := rest } old 1) pos) pos, .goto t))
  | _ => .error .trackUnderflow

def caseLazybranchmarkBack2 (s : VMState) : Res :=
  match s.track with
  | needsPop :: old :: rest =>
    let s1 := { s with track := rest }
    if needsPop != 0 then
      match s1.stack with
      | _ :: srest => .ok (spush { s1 with stack := srest } old, .back)
      | _ => .error .stackUnderflow
    else .ok (spush s1 old, .back)
  | _ => .error .trackUnderflow

/-- Setcount (`mark` = textpos) / Nullcount (`mark` = -1) -/
def caseSetcount (p : Prog) (mark : Int) (s : VMState) : Res :=
  (operand p s 0).map (fun v => (push0 (spush2 s mark v), .advance 1))

def caseBranchcount (p : Prog) (s : VMState) : Res :=
  match s.stack with
  | count :: mark :: rest => do
    let s1 := { s with stack := rest }
    let lim ← operand p s 1
    if count ≥ lim ∨ (s.textpos - mark = 0 ∧ count ≥ 0) then pure (pushNeg2 s1 mark count, .advance 2)
    else
      let t ← operand p s 0
      pure (spush2 (push1 s1 mark) s.textpos (count + 1), .goto t)
  | _ => .error .stackUnderflow

def caseBranchcountBack (env : Env) (s : VMState) : Res :=
  match s.track, s.stack with
  | pmark :: rest, count :: mark :: srest =>
    let s1 := { s with track := rest, stack := srest }
    if count > 0 then
      (texttoStack env s1 mark).map (fun s2 => (pushNeg2 s2 pmark (count - 1), .advance 2))
    else .ok (spush2 s1 pmark (count - 1), .back)
  | _ :: _, _ => .error .stackUnderflow
  | _, _ => .error .trackUnderflow

def caseBranchcountBack2 (s : VMState) : Res :=
  match s.track with
  | count :: mark :: rest => .ok (spush2 { s with track := rest } mark count, .back)
  | _ => .error .trackUnderflow

def caseLazybranchcount (p : Prog) (s : VMState) : Res :=
  match s.stack with
  | count :: mark :: rest =>
    let s1 := { s with stack := rest }
    if count < 0 then
      (operand p s 0).map (fun t => (spush2 (pushNeg1 s1 mark) s.textpos (count + 1), .goto t))
    else .ok (push3 s1 mark count s.textpos, .advance 2)
  | _ => .error .stackUnderflow

def caseLazybranchcountBack (p : Prog) (s : VMState) : Res :=
  match s.track with
  | tp :: count :: mark :: rest => do
    let s1 := { s with track := rest }
    let lim ← operand p s 1
    if count < lim ∧ tp ≠ mark then
      let t ← operand p s 0
      pure (pushNeg1 (spush2 (textto s1 tp) tp (count + 1)) mark, .goto t)
    else pure (spush2 s1 mark count, .back)
  | _ => .error .trackUnderflow

def caseLazybranchcountBack2 (s : VMState) : Res :=
  match s.track, s.stack with
  | pmark :: rest, count :: _ :: srest =>
    .ok (spush2 { s with track := rest, stack := srest } pmark (count - 1), .back)
  | _ :: _, _ => .error .stackUnderflow
  | _, _ => .error .trackUnderflow

def caseSetjump (s : VMState) : Res :=
  .ok (push0 (spush2 s s.track.length s.cap.crawl.length), .advance 0)

def caseBackjump (p : Prog) (s : VMState) : Res :=
  match s.stack with
  | cp :: tp :: rest => do
    let s1 ← trackto p { s with stack := rest } tp
    let s2 ← uncaptureTo cp s1.cap.crawl.length s1
    pure (s2, .back)
  | _ => .error .stackUnderflow

def caseForejump (p : Prog) (s : VMState) : Res :=
  match s.stack with
  | cp :: tp :: rest => (trackto p { s with stack := rest } tp).map (fun s1 => (push1 s1 cp, .advance 0))
  | _ => .error .stackUnderflow

def caseForejumpBack (s : VMState) : Res :=
  match s.track with
  | cp :: rest =>
    (uncaptureTo cp s.cap.crawl.length { s with track := rest }).map (fun s1 => (s1, .back))
  | _ => .error .trackUnderflow

/-- `runtrack[len(runtrack)-1]`: the bottom slot (the text position saved by the `Lazybranch` at code
    position 0) is raised to `Runtextpos`.  With nothing on the stack Go reads and writes the unused
    slot `len-1`, which exists as soon as the capacity is ≥ 1 — no effect on the used part. -/
def caseUpdateBumpalong (s : VMState) : Res :=
  match s.track.getLast? with
  | some v =>
    if v < s.textpos then .ok ({ s with track := s.track.dropLast ++ [s.textpos] }, .advance 0)
    else .ok (s, .advance 0)
  | none => .ok (s, .advance 0)

/-- the `switch r.operator` -/
def body (p : Prog) (env : Env) (s : VMState) : Res :=
  match Op.ofNat? s.oper.op, modeOf s.oper with
  | some .stop, some .fwd => .ok (s, .halt)
  | some .nothing, some .fwd => .ok (s, .back)
  | some .goto, some .fwd => caseGoto p s
  | some .testref, some .fwd => caseTestref p s
  | some .lazybranch, some .fwd => .ok (push1 s s.textpos, .advance 1)
  | some .lazybranch, some .back => caseLazybranchBack p s
  | some .setmark, some .fwd => .ok (push0 (spush s s.textpos), .advance 0)
  | some .nullmark, some .fwd => .ok (push0 (spush s (-1)), .advance 0)
  | some .setmark, some .back => casePop1Back s
  | some .nullmark, some .back => casePop1Back s
  | some .getmark, some .fwd => caseGetmark env s
  | some .getmark, some .back => caseRestoreBack s
  | some .capturemark, some .fwd => caseCapturemark p s
  | some .capturemark, some .back => caseCapturemarkBack p s
  | some .branchmark, some .fwd => caseBranchmark p s
  | some .branchmark, some .back => caseBranchmarkBack s
  | some .branchmark, some .back2 => caseRestoreBack s
  | some .lazybranchmark, some .fwd => caseLazybranchmark s
  | some .lazybranchmark, some .back => caseLazybranchmarkBack p s
  | some .lazybranchmark, some .back2 => caseLazybranchmarkBack2 s
  | some .setcount, some .fwd => caseSetcount p s.textpos s
  | some .nullcount, some .fwd => caseSetcount p (-1) s
  | some .setcount, some .back => casePop2Back s
  | some .nullcount, some .back => casePop2Back s
  | some .branchcount, some .fwd => caseBranchcount p s
  | some .branchcount, some .back => caseBranchcountBack env s
  | some .branchcount, some .back2 => caseBranchcountBack2 s
  | some .lazybranchcount, some .fwd => caseLazybranchcount p s
  | some .lazybranchcount, some .back => caseLazybranchcountBack p s
  | some .lazybranchcount, some .back2 => caseLazybranchcountBack2 s
  | some .setjump, some .fwd => caseSetjump s
  | some .setjump, some .back => casePop2Back s
  | some .backjump, some .fwd => caseBackjump p s
  | some .forejump, some .fwd => caseForejump p s
  | some .forejump, some .back => caseForejumpBack s
  | some .bol, some .fwd => caseBol env s
  | some .eol, some .fwd => caseEol env s
  | some .boundary, some .fwd => caseBoundary env env.wordChar true s
  | some .nonboundary, some .fwd => caseBoundary env env.wordChar false s
  | some .ecmaboundary, some .fwd => caseBoundary env env.ecmaWordChar true s
  | some .nonecmaboundary, some .fwd => caseBoundary env env.ecmaWordChar false s
  | some .beginning, some .fwd => .ok (assertion s (decide (¬ s.textpos > 0)))
  | some .start, some .fwd => .ok (assertion s (decide (s.textpos = env.textstart)))
  | some .endz, some .fwd => caseEndZ env s
  | some .end_, some .fwd => .ok (assertion s (decide (¬ env.len - s.textpos > 0)))
  | some .one, some .fwd => caseChar p env 0 s
  | some .notone, some .fwd => caseChar p env 1 s
  | some .set, some .fwd => caseChar p env 2 s
  | some .multi, some .fwd => caseMulti p env s
  | some .ref, some .fwd => caseRef p env s
  | some .onerep, some .fwd => caseRep p env 0 s
  | some .notonerep, some .fwd => caseRep p env 1 s
  | some .setrep, some .fwd => caseRep p env 2 s
  | some .oneloop, some .fwd => caseLoop p env 0 false s
  | some .notoneloop, some .fwd => caseLoop p env 1 false s
  | some .setloop, some .fwd => caseLoop p env 2 false s
  | some .oneloopatomic, some .fwd => caseLoop p env 0 true s
  | some .notoneloopatomic, some .fwd => caseLoop p env 1 true s
  | some .setloopatomic, some .fwd => caseLoop p env 2 true s
  | some .oneloop, some .back => caseLoopBack s
  | some .notoneloop, some .back => caseLoopBack s
  | some .setloop, some .back => caseLoopBack s
  | some .onelazy, some .fwd => caseLazy p env s
  | some .notonelazy, some .fwd => caseLazy p env s
  | some .setlazy, some .fwd => caseLazy p env s
  | some .onelazy, some .back => caseLazyBack p env 0 s
  | some .notonelazy, some .back => caseLazyBack p env 1 s
  | some .setlazy, some .back => caseLazyBack p env 2 s
  | some .updatebumpalong, some .fwd => caseUpdateBumpalong s
  | _, _ => .error .unknownOp

/-! ## leaving a case: `advance`, `goTo`, `backtrack` -/

/-- `r.advance(i)`: no storage check -/
def doAdvance (p : Prog) (s : VMState) (i : Nat) : Outcome :=
  match fetch p (s.codepos + i + 1) with
  | .error f => .fault f
  | .ok w => .next { s with codepos := s.codepos + i + 1, oper := w } false

/-- `r.goTo(t)`: storage check iff `t <= codepos` -/
def doGoto (p : Prog) (s : VMState) (t : Int) : Outcome :=
  if t < 0 then .fault .codeIndex
  else match fetch p t.toNat with
    | .error f => .fault f
    | .ok w => .next { s with codepos := t.toNat, oper := w } (decide (t.toNat ≤ s.codepos))

/-- `r.backtrack()`: pop the saved code position, select the Back / Back2 case; storage check iff
    `newpos < codepos` -/
def doBacktrack (p : Prog) (s : VMState) : Outcome :=
  match s.track with
  | [] => .fault .trackEmpty
  | c :: rest =>
    match fetch p (savedPos c).1 with
    | .error f => .fault f
    | .ok w =>
      .next { s with track := rest, codepos := (savedPos c).1,
                     oper := if (savedPos c).2 then { w with back2 := true } else { w with back := true } }
        (decide ((savedPos c).1 < s.codepos))

def finish (p : Prog) : VMState × Exit → Outcome
  | (s, .advance i) => doAdvance p s i
  | (s, .goto t) => doGoto p s t
  | (s, .back) => doBacktrack p s
  | (s, .halt) => .stop s

/-- one iteration of the interpreter loop -/
def step (p : Prog) (env : Env) (s : VMState) : Outcome :=
  match body p env s with
  | .error f => .fault f
  | .ok r => finish p r

/-! ## running -/

/-- the state after `r.goTo(0)` at the beginning of `executeDefault` (which always passes through
    `ensureStorage`), for an attempt at `pos` with fresh stacks and capture arrays -/
def init (p : Prog) (pos : Int) : M VMState :=
  (fetch p 0).map fun w =>
    { codepos := 0, oper := w, textpos := pos, track := [], stack := [],
      cap := { m := MatchBuilder.newMatch p.capsize, crawl := [] } }

inductive Final where
  /-- `executeDefault` returned nil -/
  | done (s : VMState)
  | fault (f : Fault)
  /-- the fuel ran out in state `s` -/
  | fuel (s : VMState)
  deriving Repr

/-- run with an observer folded over the state at the top of every iteration (the trace digest of
    leg W); returns the final outcome, the observer's value and the number of iterations executed -/
def runObs {σ : Type} (p : Prog) (env : Env) (obs : σ → VMState → σ) :
    Nat → VMState → σ → Nat → Final × σ × Nat
  | 0, s, a, n => (.fuel s, a, n)
  | fuel + 1, s, a, n =>
    match step p env s with
    | .fault f => (.fault f, obs a s, n + 1)
    | .stop s' => (.done s', obs a s, n + 1)
    | .next s' _ => runObs p env obs fuel s' (obs a s) (n + 1)

/-- `executeDefault` from state `s`: outcome and number of loop iterations -/
def run (p : Prog) (env : Env) : Nat → VMState → Final × Nat
  | 0, s => (.fuel s, 0)
  | fuel + 1, s =>
    match step p env s with
    | .fault f => (.fault f, 1)
    | .stop s' => (.done s', 1)
    | .next s' _ => let r := run p env fuel s'; (r.1, r.2 + 1)

/-- `r.runmatch.matchcount[0] > 0` -/
def matched (s : VMState) : Bool := decide (MatchBuilder.cnt s.cap.m 0 > 0)

/-! ## well-formed programs -/

/-- instruction length in words (must agree with the regenerated `opcodeSize`, see `instrOk`) -/
def Op.size : Op → Nat
  | .nothing | .bol | .eol | .boundary | .nonboundary | .ecmaboundary | .nonecmaboundary | .beginning
  | .start | .endz | .end_ | .nullmark | .setmark | .getmark | .setjump | .backjump | .forejump | .stop
  | .updatebumpalong => 1
  | .one | .notone | .multi | .ref | .testref | .goto | .nullcount | .setcount | .lazybranch | .branchmark
  | .lazybranchmark | .prune | .set => 2
  | _ => 3

def isBoundaryPos (bs : List Nat) (t : Int) : Bool := decide (0 ≤ t) && bs.contains t.toNat

/-- operands of the instruction at `pc` that are used as indices or jump targets are in range -/
def operandsOk (p : Prog) (bs : List Nat) (pc : Nat) (o : Op) : Bool :=
  let a := (p.codes[pc + 1]?).getD 0
  let b := (p.codes[pc + 2]?).getD 0
  let isSet := decide (0 ≤ a) && decide (a.toNat < p.nsets)
  let isSlot (c : Int) := decide (0 ≤ c) && decide (c.toNat < p.capsize)
  match o with
  | .setrep | .setloop | .setlazy | .set | .setloopatomic => isSet
  | .multi => decide (0 ≤ a) && decide (a.toNat < p.strings.size)
  | .ref | .testref => isSlot a
  | .capturemark => (isSlot a || a == -1) && (isSlot b || b == -1) && !(a == -1 && b == -1)
  | .lazybranch | .branchmark | .lazybranchmark | .goto | .branchcount | .lazybranchcount => isBoundaryPos bs a
  | .prune => false
  | _ => true

/-- the instruction at boundary `pc`: a known opcode without Back/Back2 bits whose length is the regenerated
    `opcodeSize`, operands in range, the whole instruction inside the code array, and — unless it is `Stop` —
    followed by another instruction -/
def instrOk (p : Prog) (bs : List Nat) (pc : Nat) : Bool :=
  match fetch p pc with
  | .error _ => false
  | .ok w =>
    match Op.ofNat? w.op with
    | none => false
    | some o =>
      !w.back && !w.back2 && decide (sizeOf? w.op = some o.size) && operandsOk p bs pc o &&
        decide (pc + o.size ≤ p.codes.size) && (decide (o = .stop) || bs.contains (pc + o.size))

/-- is the instruction at `pc` the opcode `o`? -/
def isOpAt (p : Prog) (pc : Nat) (o : Op) : Bool :=
  match fetch p pc with
  | .ok w => decide (Op.ofNat? w.op = some o)
  | .error _ => false

/-- `Prog.wf`: the code array splits into instructions (`Prog.boundaries`), every instruction is `instrOk`
    (known opcode, operands that index the string/set tables or the capture arrays in range, jump targets are
    instruction boundaries), the program begins with `Lazybranch` whose target is a `Stop`, and the last
    instruction is `Stop` -/
def _root_.RegexVerif.Code.Prog.wf (p : Prog) : Bool :=
  match p.boundaries with
  | none => false
  | some bs =>
    bs.all (instrOk p bs) && bs.contains 0 && isOpAt p 0 .lazybranch &&
    (match p.codes[1]? with
     | some t => decide (0 ≤ t) && isOpAt p t.toNat .stop
     | none => false) &&
    (match bs.getLast? with
     | none => false
     | some l => isOpAt p l .stop)

/-! ## the capacity view (C13) -/

/-- weight of every code position: at an instruction boundary the weight of its opcode in the table
    computed from the regenerated per-case fingerprints (`Capacity.weight`), 0 inside an instruction -/
def wsOf (p : Prog) : List Nat :=
  (List.range p.codes.size).map fun pc =>
    if ((p.boundaries).getD []).contains pc then
      match fetch p pc with
      | .ok w => Capacity.weight w.op
      | .error _ => 0
    else 0

/-- everything the positions of the program can push between two storage checks fits into the
    `4 * TrackCount` slots that a successful `ensureStorage` leaves free (hypothesis `Φ(0) ≤ need` of
    `Capacity.TrackInv`; evaluated by leg W on every compiled program) -/
def potOk (p : Prog) : Bool := decide (Capacity.phi (wsOf p) 0 ≤ 4 * p.trackcount)

end RegexVerif.VM
