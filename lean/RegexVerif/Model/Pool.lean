/-
Model of `bufferpool.go` (`pooledSliceBuffers[T]`: `poolIndex`, `get`, `put`) and of the decode loop
of `(*Runner).decodeString` / `decodeStringWithStart` (runner.go) that fills a pooled buffer.

A Go slice header `(*bufp)` over a backing array is modelled as `Buf`: the contents of the whole
backing array (`data`, length = capacity) and the slice length `len`.  Whatever an earlier user
wrote stays in `data` ("stale contents"): `put` only resets the length.  `sync.Pool` may hand back
any buffer it holds or none at all; that choice is an argument (`pick`) of `get`.
-/
namespace RegexVerif.Pool

/-- a slice with its backing array -/
structure Buf where
  data : List Int      -- backing array, `data.length = cap`
  len : Nat            -- slice length
  deriving Repr, DecidableEq

def Buf.cap (b : Buf) : Nat := b.data.length

/-- what indexing and ranging over the slice can see: `data[0:len]` -/
def Buf.visible (b : Buf) : List Int := b.data.take b.len

/-- `make([]T, len, cap)` -/
def Buf.make (len cap : Nat) : Buf := { data := List.replicate cap 0, len := len }

/-- `poolIndex` loop: first class (in ascending order) that fits `needed`; `-1` (= `none`) if that
    class is larger than a positive `max`, or if no class fits. -/
def poolIndexFrom (needed : Nat) (max : Int) : List Nat → Nat → Option Nat
  | [], _ => none
  | c :: cs, i =>
    if needed ≤ c then
      (if max > 0 ∧ (c : Int) > max then none else some i)
    else poolIndexFrom needed max cs (i + 1)

/-- `(*pooledSliceBuffers[T]).poolIndex(neededSize, maxSize)`: `maxSize = 0` disables pooling,
    a negative `maxSize` allows every class. -/
def poolIndex (sizes : List Nat) (needed : Nat) (max : Int) : Option Nat :=
  if max = 0 then none else poolIndexFrom needed max sizes 0

/-- the pools: for every class the buffers currently held (`[]sync.Pool`) -/
structure Pools where
  sizes : List Nat
  held : List (List Buf)     -- `held.length = sizes.length`
  deriving Repr

def Pools.new (sizes : List Nat) : Pools := { sizes := sizes, held := sizes.map (fun _ => []) }

/-- remove the `j`-th element of a list -/
def removeAt {α : Type} : List α → Nat → List α
  | [], _ => []
  | _ :: xs, 0 => xs
  | x :: xs, j + 1 => x :: removeAt xs j

/-- result of `get`: the slice the caller works on and whether it came from / goes back to a pool
    (`*[]T` non-nil) -/
structure Got where
  buf : Buf
  pooled : Bool
  pools : Pools
  deriving Repr

/-- `(*pooledSliceBuffers[T]).get(neededSize, maxSize)`.  `pick = some j` : `sync.Pool.Get` returns
    the `j`-th buffer it holds for the class; `pick = none` (or `j` out of range): it returns nil. -/
def get (p : Pools) (needed : Nat) (max : Int) (pick : Option Nat) : Got :=
  match poolIndex p.sizes needed max with
  | none => { buf := Buf.make needed needed, pooled := false, pools := p }
  | some idx =>
    let cls := p.held.getD idx []
    let fresh : Got := { buf := Buf.make needed (p.sizes.getD idx 0), pooled := true, pools := p }
    match pick with
    | none => fresh
    | some j =>
      match cls[j]? with
      | none => fresh
      | some b =>
        let p' := { p with held := p.held.set idx (removeAt cls j) }
        if b.cap ≥ needed then { buf := { b with len := needed }, pooled := true, pools := p' }
        else { fresh with pools := p' }      -- the too-small buffer is dropped

/-- `(*pooledSliceBuffers[T]).put(bufp)`: only a buffer whose capacity is exactly a class size goes
    back, into that class, with its length reset to 0 (its contents stay). -/
def put (p : Pools) (b : Buf) : Pools :=
  match poolIndex p.sizes b.cap (-1) with
  | none => p
  | some idx =>
    if b.cap ≠ p.sizes.getD idx 0 then p
    else { p with held := p.held.set idx ({ b with len := 0 } :: p.held.getD idx []) }

/-- the loop of `decodeString`: `buf[n] = ch; n++` for every decoded rune, then `buf[:n]`.
    `none` = index out of range (more runes than `len(buf)`). -/
def decode (b : Buf) (runes : List Int) : Option Buf :=
  if runes.length ≤ b.len then
    some { data := runes ++ b.data.drop runes.length, len := runes.length }
  else none

end RegexVerif.Pool
