/-
Validators for the two published facts about a pattern that starts with an unbounded set loop:

* `LiteralAfterLoop` (`findLiteralFollowingLeadingLoop`, prefixanalyzer.go:1164): the loop is followed by a
  literal (string / one of a few characters) the finder can search for;
* `RequiredLandmarkChain` (`findRequiredLandmarkChain`, prefixanalyzer.go:1295): after the loop, "landmarks"
  (a literal or a short bounded set run, optionally between whitespace loops, or an alternation of such)
  must occur in order.

As for the set-valued facts (Model/SetFacts.lean) the Go analyses are not mirrored decision by decision
(which sets count as whitespace, the caps of `GetSetChars`, which prefix analysis supplies the literal …).
Lean computes, by a syntactic walk over the converted tree, what IT can prove about every match — a symbolic
record of the same shape, with character predicates `Spec.Pred` evaluated under the matcher's own oracle —
and `Props/C04` proves that record is a true fact about every success of `Spec.m`.  A published record is
validated when it is that record (landmarks may be dropped from the tail; sets compared rune-exactly by the
harness).

The tree arrives as a right-nested `seq`; how many children the Go concatenation has is an argument (`k`
children = `k - 1` splits along the right spine).  Soundness holds for every `k`.
-/
import RegexVerif.Model.Spec
import RegexVerif.Model.Finders
import RegexVerif.Model.Facts
import RegexVerif.Model.SetFacts

namespace RegexVerif.LoopFacts
open RegexVerif.Spec RegexVerif.Finders

/-- `unwrapTransparentNodes`: through capture groups and atomic groups (`Group` nodes are already gone) -/
def unwrap : Pat → Pat
  | .cap _ b => unwrap b
  | .atomic b => unwrap b
  | p => p

/-- the first `k` children along the right spine of a `seq`, the remainder as the last child -/
def spine : Nat → Pat → List Pat
  | 0, p => [p]
  | k + 1, .seq a b => a :: spine k b
  | _ + 1, p => [p]

/-- all leaves of nested sequences, each unwrapped (for the inside of one landmark alternative) -/
def leaves : Nat → Pat → List Pat
  | 0, p => [p]
  | fuel + 1, p =>
    match unwrap p with
    | .seq a b => leaves fuel a ++ leaves fuel b
    | q => [q]

/-- right-nested alternation branches -/
def branches : Nat → Pat → List Pat
  | 0, p => [p]
  | k + 1, .alt a b => a :: branches k b
  | _ + 1, p => [p]

/-- an unbounded loop over one character test: `(test, minimum)` -/
def unboundedLoop? (p : Pat) : Option (Pred × Nat) :=
  match unwrap p with
  | .quant _ lo none (.chr P) => some (P, lo)
  | _ => none

/-- `isZeroWidthLandmarkGap`: empty, bump-along marker, anchors -/
def isGap (p : Pat) : Bool :=
  match unwrap p with
  | .empty => true
  | .anchor _ => true
  | _ => false

/-- the core of a landmark alternative -/
inductive SymCore where
  | lit (w : List Nat)
  | set (P : Pred) (lo hi : Nat)
deriving Repr

/-- a landmark alternative: optional whitespace loop `(test, minimum)`, core, optional whitespace loop -/
structure SymAlt where
  lead : Option (Pred × Nat)
  core : SymCore
  trail : Option (Pred × Nat)
deriving Repr

structure SymChain where
  loop : Pred
  landmarks : List (List SymAlt)
deriving Repr

/-- a maximal run of case-sensitive literal characters at the head of the item list -/
def litRun : List Pat → List Nat × List Pat
  | .chr (.one c false) :: rest => let r := litRun rest; (c :: r.1, r.2)
  | rest => ([], rest)

/-- the core at the head of the item list: a literal run, one set character, or a bounded set loop with a
    positive minimum -/
def coreOf (items : List Pat) : Option (SymCore × List Pat) :=
  match litRun items with
  | (c :: w, rest) => some (.lit (c :: w), rest)
  | ([], _) =>
    match items with
    | .chr P :: rest => some (.set P 1 1, rest)
    | .quant _ lo (some hi) (.chr P) :: rest => if 0 < lo ∧ lo ≤ hi then some (.set P lo hi, rest) else none
    | _ => none

/-- an unbounded loop over one character test at the head of the item list: `(test, minimum)` -/
def takeLoop : List Pat → Option (Pred × Nat) × List Pat
  | .quant _ lo none (.chr P) :: rest => (some (P, lo), rest)
  | items => (none, items)

/-- `extractRequiredLandmarkAlternative`: `[whitespace loop] core [whitespace loop]` and nothing else -/
def altOf (p : Pat) : Option SymAlt :=
  let r1 := takeLoop (leaves 64 p)
  match coreOf r1.2 with
  | none => none
  | some (core, items2) =>
    let r2 := takeLoop items2
    if !r2.2.isEmpty then none else some ⟨r1.1, core, r2.1⟩

def allAlts : List Pat → Option (List SymAlt)
  | [] => some []
  | b :: bs =>
    match altOf b, allAlts bs with
    | some a, some as => some (a :: as)
    | _, _ => none

def landmarkOf (p : Pat) : Option (List SymAlt) :=
  allAlts (branches 64 (unwrap p))

/-- the walk over the children after the loop: a landmark is collected; before the first landmark only
    zero-width children may be skipped, afterwards anything may -/
def collect : List Pat → Bool → Option (List (List SymAlt))
  | [], _ => some []
  | c :: cs, seen =>
    match landmarkOf c with
    | some alts => (collect cs true).map (alts :: ·)
    | none => if seen || isGap c then collect cs seen else none

/-- `findRequiredLandmarkChain` on the pattern whose top concatenation has `k` children -/
def chainOf (k : Nat) (p : Pat) : Option SymChain :=
  match spine (k - 1) (unwrap p) with
  | first :: rest =>
    match unboundedLoop? first, collect rest false with
    | some (P, _), some (l :: ls) => some ⟨P, l :: ls⟩
    | _, _ => none
  | [] => none

/-! ### interpretation under the matcher's oracle: the records the finder reads -/

def SymAlt.toLm (e : Env) (a : SymAlt) : LmAlt :=
  { literal := match a.core with | .lit w => w | .set _ _ _ => []
    set := match a.core with | .lit _ => none | .set P _ _ => some (P.test e)
    leadWs := a.lead.map fun l => l.1.test e
    trailWs := a.trail.map fun l => l.1.test e
    minRepeat := match a.core with | .lit _ => 1 | .set _ lo _ => lo
    maxRepeat := match a.core with | .lit _ => 1 | .set _ _ hi => (hi : Int)
    reqBefore := match a.lead with | some l => decide (0 < l.2) | none => false
    reqAfter := match a.trail with | some l => decide (0 < l.2) | none => false }

def SymChain.toLm (e : Env) (c : SymChain) : LmChain :=
  { loopSet := some (c.loop.test e), landmarks := c.landmarks.map fun alts => alts.map (SymAlt.toLm e) }

/-! ### literal after the leading loop -/

/-- the maximal run of single-character tests at the head of the item list.  A loop over one character test
    contributes its minimum number of copies of the test (`[Aa]{2}` is `[Aa][Aa]`; under IgnoreCase the
    parser coalesces `aa` into such a loop), and the run goes on behind it only when the count is exact. -/
def predRun : List Pat → List Pred
  | .chr P :: rest => P :: predRun rest
  | .quant _ lo hi (.chr P) :: rest => List.replicate lo P ++ (if hi = some lo then predRun rest else [])
  | _ => []

/-- loop test and the character tests that follow the loop, in order (non-empty) -/
structure SymLal where
  loop : Pred
  lit : List Pred
deriving Repr

/-- when the first item is a loop with a positive minimum over something that is not a single character,
    its first iteration: the leaves of the body (nothing is known behind them) -/
def firstIter (items : List Pat) : List Pat :=
  match items with
  | .quant _ _ _ (.chr _) :: _ => items
  | .quant _ lo _ body :: _ => if 0 < lo then (leaves 64 body).dropWhile isGap else items
  | _ => items

/-- `findLiteralFollowingLeadingLoop`: the loop, zero-width children, then a run of single characters (or a
    loop with a positive minimum, which contributes its first iteration).  The non-overlap condition of the
    Go analysis (the literal's first character is not in the loop set) is not needed for the soundness of
    the fact. -/
def lalOf (k : Nat) (p : Pat) : Option SymLal :=
  match spine (k - 1) (unwrap p) with
  | first :: rest =>
    match unboundedLoop? first with
    | some (P, _) =>
      let items := firstIter ((rest.flatMap (leaves 64)).dropWhile isGap)
      match predRun items with
      | Q :: Qs => some ⟨P, Q :: Qs⟩
      | [] =>
        match items with
        | .quant _ lo _ (.chr Q) :: _ => if 0 < lo then some ⟨P, [Q]⟩ else none
        | _ => none
    | none => none
  | [] => none

/-- second analysis for the literal after the loop, for what follows the loop in ANY shape: the leading
    prefix of the remainder as `tryFindPrefix` computes it (Model/Facts.lean, rune encoding) — alternations
    with a common prefix, loops with a minimum, captures … -/
def lalPrefixOf (p : Pat) : Option (Pred × List Nat) :=
  match unwrap p with
  | .seq first R =>
    match unboundedLoop? first with
    | some (P, _) =>
      let w := (Facts.leadingPrefix (fun r => [r]) R).1
      if w.isEmpty then none else some (P, w)
    | none => none
  | _ => none

end RegexVerif.LoopFacts
