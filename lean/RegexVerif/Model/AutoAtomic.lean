/-
C05 — a certifier for the auto-atomic and ending-backtracking decisions of /repo/syntax/tree.go.

`findAndMakeLoopsAtomic`/`processNode`/`canBeMadeAtomic` turn a single-character loop into its atomic
variant when "what follows cannot start with a character the loop accepts";
`eliminateEndingBacktracking` makes the constructs that are evaluated last atomic.  Both are
*syntactic* tests on the tree.  This file defines, on the specification's pattern type `Spec.Pat`
(left-to-right; the Go code does not rewrite right-to-left nodes):

* `ks o s k` — the pair (kills, stays): does the continuation `k` FAIL at every dead position of the
  site `s` (`canBeMadeAtomic`'s "return true" cases), resp. can it only succeed there WITHOUT MOVING
  (the "goto end" cases: nullable loops over a disjoint character, boundaries, and — more liberal
  than Go — every zero-width construct);  `totalS k` — `k` always has a success (`b*`, Empty, …);
* `canAtomic` — the decision "this loop, followed by `subsequent` and then `rest`, may be made
  atomic", the walk of `canBeMadeAtomic` over `subsequent`, its first children and, when it is
  nullable, what follows it (`iterateNullableSubsequent`);
* `cert o rtl p p'` — a translation validator: walks the un-rewritten tree `p` and the rewritten
  tree `p'` in parallel, recognises the places where `p'` has an atomic loop / an Atomic wrapper /
  a lazy loop cut down to its minimum where `p` has the bare construct, and keeps for each such
  *site* the obligation "everything that follows fails at the positions this loop would give
  back" until a continuation discharges it (or an Atomic group / lookaround / condition / the end of
  the pattern makes it irrelevant).  `certTop` is the verdict for a whole pattern.

Unicode knowledge is an oracle (`Oracle`): `disj p q` = "no rune satisfies both tests" (Go: `!MayOverlap`,
`!CharIn`; the harness computes TRUE disjointness from the engine's sets, independently of `MayOverlap`)
and `uni p` = "all runes `p` accepts are word characters, or none is" (for `\b`).  The theorems in
`Props/C05.lean` assume exactly that meaning of the two bits (`Oracle.Sound`).

KF2: there is deliberately no rule that lets `\B` (`nonboundary`) discharge a site — the Go
condition `subsequent.T == NtNonboundary && n.M > 0 && !IsWordChar(n.Ch)` is unsound
(`Props.C05.kf2_nonword_loop_before_nonboundary`); `\B` only *stays* and it loses the knowledge of
the first success (`Res.why = 17`).
-/
import RegexVerif.Model.Spec

namespace RegexVerif.Spec

deriving instance DecidableEq for Cls
deriving instance DecidableEq for Pred
deriving instance DecidableEq for Pat

end RegexVerif.Spec

namespace RegexVerif.AutoAtomic
open RegexVerif.Spec

/-- oracle bits supplied by the harness (computed from the engine's own `CharSet`s and Go's `unicode`
    tables, not by `MayOverlap`) -/
structure Oracle where
  /-- no rune satisfies both tests -/
  disj : Pred → Pred → Bool
  /-- the runes the test accepts are all word characters or all non-word characters (for `\b`) -/
  uni : Pred → Bool

/-- disjointness Lean decides itself: case-sensitive single runes (`n.Ch != subsequent.Ch`,
    `Notone` with the same rune) -/
def nativeDisj : Pred → Pred → Bool
  | .one c false, .one d false => c != d
  | .one c false, .notone d false => c == d
  | .notone c false, .one d false => c == d
  | _, _ => false

def Oracle.disjoint (o : Oracle) (p q : Pred) : Bool := nativeDisj p q || o.disj p q

/-- a loop over one exact rune is trivially uniform (`\b` between two equal runes never holds) -/
def Oracle.uniform (o : Oracle) : Pred → Bool
  | .one _ false => true
  | p => o.uni p

/-- a rewritten place and the positions ("dead" positions) at which everything that follows it has to fail:
    `acc p` — in front of a rune `p` accepts (where a loop over `p` could have gone on);
    `btw p` — between two runes `p` accepts (loops with a minimum ≥ 1);
    `top` — anywhere (constructs made atomic in tail position: only the first success is kept). -/
inductive Site where
  | acc (p : Pred)
  | btw (p : Pred)
  | top
  deriving Repr, DecidableEq

def killsChr (o : Oracle) : Site → Pred → Bool
  | .acc p, q => o.disjoint p q
  | .btw p, q => o.disjoint p q
  | .top, _ => false

/-- `\z`; `$`/`\Z` when the loop cannot eat `'\n'`; `\b` between two runes of a uniform test.
    No case for `\B` (KF2). -/
def killsAnchor (o : Oracle) : Site → Anchor → Bool
  | .acc _, .end => true
  | .btw _, .end => true
  | .acc p, .eol => o.disjoint p (.one 10 false)
  | .btw p, .eol => o.disjoint p (.one 10 false)
  | .acc p, .endz => o.disjoint p (.one 10 false)
  | .btw p, .endz => o.disjoint p (.one 10 false)
  | .btw p, .boundary => o.uniform p
  | _, _ => false

/-- (kills, stays) of a continuation `k` for the site `s`: `kills` — `k` has no success from a dead
    position; `stays` — from a dead position `k` only succeeds without moving.
    Mirrors the descent of `canBeMadeAtomic` (first child of Concatenate, Capture, Atomic, positive
    lookahead, loops with `M > 0`; all branches of alternations and conditionals) and its
    `goto end` cases (loops with `M == 0`, boundaries). -/
def ks (o : Oracle) (s : Site) : Pat → Bool × Bool
  | .empty => (false, true)
  | .nothing => (true, true)
  | .chr q => (killsChr o s q, killsChr o s q)
  | .anchor a => (killsAnchor o s a, true)
  | .seq a b =>
    let ra := ks o s a
    let rb := ks o s b
    let k := ra.1 || (ra.2 && rb.1)
    (k, k || (ra.2 && rb.2))
  | .alt a b => ((ks o s a).1 && (ks o s b).1, (ks o s a).2 && (ks o s b).2)
  | .quant _ lo _ b => (decide (1 ≤ lo) && (ks o s b).1, (ks o s b).1)
  | .cap _ b => ks o s b
  | .look behind neg b => (!behind && !neg && (ks o s b).1, true)
  | .atomic b => ks o s b
  | .ref _ _ => (false, false)
  | .refCond _ y n => ((ks o s y).1 && (ks o s n).1, (ks o s y).2 && (ks o s n).2)
  | .exprCond _ y n => ((ks o s y).1 && (ks o s n).1, (ks o s y).2 && (ks o s n).2)

/-- `k` always has a success (nullable loops, Empty, and what is built from them) -/
def totalS : Pat → Bool
  | .empty => true
  | .seq a b => totalS a && totalS b
  | .alt a b => totalS a || totalS b
  | .quant _ lo _ _ => lo == 0
  | .cap _ b => totalS b
  | .atomic b => totalS b
  | .refCond _ y n => totalS y && totalS n
  | .exprCond _ y n => totalS y && totalS n
  | _ => false

/-- `k` never has more than one success (what `reduceAtomic` drops the Atomic node around) -/
def atMostOneS : Pat → Bool
  | .empty => true
  | .nothing => true
  | .chr _ => true
  | .anchor _ => true
  | .ref _ _ => true
  | .atomic _ => true
  | .look _ _ _ => true
  | .seq a b => atMostOneS a && atMostOneS b
  | .cap _ b => atMostOneS b
  | _ => false

/-- the site of a loop `p{lo,…}` -/
def loopSite (p : Pred) (lo : Nat) : Site := if 1 ≤ lo then .btw p else .acc p

/-- the walk of `canBeMadeAtomic` over what follows: `true` as soon as one item fails at the dead
    positions, going on past items that cannot move there; `false` when the list is exhausted
    (what happens at the end of the pattern is `canAtomicEnd`). -/
def contKills (o : Oracle) (s : Site) : List Pat → Bool
  | [] => false
  | k :: rest => (ks o s k).1 || ((ks o s k).2 && contKills o s rest)

/-- **the auto-atomic decision**: a one-character loop over `loopPred` with minimum `lo` (greedy or
    lazy), followed by `subsequent` and then by `rest`, may be replaced by the atomic greedy loop. -/
def canAtomic (o : Oracle) (loopPred : Pred) (lo : Nat) (subsequent : Pat) (rest : List Pat) : Bool :=
  contKills o (loopSite loopPred lo) (subsequent :: rest)

/-- the same decision for a lazy loop that becomes the atomic GREEDY loop ("lazy to greedy"): what
    follows has to fail in front of every rune the loop accepts (Go: `allowLazy`, and only
    `subsequent` itself is consulted; consulting `rest` as well is sound) -/
def canAtomicLazy (o : Oracle) (loopPred : Pred) (subsequent : Pat) (rest : List Pat) : Bool :=
  contKills o (.acc loopPred) (subsequent :: rest)

/-- the same walk when `rest` runs to the end of the pattern (`parent == nil: return true`): every
    item either fails at the dead positions or stays there AND always succeeds. -/
def contEnd (o : Oracle) (s : Site) : List Pat → Bool
  | [] => true
  | k :: rest => (ks o s k).1 || ((ks o s k).2 && totalS k && contEnd o s rest)

def canAtomicEnd (o : Oracle) (loopPred : Pred) (lo : Nat) (rest : List Pat) : Bool :=
  contEnd o (loopSite loopPred lo) rest

/-! ## the translation validator -/

/-- why a pair of trees is not certified -/
inductive Err where
  /-- a pending site meets a continuation that neither fails at its dead positions nor stays there;
      `code` classifies the continuation (`patCode`) -/
  | blocked (s : Site) (code : Nat)
  /-- the first success is needed (end of pattern / atomic group / lookaround / condition) while a
      site is still pending and the knowledge of the first success was lost; `why` as `Res.why` -/
  | pending (s : Site) (why : Nat)
  /-- a difference between the two trees that is not one of the modelled rewrites -/
  | other (code : Nat)
  deriving Repr, DecidableEq

/-- classification of a continuation for the diagnostics (not used by the theorems): the first item
    that may fail -/
def patCode : Pat → Nat
  | .empty => 1
  | .nothing => 2
  | .chr _ => 3
  | .anchor .nonboundary => 17
  | .anchor .boundary => 16
  | .anchor _ => 4
  | .seq a b => if totalS a then patCode b else patCode a
  | .alt _ _ => 6
  | .quant _ _ _ _ => 7
  | .cap _ b => patCode b
  | .look _ _ _ => 9
  | .atomic b => patCode b
  | .ref _ _ => 11
  | .refCond _ _ _ => 12
  | .exprCond _ _ _ => 13

/-- the result for a pair `(p, p')`: the sites still pending, whether `p` and `p'` are known to have
    the same first success, diagnostics, errors -/
structure Res where
  sites : List Site
  head : Bool
  /-- why `head` is false: 1 a lazy loop became greedy atomic, 17 a site passed `\B`, other codes: a
      site passed a continuation that may fail (`patCode`) -/
  why : Nat
  errs : List Err
  /-- number of sites recognised below (diagnostic) -/
  made : Nat
  deriving Repr

def Res.ok : Res := ⟨[], true, 0, [], 0⟩
def Res.fail (code : Nat) : Res := ⟨[], true, 0, [.other code], 0⟩

/-- the first success is known to be the same -/
def Res.headOK (r : Res) : Bool := r.head || r.sites.isEmpty

/-- a context that only uses the first success (Atomic, lookaround, condition, end of pattern): all
    pending sites are dropped — provided the first success is known to agree -/
def Res.close (r : Res) : Res :=
  if r.headOK then { sites := [], head := true, why := 0, errs := r.errs, made := r.made }
  else { sites := [], head := true, why := 0, errs := r.errs ++ r.sites.map (fun s => .pending s r.why), made := r.made }

/-- a context that needs the whole list of successes (loop bodies, right-to-left) -/
def Res.eqOnly (r : Res) : Res :=
  if r.sites.isEmpty then r
  else { sites := [], head := true, why := 0, errs := r.errs ++ r.sites.map (fun s => .pending s 99), made := r.made }

/-- a construct in tail position wrapped in Atomic (`eliminateEndingBacktracking`): the first
    success is the same, everything else may be gone -/
def Res.wrap (r : Res) : Res :=
  let c := r.close
  if c.errs.isEmpty then { c with sites := [.top], made := c.made + 1 } else c

/-- the pending sites of the first factor meet the second factor `k` -/
def stepSites (o : Oracle) (k : Pat) : List Site → List Site × List Err
  | [] => ([], [])
  | s :: ss =>
    let r := stepSites o k ss
    if (ks o s k).1 then r
    else if (ks o s k).2 then (s :: r.1, r.2)
    else (r.1, .blocked s (patCode k) :: r.2)

/-- concatenation left-to-right: `ra` for the first factors, `rb` for the second, `k` the second
    factor (of either tree) the pending sites of `ra` are checked against -/
def seqStep (o : Oracle) (k : Pat) (ra rb : Res) : Res :=
  let st := stepSites o k ra.sites
  let h := rb.headOK && (st.1.isEmpty || (ra.headOK && totalS k))
  { sites := st.1 ++ rb.sites,
    head := h,
    why := if h then 0 else if !rb.headOK then rb.why else if !ra.headOK then ra.why else patCode k,
    errs := ra.errs ++ rb.errs ++ st.2,
    made := ra.made + rb.made }

/-- try the second factor of the un-rewritten tree, then that of the rewritten tree -/
def seqRes (o : Oracle) (b b' : Pat) (ra rb : Res) : Res :=
  let r := seqStep o b ra rb
  if r.errs.isEmpty then r else
  let r' := seqStep o b' ra rb
  if r'.errs.isEmpty then r' else r

/-- concatenation right-to-left: the second factor (evaluated first) has to be the same; the first
    factor is the one evaluated last, where only the first success may be what is kept -/
def seqRtl (ra rb : Res) : Res :=
  let b := rb.eqOnly
  if ra.sites.isEmpty then { sites := [], head := true, why := 0, errs := ra.errs ++ b.errs, made := ra.made + b.made }
  else { sites := [.top], head := ra.headOK, why := ra.why, errs := ra.errs ++ b.errs, made := ra.made + b.made }

/-- branches of an alternation or conditional -/
def union (ra rb : Res) : Res :=
  let h := ra.headOK && rb.headOK
  { sites := ra.sites ++ rb.sites, head := h,
    why := if h then 0 else if !ra.headOK then ra.why else rb.why,
    errs := ra.errs ++ rb.errs, made := ra.made + rb.made }

def orElse (r r' : Res) : Res := if r.errs.isEmpty then r else if r'.errs.isEmpty then r' else r

/-- `canGo hi c` for all `c < lo`: the upper bound is not below the lower bound -/
def hiAtLeast (hi : Option Nat) (lo : Nat) : Bool :=
  match hi with
  | none => true
  | some h => lo ≤ h

/-- `FindLastExpressionInLoopForAutoAtomic`: the sites pending at the end of a loop body stay pending
    for the loop when the body (of either tree) cannot start at their dead positions
    (`lastConcatChild.canBeMadeAtomic(node.Children[0], false, false)`) -/
def bodyKills (o : Oracle) (x x' : Pat) (S : List Site) : Bool :=
  S.all (fun s => (ks o s x).1 && (ks o s x').1)

/-- a result that only claims the same first success -/
def Res.topOf (c : Res) (extra : Nat) : Res :=
  if c.errs.isEmpty then { sites := [.top], head := true, why := 0, errs := [], made := c.made + extra } else c

/-- a loop `quant lzy lo hi x` against `quant lzy' lo' hi' x'` whose bodies gave `r` -/
def quantRes (o : Oracle) (rtl : Bool) (x x' : Pat) (lzy : Bool) (lo : Nat) (hi : Option Nat) (lzy' : Bool) (lo' : Nat)
    (hi' : Option Nat) (r : Res) : Res :=
  if lzy = lzy' ∧ lo = lo' ∧ hi = hi' then
    if r.sites.isEmpty then r
    else if hi = some 1 then
      -- an optional construct (`case NtLoop: if node.N == 1`; in `processNode` through
      -- `FindLastExpressionInLoopForAutoAtomic`): there is no second iteration, the pending sites of
      -- the body are those of the loop
      { r with head := r.headOK }
    else if rtl then
      -- a rewritten place at the end of a right-to-left loop body: not modelled
      { r with errs := r.errs ++ [.other 40] }
    else if bodyKills o x x' r.sites = true then
      { r with head := r.headOK }
    else r.eqOnly
  else if lzy = true ∧ lzy' = true ∧ lo = lo' ∧ hi' = some lo ∧ hiAtLeast hi lo = true then
    -- `case NtLazyloop: node.N = node.M`
    if lo = 0 then ⟨[.top], true, 0, [], r.made + 1⟩   -- `x{0,0}`: Empty whatever the body
    else if lo = 1 ∨ (rtl = false ∧ bodyKills o x x' r.sites = true) then r.close.topOf 1
    else if rtl = true ∧ r.sites.isEmpty = false then { r with errs := r.errs ++ [.other 40] }
    else r.eqOnly.topOf 1
  else .fail 20

/-- the rewritten concatenation may carry the bump-along marker (`UpdateBumpalong`, Empty for the
    specification) after its first factor: `r` is the result without, `certb` validates the second factor -/
def seqMarker (o : Oracle) (b : Pat) (ra r : Res) (certb : Pat → Res) : Pat → Res
  | .seq .empty b'' => orElse r (seqRes o b b'' ra (certb b''))
  | _ => r

/-- `q` written `n` times (a Multi node as `gen.FromGoTree` prints it) -/
def repPat (q : Pred) : Nat → Pat
  | 0 => .empty
  | 1 => .chr q
  | n + 2 => .seq (.chr q) (repPat q (n + 1))

/-- the places where a single-character loop `q{lo,hi}` (lazy or not) has been replaced:
    * by the atomic greedy loop (`makeLoopAtomic` on a greedy loop; "lazy to greedy" + `makeLoopAtomic`
      in `processNode`) — a pending site;
    * a lazy loop by the repeater `q{lo}` or by Empty (`makeLoopAtomic` on a lazy loop in tail position). -/
def charSite (lzy : Bool) (lo : Nat) (hi : Option Nat) (q : Pred) (p' : Pat) : Option Res :=
  if hi = some lo ∧ (p' = .atomic (.quant false lo hi (.chr q)) ∨ p' = .quant false lo hi (.chr q)) then
    -- a repeater `q{n}`: lazy, greedy and atomic are the same thing
    some .ok
  else if p' = .atomic (.quant false lo hi (.chr q)) then
    some (if lzy then ⟨[.acc q], false, 1, [], 1⟩ else ⟨[loopSite q lo], true, 0, [], 1⟩)
  else if lzy = true ∧ hiAtLeast hi lo = true ∧
      (p' = .atomic (.quant false lo (some lo) (.chr q)) ∨ p' = repPat q lo) then
    -- `makeLoopAtomic` on a lazy loop in tail position: the repeater `x{lo}`, Empty when `lo = 0`, a
    -- Multi string for a small repeater of one rune
    some ⟨[.top], true, 0, [], 1⟩
  else none

/-- right-to-left (inside lookbehinds; `eliminateEndingBacktracking` walks from a left-to-right
    root into them): only the tail-position rewrites — a greedy loop made atomic, a lazy `q*?` dropped -/
def charSiteRtl (lzy : Bool) (lo : Nat) (hi : Option Nat) (q : Pred) (p' : Pat) : Option Res :=
  if lzy = false ∧ p' = .atomic (.quant false lo hi (.chr q)) then some ⟨[.top], true, 0, [], 1⟩
  else if lzy = true ∧ lo = 0 ∧ p' = .empty then some ⟨[.top], true, 0, [], 1⟩
  else none

def siteOf (rtl : Bool) (lzy : Bool) (lo : Nat) (hi : Option Nat) (p' : Pat) : Pat → Option Res
  | .chr q => if rtl then charSiteRtl lzy lo hi q p' else charSite lzy lo hi q p'
  | _ => none

/-- a loop against a loop, or against a loop wrapped in Atomic (tail position) -/
def quantGeneric (o : Oracle) (rtl : Bool) (x : Pat) (lzy : Bool) (lo : Nat) (hi : Option Nat) (certx : Pat → Res) : Pat → Res
  | .quant lzy' lo' hi' x' => quantRes o rtl x x' lzy lo hi lzy' lo' hi' (certx x')
  | .atomic (.quant lzy' lo' hi' x') => (quantRes o rtl x x' lzy lo hi lzy' lo' hi' (certx x')).wrap
  | _ => .fail 24

/-- `cert o rtl p p'`: `p` the un-rewritten tree, `p'` the rewritten one, both evaluated in
    direction `rtl` -/
def cert (o : Oracle) : Bool → Pat → Pat → Res
  | _, .empty, p' => if p' = .empty then .ok else .fail 1
  | _, .nothing, p' => if p' = .nothing then .ok else .fail 2
  | _, .chr q, p' => if p' = .chr q then .ok else .fail 3
  | _, .anchor a, p' => if p' = .anchor a then .ok else .fail 4
  | _, .ref g ci, p' => if p' = .ref g ci then .ok else .fail 11
  | rtl, .seq a b, p' =>
    match p' with
    | .seq a' b' =>
      if rtl then seqRtl (cert o rtl a a') (cert o rtl b b')
      else
        seqMarker o b (cert o rtl a a') (seqRes o b b' (cert o rtl a a') (cert o rtl b b'))
          (fun y => cert o rtl b y) b'
    | _ => .fail 5
  | rtl, .alt a b, p' =>
    match p' with
    | .alt a' b' => union (cert o rtl a a') (cert o rtl b b')
    | .atomic (.alt a' b') => (union (cert o rtl a a') (cert o rtl b b')).wrap
    | _ => .fail 6
  | rtl, .cap g a, p' =>
    match p' with
    | .cap g' a' => if g = g' then cert o rtl a a' else .fail 8
    | _ => .fail 8
  | rtl, .atomic x, p' =>
    -- `reduceAtomic`: the body in tail position; the Atomic node itself dropped around something
    -- that has at most one success
    let r2 := if atMostOneS p' then (cert o rtl x p').close else .fail 10
    match p' with
    | .atomic x' => orElse (cert o rtl x x').close r2
    | _ => r2
  | _, .look bh ng x, p' =>
    match p' with
    | .look bh' ng' x' => if bh = bh' ∧ ng = ng' then (cert o bh x x').close else .fail 9
    | _ => .fail 9
  | rtl, .refCond g y n, p' =>
    match p' with
    | .refCond g' y' n' => if g = g' then union (cert o rtl y y') (cert o rtl n n') else .fail 12
    | .atomic (.refCond g' y' n') =>
      if g = g' then (union (cert o rtl y y') (cert o rtl n n')).wrap else .fail 12
    | _ => .fail 12
  | rtl, .exprCond c y n, p' =>
    match p' with
    | .exprCond c' y' n' =>
      let rc := (cert o rtl c c').close
      let r := union (cert o rtl y y') (cert o rtl n n')
      { r with errs := rc.errs ++ r.errs, made := rc.made + r.made }
    | .atomic (.exprCond c' y' n') =>
      let rc := (cert o rtl c c').close
      let r := union (cert o rtl y y') (cert o rtl n n')
      ({ r with errs := rc.errs ++ r.errs, made := rc.made + r.made } : Res).wrap
    | _ => .fail 13
  | rtl, .quant lzy lo hi x, p' =>
    if p' = .quant lzy lo hi x then .ok else
    match siteOf rtl lzy lo hi p' x with
    | some r => r
    | none => quantGeneric o rtl x lzy lo hi (fun y => cert o rtl x y) p'

/-- **the verdict for a whole pattern** (left-to-right): no error, and at the end of the pattern only
    the first success matters -/
def certTop (o : Oracle) (p p' : Pat) : Bool := (cert o false p p').close.errs.isEmpty

/-- the same for a pattern of either direction (`RegexOptions.RightToLeft`: the engine does not
    rewrite such patterns; a right-to-left pair is certified when only tail-position rewrites were made) -/
def certTopDir (o : Oracle) (rtl : Bool) (p p' : Pat) : Bool := (cert o rtl p p').close.errs.isEmpty

/-! ## `eliminateEndingBacktracking` as a function (left-to-right) -/

/-- the children of a Concatenate/Capture that get an Atomic wrapper when they come last
    (`existingChild.T == NtAlternate || … NtBackRefCond || NtExprCond || NtLoop || NtLazyloop`) -/
def wrappable : Pat → Bool
  | .alt _ _ => true
  | .refCond _ _ _ => true
  | .exprCond _ _ _ => true
  | .quant _ _ _ (.chr _) => false
  | .quant _ _ _ _ => true
  | _ => false

def wrapIf (c : Bool) (orig p : Pat) : Pat := if c && wrappable orig then .atomic p else p

/-- `endAtomic pa p`: what `eliminateEndingBacktracking` makes of the left-to-right tree `p` whose
    parent is (`pa`) or is not an Atomic node: single-character loops become atomic (lazy ones the
    repeater of their minimum, Empty for minimum 0), the last child of a Concatenate / the child of a
    Capture is processed and wrapped in Atomic when it is an alternation, conditional or loop (unless
    the parent is already Atomic), all branches of alternations and conditionals, the bodies of Atomic
    groups and lookaheads, lazy loops are cut to their minimum, loops with maximum 1 are entered.
    Not modelled: the descent `FindLastExpressionInLoopForAutoAtomic` (it needs `canBeMadeAtomic`;
    `cert` covers it), lookbehind bodies, the Multi form of small One repeaters. -/
def endAtomic (pa : Bool) : Pat → Pat
  | .quant lzy lo hi x =>
    match x with
    | .chr q =>
      if lzy then
        if hiAtLeast hi lo then (if lo = 0 then .empty else .atomic (.quant false lo (some lo) (.chr q)))
        else .quant lzy lo hi (.chr q)
      else .atomic (.quant false lo hi (.chr q))
    | _ =>
      let hi' := if lzy = true ∧ hiAtLeast hi lo = true then some lo else hi
      if hi' = some 1 then .quant lzy lo hi' (endAtomic false x) else .quant lzy lo hi' x
  | .atomic x =>
    match x with
    | .quant false lo hi (.chr q) => .atomic (.quant false lo hi (.chr q))
    | _ => .atomic (endAtomic true x)
  | .look false ng x => .look false ng (endAtomic false x)
  | .seq a b =>
    match b with
    | .seq _ _ => .seq a (endAtomic pa b)
    | _ => .seq a (wrapIf (!pa) b (endAtomic false b))
  | .cap g a => .cap g (wrapIf (!pa) a (endAtomic false a))
  | .alt a b => .alt (endAtomic false a) (endAtomic false b)
  | .refCond g y n => .refCond g (endAtomic false y) (endAtomic false n)
  | .exprCond c y n => .exprCond c (endAtomic false y) (endAtomic false n)
  | p => p

/-- at the root (`finalOptimize`: the implicit capture 0 has no parent) -/
def endAtomicTop (p : Pat) : Pat := wrapIf true p (endAtomic false p)

end RegexVerif.AutoAtomic
