/-
The hypotheses of the chain theorem `Props.C10.compile_and_run_no_fault_partial` (pattern text ↦ compiled program ↦ no
interpreter fault) as executable predicates on the parser's result, so that the driver can evaluate them on every
explored pattern (leg Pl, field `wf`): `RawShapeOk` (joint J2) and `PrescanAgrees` (joint J3).

`capN sl x`: every node of the `Reduce.Node` tree `x` satisfies `capQ sl` — a Ref / BackRefCond carries a group
number `0 ≤ m ≤ MaxInt32` accepted by `sl`, a Capture the numbers `-1 ≤ m, n ≤ MaxInt32` with the writer's
condition (`Writer.capsOk`), a Group `m = 0` — and has an option word below the tag base of `Reduce.toR`.
-/
import RegexVerif.Model.Reduce

namespace RegexVerif.Reduce
open RegexVerif

/-- the per-node condition: `sl` = "this group number maps to a slot of the capture array" -/
def capQ (sl : Int → Bool) (t : Nat) (m n : Int) : Bool :=
  if t == 13 || t == 33 then decide (0 ≤ m) && decide (m ≤ maxInt32) && sl m
  else if t == 28 then
    decide (-1 ≤ m) && decide (m ≤ maxInt32) && decide (-1 ≤ n) && decide (n ≤ maxInt32) &&
      (if n == -1 then sl m else (m == -1 || sl m) && sl n)
  else if t == 29 then m == 0
  else true

mutual
/-- every node satisfies `capQ`, every option word is below the tag base -/
def capN (sl : Int → Bool) : Node → Bool
  | .mk t o _ _ _ m n kids => decide (o < tagBase) && capQ sl t m n && capNs sl kids
def capNs (sl : Int → Bool) : List Node → Bool
  | [] => true
  | x :: xs => capN sl x && capNs sl xs
end

/-- the writer's slot test for the tables of a raw tree: "group number `g` maps to a slot of the capture array"
    (`mapCapnum` through the `Caps` the writer builds from `Capnumlist`, below `Capsize`) -/
def slotOf (t : Parser.RawTree) : Int → Bool :=
  Writer.slotOk (Writer.mainCfg (treeInfo false t)) (Writer.capsize (treeInfo false t))

/-- **J2 (hypothesis).**  The raw tree has the node shapes the reducer assumes (`Reduce.okRawTree`: known node
    types with the parser's child counts; a Concatenate / Alternate below the root may be childless). -/
def RawShapeOk (t : Parser.RawTree) : Bool := okRawTree (ofRaw t.root)

/-- **J3 (hypothesis).**  The capture pre-scan and the main scan agree: group 0 has a slot, every Ref / BackRefCond of
    the raw tree carries a group number in `[0, MaxInt32]` that maps to a slot of the capture array, every Capture
    the numbers `(m, n)` in `[-1, MaxInt32]` with the writer's condition (`n = -1`: `m` has a slot; else `m = -1` or
    `m` has a slot, and `n` has one), every Group has `M = 0`, every option word is below 2⁴⁰. -/
def PrescanAgrees (t : Parser.RawTree) : Bool := slotOf t 0 && capN (slotOf t) (ofRaw t.root)

end RegexVerif.Reduce
