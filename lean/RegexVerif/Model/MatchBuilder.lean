/-
Model of the capture arrays of a `Match` under construction (match.go) and of the three
interpreter primitives that drive them (runner.go `Capture`, `transferCapture`, `uncapture`).

`matchcount[c]` is the number of entries of slot `c`; `matches[c]` is a flat `[]int` holding one
`(index, length)` pair per entry.  A *balancing* entry (written by `balanceMatch` for the constructs
`(?<-a>…)`, `(?<b-a>…)`) is a pair of negative numbers `(-3 - t, -4 - t)`: it cancels the innermost
live capture, and `t` is the array position of the capture that is innermost afterwards (`t = -2`
when none is left, giving the pair `(-1, -2)` that `isMatched` tests for).  `tidy` compacts the
arrays so that only live captures remain.

The arrays are modelled with their real length (capacity, stale tail and growth policy included);
a `nil` slice is `[]`.  Reading outside an array is a Go panic; the model reads 0 there (`geti`) and
the theorems carry the invariant under which no such read happens.
-/
namespace RegexVerif.MatchBuilder

structure Builder where
  matchcount : List Nat
  arrays : List (List Int)          -- Go field `matches`
  balancing : Bool
  deriving Repr, DecidableEq

/-- `newMatch(regex, capcount, …)` -/
def newMatch (capcount : Nat) : Builder :=
  { matchcount := List.replicate capcount 0,
    arrays := (List.replicate capcount []).set 0 [0, 0],      -- m.matches[0] = make([]int, 2)
    balancing := false }

def cnt (b : Builder) (c : Nat) : Nat := b.matchcount.getD c 0
def arr (b : Builder) (c : Nat) : List Int := b.arrays.getD c []
def geti (a : List Int) (i : Nat) : Int := a.getD i 0

/-- `(*Match).addMatch(c, start, l)` -/
def addMatch (b : Builder) (c : Nat) (start l : Int) : Builder :=
  let a := arr b c
  let a := if a.isEmpty then [0, 0] else a                     -- if m.matches[c] == nil { make([]int, 2) }
  let capcount := cnt b c
  let a := if capcount * 2 + 2 > a.length then                 -- grow to capcount*8, copy the entries
      a.take (capcount * 2) ++ List.replicate (capcount * 8 - capcount * 2) 0
    else a
  let a := (a.set (capcount * 2) start).set (capcount * 2 + 1) l
  { b with arrays := b.arrays.set c a, matchcount := b.matchcount.set c (capcount + 1) }

/-- `(*Match).balanceMatch(c)` -/
def balanceMatch (b : Builder) (c : Nat) : Builder :=
  let b := { b with balancing := true }
  let a := arr b c
  let capcount := cnt b c
  let target : Int := (capcount : Int) * 2 - 2
  -- a negative last entry refers to the capture that is innermost now
  let target : Int := if geti a target.toNat < 0 then -3 - geti a target.toNat else target
  -- move back to the previous entry
  let target : Int := target - 2
  if target ≥ 0 ∧ geti a target.toNat < 0 then
    addMatch b c (geti a target.toNat) (geti a (target.toNat + 1))   -- copy that reference
  else
    addMatch b c (-3 - target) (-4 - target)                         -- point to it

/-- `(*Match).removeMatch(c)` -/
def removeMatch (b : Builder) (c : Nat) : Builder :=
  { b with matchcount := b.matchcount.set c (cnt b c - 1) }

/-- `(*Match).isMatched(cap)` -/
def isMatched (b : Builder) (cap : Nat) : Bool :=
  decide (cap < b.matchcount.length) && decide (cnt b cap > 0) &&
    decide (geti (arr b cap) (cnt b cap * 2 - 1) ≠ -3 + 1)

/-- `(*Match).matchIndex(cap)` -/
def matchIndex (b : Builder) (cap : Nat) : Int :=
  let i := geti (arr b cap) (cnt b cap * 2 - 2)
  if i ≥ 0 then i else geti (arr b cap) (-3 - i).toNat

/-- `(*Match).matchLength(cap)` -/
def matchLength (b : Builder) (cap : Nat) : Int :=
  let i := geti (arr b cap) (cnt b cap * 2 - 1)
  if i ≥ 0 then i else geti (arr b cap) (-3 - i).toNat

/-! ### `tidy` (and replace.go `compactBalancedMatches`, the same loops) -/

/-- `for i = 0; i < limit; i++ { if matcharray[i] < 0 { break } }` — `k` counts the remaining iterations -/
def firstNeg (a : List Int) : Nat → Nat → Nat
  | 0, i => i
  | k + 1, i => if geti a i < 0 then i else firstNeg a k (i + 1)

/-- `for j = i; i < limit; i++ { if matcharray[i] < 0 { j-- } else { if i != j { matcharray[j] = matcharray[i] }; j++ } }` -/
def compactLoop : Nat → List Int → Nat → Nat → List Int × Nat
  | 0, a, _, j => (a, j)
  | k + 1, a, i, j =>
    if geti a i < 0 then compactLoop k a (i + 1) (j - 1)
    else compactLoop k (if i ≠ j then a.set j (geti a i) else a) (i + 1) (j + 1)

/-- one iteration of the `for cap` loop of `tidy`: the new array and the new `matchcount[cap]` -/
def tidySlot (a : List Int) (count : Nat) : List Int × Nat :=
  let limit := count * 2
  let i := firstNeg a limit 0
  let r := compactLoop (limit - i) a i i
  (r.1, r.2 / 2)

def tidySlots : List (List Int) → List Nat → List (List Int × Nat)
  | a :: as, n :: ns => tidySlot a n :: tidySlots as ns
  | _, _ => []

/-- `(*Match).tidy`: the capture arrays after it (the embedded `Capture` of group 0 is `matchCapture`) -/
def tidy (b : Builder) : Builder :=
  if b.balancing then
    let r := tidySlots b.arrays b.matchcount
    { arrays := r.map (·.1), matchcount := r.map (·.2), balancing := false }
  else b

/-- `setCaptureFields(&m.Capture, interval[0], interval[1])` -/
def matchCapture (b : Builder) : Int × Int := (geti (arr b 0) 0, geti (arr b 0) 1)

/-! ### `Groups()` / `newGroup` -/

def pairsOf : List Int → List (Int × Int)
  | x :: y :: rest => (x, y) :: pairsOf rest
  | _ => []

/-- `newGroup(name, text, caps, capcount)`: the embedded capture and the `Captures` list -/
def newGroup (caps : List Int) (capcount : Nat) : (Int × Int) × List (Int × Int) :=
  let emb : Int × Int := if capcount > 0 then (geti caps ((capcount - 1) * 2), geti caps (capcount * 2 - 1)) else (0, 0)
  (emb, (List.range capcount).map (fun i => (geti caps (i * 2), geti caps (i * 2 + 1))))

def groups (b : Builder) : List ((Int × Int) × List (Int × Int)) :=
  (List.range b.matchcount.length).map (fun c => newGroup (arr b c) (cnt b c))

/-! ### abstract view: per group the stack of live captures, oldest first -/

/-- read a flat entry list pair by pair: a non-negative pair is a capture (push), a negative pair
    cancels the innermost live capture (pop).  The stack is kept top-first. -/
def liveStack : List Int → List (Int × Int) → List (Int × Int)
  | x :: y :: rest, st => if x < 0 then liveStack rest st.tail else liveStack rest ((x, y) :: st)
  | _, st => st

def absSlot (a : List Int) (count : Nat) : List (Int × Int) := (liveStack (a.take (2 * count)) []).reverse

/-- the live captures of group `c` -/
def absOf (b : Builder) (c : Nat) : List (Int × Int) := absSlot (arr b c) (cnt b c)

def abs (b : Builder) : List (List (Int × Int)) := (List.range b.matchcount.length).map (absOf b)

/-! ### the interpreter primitives (runner.go) -/

structure Runner where
  m : Builder
  crawl : List Nat            -- runcrawl, top first
  deriving Repr, DecidableEq

/-- `(*Runner).Capture(capnum, start, end)` -/
def capture (r : Runner) (capnum : Nat) (start end_ : Int) : Runner :=
  let (start, end_) := if end_ < start then (end_, start) else (start, end_)
  { m := addMatch r.m capnum start (end_ - start), crawl := capnum :: r.crawl }

/-- the interval arithmetic of `transferCapture`: `(start, end)` of the new capture from the
    interval just matched and the interval `(start2, end2)` being cancelled -/
def transferInterval (start end_ start2 end2 : Int) : Int × Int :=
  if start ≥ end2 then (end2, start)
  else if end_ ≤ start2 then (end_, start2)
  else (if start2 > start then start2 else start, if end_ > end2 then end2 else end_)

/-- `(*Runner).transferCapture(capnum, uncapnum, start, end)`; `capnum = -1` for `(?<-a>…)` -/
def transferCapture (r : Runner) (capnum : Int) (uncapnum : Nat) (start end_ : Int) : Runner :=
  let (start, end_) := if end_ < start then (end_, start) else (start, end_)
  let start2 := matchIndex r.m uncapnum
  let end2 := start2 + matchLength r.m uncapnum
  let (start, end_) := transferInterval start end_ start2 end2
  let r : Runner := { m := balanceMatch r.m uncapnum, crawl := uncapnum :: r.crawl }
  if capnum ≠ -1 then
    { m := addMatch r.m capnum.toNat start (end_ - start), crawl := capnum.toNat :: r.crawl }
  else r

/-- `(*Runner).uncapture()` -/
def uncapture (r : Runner) : Runner :=
  match r.crawl with
  | [] => r                      -- popcrawl on an empty stack is a Go panic
  | capnum :: rest => { m := removeMatch r.m capnum, crawl := rest }

inductive Op where
  | cap (capnum : Nat) (start end_ : Int)
  | transfer (capnum : Int) (uncapnum : Nat) (start end_ : Int)
  | uncap
  deriving Repr

def step (r : Runner) : Op → Runner
  | .cap c s e => capture r c s e
  | .transfer c u s e => transferCapture r c u s e
  | .uncap => uncapture r

def run (capcount : Nat) (ops : List Op) : Runner := ops.foldl step { m := newMatch capcount, crawl := [] }

end RegexVerif.MatchBuilder
