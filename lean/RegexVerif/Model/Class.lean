/-
Model of `syntax.CharSet` (syntax/charclass.go of /repo): the class representation, the two lookup
paths (`CharIn` with the ASCII bitmap, `charInSlow`), `prepareASCIIBitmap`, `canonicalize` and the
operations the parser and the analyses build classes with.

Runes are `Nat` (the Go code uses int32; negative runes never reach a class).  Unicode knowledge is
an oracle: `cat id ch` says whether rune `ch` is in the category / script / property (or one of the
two special categories " " = white space, "W" = word character) numbered `id`.  Category *names*
matter to the Go code only through equality, so the model uses numbers.

The model follows the code that exists, quirks included:
  * `charInSlow` never looks at the `anything` flag;
  * `canonicalize` runs after every single addition; its "everything but X" normalisations turn a
    positive class into a *negated* one, so they are skipped while `building` is set (the parser
    sets it and runs one full `canonicalize` at the end of the class, commit 493eae7; under
    IgnoreCase the mark stays until `nodeWithCaseConversion` copies the class, and the normal form
    is taken by the `canonicalize` that ends `addCaseEquivalences`, commit d62d6ac);
  * `addNegativeRanges` tests `hi < MaxRune` (strictly), so the complement of a list that ends at
    U+10FFFE lacks U+10FFFF.
-/
namespace RegexVerif.Class

/-- `unicode.MaxRune` = `utf8.MaxRune` -/
def maxRune : Nat := 0x10FFFF

/-- one `CharSet` without its subtractor: `ranges`, `categories` (id, Negate), `negate`,
`anything`, and the two words of the ASCII bitmap when it has been built -/
structure Flat where
  ranges : List (Nat × Nat) := []
  cats : List (Nat × Bool) := []
  neg : Bool := false
  anything : Bool := false
  /-- set by `scanCharSet` while items are still being added (commit 493eae7): `canonicalize` then
  only sorts and merges -/
  building : Bool := false
  ascii : Option (Nat × Nat) := none
  deriving Repr, DecidableEq, Inhabited

/-- a `CharSet` with its chain of subtractors (`sub *CharSet`) -/
inductive Class where
  | leaf (f : Flat)
  | minus (f : Flat) (sub : Class)
  deriving Repr, DecidableEq, Inhabited

namespace Class
def flat : Class → Flat
  | leaf f => f
  | minus f _ => f
def hasSub : Class → Bool
  | leaf _ => false
  | minus _ _ => true
def sub? : Class → Option Class
  | leaf _ => none
  | minus _ s => some s
/-- replace the head `CharSet`'s own fields, keeping the subtractor -/
def withFlat (g : Flat) : Class → Class
  | leaf _ => leaf g
  | minus _ s => minus g s
end Class

/-! ## Specification: set algebra -/

def inRange (r : Nat × Nat) (ch : Nat) : Bool := decide (r.1 ≤ ch) && decide (ch ≤ r.2)

/-- `ch` lies in one of the ranges -/
def inRanges (rs : List (Nat × Nat)) (ch : Nat) : Bool := rs.any (fun r => inRange r ch)

/-- one category entry accepts `ch`: membership in the category, flipped when the entry is negated -/
def catAccepts (cat : Nat → Nat → Bool) (c : Nat × Bool) (ch : Nat) : Bool := cat c.1 ch != c.2

/-- some category entry accepts `ch` -/
def inCats (cat : Nat → Nat → Bool) (cs : List (Nat × Bool)) (ch : Nat) : Bool :=
  cs.any (fun c => catAccepts cat c ch)

/-- positive part of one `CharSet`: union of ranges and category entries -/
def Flat.pos (cat : Nat → Nat → Bool) (f : Flat) (ch : Nat) : Bool :=
  inRanges f.ranges ch || inCats cat f.cats ch

/-- (positive part) xor negate -/
def Flat.memAlg (cat : Nat → Nat → Bool) (f : Flat) (ch : Nat) : Bool := f.pos cat ch != f.neg

/-- THE SPECIFICATION.  ((in some range ∨ some category entry accepts) xor negate) ∧ ¬ member of the
subtracted class. -/
def memAlg (cat : Nat → Nat → Bool) : Class → Nat → Bool
  | .leaf f, ch => f.memAlg cat ch
  | .minus f s, ch => f.memAlg cat ch && !(memAlg cat s ch)

/-! ## Implementation mirror: `charInSlow`, `charInCategories`, `CharIn`, `prepareASCIIBitmap` -/

/-- the `n <= 4` branch of `charInSlow`: linear scan with early exit on `ch < r.First` -/
def scanLinear : List (Nat × Nat) → Nat → Bool
  | [], _ => false
  | r :: rs, ch =>
    if ch < r.1 then false
    else if ch ≤ r.2 then true
    else scanLinear rs ch

/-- the binary-search loop of `charInSlow` (`lo, hi := 0, n; for lo < hi {…}`); returns the final
`lo`.  `fuel` bounds the iterations (`hi - lo ≤ fuel` suffices, see `Lemmas/Class.lean`). -/
def bsLoop (rs : List (Nat × Nat)) (ch : Nat) : Nat → Nat → Nat → Nat
  | 0, lo, _ => lo
  | fuel + 1, lo, hi =>
    if lo < hi then
      let mid := (lo + hi) / 2
      match rs[mid]? with
      | some r => if r.1 ≤ ch then bsLoop rs ch fuel (mid + 1) hi else bsLoop rs ch fuel lo mid
      | none => lo
    else lo

/-- the range part of `charInSlow` -/
def rangeLookup (rs : List (Nat × Nat)) (ch : Nat) : Bool :=
  let n := rs.length
  if n = 0 then false
  else if n ≤ 4 then scanLinear rs ch
  else
    let lo := bsLoop rs ch n 0 n
    if lo > 0 then
      match rs[lo - 1]? with
      | some r => decide (ch ≤ r.2)
      | none => false
    else false

/-- `charInCategories` (after commit 4abd18d): a positive entry that contains `ch`, or a negated
entry that does not, answers true; otherwise the next entry is tried -/
def catLoop (cat : Nat → Nat → Bool) : List (Nat × Bool) → Nat → Bool
  | [], _ => false
  | c :: rest, ch =>
    if cat c.1 ch then
      (if !c.2 then true else catLoop cat rest ch)
    else if c.2 then true
    else catLoop cat rest ch

/-- `charInSlow` up to and including `if c.negate { val = !val }` -/
def Flat.head (cat : Nat → Nat → Bool) (f : Flat) (ch : Nat) : Bool :=
  let val := rangeLookup f.ranges ch
  let val := if !val && !f.cats.isEmpty then catLoop cat f.cats ch else val
  if f.neg then !val else val

/-- bit `ch` of the bitmap: `(bits[ch/64] & (1 << (ch%64))) != 0` -/
def bitTest (bm : Nat × Nat) (ch : Nat) : Bool :=
  if ch / 64 = 0 then bm.1.testBit (ch % 64) else bm.2.testBit (ch % 64)

/-- `bits[i/64] |= 1 << (i%64)` -/
def bitSet (bm : Nat × Nat) (i : Nat) : Nat × Nat :=
  if i / 64 = 0 then (bm.1 ||| (1 <<< (i % 64)), bm.2) else (bm.1, bm.2 ||| (1 <<< (i % 64)))

/-- the loop of `prepareASCIIBitmap` over `i := range rune(128)` -/
def buildBitmap (slow : Nat → Bool) : Nat × Nat :=
  (List.range 128).foldl (fun bm i => if slow i then bitSet bm i else bm) (0, 0)

/-- the fast path of `CharIn`: `ch < 128 && c.ascii != nil` answers from the bitmap, everything
else from `charInSlow` (whose value is passed in) -/
def viaBitmap (ascii : Option (Nat × Nat)) (ch : Nat) (slow : Bool) : Bool :=
  if ch < 128 then
    match ascii with
    | some bm => bitTest bm ch
    | none => slow
  else slow

/-- `charInSlow`, including the recursive `!c.sub.CharIn(ch)` (which may use the subtractor's
bitmap) -/
def charInSlow (cat : Nat → Nat → Bool) : Class → Nat → Bool
  | .leaf f, ch => f.head cat ch
  | .minus f s, ch =>
    if f.head cat ch then !(viaBitmap s.flat.ascii ch (charInSlow cat s ch)) else false

/-- `CharIn` -/
def charIn (cat : Nat → Nat → Bool) (c : Class) (ch : Nat) : Bool :=
  viaBitmap c.flat.ascii ch (charInSlow cat c ch)

/-- `prepareASCIIBitmap`: nothing when a bitmap exists; otherwise the subtractor first, then 128
calls of `charInSlow` -/
def prepare (cat : Nat → Nat → Bool) : Class → Class
  | .leaf f =>
    match f.ascii with
    | some _ => .leaf f
    | none => .leaf { f with ascii := some (buildBitmap (fun i => f.head cat i)) }
  | .minus f s =>
    match f.ascii with
    | some _ => .minus f s
    | none =>
      let s' := prepare cat s
      .minus { f with ascii := some (buildBitmap (fun i => charInSlow cat (.minus f s') i)) } s'

/-- drop every bitmap (a class as the parser leaves it) -/
def strip : Class → Class
  | .leaf f => .leaf { f with ascii := none }
  | .minus f s => .minus { f with ascii := none } (strip s)

/-! ## `canonicalize` -/

/-- insertion by `First` (the Go code uses `sort.Sort` with `Less = First <`; any sort by `First`
gives the same merge result on well-formed ranges) -/
def insertByFirst (r : Nat × Nat) : List (Nat × Nat) → List (Nat × Nat)
  | [] => [r]
  | x :: xs => if r.1 ≤ x.1 then r :: x :: xs else x :: insertByFirst r xs

def sortByFirst : List (Nat × Nat) → List (Nat × Nat)
  | [] => []
  | r :: rs => insertByFirst r (sortByFirst rs)

/-- the merge loop of `canonicalize` on a list sorted by `First`: `(first,last)` is the range being
grown (`c.ranges[j]`), the list is what is left from index `i`.  `last >= MaxRune` ends the loop and
drops the rest. -/
def mergeGo (first last : Nat) : List (Nat × Nat) → List (Nat × Nat)
  | [] => [(first, last)]
  | c :: rest =>
    if last ≥ maxRune then [(first, last)]
    else if c.1 > last + 1 then (first, last) :: mergeGo c.1 c.2 rest
    else mergeGo first (if last < c.2 then c.2 else last) rest

/-- sort + merge overlapping or abutting ranges -/
def mergeRanges (rs : List (Nat × Nat)) : List (Nat × Nat) :=
  match sortByFirst rs with
  | [] => []
  | r :: rest => mergeGo r.1 r.2 rest

/-- `makeAnything` -/
def Flat.makeAnything (f : Flat) : Flat :=
  { f with anything := true, cats := [], ranges := [(0, maxRune)] }

/-- first normalisation: a positive, category-free, subtraction-free class that is "everything but
one gap" becomes the negated gap -/
def norm1 (hasSub : Bool) (f : Flat) : Flat :=
  if !f.neg && !hasSub && f.cats.isEmpty then
    match f.ranges with
    | [r0, r1] =>
      if r0.1 = 0 ∧ r1.2 ≥ maxRune ∧ r0.2 < r1.1 - 1 then
        { f with ranges := [(r0.2 + 1, r1.1 - 1)], neg := true }
      else f
    | [r0] =>
      if r0.1 = 0 then
        (if r0.2 = maxRune - 1 then { f with ranges := [(maxRune, maxRune)], neg := true } else f)
      else if r0.1 = 1 then
        (if r0.2 ≥ maxRune then { f with ranges := [(0, 0)], neg := true } else f)
      else f
    | _ => f
  else f

/-- second normalisation: one range covering everything → `makeAnything` (drops the categories) -/
def norm2 (hasSub : Bool) (f : Flat) : Flat :=
  if !f.neg && !hasSub then
    match f.ranges with
    | [r0] => if r0.1 = 0 ∧ r0.2 ≥ maxRune then f.makeAnything else f
    | _ => f
  else f

/-- third normalisation: ranges omit exactly one character and there are categories: ask the
categories about that character -/
def norm3 (cat : Nat → Nat → Bool) (hasSub : Bool) (f : Flat) : Flat :=
  if !f.neg && !hasSub && !f.cats.isEmpty then
    match f.ranges with
    | [r0, r1] =>
      if r0.1 = 0 ∧ r0.2 + 2 = r1.1 ∧ r1.2 = maxRune then
        (if catLoop cat f.cats (r0.2 + 1) then f.makeAnything
         else { f with neg := true, ranges := [(r0.2 + 1, r0.2 + 1)], cats := [] })
      else f
    | _ => f
  else f

/-- `canonicalize` of a `CharSet` whose `sub` is (`hasSub`) or is not nil -/
def Flat.canonicalize (cat : Nat → Nat → Bool) (hasSub : Bool) (f : Flat) : Flat :=
  if f.ranges.isEmpty then f
  else
    let f1 := { f with ranges := mergeRanges f.ranges }
    if f1.building then f1
    else norm3 cat hasSub (norm2 hasSub (norm1 hasSub f1))

/-! ## Building operations -/

/-- `addRange` (also `addChar`) -/
def Flat.addRange (cat : Nat → Nat → Bool) (hasSub : Bool) (f : Flat) (lo hi : Nat) : Flat :=
  Flat.canonicalize cat hasSub { f with ranges := f.ranges ++ [(lo, hi)] }

/-- `addRanges` -/
def Flat.addRanges (cat : Nat → Nat → Bool) (hasSub : Bool) (f : Flat) (rs : List (Nat × Nat)) : Flat :=
  if f.anything then f
  else Flat.canonicalize cat hasSub { f with ranges := f.ranges ++ rs }

/-- the complement construction inside `addNegativeRanges` (`hi` starts at 0) -/
def negGo (hi : Nat) : List (Nat × Nat) → List (Nat × Nat)
  | [] => if hi < maxRune then [(hi, maxRune)] else []
  | r :: rs => (if hi < r.1 then [(hi, r.1 - 1)] else []) ++ negGo (r.2 + 1) rs

/-- `addNegativeRanges` -/
def Flat.addNegativeRanges (cat : Nat → Nat → Bool) (hasSub : Bool) (f : Flat) (rs : List (Nat × Nat)) : Flat :=
  if f.anything then f
  else Flat.canonicalize cat hasSub { f with ranges := f.ranges ++ negGo 0 rs }

/-- the inner search of `addCategories`: `none` = same name with opposite negation found,
`some true` = already present, `some false` = new -/
def findCat (c : Nat × Bool) : List (Nat × Bool) → Option Bool
  | [] => some false
  | d :: rest => if c.1 = d.1 then (if c.2 != d.2 then none else some true) else findCat c rest

/-- `addCategories` (without the leading `anything` test) -/
def addCatsGo (f : Flat) : List (Nat × Bool) → Flat
  | [] => f
  | c :: rest =>
    match findCat c f.cats with
    | none => f.makeAnything
    | some true => addCatsGo f rest
    | some false => addCatsGo { f with cats := f.cats ++ [c] } rest

/-- `addCategories` -/
def Flat.addCategories (f : Flat) (cs : List (Nat × Bool)) : Flat :=
  if f.anything then f else addCatsGo f cs

/-- `addSet` (the argument's `negate`/`sub` are ignored by the code; callers check `IsMergeable`) -/
def Flat.addSet (cat : Nat → Nat → Bool) (hasSub : Bool) (f : Flat) (s : Flat) : Flat :=
  if f.anything then f
  else if s.anything then f.makeAnything
  else Flat.canonicalize cat hasSub (Flat.addCategories { f with ranges := f.ranges ++ s.ranges } s.cats)

/-- the ranges appended by `addCaseEquivalences`: one singleton per case-equivalent (`orbit i` is
`tryFindCaseEquivalences(i)`) of every member of every range -/
def caseEquivRanges (orbit : Nat → List Nat) (rs : List (Nat × Nat)) : List (Nat × Nat) :=
  rs.flatMap (fun r => (List.range' r.1 (r.2 + 1 - r.1)).flatMap (fun i => (orbit i).map (fun e => (e, e))))

/-- `addCaseEquivalences` on one `CharSet` (the recursion into `sub` is in `Class.addCaseEquivalences`) -/
def Flat.addCaseEquivalences (cat : Nat → Nat → Bool) (orbit : Nat → List Nat) (hasSub : Bool) (f : Flat) : Flat :=
  if f.anything then f
  else Flat.canonicalize cat hasSub { f with ranges := f.ranges ++ caseEquivRanges orbit f.ranges }

/-- `addCaseEquivalences` -/
def Class.addCaseEquivalences (cat : Nat → Nat → Bool) (orbit : Nat → List Nat) : Class → Class
  | .leaf f => .leaf (f.addCaseEquivalences cat orbit false)
  | .minus f s => .minus (f.addCaseEquivalences cat orbit true) (Class.addCaseEquivalences cat orbit s)

/-! ## `addLowercase` (the table `lcTable` is a parameter; `Generated/Class.lean` holds the source's) -/

/-- one operation of `lcTable`: 0 = set to `data`, 1 = add `data`, 2 = `| 1`, 3 = `+ (ch & 1)` -/
def lcApply (op : Nat) (data : Int) (x : Nat) : Nat :=
  if op = 0 then data.toNat
  else if op = 1 then ((x : Int) + data).toNat
  else if op = 2 then x ||| 1
  else x + (x &&& 1)

/-- the binary search at the head of `addLowercaseRange`: first row whose `chMax` is not below `chMin` -/
def lcSearch (tbl : List (Nat × Nat × Nat × Int)) (chMin : Nat) : Nat → Nat → Nat → Nat
  | 0, i, _ => i
  | fuel + 1, i, iMax =>
    if i < iMax then
      let mid := (i + iMax) / 2
      match tbl[mid]? with
      | some row => if row.2.1 < chMin then lcSearch tbl chMin fuel (mid + 1) iMax else lcSearch tbl chMin fuel i mid
      | none => i
    else i

/-- the second loop of `addLowercaseRange` over the rows from the found index on -/
def lcScan (chMin chMax : Nat) : List (Nat × Nat × Nat × Int) → List (Nat × Nat)
  | [] => []
  | (lo, hi, op, data) :: rest =>
    if lo > chMax then []
    else
      let a := if lo < chMin then chMin else lo
      let b := if hi > chMax then chMax else hi
      let a' := lcApply op data a
      let b' := lcApply op data b
      (if a' < chMin ∨ b' > chMax then [(a', b')] else []) ++ lcScan chMin chMax rest

/-- the ranges `addLowercaseRange(chMin, chMax)` appends -/
def lowercaseRangeAdds (tbl : List (Nat × Nat × Nat × Int)) (chMin chMax : Nat) : List (Nat × Nat) :=
  lcScan chMin chMax (tbl.drop (lcSearch tbl chMin tbl.length 0 tbl.length))

/-- `addLowercase`: single characters are replaced by `unicode.ToLower` (oracle `toLower`), proper ranges
get the table's lowercase images appended; then `canonicalize` -/
def Flat.addLowercase (cat : Nat → Nat → Bool) (toLower : Nat → Nat) (tbl : List (Nat × Nat × Nat × Int))
    (hasSub : Bool) (f : Flat) : Flat :=
  if f.anything then f
  else
    let rs1 := f.ranges.map (fun r => if r.1 = r.2 then (toLower r.1, toLower r.1) else r)
    let adds := (f.ranges.filter (fun r => r.1 ≠ r.2)).flatMap (fun r => lowercaseRangeAdds tbl r.1 r.2)
    Flat.canonicalize cat hasSub { f with ranges := rs1 ++ adds }

/-! ## The parser's way of building a class (`scanCharSet`, without IgnoreCase) -/

/-- what `scanCharSet` adds for one syntactic item -/
inductive Item where
  /-- `addRange(lo, hi)` / `addChar` -/
  | range (lo hi : Nat)
  /-- `addRanges(rs)`: ECMAScript / RE2 shorthand tables, positive POSIX names -/
  | ranges (rs : List (Nat × Nat))
  /-- `addNegativeRanges(rs)`: `[:^name:]` -/
  | negRanges (rs : List (Nat × Nat))
  /-- `addCategories(cs…)`: `\d \w \s \p{..}` and their negations -/
  | cats (cs : List (Nat × Bool))
  deriving Repr, DecidableEq

/-- set-algebra meaning of one item -/
def Item.mem (cat : Nat → Nat → Bool) : Item → Nat → Bool
  | .range lo hi, ch => inRange (lo, hi) ch
  | .ranges rs, ch => inRanges rs ch
  | .negRanges rs, ch => !inRanges rs ch
  | .cats cs, ch => inCats cat cs ch

def Flat.addItem (cat : Nat → Nat → Bool) (f : Flat) : Item → Flat
  | .range lo hi => f.addRange cat false lo hi
  | .ranges rs => f.addRanges cat false rs
  | .negRanges rs => f.addNegativeRanges cat false rs
  | .cats cs => f.addCategories cs

/-- the head `CharSet` while `scanCharSet` reads `[` (`^`)? items…: `building` is set -/
def buildItems (cat : Nat → Nat → Bool) (neg : Bool) (items : List Item) : Flat :=
  items.foldl (Flat.addItem cat) { neg := neg, building := true }

/-- `Copy()`: carries neither the `building` mark nor the bitmap -/
def Flat.copy (f : Flat) : Flat := { f with building := false, ascii := none }

/-- `Copy()` is deep -/
def Class.copy : Class → Class
  | .leaf f => .leaf f.copy
  | .minus f s => .minus f.copy (Class.copy s)

/-- the end of `scanCharSet` (without IgnoreCase): `cc.building = false; cc.canonicalize()`;
`hasSub` says whether a subtraction was attached -/
def Flat.finish (cat : Nat → Nat → Bool) (hasSub : Bool) (f : Flat) : Flat :=
  Flat.canonicalize cat hasSub { f with building := false }

/-- the head `CharSet` `scanCharSet` returns for `[` (`^`)? items… (`-[sub]`)? `]` -/
def build (cat : Nat → Nat → Bool) (neg : Bool) (items : List Item) (hasSub : Bool) : Flat :=
  (buildItems cat neg items).finish cat hasSub

/-- a class expression as written: `[` (`^`)? items… (`-` subtracted class)? `]` -/
inductive Ast where
  | leaf (neg : Bool) (items : List Item)
  | minus (neg : Bool) (items : List Item) (sub : Ast)
  deriving Repr

/-- set algebra over the parts of a written class -/
def Ast.mem (cat : Nat → Nat → Bool) : Ast → Nat → Bool
  | .leaf neg items, ch => items.any (fun it => it.mem cat ch) != neg
  | .minus neg items sub, ch => (items.any (fun it => it.mem cat ch) != neg) && !(Ast.mem cat sub ch)

/-- what `scanCharSet` (recursively, without IgnoreCase) returns for a written class -/
def Ast.parse (cat : Nat → Nat → Bool) : Ast → Class
  | .leaf neg items => .leaf (build cat neg items false)
  | .minus neg items sub => .minus (build cat neg items true) (Ast.parse cat sub)

def Ast.items : Ast → List Item
  | .leaf _ items => items
  | .minus _ items sub => items ++ Ast.items sub

/-! ## Singleton reduction (`reduceSet`) -/

/-- `IsSingleton` -/
def Class.isSingleton : Class → Bool
  | .leaf f => !f.neg && f.cats.isEmpty && (match f.ranges with | [r] => r.1 == r.2 | _ => false)
  | .minus _ _ => false

/-- `IsSingletonInverse` -/
def Class.isSingletonInverse : Class → Bool
  | .leaf f => f.neg && f.cats.isEmpty && (match f.ranges with | [r] => r.1 == r.2 | _ => false)
  | .minus _ _ => false

/-- `SingletonChar` (`c.ranges[0].First`); `none` mirrors the panic on an empty range list -/
def Class.singletonChar (c : Class) : Option Nat := c.flat.ranges.head?.map (·.1)

end RegexVerif.Class
