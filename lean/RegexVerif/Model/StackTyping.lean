/-
A static typing of compiled programs for the GROUPING stack (`runstack`) of the interpreter
(Model/VM.lean): to every instruction boundary a stack type — the height of the grouping stack when the
instruction is entered forward and the kind of every slot:

  `pos`    a text position in `[0, len]` (pushed by `Setmark`, by the loop instructions on re-entry),
  `mark`   a text position or −1 (`Nullmark`, `Nullcount`'s mark; `pos ≤ mark`),
  `count`  a loop counter,
  `tdepth` a saved depth of the backtracking stack (`Setjump`),
  `cdepth` a saved depth of the crawl stack (`Setjump`).

`flow` is the transfer function of one instruction: from the type at its forward entry to the types at
every code position one of its cases (forward, `|Back`, `|Back2`) continues at by `advance` or `goTo`
(cases that leave by `backtrack()` have no successor: the frame they resume carries its own expectation).
It is `none` when a case would pop a slot that is not there or of the wrong kind (`Getmark` needs a `pos`,
`Branchmark` a `mark`, `Branchcount` a `count` over a `mark`, `Forejump`/`Backjump` a `cdepth` over a
`tdepth`, `Capturemark` a `pos`).

`infer` propagates types from `[]` at code position 0 to a fixpoint (joins: `pos ⊔ mark = mark`, heights must
agree); `check` verifies the result independently of how it was found: position 0 has type `[]`, and for every
typed boundary every successor is a typed boundary whose type is a supertype of what `flow` computes.
`typed p` = the inferred assignment passes `check`; `typeReport` names the opcode of the first instruction at
which it does not.

Status: this file is the static half.  Leg W evaluates `typed` on every compiled program (failure key
`W:untyped:<opcode>`).  The dynamic half — "wf and typed ⇒ no fault of any kind in any run" — is proved in
Lemmas/StackTypingSound.lean, StackTypingCases.lean, StackTypingStep.lean (Props/C10 `typed_no_discipline_fault`), and
every program the writer emits has a typing in the sense of this file's `flow` (Lemmas/StackTypingEmit.lean, Props/C10
`emit_has_typing`).
-/
import RegexVerif.Model.VM

namespace RegexVerif.StackTyping
open RegexVerif.Code RegexVerif.VM RegexVerif.Generated.Opcodes

inductive Kind where
  | pos | mark | count | tdepth | cdepth
  deriving DecidableEq, Repr, Inhabited

abbrev STy := List Kind

/-- `pos ≤ mark`, otherwise equality -/
def Kind.sub (a b : Kind) : Bool := a == b || (a == .pos && b == .mark)

def Kind.join (a b : Kind) : Option Kind :=
  if a == b then some a
  else if (a == .pos && b == .mark) || (a == .mark && b == .pos) then some .mark
  else none

/-- pointwise `sub`, equal heights -/
def subTy : STy → STy → Bool
  | [], [] => true
  | a :: s, b :: t => a.sub b && subTy s t
  | _, _ => false

def joinTy : STy → STy → Option STy
  | [], [] => some []
  | a :: s, b :: t =>
    match a.join b, joinTy s t with
    | some k, some r => some (k :: r)
    | _, _ => none
  | _, _ => none

def isMark (k : Kind) : Bool := k == .pos || k == .mark

/-- the jump operand of the instruction at `pc` as a code position -/
def target (p : Prog) (pc : Nat) : Option Nat :=
  match p.codes[pc + 1]? with
  | some (.ofNat t) => some t
  | _ => none

/-- transfer function: the instruction `o` at `pc` entered forward with stack type `σ`; the code positions its
    cases continue at, with the stack type there.  `none`: some case pops a slot that is not there or has the
    wrong kind (or the opcode has no case). -/
def flow (p : Prog) (pc : Nat) (o : Op) (σ : STy) : Option (List (Nat × STy)) :=
  let next := pc + o.size
  match o with
  | .stop | .nothing => some []
  | .goto => (target p pc).map fun t => [(t, σ)]
  | .lazybranch => (target p pc).map fun t => [(next, σ), (t, σ)]
  | .setmark => some [(next, .pos :: σ)]
  | .nullmark => some [(next, .mark :: σ)]
  | .setcount => some [(next, .count :: .pos :: σ)]
  | .nullcount => some [(next, .count :: .mark :: σ)]
  | .setjump => some [(next, .cdepth :: .tdepth :: σ)]
  | .getmark =>
    match σ with
    | .pos :: r => some [(next, r)]
    | _ => none
  | .capturemark =>
    match σ with
    | .pos :: r => some [(next, r)]
    | _ => none
  | .branchmark | .lazybranchmark =>
    match σ with
    | k :: r => if isMark k then (target p pc).map fun t => [(next, r), (t, .pos :: r)] else none
    | _ => none
  | .branchcount | .lazybranchcount =>
    match σ with
    | .count :: k :: r => if isMark k then (target p pc).map fun t => [(next, r), (t, .count :: .pos :: r)] else none
    | _ => none
  | .backjump =>
    match σ with
    | .cdepth :: .tdepth :: _ => some []
    | _ => none
  | .forejump =>
    match σ with
    | .cdepth :: .tdepth :: r => some [(next, r)]
    | _ => none
  | .prune => none
  | _ => some [(next, σ)]

/-- a type assignment: code position ↦ stack type at forward entry (`none` = not reached) -/
abbrev Assign := Array (Option STy)

def Assign.get (a : Assign) (pc : Nat) : Option STy := (a[pc]?).getD none

/-- the opcode at `pc` -/
def opAt (p : Prog) (pc : Nat) : Option Op :=
  match fetch p pc with
  | .ok w => Op.ofNat? w.op
  | .error _ => none

/-- merge `τ` into position `q`; `none` on a height/kind clash or a position outside the array;
    the flag says whether the assignment changed -/
def merge (a : Assign) (q : Nat) (τ : STy) : Option (Assign × Bool) :=
  if q < a.size then
    match a.get q with
    | none => some (a.set! q (some τ), true)
    | some τ' =>
      match joinTy τ' τ with
      | none => none
      | some j => if j == τ' then some (a, false) else some (a.set! q (some j), true)
  else none

/-- one pass over the boundaries in code order; `Except` carries the position of a failing instruction -/
def pass (p : Prog) : List Nat → Assign → Bool → Except Nat (Assign × Bool)
  | [], a, ch => .ok (a, ch)
  | pc :: rest, a, ch =>
    match a.get pc with
    | none => pass p rest a ch
    | some σ =>
      match opAt p pc with
      | none => .error pc
      | some o =>
        match flow p pc o σ with
        | none => .error pc
        | some succs =>
          let r := succs.foldl (fun (acc : Option (Assign × Bool)) s =>
            match acc with
            | none => none
            | some (a', c') => (merge a' s.1 s.2).map fun m => (m.1, c' || m.2)) (some (a, ch))
          match r with
          | none => .error pc
          | some (a', ch') => pass p rest a' ch'

/-- passes until nothing changes -/
def infer (p : Prog) (bs : List Nat) : Nat → Assign → Except Nat Assign
  | 0, a => .ok a
  | fuel + 1, a =>
    match pass p bs a false with
    | .error pc => .error pc
    | .ok (a', true) => infer p bs fuel a'
    | .ok (a', false) => .ok a'

/-- the instruction at the typed boundary `pc` is consistent with the assignment -/
def checkAt (p : Prog) (bs : List Nat) (a : Assign) (pc : Nat) : Bool :=
  match a.get pc with
  | none => true
  | some σ =>
    match opAt p pc with
    | none => false
    | some o =>
      match flow p pc o σ with
      | none => false
      | some succs => succs.all fun s =>
          bs.contains s.1 &&
          (match a.get s.1 with
           | some τ' => subTy s.2 τ'
           | none => false)

/-- the assignment is a typing of the program: `[]` at 0, closed and consistent under `flow` -/
def check (p : Prog) (bs : List Nat) (a : Assign) : Bool :=
  a.get 0 == some [] && bs.all (checkAt p bs a)

/-- the inferred assignment (empty when inference fails) -/
def assignOf (p : Prog) : Assign :=
  match p.boundaries with
  | none => #[]
  | some bs =>
    let a0 : Assign := (Array.replicate p.codes.size none).set! 0 (some [])
    match infer p bs (4 * p.codes.size + 4) a0 with
    | .ok a => a
    | .error _ => #[]

/-- **`typed`**: the program has a grouping-stack typing -/
def typed (p : Prog) : Bool :=
  match p.boundaries with
  | none => false
  | some bs => check p bs (assignOf p)

/-- 0 when `typed`, else 1 + the opcode number of the first instruction at which inference or the check fails
    (100 when there is none to name) -/
def typeReport (p : Prog) : Nat :=
  if typed p then 0
  else
    match p.boundaries with
    | none => 100
    | some bs =>
      let a0 : Assign := (Array.replicate p.codes.size none).set! 0 (some [])
      let opNum (pc : Nat) : Nat :=
        match fetch p pc with
        | .ok w => 1 + w.op
        | .error _ => 100
      match infer p bs (4 * p.codes.size + 4) a0 with
      | .error pc => opNum pc
      | .ok a =>
        match bs.find? (fun pc => !checkAt p bs a pc) with
        | some pc => opNum pc
        | none => 100

/-- the deepest grouping stack the typing allows -/
def maxHeight (p : Prog) : Nat :=
  (assignOf p).foldl (fun m t => match t with | some σ => max m σ.length | none => m) 0

end RegexVerif.StackTyping
