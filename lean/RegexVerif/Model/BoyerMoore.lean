/-
Model of `syntax.BmPrefix` (/repo/syntax/prefix.go): `newBmPrefix` (the "positive" good-suffix table and
the "negative" bad-character tables), `Scan`, `IsMatch` and `matchPattern`.

How the Go code is mirrored.  `newBmPrefix` and `Scan` are each ONE piece of code for both directions,
parameterised by `bump = ±1`, `last`, `beforefirst`, `startmatch`, `endmatch`, `defadv`.  With
`rightToLeft = false` these are `1`, `len-1`, `-1`, `len-1`, `0`, `len`: the functions `positiveLtr`,
`negLoop`, `scanLtr`, `inner` below are that instance line by line, on `Nat` (every index of the
left-to-right instance is non-negative except `beforefirst = -1`/`scan = -1`, which are represented by
counters shifted by one: `e1 = examine + 1`, `s1 = scan + 1`).  With `rightToLeft = true` every expression
of the Go code is the left-to-right one under the reflection `i ↦ len-1-i` of pattern indices,
`p ↦ n-1-p` of text positions and `v ↦ -v` of table values; the model DEFINES the right-to-left instance
by that reflection (`build`, `scan`, `positive`, `negValue`), and leg Bm compares the physical tables and
the scan results with the real ones in both directions, so the reflection itself is tied to the code.

The negative tables are a sparse map `(rune, value)` built by the same loop ("first write wins", from the
tail of the pattern towards its head); the dense `negativeASCII` (128 entries, 256 once a rune in
128..255 made it share storage with page 0) and `negativeUnicode` (256 pages of 256 entries, allocated on
demand) are functions of that map (`negAscii`, `negPages`) — what the leg compares with the Go arrays — and
`Scan`'s three-way lookup (`< 128`, `≤ 0xffff` with an allocated page, otherwise the default) is
`lookup`.

`unicode.ToLower` is the oracle argument `lower`.  Out-of-range text accesses (Go would panic) make the
model answer `none`; they are unreachable when `beglimit ≤ index ≤ endlimit ≤ len(text)`.
-/
namespace RegexVerif.BoyerMoore

/-! ### `newBmPrefix`, left-to-right instance -/

/-- the inner `for` of PART I: from `(match, scan)` walk towards the head while the characters agree;
    `s1 = scan + 1` (`scan == beforefirst` is `s1 = 0`).  Returns the final `(match, scan + 1)`. -/
def extend (pat : List Nat) : Nat → Nat → Nat × Nat
  | mt, 0 => (mt, 0)
  | mt, s + 1 => if pat[mt]? != pat[s]? then (mt, s + 1) else extend pat (mt - 1) s

/-- `Outerloop` of PART I: for `examine = e1 - 1` down to `0`, when `pattern[examine] == ch` (the tail
    character) find the length of the match and note `match - scan` in `positive[match]` if it is still 0.
    (The Go code finds the next such `examine` with an inner search loop; visiting every index and testing
    it is the same iteration.) -/
def posLoop (pat : List Nat) (last ch : Nat) : Nat → List Nat → List Nat
  | 0, pos => pos
  | e + 1, pos =>
    if pat[e]? == some ch then
      let r := extend pat last (e + 1)
      posLoop pat last ch e (if pos[r.1]? == some 0 then pos.set r.1 (r.1 + 1 - r.2) else pos)
    else posLoop pat last ch e pos

/-- the `_positive` table of the left-to-right instance: `positive[last] = bump`, the outer loop, then
    "scan for the chars for which there are no shifts that yield a different candidate": every entry
    still 0 becomes `bump` -/
def positiveLtr (pat : List Nat) : List Nat :=
  let last := pat.length - 1
  match pat[last]? with
  | none => []
  | some ch =>
    (posLoop pat last ch last ((List.replicate pat.length 0).set last 1)).map fun v => if v == 0 then 1 else v

/-- PART II: `for examine = last; examine != beforefirst; examine -= bump`: the first time a rune is seen
    (from the tail), its value is `last - examine` -/
def negLoop (pat : List Nat) (last : Nat) : Nat → List (Nat × Nat) → List (Nat × Nat)
  | 0, tb => tb
  | e + 1, tb =>
    match pat[e]? with
    | some ch => negLoop pat last e (if (tb.lookup ch).isNone then (ch, last - e) :: tb else tb)
    | none => negLoop pat last e tb

/-- the tables of the left-to-right instance -/
structure Core where
  pattern : List Nat
  positive : List Nat
  neg : List (Nat × Nat)

def buildLtr (pat : List Nat) : Core :=
  { pattern := pat, positive := positiveLtr pat, neg := negLoop pat (pat.length - 1) pat.length [] }

/-- a compiled `BmPrefix`: for `rtl` the core holds the tables of the REVERSED pattern -/
structure Tables where
  rtl : Bool
  ci : Bool
  core : Core

/-- `newBmPrefix` after the lower-casing loop: `none` is the `return nil` for a rune above U+FFFF ("this
    algo doesn't support unicode chars >0xffff"); an empty pattern (Go: index out of range) is `none` too -/
def build (pat : List Nat) (ci rtl : Bool) : Option Tables :=
  if pat.isEmpty || pat.any (fun c => decide (0xffff < c)) then none
  else some { rtl := rtl, ci := ci, core := buildLtr (if rtl then pat.reverse else pat) }

/-- `newBmPrefix(pattern, caseInsensitive, rightToLeft)` -/
def newBmPrefix (lower : Nat → Nat) (pat : List Nat) (ci rtl : Bool) : Option Tables :=
  build (if ci then pat.map lower else pat) ci rtl

/-! ### the physical fields, as the Go struct holds them -/

/-- `b.pattern` -/
def Tables.pattern (t : Tables) : List Nat := if t.rtl then t.core.pattern.reverse else t.core.pattern

/-- `b.positive` -/
def Tables.positive (t : Tables) : List Int :=
  if t.rtl then t.core.positive.reverse.map (fun (v : Nat) => -(v : Int)) else t.core.positive.map (fun (v : Nat) => (v : Int))

/-- the entry for rune `c` in whichever dense table holds it: `last - examine` of its first sighting, else
    `last - beforefirst` -/
def Tables.negValue (t : Tables) (c : Nat) : Int :=
  let v : Nat := match t.core.neg.lookup c with
    | some v => v
    | none => t.core.pattern.length
  if t.rtl then -(v : Int) else (v : Int)

/-- page `i` of `negativeUnicode` is allocated: the pattern has a rune in 128..0xffff with that high byte -/
def Core.hasPage (c : Core) (i : Nat) : Bool := c.pattern.any fun ch => decide (128 ≤ ch) && ch / 256 == i

/-- `len(b.negativeUnicode) > 0` -/
def Core.hasUnicode (c : Core) : Bool := c.pattern.any fun ch => decide (128 ≤ ch)

/-- `b.negativeASCII`: 128 entries; once page 0 exists it IS page 0 (256 entries) -/
def Tables.negAscii (t : Tables) : List Int :=
  (List.range (if t.core.hasPage 0 then 256 else 128)).map t.negValue

/-- `b.negativeUnicode`: the allocated pages `(i, entries)`; `[]` is `nil` -/
def Tables.negPages (t : Tables) : List (Nat × List Int) :=
  ((List.range 256).filter t.core.hasPage).map fun i => (i, (List.range 256).map fun j => t.negValue (i * 256 + j))

/-- `b.lowASCII`, `b.highASCII` (written by the constructor, read by nobody) -/
def Tables.lowHigh (t : Tables) : Nat × Nat :=
  t.core.pattern.foldl (fun lh ch => if ch < 128 then (min lh.1 ch, max lh.2 ch) else lh) (127, 0)

/-! ### `Scan`, left-to-right instance -/

/-- the table lookup both mismatch branches of `Scan` perform on the text character: `some v` when a table
    is consulted, `none` when the code takes `defadv` (first branch) or adds `positive` only (second).
    `old = true` is the lookup before /repo 649b08f (`chTest < 0xffff`, defect D43). -/
def Core.lookup (c : Core) (old : Bool) (ch : Nat) : Option Nat :=
  let tab : Nat := match c.neg.lookup ch with
    | some v => v
    | none => c.pattern.length
  if ch < 128 then some tab
  else if (if old then decide (ch < 0xffff) else decide (ch ≤ 0xffff)) && c.hasUnicode then
    (if c.hasPage (ch / 256) then some tab else none)
  else none

/-- the text character `Scan`/`matchPattern` compare: `text[i]`, through `unicode.ToLower` when
    `caseInsensitive` -/
def chAt (lower : Nat → Nat) (ci : Bool) (text : List Nat) (i : Nat) : Option Nat :=
  (text[i]?).map fun c => if ci then lower c else c

/-- result of the inner `for` of `Scan` -/
inductive Inner where
  | found (test2 : Nat)
  | mismatch (mt : Nat) (ch : Nat)
  | panic
deriving Repr, DecidableEq

/-- the inner `for` of `Scan`: `match` runs from `startmatch` to `endmatch = 0`, `test2` with it -/
def inner (pat : List Nat) (T : Nat → Option Nat) : Nat → Nat → Inner
  | 0, t2 => .found t2
  | mt + 1, t2 =>
    match T (t2 - 1) with
    | none => .panic
    | some ch => if some ch != pat[mt]? then .mismatch mt ch else inner pat T mt (t2 - 1)

/-- the outer `for` of `Scan` from `test`; `fuel` bounds the iterations (`endlimit - test + 1` suffice:
    every advance is positive).  `some start` is the returned index, `none` is `-1`. -/
def scanLoop (c : Core) (old : Bool) (T : Nat → Option Nat) (beglimit endlimit : Nat) : Nat → Nat → Option Nat
  | 0, _ => none
  | fuel + 1, test =>
    let last := c.pattern.length - 1
    if decide (endlimit ≤ test) || decide (test < beglimit) then none
    else
      match T test with
      | none => none
      | some chTest =>
        if some chTest != c.pattern[last]? then
          let advance := match c.lookup old chTest with
            | some v => v
            | none => c.pattern.length
          scanLoop c old T beglimit endlimit fuel (test + advance)
        else
          match inner c.pattern T last test with
          | .found t2 => some t2
          | .panic => none
          | .mismatch mt ch =>
            let adv0 := match c.positive[mt]? with
              | some v => v
              | none => 0
            let advance := match c.lookup old ch with
              | some v => max adv0 (mt + v - last)      -- `test2 = (match - startmatch) + negative`
              | none => adv0
            scanLoop c old T beglimit endlimit fuel (test + advance)

/-- `Scan` with `rightToLeft = false` -/
def scanLtr (c : Core) (old : Bool) (T : Nat → Option Nat) (index beglimit endlimit : Nat) : Option Nat :=
  scanLoop c old T beglimit endlimit (endlimit + 1) (index + c.pattern.length - 1)

/-- `(*BmPrefix).Scan(text, index, beglimit, endlimit)`; `none` is `-1`.  Right-to-left is the
    left-to-right scan of the reversed text for the reversed pattern, positions reflected (`p ↦ n - p` on
    boundaries): the returned index is the END of the occurrence. -/
def scanWith (old : Bool) (lower : Nat → Nat) (t : Tables) (text : List Nat) (index beglimit endlimit : Nat) : Option Nat :=
  let n := text.length
  if t.rtl then
    if n < index || n < endlimit then none
    else (scanLtr t.core old (chAt lower t.ci text.reverse) (n - index) (n - endlimit) (n - beglimit)).map fun s => n - s
  else scanLtr t.core old (chAt lower t.ci text) index beglimit endlimit

def scan (lower : Nat → Nat) (t : Tables) (text : List Nat) (index beglimit endlimit : Nat) : Option Nat :=
  scanWith false lower t text index beglimit endlimit

/-! ### `IsMatch`, `matchPattern` -/

/-- the comparison loop of `matchPattern` from pattern index `i` on -/
def matchFrom (lower : Nat → Nat) (ci : Bool) (text : List Nat) (index : Nat) : List Nat → Nat → Bool
  | [], _ => true
  | c :: rest, i => chAt lower ci text (index + i) == some c && matchFrom lower ci text index rest (i + 1)

/-- `(*BmPrefix).matchPattern(text, index)` -/
def matchPattern (lower : Nat → Nat) (t : Tables) (text : List Nat) (index : Nat) : Bool :=
  if text.length < index + t.pattern.length then false
  else matchFrom lower t.ci text index t.pattern 0

/-- `(*BmPrefix).IsMatch(text, index, beglimit, endlimit)` -/
def isMatch (lower : Nat → Nat) (t : Tables) (text : List Nat) (index beglimit endlimit : Nat) : Bool :=
  if !t.rtl then
    if index < beglimit || endlimit < index + t.pattern.length then false
    else matchPattern lower t text index
  else
    if endlimit < index || index < beglimit + t.pattern.length then false
    else matchPattern lower t text (index - t.pattern.length)

end RegexVerif.BoyerMoore
