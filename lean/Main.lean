import RegexVerif.Sexp
import RegexVerif.Driver.C01
import RegexVerif.Driver.C02
import RegexVerif.Driver.C03
import RegexVerif.Driver.C04
import RegexVerif.Driver.C05
import RegexVerif.Driver.C06
import RegexVerif.Driver.C07
import RegexVerif.Driver.C08
import RegexVerif.Driver.C09
import RegexVerif.Driver.C10
import RegexVerif.Driver.C11
import RegexVerif.Driver.C12
import RegexVerif.Driver.C13
import RegexVerif.Driver.C14
import RegexVerif.Driver.C15
import RegexVerif.Driver.C16
import RegexVerif.Driver.C17
import RegexVerif.Driver.C18
import RegexVerif.Driver.C19
import RegexVerif.Driver.C20

open RegexVerif RegexVerif.Driver

/-- one protocol line in, one answer line out; the head symbol selects the property's handler -/
def answer (line : String) : String :=
  match Sexp.parse line with
  | none => "(bad-line)"
  | some e =>
    match e.head? with
    | some "c01" => handleC01 e.args
    | some "c02" => handleC02 e.args
    | some "c03" => handleC03 e.args
    | some "c04" => handleC04 e.args
    | some "c05" => handleC05 e.args
    | some "c06" => handleC06 e.args
    | some "c07" => handleC07 e.args
    | some "c08" => handleC08 e.args
    | some "c09" => handleC09 e.args
    | some "c10" => handleC10 e.args
    | some "c11" => handleC11 e.args
    | some "c12" => handleC12 e.args
    | some "c13" => handleC13 e.args
    | some "c14" => handleC14 e.args
    | some "c15" => handleC15 e.args
    | some "c16" => handleC16 e.args
    | some "c17" => handleC17 e.args
    | some "c18" => handleC18 e.args
    | some "c19" => handleC19 e.args
    | some "c20" => handleC20 e.args
    | _ => "(bad-op)"

partial def loop (h : IO.FS.Stream) (out : IO.FS.Stream) : IO Unit := do
  let line ← h.getLine
  if line.isEmpty then return ()
  out.putStrLn (answer line)
  out.flush  -- the harness reads answers line by line (per-line time limit)
  loop h out

def main : IO Unit := do
  let out ← IO.getStdout
  loop (← IO.getStdin) out
  out.flush
