import RegexVerif.Sexp
import RegexVerif.Driver.C19

open RegexVerif RegexVerif.Driver

/-- one protocol line in, one answer line out -/
def answer (line : String) : String :=
  match Sexp.parse line with
  | none => "(bad-line)"
  | some e =>
    match e.head? with
    | some "c19" => handleC19 e.args
    | _ => "(bad-op)"

partial def loop (h : IO.FS.Stream) (out : IO.FS.Stream) : IO Unit := do
  let line ← h.getLine
  if line.isEmpty then return ()
  out.putStrLn (answer line)
  loop h out

def main : IO Unit := do
  let out ← IO.getStdout
  loop (← IO.getStdin) out
  out.flush
