import RegexVerif.Sexp
import RegexVerif.Model.Escape
