#!/usr/bin/env python3
"""Regenerates /verif/MANIFEST.json from the table below (keeps it schema-valid)."""
import json, os, sys
V = os.path.dirname(os.path.dirname(os.path.abspath(__file__)))

CLAIMED = {}
for f in sorted(os.listdir(os.path.join(V, "manifest.d"))):
    if f.endswith(".json"):
        CLAIMED[f[:-5]] = json.load(open(os.path.join(V, "manifest.d", f)))

NOT_YET = {}

def main():
    props = [json.loads(l) for l in open(os.path.join(V, "properties.jsonl"))]
    checks, na = [], []
    for p in props:
        pid = p["id"]
        if pid in CLAIMED:
            c = CLAIMED[pid]
            checks.append(dict(
                property_id=pid,
                quick_cmd="./check %s --tier quick" % pid,
                thorough_cmd="./check %s --tier thorough" % pid,
                evidence_file="/verif/evidence/%s.json" % pid,
                replay_cmd_template="./check %s --replay {path}" % pid,
                engine="lean4-proof+correspondence",
                level_claimed=dict(category="proof", text=c["text"], design_ref=c["ref"]),
                level_note=c["note"],
                technique=c["technique"]))
        else:
            na.append(dict(property_id=pid, reason=NOT_YET.get(pid, "check not built yet in this round (planned: Lean model + theorems + correspondence, see DESIGN.md §4); not claimed until it exists")))
    m = dict(
        version=1,
        setup_cmd="./setup.sh",
        hooks=dict(guard="verif", enable="go build -tags verif (the harness module replaces github.com/dlclark/regexp2/v2 => /repo)",
                   baseline_off_cmd="cd /repo && GOFLAGS=-mod=mod GOPROXY=off go test -json -vet=off -count=1 -timeout 25m ./...",
                   source_commits=json.load(open(os.path.join(V, "hooks.json")))["source_commits"] if os.path.exists(os.path.join(V, "hooks.json")) else [],
                   add_only=True),
        engines=[dict(name="lean4-proof+correspondence", path="/verif/check", serves_properties=[c["property_id"] for c in checks],
                      kind_free_text="Lean 4 theorems about executable models (lean/RegexVerif), models tied to /repo on every run by regenerated facts (go/ast extractor) and by differential correspondence legs (Go harness vs compiled Lean driver); model-free oracles search for failing inputs")],
        checks=checks,
        notes="See DESIGN.md. known_findings.json lists genuine defects (carried or fixed).",
        not_applicable=na)
    json.dump(m, open(os.path.join(V, "MANIFEST.json"), "w"), indent=1)
    print("MANIFEST.json: %d checks, %d not claimed" % (len(checks), len(na)))

main()
