#!/usr/bin/env python3
"""reverts.py [property-filter]

Self-validation (not a registered check): for every `fixed` entry of known_findings.json, revert
that fix: commit in a scratch worktree of /repo (never in /repo itself), run the quick check of the
property the entry names (and of the "[also Cxx]" properties), and record whether the re-introduced
defect is reported and whether a failing input is produced. Writes seeded/reverts.json.
"""
import json, os, re, subprocess, sys, time

VERIF = os.path.dirname(os.path.dirname(os.path.abspath(__file__)))
ENV = dict(os.environ, GOFLAGS="-mod=mod", GOPROXY="off")
for k in ("GOSUMDB", "GOTOOLCHAIN"):
    ENV.pop(k, None)


def sh(cmd, cwd=None, env=None, timeout=3600):
    p = subprocess.run(cmd, cwd=cwd, env=env or ENV, stdout=subprocess.PIPE, stderr=subprocess.STDOUT, text=True, timeout=timeout)
    return p.returncode, p.stdout


def main():
    flt = sys.argv[1] if len(sys.argv) > 1 else None
    kf = json.load(open(os.path.join(VERIF, "known_findings.json")))
    outp = os.path.join(VERIF, "seeded", "reverts.json")
    os.makedirs(os.path.dirname(outp), exist_ok=True)
    results = json.load(open(outp)) if os.path.exists(outp) else {}
    wt = "/tmp/trial/revert"
    os.makedirs("/tmp/trial", exist_ok=True)
    for e in kf["fixed"]:
        commit = e["commit"]
        props = [e["property"]] + re.findall(r"C\d\d", (re.search(r"\[also ([^\]]*)\]", e["what"]) or [None, ""])[1] if "[also" in e["what"] else "")
        props = list(dict.fromkeys(props))
        if flt and flt not in props:
            continue
        if commit in results and not flt:
            continue
        sh(["git", "-C", "/repo", "worktree", "remove", "--force", wt])
        rc, out = sh(["git", "-C", "/repo", "worktree", "add", "-q", wt, "HEAD"])
        rc, out = sh(["git", "revert", "--no-commit", commit], cwd=wt)
        r = dict(what=e["what"][:160], properties=props, checks={})
        if rc != 0:
            r["error"] = "revert does not apply cleanly: " + out[-300:]
        else:
            rc, out = sh(["go", "build", "-tags", "verif", "./..."], cwd=wt)
            if rc != 0:
                r["error"] = "reverted tree does not build with hooks: " + out[-300:]
            else:
                for p in props:
                    t0 = time.time()
                    rc, out = sh([os.path.join(VERIF, "check"), p, "--tier", "quick", "--seed", "1"], cwd=VERIF, env=dict(ENV, VERIF_REPO=wt), timeout=3600)
                    lines = [l for l in out.split("\n") if l.startswith("VIOLATION")]
                    r["checks"][p] = dict(exit=rc, wall_s=round(time.time() - t0, 1), violations=len(lines),
                                          with_input=any("no-failing-input-found" not in l for l in lines), first=(lines[:1] or [""])[0][:200])
                r["caught_by"] = [p for p, v in r["checks"].items() if v["exit"] == 1]
        results[commit] = r
        json.dump(results, open(outp, "w"), indent=1)
        print(commit, props, "caught by", r.get("caught_by"), r.get("error", ""), flush=True)
    sh(["git", "-C", "/repo", "worktree", "remove", "--force", wt])


main()
