#!/bin/bash
# tryseed.sh <seeded-name> <property> [tier] [seed] — run one check against one kept seeded change, in a scratch worktree of /repo
set -u
name=$1; prop=$2; tier=${3:-quick}; seed=${4:-1}
wt=/tmp/trial/ts-$name-$$
mkdir -p /tmp/trial
git -C /repo worktree add -q "$wt" HEAD || exit 2
git -C "$wt" apply --whitespace=nowarn /verif/seeded/$name/patch.diff || { echo "patch does not apply"; git -C /repo worktree remove --force "$wt"; exit 2; }
VERIF_REPO=$wt /verif/check $prop --tier $tier --seed $seed 2>&1 | grep -E '^(VIOLATION|OK|# |KNOWN)' | cut -c1-400 | head -8
git -C /repo worktree remove --force "$wt"
