import sys
pid, hint = sys.argv[1], (sys.argv[2] if len(sys.argv)>2 else "")
prop=open('/tmp/seedout/%s/property.txt'%pid).read()
print(f"""You are given a Go repository: dlclark/regexp2 v2 (a backtracking regex engine ported from .NET), as your OWN scratch git worktree at /tmp/seed/{pid} (work only there; do not touch /repo or /verif or any other directory; no network; use `export GOFLAGS=-mod=mod GOPROXY=off` for go commands and do NOT set GOSUMDB or GOTOOLCHAIN; the suite is `go test -vet=off -count=1 ./...`, ~10 s).

Here is a semantic property the library is supposed to satisfy:

---
{prop}---

Your task: write ONE small, realistic change to the library's NON-test Go source (the kind of slip a maintainer could make in a refactor or optimisation: an off-by-one, a dropped or weakened side condition, a wrong index/unit, a missed reset, a reordered pair of statements, two cooperating sites that each look fine alone …) that BREAKS this property while the library still compiles and the repository's whole existing test suite still passes. The breakage must need something SPECIFIC to manifest — an unusual input shape, a particular multi-step sequence of calls, a particular interleaving, a particular option combination, a rarely taken code path — not something ordinary use would expose at once. {hint} Do not touch files named verif_*.go or anything behind the `verif` build tag, and do not edit tests. Read the code first and choose a site that existing tests do not pin.

Deliver, in /tmp/seedout/{pid}/ :
 1. `seed_patch.diff` — `git diff` of your change (relative to HEAD of the worktree; source files only, must apply with `git apply`).
 2. `seed_demo_test.go` — a Go test file in `package regexp2` (it will be copied to the repository root) with a single `func TestSeedDemo(t *testing.T)` that PASSES on the unchanged code and FAILS with your change, demonstrating the property violation through the public API only (no internal hooks), deterministic, < 10 s.
 3. `seed_meta.json` — {{"property": "{pid[:3]}", "files": [...], "summary": "what the change does", "manifests_when": "exactly what is needed for the breakage to show", "demo": "what the demonstration does", "suite_passes": true}}.
Before finishing, VERIFY yourself: (a) unchanged worktree + demo test → passes; (b) with the change → demo fails; (c) with the change, without the demo file, `go test -vet=off -count=1 ./...` passes completely; (d) `go build -tags verif ./...` still builds. Leave the worktree with your change applied and the demo file removed from it. Your final message: a 5-line summary (site, what it breaks, what it needs to manifest, verification results).""")
