#!/usr/bin/env python3
"""trial.py <seed-dir> <name> <property> [more properties…] [--thorough]

Confirms a seeded change and runs the checks against it, in a scratch worktree of /repo (never in
/repo itself):
  1. fresh worktree of /repo HEAD under /tmp/trial/<name>; apply <seed-dir>/seed_patch.diff;
  2. the repository's own suite must still pass with the change;
  3. the demonstration (<seed-dir>/seed_demo_test.go, TestSeedDemo) must FAIL with the change and
     PASS without it;
  4. VERIF_REPO=<worktree> ./check <property> for each listed property (quick; thorough with
     --thorough or when quick stays quiet), recording exit codes and VIOLATION lines;
  5. writes /verif/seeded/<name>/{patch.diff,seed_demo_test.go,meta.json}; removes the worktree.
"""
import json, os, shutil, subprocess, sys, time

VERIF = os.path.dirname(os.path.dirname(os.path.abspath(__file__)))
ENV = dict(os.environ, GOFLAGS="-mod=mod", GOPROXY="off")
for k in ("GOSUMDB", "GOTOOLCHAIN"):
    ENV.pop(k, None)


def sh(cmd, cwd=None, env=None, timeout=3600):
    p = subprocess.run(cmd, cwd=cwd, env=env or ENV, stdout=subprocess.PIPE, stderr=subprocess.STDOUT, text=True, timeout=timeout)
    return p.returncode, p.stdout


def main():
    args = [a for a in sys.argv[1:] if not a.startswith("--")]
    thorough = "--thorough" in sys.argv
    seed, name, props = args[0], args[1], args[2:]
    wt = "/tmp/trial/" + name
    os.makedirs("/tmp/trial", exist_ok=True)
    sh(["git", "-C", "/repo", "worktree", "remove", "--force", wt])
    rc, out = sh(["git", "-C", "/repo", "worktree", "add", "-q", wt, "HEAD"])
    if rc != 0:
        print("cannot create worktree:", out); sys.exit(2)
    meta = {}
    if os.path.exists(os.path.join(seed, "seed_meta.json")):
        try:
            meta = json.load(open(os.path.join(seed, "seed_meta.json")))
        except Exception as e:
            meta = {"meta_error": str(e)}
    res = dict(name=name, properties=props, seed_meta=meta, repo_head=sh(["git", "-C", "/repo", "rev-parse", "--short", "HEAD"])[1].strip(), ran_at=time.strftime("%Y-%m-%d %H:%M:%S"))
    try:
        patch = os.path.join(seed, "seed_patch.diff")
        demo = os.path.join(seed, "seed_demo_test.go")
        # demonstration on the unchanged tree
        shutil.copy(demo, os.path.join(wt, "seed_demo_test.go"))
        rc0, out0 = sh(["go", "test", "-vet=off", "-count=1", "-run", "TestSeedDemo", "."], cwd=wt)
        res["demo_without_change"] = "pass" if rc0 == 0 else "FAIL"
        rc, out = sh(["git", "apply", "--whitespace=nowarn", patch], cwd=wt)
        if rc != 0:
            rc, out = sh(["git", "apply", "--3way", "--whitespace=nowarn", patch], cwd=wt)
        if rc != 0:
            res["error"] = "patch does not apply: " + out[-500:]
            print(json.dumps(res, indent=1)); return
        rc1, out1 = sh(["go", "test", "-vet=off", "-count=1", "-run", "TestSeedDemo", "."], cwd=wt)
        res["demo_with_change"] = "pass" if rc1 == 0 else "FAIL"
        res["demo_output_with_change"] = out1[-1200:]
        os.remove(os.path.join(wt, "seed_demo_test.go"))
        rc2, out2 = sh(["go", "test", "-vet=off", "-count=1", "./..."], cwd=wt)
        res["suite_with_change"] = "pass" if rc2 == 0 else "FAIL"
        if rc2 != 0:
            res["suite_output"] = out2[-1500:]
        rc3, out3 = sh(["go", "build", "-tags", "verif", "./..."], cwd=wt)
        res["builds_with_hooks"] = rc3 == 0
        res["checks"] = {}
        for pi, p in enumerate(props):
            # the thorough tier is tried for the seed's own property only (when quick stays quiet)
            for tier in (["thorough"] if thorough else (["quick", "thorough"] if pi == 0 else ["quick"])):
                t0 = time.time()
                rc, out = sh([os.path.join(VERIF, "check"), p, "--tier", tier, "--seed", "1"], cwd=VERIF, env=dict(ENV, VERIF_REPO=wt), timeout=7200)
                lines = [l for l in out.split("\n") if l.startswith("VIOLATION") or l.startswith("# ") or l.startswith("OK ")]
                res["checks"].setdefault(p, {})[tier] = dict(exit=rc, wall_s=round(time.time() - t0, 1), lines=lines[:6])
                if rc != 0:
                    break
        res["caught_by"] = [p for p in props if any(v["exit"] != 0 for v in res["checks"][p].values())]
        with_input = []
        for p in res["caught_by"]:
            for v in res["checks"][p].values():
                if any(l.startswith("VIOLATION") and "no-failing-input-found" not in l for l in v["lines"]):
                    with_input.append(p)
        res["failing_input_found_by"] = sorted(set(with_input))
        valid = res["demo_without_change"] == "pass" and res["demo_with_change"] == "FAIL" and res["suite_with_change"] == "pass"
        res["seed_valid"] = valid
        d = os.path.join(VERIF, "seeded", name)
        os.makedirs(d, exist_ok=True)
        shutil.copy(patch, os.path.join(d, "patch.diff"))
        shutil.copy(demo, os.path.join(d, "seed_demo_test.go"))
        json.dump(res, open(os.path.join(d, "meta.json"), "w"), indent=1)
        print(json.dumps({k: v for k, v in res.items() if k not in ("seed_meta", "demo_output_with_change")}, indent=1))
    finally:
        sh(["git", "-C", "/repo", "worktree", "remove", "--force", wt])


main()
