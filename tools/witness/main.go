package main

import (
	"fmt"
	"math"
	"regexp"
	"strings"
	"time"

	regexp2 "github.com/dlclark/regexp2/v2"
	"github.com/dlclark/regexp2/v2/compat"
)

func try(name string, f func() string) {
	defer func() {
		if r := recover(); r != nil {
			fmt.Printf("%-4s PANIC %v\n", name, r)
		}
	}()
	fmt.Printf("%-4s %s\n", name, f())
}

func ms(m *regexp2.Match, err error) string {
	if err != nil {
		return "err:" + err.Error()
	}
	if m == nil {
		return "nil"
	}
	return fmt.Sprintf("(%d,%d)", m.RuneIndex, m.RuneLength)
}

func main() {
	try("D1", func() string {
		re := regexp2.MustCompile(`(?:ab*){2}`)
		a, _ := re.MatchString("abab")
		b, _ := re.MatchRunes([]rune("abab"))
		return fmt.Sprint(a, b, " want true true")
	})
	try("D2", func() string {
		re := regexp2.MustCompile(`\G{2}abc`)
		a, _ := re.MatchString("xxabc")
		b, _ := re.MatchRunes([]rune("xxabc"))
		return fmt.Sprint(a, b, " want false false")
	})
	try("D3", func() string {
		re := regexp2.MustCompile(`(?i)[a-z-[b]]`)
		a, _ := re.MatchString("B")
		b, _ := re.MatchString("b")
		return fmt.Sprint(a, b, " want false false")
	})
	try("D4", func() string {
		re := regexp2.MustCompile(`[\W\d]`)
		re2 := regexp2.MustCompile(`[\D\p{N}]`)
		a, _ := re.MatchString("5")
		b, _ := re2.MatchString("5")
		return fmt.Sprint(a, b, " want true true")
	})
	try("D5", func() string {
		s, err := regexp2.Unescape(regexp2.Escape("͸x"))
		return fmt.Sprintf("%q %v want \\u0378x", s, err)
	})
	try("D6", func() string {
		re := regexp2.MustCompile(`b`, regexp2.RightToLeft)
		s, _ := re.Replace("abc", "[$&]", -1, -1)
		return s + " want a[b]c"
	})
	try("D7", func() string {
		re := regexp2.MustCompile(`b`, regexp2.RightToLeft)
		s, err := re.Split("abcbd", -1)
		return fmt.Sprintf("%q %v want [a c d] in some documented order", s, err)
	})
	try("D8", func() string {
		re := regexp2.MustCompile(`([ab]*)[bc]*c\1`)
		return ms(re.FindStringMatch("abbca")) + " want (0,5)"
	})
	try("D9", func() string {
		re := compat.MustCompile(`a.`)
		return fmt.Sprintf("%q want %q", re.FindString("xa\xffy"), regexp.MustCompile(`a.`).FindString("xa\xffy"))
	})
	try("D10", func() string {
		re := regexp2.MustCompile(`(?:xa??b??c??d??e??f??g??h??i??j??k??)*y`, regexp2.OptionMaxBacktrackingStackSize(257))
		_, err := re.MatchString(strings.Repeat("x", 60))
		return fmt.Sprint(err, " want stack-limit error, no panic")
	})
	try("D11", func() string {
		re := regexp2.MustCompile(`a*`, regexp2.RightToLeft)
		r, _ := re.FindAllRunesIndex([]rune("baa"), -1)
		return fmt.Sprint(r, " want [[1 3] [0 0]]")
	})
	try("D12", func() string {
		re := regexp2.MustCompile(`b`)
		s, _ := re.Replace("abc", "X", -1, 0)
		return fmt.Sprintf("%q want \"abc\"", s)
	})
	try("D13", func() string {
		re := regexp2.MustCompile(`(?:xx|.a)`)
		re2 := regexp2.MustCompile(`(?:bc|.bc)`)
		return ms(re.FindStringMatch("c\nxx1 c")) + " " + ms(re2.FindStringMatch("bcx")) + " want (2,2) (0,2)"
	})
	try("D14", func() string {
		re := regexp2.MustCompile(`a`)
		r, _ := re.FindAllRunesIndex([]rune("b"), 2)
		return fmt.Sprint(r == nil, " want true")
	})
	try("D15", func() string {
		re := compat.MustCompile(`\B`, regexp2.RE2)
		return fmt.Sprint(re.FindAllStringIndex("\xffé1", -1), " want ", regexp.MustCompile(`\B`).FindAllStringIndex("\xffé1", -1))
	})
	try("D16", func() string {
		re := regexp2.MustCompile(`a+b`)
		re.MatchTimeout = time.Duration(math.MaxInt64 - 1)
		m, err := re.FindStringMatch("xxaab")
		return ms(m, err) + " want (2,3)"
	})
}
