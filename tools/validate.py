#!/usr/bin/env python3
"""validate.py — MANIFEST.json and evidence/*.json against the schemas in /root/.vp (run with python3-vt: jsonschema)."""
import glob, json, sys
import jsonschema
bad = 0
def chk(path, schema):
    global bad
    try:
        jsonschema.validate(json.load(open(path)), json.load(open(schema)))
    except Exception as e:
        bad += 1
        print("INVALID", path, str(e).splitlines()[0][:200])
chk("MANIFEST.json", "/root/.vp/MANIFEST.schema.json")
for f in sorted(glob.glob("evidence/*.json")):
    chk(f, "/root/.vp/EVIDENCE.schema.json")
print("validated MANIFEST.json and", len(glob.glob("evidence/*.json")), "evidence files:", "all valid" if not bad else f"{bad} invalid")
sys.exit(1 if bad else 0)
