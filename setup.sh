#!/bin/sh
# Build the verification framework from files on disk only (offline): Go harness against /repo
# (build tag verif), regenerated Lean facts, the whole Lean library (all theorems) and the driver.
set -e
cd "$(dirname "$0")"
mkdir -p .build evidence replays
export GOFLAGS=-mod=mod GOPROXY=off
unset GOSUMDB GOTOOLCHAIN || true
(cd harness && go build -tags verif -o ../.build/rv ./cmd/rv)
./.build/rv extract --repo "${VERIF_REPO:-/repo}" --out lean/RegexVerif/Generated
(cd lean && lake build RegexVerif rvdriver)
echo "setup ok"
