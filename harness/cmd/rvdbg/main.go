// rvdbg — debugging aid: rvdbg <pattern> <opts: imsnxRr-> <text> [start]
// prints tree, code, find result, naive scan, per-position attempts and candidate finder results.
package main

import (
	"fmt"
	"os"
	"strconv"

	regexp2 "github.com/dlclark/regexp2/v2"
	"github.com/dlclark/regexp2/v2/syntax"
)

func main() {
	pat, optS, text := os.Args[1], os.Args[2], []rune(os.Args[3])
	var o regexp2.RegexOptions
	for _, c := range optS {
		switch c {
		case 'i':
			o |= regexp2.IgnoreCase
		case 'm':
			o |= regexp2.Multiline
		case 's':
			o |= regexp2.Singleline
		case 'n':
			o |= regexp2.ExplicitCapture
		case 'x':
			o |= regexp2.IgnorePatternWhitespace
		case 'R':
			o |= regexp2.RE2
		case 'r':
			o |= regexp2.RightToLeft
		case 'e':
			o |= regexp2.ECMAScript
		}
	}
	start := 0
	if o&regexp2.RightToLeft != 0 {
		start = len(text)
	}
	if len(os.Args) > 4 {
		start, _ = strconv.Atoi(os.Args[4])
	}
	if os.Getenv("NOREWRITE") != "" {
		syntax.VerifDisableRewrites = true
	}
	t, err := syntax.Parse(pat, syntax.ParseOptions{RegexOptions: syntax.RegexOptions(o)})
	if err != nil {
		fmt.Println("parse error:", err)
		return
	}
	fmt.Println(t.Dump())
	c, _ := syntax.Write(t)
	fmt.Println(c.Dump())
	if fo := c.FindOptimizations; fo != nil {
		fmt.Printf("FO: mode=%v minlen=%d maxlen=%d leadAnchor=%v trailAnchor=%v prefix=%q prefixes=%q lit=%+v\n", fo.FindMode, fo.MinRequiredLength, fo.MaxPossibleLength, fo.LeadingAnchor, fo.TrailingAnchor, fo.LeadingPrefix, fo.LeadingPrefixes, fo.FixedDistanceLiteral)
		for _, fs := range fo.FixedDistanceSets {
			fmt.Printf("  fixedset dist=%d set=%s chars=%q neg=%v range=%v\n", fs.Distance, fs.Set.String(), string(fs.Chars), fs.Negated, fs.Range)
		}
		if fo.LiteralAfterLoop != nil {
			fmt.Printf("  literalAfterLoop=%+v\n", *fo.LiteralAfterLoop)
		}
	}
	re := regexp2.MustCompile(pat, o)
	show := func(m *regexp2.Match, err error) string {
		if err != nil {
			return "err " + err.Error()
		}
		if m == nil {
			return "nil"
		}
		s := fmt.Sprintf("(%d,%d)", m.RuneIndex, m.RuneLength)
		for _, g := range m.Groups()[1:] {
			s += fmt.Sprintf(" %s:", g.Name)
			for _, c := range g.Captures {
				s += fmt.Sprintf("(%d,%d)", c.RuneIndex, c.RuneLength)
			}
		}
		return s
	}
	fmt.Println("find :", show(re.FindRunesMatchStartingAt(text, start)))
	fmt.Println("naive:", show(regexp2.VerifNaiveScan(re, text, start, start, -1, false)))
	for p := 0; p <= len(text); p++ {
		ok, np := regexp2.VerifFindFirstChar(re, text, p, start)
		fmt.Printf("pos %2d attempt %-30s ffc=(%v,%d)\n", p, show(regexp2.VerifAttemptAt(re, text, p, start, false)), ok, np)
	}
}
