package main

import (
	"fmt"

	"github.com/dlclark/regexp2/v2/syntax"
)

func main() {
	for _, p := range []string{`(?<n>x)(?((?P=n)a)b)`, `(?<n>x)(?((?P=n)a)`, `(?<n>x)(?((?P=n)a|b|c|d)`} {
		t, err := syntax.VerifParseRaw(p, syntax.ParseOptions{RegexOptions: syntax.RE2})
		fmt.Println(p, err)
		if err == nil {
			fmt.Println(t.Dump())
		}
		t, err = syntax.Parse(p, syntax.ParseOptions{RegexOptions: syntax.RE2})
		if err == nil {
			fmt.Println(t.Dump())
		}
	}
}
