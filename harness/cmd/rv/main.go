// rv — verification harness for dlclark/regexp2 (see /verif/DESIGN.md).
//
//	rv run <property> --tier quick|thorough --seed N --driver <rvdriver> --replays <dir> --out <json>
//	rv replay <file.json> --driver <rvdriver>
//	rv extract --repo /repo --out <dir of Generated/*.lean>
package main

import (
	"encoding/json"
	"flag"
	"fmt"
	"os"
	"time"

	"rvharness/internal/core"
	"rvharness/internal/extract"
	_ "rvharness/internal/legs"
)

func main() {
	if len(os.Args) < 2 {
		usage()
	}
	switch os.Args[1] {
	case "run":
		run(os.Args[2:])
	case "replay":
		replay(os.Args[2:])
	case "extract":
		fs := flag.NewFlagSet("extract", flag.ExitOnError)
		repo := fs.String("repo", "/repo", "repository root")
		out := fs.String("out", "", "output directory for Generated/*.lean")
		_ = fs.Parse(os.Args[2:])
		if err := extract.Run(*repo, *out); err != nil {
			fmt.Fprintln(os.Stderr, "extract:", err)
			os.Exit(2)
		}
	case "list":
		for _, k := range core.SortedKeys(map[string]int{}) {
			fmt.Println(k)
		}
		for k := range core.Registry {
			fmt.Println(k)
		}
	default:
		usage()
	}
}

func usage() {
	fmt.Fprintln(os.Stderr, "usage: rv run|replay|extract ...")
	os.Exit(2)
}

func run(args []string) {
	if len(args) < 1 {
		usage()
	}
	prop := args[0]
	fs := flag.NewFlagSet("run", flag.ExitOnError)
	tier := fs.String("tier", "quick", "quick|thorough")
	seed := fs.Int64("seed", 1, "PRNG seed")
	driver := fs.String("driver", "", "path of the Lean driver executable")
	replays := fs.String("replays", "", "directory for replay files")
	out := fs.String("out", "", "result JSON")
	_ = fs.Parse(args[1:])
	f, ok := core.Registry[prop]
	if !ok {
		fmt.Fprintln(os.Stderr, "unknown property", prop)
		os.Exit(2)
	}
	c := &core.Ctx{Property: prop, Tier: *tier, Seed: *seed, Driver: *driver, ReplayDir: *replays, Start: time.Now()}
	c.Result = &core.PropResult{Property: prop, Tier: *tier, Seed: *seed}
	f(c)
	c.Result.WallS = time.Since(c.Start).Seconds()
	b, _ := json.MarshalIndent(c.Result, "", " ")
	if *out != "" {
		if err := os.WriteFile(*out, b, 0o644); err != nil {
			fmt.Fprintln(os.Stderr, err)
			os.Exit(2)
		}
	} else {
		os.Stdout.Write(b)
	}
}

func replay(args []string) {
	if len(args) < 1 {
		usage()
	}
	file := args[0]
	fs := flag.NewFlagSet("replay", flag.ExitOnError)
	driver := fs.String("driver", "", "path of the Lean driver executable")
	_ = fs.Parse(args[1:])
	b, err := os.ReadFile(file)
	if err != nil {
		fmt.Fprintln(os.Stderr, err)
		os.Exit(2)
	}
	var doc struct {
		Property string          `json:"property"`
		Leg      string          `json:"leg"`
		Seed     int64           `json:"seed"`
		Tier     string          `json:"tier"`
		Case     json.RawMessage `json:"case"`
		Theorem  string          `json:"theorem"`
		Kind     string          `json:"kind"`
	}
	if err := json.Unmarshal(b, &doc); err != nil {
		fmt.Fprintln(os.Stderr, err)
		os.Exit(2)
	}
	if doc.Case == nil || string(doc.Case) == "null" {
		fmt.Printf("replay: %s names no input (kind=%s theorem/leg=%s%s); re-run the check to see whether it still breaks\n", file, doc.Kind, doc.Theorem, doc.Leg)
		return
	}
	f, ok := core.Registry[doc.Property]
	if !ok {
		fmt.Fprintln(os.Stderr, "unknown property", doc.Property)
		os.Exit(2)
	}
	c := &core.Ctx{Property: doc.Property, Tier: doc.Tier, Seed: doc.Seed, Driver: *driver, Start: time.Now(), ReplayCase: doc.Case, ReplayLeg: doc.Leg}
	c.Result = &core.PropResult{Property: doc.Property, Tier: doc.Tier, Seed: doc.Seed}
	f(c)
	for _, l := range c.Result.Legs {
		if len(l.Failures) > 0 {
			os.Exit(1)
		}
	}
}
