// rvrace — the concurrent workload of property C11 as a stand-alone program, so that it can be built
// with `go build -race` (which needs cgo, unlike the rest of the harness) and run as a subprocess.
//
//	rvrace '<ConcConfig as JSON>' ...
//
// prints one ConcReport (JSON) per configuration on stdout; the race detector writes its
// "WARNING: DATA RACE" reports to stderr.
package main

import (
	"encoding/json"
	"fmt"
	"os"

	"rvharness/internal/callmix"

	regexp2 "github.com/dlclark/regexp2/v2"
)

func main() {
	regexp2.SetTimeoutCheckPeriod(callmix.ClockPeriod)
	for _, a := range os.Args[1:] {
		var cfg callmix.ConcConfig
		if err := json.Unmarshal([]byte(a), &cfg); err != nil {
			fmt.Fprintln(os.Stderr, "rvrace: bad configuration:", err)
			os.Exit(2)
		}
		rep := callmix.RunConcurrent(cfg)
		b, _ := json.Marshal(rep)
		fmt.Println(string(b))
	}
}
