// Package core is the shared frame of the verification harness: run context, the pipe to the
// Lean driver, result records, replay files.
package core

import (
	"bufio"
	"bytes"
	"encoding/json"
	"fmt"
	"math/rand"
	"os"
	"os/exec"
	"path/filepath"
	"runtime/debug"
	"sort"
	"strings"
	"time"
)

// Ctx is the context of one `rv run` invocation.
type Ctx struct {
	Property  string
	Tier      string // quick | thorough
	Seed      int64
	Driver    string // path of the compiled Lean driver
	ReplayDir string
	Rng       *rand.Rand
	Start     time.Time
	Result    *PropResult
	// ReplayCase, when non-nil, is the "case" object of a replay file to re-run.
	ReplayCase json.RawMessage
	ReplayLeg  string
}

func (c *Ctx) Thorough() bool { return c.Tier == "thorough" }

// N picks a case count by tier.
func (c *Ctx) N(quick, thorough int) int {
	if c.Thorough() {
		return thorough
	}
	return quick
}

// SubRng derives an independent deterministic stream for a named leg.
func (c *Ctx) SubRng(name string) *rand.Rand {
	h := int64(1469598103934665603)
	for _, b := range []byte(name) {
		h ^= int64(b)
		h *= 1099511628211
	}
	return rand.New(rand.NewSource(c.Seed*1000003 ^ h))
}

// Failure is one disagreement or property violation found by a leg.
type Failure struct {
	// Kind: "impl-violation" (the property itself fails on the real code, Case is the failing input),
	// "correspondence-break" (model and code disagree; no property-level failing input yet).
	Kind     string          `json:"kind"`
	Leg      string          `json:"leg"`
	Key      string          `json:"key"` // stable classification used to match known findings
	Summary  string          `json:"summary"`
	Case     json.RawMessage `json:"case"`
	Expected string          `json:"expected"`
	Got      string          `json:"got"`
	Replay   string          `json:"replay,omitempty"`
}

// LegResult describes what one leg covered.
type LegResult struct {
	Name        string         `json:"name"`
	Kind        string         `json:"kind"` // correspondence | oracle | facts
	Rule        string         `json:"rule"`
	Evaluations int            `json:"evaluations"`
	Distinct    int            `json:"distinct_nontrivial"`
	Samples     []any          `json:"samples"`
	Hist        map[string]int `json:"hist,omitempty"`
	Failures    []Failure      `json:"failures,omitempty"`
	WallS       float64        `json:"wall_s"`
	Exhaustive  bool           `json:"exhaustive,omitempty"`
	distinct    map[string]struct{}
	start       time.Time
}

type PropResult struct {
	Property string       `json:"property"`
	Tier     string       `json:"tier"`
	Seed     int64        `json:"seed"`
	Legs     []*LegResult `json:"legs"`
	WallS    float64      `json:"wall_s"`
	Notes    []string     `json:"notes,omitempty"`
}

func (c *Ctx) NewLeg(name, kind, rule string) *LegResult {
	l := &LegResult{Name: name, Kind: kind, Rule: rule, Hist: map[string]int{}, distinct: map[string]struct{}{}, start: time.Now()}
	c.Result.Legs = append(c.Result.Legs, l)
	return l
}

// Count records one evaluated case; key identifies the case for the distinct count, nontrivial
// says whether it is non-trivial by the leg's stated rule.
func (l *LegResult) Count(key string, nontrivial bool) {
	l.Evaluations++
	if nontrivial {
		if _, ok := l.distinct[key]; !ok {
			l.distinct[key] = struct{}{}
		}
	}
}

func (l *LegResult) H(bucket string) { l.Hist[bucket]++ }

func (l *LegResult) Sample(v any) {
	if len(l.Samples) < 5 {
		l.Samples = append(l.Samples, v)
	}
}

func (l *LegResult) Done() {
	l.Distinct = len(l.distinct)
	l.WallS = time.Since(l.start).Seconds()
}

const maxFailuresPerLeg = 8

// Fail records a failure (first few per leg and key are kept) and writes its replay file.
func (c *Ctx) Fail(l *LegResult, f Failure) {
	f.Leg = l.Name
	n := 0
	for _, g := range l.Failures {
		if g.Key == f.Key {
			n++
		}
	}
	if n >= 2 || len(l.Failures) >= maxFailuresPerLeg {
		l.Hist["failures-not-recorded"]++
		return
	}
	if c.ReplayDir != "" && c.ReplayCase == nil {
		_ = os.MkdirAll(c.ReplayDir, 0o755)
		name := fmt.Sprintf("%s-%s-%d-%d.json", c.Property, sanitize(l.Name), c.Seed, len(l.Failures))
		p := filepath.Join(c.ReplayDir, name)
		doc := map[string]any{
			"property": c.Property, "kind": f.Kind, "leg": l.Name, "key": f.Key, "seed": c.Seed, "tier": c.Tier,
			"summary": f.Summary, "case": f.Case, "expected": f.Expected, "got": f.Got,
		}
		b, _ := json.MarshalIndent(doc, "", " ")
		if err := os.WriteFile(p, b, 0o644); err == nil {
			f.Replay = p
		}
	}
	l.Failures = append(l.Failures, f)
}

func sanitize(s string) string {
	var b strings.Builder
	for _, r := range s {
		if r >= 'a' && r <= 'z' || r >= 'A' && r <= 'Z' || r >= '0' && r <= '9' || r == '-' || r == '_' {
			b.WriteRune(r)
		} else {
			b.WriteByte('_')
		}
	}
	return b.String()
}

// RawJSON marshals v for use as Failure.Case.
func RawJSON(v any) json.RawMessage {
	b, err := json.Marshal(v)
	if err != nil {
		b, _ = json.Marshal(fmt.Sprint(v))
	}
	return b
}

// RunDriver pipes the lines to the Lean driver and returns one answer line per input line.
// DriverTimeout is the answer recorded for a protocol line the Lean driver did not answer within the
// per-line time limit (the driver is killed and restarted on the remaining lines). The specification's
// matcher is exponential on some nested loops where the engine is not; legs that evaluate it skip such a
// case and count it, every other leg sees an answer that matches nothing.
const DriverTimeout = "(driver-timeout)"

var driverLineLimit = 30 * time.Second

func (c *Ctx) RunDriver(lines []string) ([]string, error) {
	if len(lines) == 0 {
		return nil, nil
	}
	if c.Driver == "" {
		return nil, fmt.Errorf("no Lean driver configured")
	}
	for _, l := range lines {
		if strings.ContainsAny(l, "\n\r") {
			return nil, fmt.Errorf("protocol line contains a newline")
		}
	}
	res := make([]string, 0, len(lines))
	timeouts := 0
	for len(res) < len(lines) {
		got, timedOut, err := c.runDriverOnce(lines[len(res):])
		if err != nil {
			return nil, err
		}
		res = append(res, got...)
		if timedOut {
			res = append(res, DriverTimeout)
			if timeouts++; timeouts > 20 {
				return nil, fmt.Errorf("lean driver: more than 20 protocol lines of one batch ran into the %v limit", driverLineLimit)
			}
		} else if len(res) < len(lines) {
			return nil, fmt.Errorf("lean driver answered %d lines for %d cases", len(res), len(lines))
		}
	}
	return res, nil
}

// runDriverOnce feeds lines to one driver process and collects its answers line by line; when an answer
// does not arrive within driverLineLimit the process is killed and the answers so far are returned.
func (c *Ctx) runDriverOnce(lines []string) (answers []string, timedOut bool, err error) {
	cmd := exec.Command(c.Driver)
	stdin, err := cmd.StdinPipe()
	if err != nil {
		return nil, false, err
	}
	stdout, err := cmd.StdoutPipe()
	if err != nil {
		return nil, false, err
	}
	var errb bytes.Buffer
	cmd.Stderr = &errb
	if err := cmd.Start(); err != nil {
		return nil, false, fmt.Errorf("lean driver: %v", err)
	}
	go func() {
		w := bufio.NewWriterSize(stdin, 1<<20)
		for _, l := range lines {
			w.WriteString(l)
			w.WriteByte('\n')
		}
		w.Flush()
		stdin.Close()
	}()
	ch := make(chan string, 1024)
	go func() {
		sc := bufio.NewScanner(stdout)
		sc.Buffer(make([]byte, 1<<20), 1<<28)
		for sc.Scan() {
			ch <- sc.Text()
		}
		close(ch)
	}()
	timer := time.NewTimer(driverLineLimit)
	defer timer.Stop()
	for len(answers) < len(lines) {
		if !timer.Stop() {
			select {
			case <-timer.C:
			default:
			}
		}
		timer.Reset(driverLineLimit)
		select {
		case a, ok := <-ch:
			if !ok {
				werr := cmd.Wait()
				return nil, false, fmt.Errorf("lean driver stopped after %d of %d answers: %v: %s", len(answers), len(lines), werr, errb.String())
			}
			answers = append(answers, a)
		case <-timer.C:
			cmd.Process.Kill()
			go func() {
				for range ch {
				}
			}()
			cmd.Wait()
			return answers, true, nil
		}
	}
	cmd.Wait()
	return answers, false, nil
}

// Sexp helpers ----------------------------------------------------------------------------

func SInts[T ~int | ~int32 | ~int64](xs []T) string {
	var b strings.Builder
	b.WriteByte('(')
	for i, x := range xs {
		if i > 0 {
			b.WriteByte(' ')
		}
		fmt.Fprintf(&b, "%d", int64(x))
	}
	b.WriteByte(')')
	return b.String()
}

func SRunes(s string) string { return SInts([]rune(s)) }

func SBool(b bool) string {
	if b {
		return "1"
	}
	return "0"
}

func S(tag string, parts ...string) string {
	if len(parts) == 0 {
		return "(" + tag + ")"
	}
	return "(" + tag + " " + strings.Join(parts, " ") + ")"
}

// SortedKeys returns the keys of a histogram in order.
func SortedKeys(m map[string]int) []string {
	ks := make([]string, 0, len(m))
	for k := range m {
		ks = append(ks, k)
	}
	sort.Strings(ks)
	return ks
}

// Property registry --------------------------------------------------------------------------

type PropFunc func(c *Ctx)

var Registry = map[string]PropFunc{}

func Register(id string, f PropFunc) { Registry[id] = f }

// Generic leg runner ---------------------------------------------------------------------------

// Outcome is what checking one case produced.
type Outcome struct {
	Key        string   // identifies the case for the distinct count
	Nontrivial bool     // non-trivial by the leg's stated rule
	Buckets    []string // histogram buckets hit
	Fail       *Failure // nil when the case agreed / the property held
}

// Leg is a batch-checked family of cases of type C (JSON-serialisable so that a failing case can be
// replayed exactly).
type Leg[C any] struct {
	Name, Kind, Rule string
	Corpus           []C                               // minimised past failures and fixed witnesses: run first
	N                int                               // generated cases
	Gen              func(rng *rand.Rand, i int) C     // case i from the leg's PRNG stream
	Check            func(c *Ctx, cases []C) []Outcome // one outcome per case
	Batch            int
	Exhaustive       bool
}

// RunLeg runs the leg (or only its replay case) and records coverage and failures.
func RunLeg[C any](c *Ctx, spec Leg[C]) *LegResult {
	if c.ReplayCase != nil {
		if c.ReplayLeg != spec.Name {
			return nil
		}
		var one C
		if err := json.Unmarshal(c.ReplayCase, &one); err != nil {
			fmt.Printf("replay: cannot decode case for leg %s: %v\n", spec.Name, err)
			return nil
		}
		l := c.NewLeg(spec.Name, spec.Kind, spec.Rule)
		outs := safeCheck(c, spec.Check, []C{one})
		for _, o := range outs {
			l.Count(o.Key, o.Nontrivial)
			if o.Fail != nil {
				o.Fail.Case = RawJSON(one)
				c.Fail(l, *o.Fail)
				fmt.Printf("replay: STILL FAILS leg=%s key=%s\n  summary: %s\n  expected: %s\n  got:      %s\n", spec.Name, o.Fail.Key, o.Fail.Summary, o.Fail.Expected, o.Fail.Got)
			} else {
				fmt.Printf("replay: case passes now (leg %s)\n", spec.Name)
			}
		}
		l.Done()
		return l
	}
	l := c.NewLeg(spec.Name, spec.Kind, spec.Rule)
	l.Exhaustive = spec.Exhaustive
	rng := c.SubRng(spec.Name)
	batch := spec.Batch
	if batch <= 0 {
		batch = 2000
	}
	all := append([]C{}, spec.Corpus...)
	flush := func() {
		if len(all) == 0 {
			return
		}
		outs := safeCheck(c, spec.Check, all)
		for i, o := range outs {
			l.Count(o.Key, o.Nontrivial)
			for _, b := range o.Buckets {
				l.H(b)
			}
			if i < len(all) && (l.Evaluations%97 == 1 || len(l.Samples) == 0) {
				l.Sample(all[i])
			}
			if o.Fail != nil && i < len(all) {
				o.Fail.Case = RawJSON(all[i])
				c.Fail(l, *o.Fail)
			}
		}
		all = all[:0]
	}
	for i := 0; i < spec.N; i++ {
		all = append(all, spec.Gen(rng, i))
		if len(all) >= batch {
			flush()
		}
	}
	flush()
	l.Done()
	return l
}

// DriverFailure builds the failure recorded when the Lean driver itself cannot be run.
func DriverFailure(err error) *Failure {
	return &Failure{Kind: "correspondence-break", Key: "driver-error", Summary: "the Lean driver could not evaluate the model: " + err.Error()}
}

// safeCheck runs a batch check; if the code under test panics inside it (outside any recover of the
// leg), the batch is re-run case by case to attribute the panic to a case, which is then reported as a
// violation with that case as replay (a panic of the library is never a harness crash).
func safeCheck[C any](c *Ctx, check func(c *Ctx, cases []C) []Outcome, cases []C) (outs []Outcome) {
	run := func(cs []C) (o []Outcome, p any, stack string) {
		defer func() {
			if r := recover(); r != nil {
				p, stack = r, string(debug.Stack())
			}
		}()
		return check(c, cs), nil, ""
	}
	o, p, _ := run(cases)
	if p == nil {
		return o
	}
	// bisect: halves that do not panic are checked in one piece; after a few attributed panics the rest of
	// the batch is left unchecked (the run is a failure anyway and single-case re-runs are expensive)
	outs = make([]Outcome, len(cases))
	budget := 6
	var rec func(lo, hi int)
	rec = func(lo, hi int) {
		if budget <= 0 {
			for i := lo; i < hi; i++ {
				outs[i] = Outcome{Key: fmt.Sprintf("unchecked-after-panics-%d", i), Buckets: []string{"unchecked-after-panics"}}
			}
			return
		}
		oi, pi, st := run(cases[lo:hi])
		if pi == nil {
			if len(oi) == hi-lo {
				copy(outs[lo:hi], oi)
			}
			return
		}
		if hi-lo == 1 {
			budget--
			if len(st) > 1500 {
				st = st[:1500]
			}
			outs[lo] = Outcome{Key: fmt.Sprintf("panic-case-%d", lo), Nontrivial: true, Fail: &Failure{Kind: "impl-violation", Key: "panic",
				Summary: fmt.Sprintf("the code under test panicked while this case was checked: %v", pi), Expected: "no panic", Got: fmt.Sprint(pi) + "\n" + st}}
			return
		}
		mid := (lo + hi) / 2
		rec(lo, mid)
		rec(mid, hi)
	}
	rec(0, len(cases))
	return outs
}
