package extract

import (
	"fmt"
	"go/ast"
	"go/token"
	"strconv"
	"strings"
)

// ClassQuery: facts of syntax/charclass.go used by the query-function theorems of C16 — the rune
// tables behind the constant classes (ecmaSpace, ecmaWord, ecmaDigit, re2Space, whitespaceChars), the
// two special category names, how every constant class is constructed
// (getCharSetFromOldString(table, negate) / getCharSetFromCategoryString(negateSet, negateCat, names…)),
// and which constant classes knownDistinctSets compares its first and its second argument with.
func init() {
	register("ClassQuery", func(s *Src) (string, error) {
		const rel = "syntax/charclass.go"
		tables := map[string][]int64{}
		for _, n := range []string{"ecmaSpace", "ecmaWord", "ecmaDigit", "re2Space", "whitespaceChars"} {
			v, err := s.varIntSlice(rel, n, nil)
			if err != nil {
				return "", err
			}
			tables[n] = v
		}
		strs := map[string]string{}
		for _, n := range []string{"SpaceCategoryText", "WordCategoryText"} {
			v, err := s.constString(rel, n)
			if err != nil {
				return "", err
			}
			strs[n] = v
		}
		f, err := s.file(rel)
		if err != nil {
			return "", err
		}
		boolOf := func(e ast.Expr) (bool, bool) {
			id, ok := e.(*ast.Ident)
			if !ok {
				return false, false
			}
			switch id.Name {
			case "true":
				return true, true
			case "false":
				return false, true
			}
			return false, false
		}
		leanBool := func(b bool) string {
			if b {
				return "true"
			}
			return "false"
		}
		var olds, cats []string
		for _, d := range f.Decls {
			gd, ok := d.(*ast.GenDecl)
			if !ok || gd.Tok != token.VAR {
				continue
			}
			for _, sp := range gd.Specs {
				vs := sp.(*ast.ValueSpec)
				if len(vs.Names) != 1 || len(vs.Values) != 1 {
					continue
				}
				call, ok := vs.Values[0].(*ast.CallExpr)
				if !ok {
					continue
				}
				fn, ok := call.Fun.(*ast.Ident)
				if !ok {
					continue
				}
				name := vs.Names[0].Name
				switch fn.Name {
				case "getCharSetFromOldString":
					if len(call.Args) != 2 {
						return "", fmt.Errorf("%s: getCharSetFromOldString with %d arguments", name, len(call.Args))
					}
					neg, ok := boolOf(call.Args[1])
					if !ok {
						return "", fmt.Errorf("%s: negate is not a boolean literal", name)
					}
					var text []int64
					switch a := call.Args[0].(type) {
					case *ast.Ident:
						if a.Name != "nil" {
							t, ok := tables[a.Name]
							if !ok {
								return "", fmt.Errorf("%s: unknown table %s", name, a.Name)
							}
							text = t
						}
					case *ast.CompositeLit:
						for _, el := range a.Elts {
							v, ok := evalInt(el, nil, 0)
							if !ok {
								return "", fmt.Errorf("%s: element is not a constant", name)
							}
							text = append(text, v)
						}
					default:
						return "", fmt.Errorf("%s: unexpected set text expression", name)
					}
					olds = append(olds, fmt.Sprintf("(%s, %s, %s)", strconv.Quote(name), leanNatList(text), leanBool(neg)))
				case "getCharSetFromCategoryString":
					if len(call.Args) < 3 {
						return "", fmt.Errorf("%s: getCharSetFromCategoryString with %d arguments", name, len(call.Args))
					}
					ns, ok1 := boolOf(call.Args[0])
					nc, ok2 := boolOf(call.Args[1])
					if !ok1 || !ok2 {
						return "", fmt.Errorf("%s: negation flags are not boolean literals", name)
					}
					var names []string
					for _, a := range call.Args[2:] {
						switch x := a.(type) {
						case *ast.Ident:
							v, ok := strs[x.Name]
							if !ok {
								return "", fmt.Errorf("%s: unknown category constant %s", name, x.Name)
							}
							names = append(names, strconv.Quote(v))
						case *ast.BasicLit:
							if x.Kind != token.STRING {
								return "", fmt.Errorf("%s: category is not a string", name)
							}
							v, _ := strconv.Unquote(x.Value)
							names = append(names, strconv.Quote(v))
						default:
							return "", fmt.Errorf("%s: unexpected category expression", name)
						}
					}
					cats = append(cats, fmt.Sprintf("(%s, %s, %s, [%s])", strconv.Quote(name), leanBool(ns), leanBool(nc), strings.Join(names, ", ")))
				}
			}
		}
		if len(olds) == 0 || len(cats) == 0 {
			return "", fmt.Errorf("constant classes not found")
		}
		// knownDistinctSets: `return (A || B …) && (C || D …)`, every leaf `setN.Equals(X())`
		kd, err := s.funcDecl(rel, "", "knownDistinctSets")
		if err != nil {
			return "", err
		}
		if kd.Type.Params == nil || len(kd.Type.Params.List) != 1 || len(kd.Type.Params.List[0].Names) != 2 {
			return "", fmt.Errorf("knownDistinctSets: unexpected parameter list")
		}
		p1, p2 := kd.Type.Params.List[0].Names[0].Name, kd.Type.Params.List[0].Names[1].Name
		if len(kd.Body.List) != 1 {
			return "", fmt.Errorf("knownDistinctSets: body is not a single return")
		}
		ret, ok := kd.Body.List[0].(*ast.ReturnStmt)
		if !ok || len(ret.Results) != 1 {
			return "", fmt.Errorf("knownDistinctSets: body is not a single return")
		}
		unparen := func(e ast.Expr) ast.Expr {
			for {
				p, ok := e.(*ast.ParenExpr)
				if !ok {
					return e
				}
				e = p.X
			}
		}
		var leaves func(e ast.Expr, recv string, out *[]string) error
		leaves = func(e ast.Expr, recv string, out *[]string) error {
			e = unparen(e)
			if be, ok := e.(*ast.BinaryExpr); ok && be.Op == token.LOR {
				if err := leaves(be.X, recv, out); err != nil {
					return err
				}
				return leaves(be.Y, recv, out)
			}
			call, ok := e.(*ast.CallExpr)
			if !ok || len(call.Args) != 1 {
				return fmt.Errorf("knownDistinctSets: leaf is not a call with one argument")
			}
			sel, ok := call.Fun.(*ast.SelectorExpr)
			if !ok || sel.Sel.Name != "Equals" {
				return fmt.Errorf("knownDistinctSets: leaf is not an Equals call")
			}
			if id, ok := sel.X.(*ast.Ident); !ok || id.Name != recv {
				return fmt.Errorf("knownDistinctSets: Equals receiver is not %s", recv)
			}
			inner, ok := call.Args[0].(*ast.CallExpr)
			if !ok || len(inner.Args) != 0 {
				return fmt.Errorf("knownDistinctSets: Equals argument is not a constant class")
			}
			id, ok := inner.Fun.(*ast.Ident)
			if !ok {
				return fmt.Errorf("knownDistinctSets: Equals argument is not a constant class")
			}
			*out = append(*out, strconv.Quote(id.Name))
			return nil
		}
		top, ok := unparen(ret.Results[0]).(*ast.BinaryExpr)
		if !ok || top.Op != token.LAND {
			return "", fmt.Errorf("knownDistinctSets: result is not a conjunction")
		}
		var first, second []string
		if err := leaves(top.X, p1, &first); err != nil {
			return "", err
		}
		if err := leaves(top.Y, p2, &second); err != nil {
			return "", err
		}

		var sb strings.Builder
		sb.WriteString("namespace RegexVerif.Generated\n\n")
		for _, n := range []string{"ecmaSpace", "ecmaWord", "ecmaDigit", "re2Space", "whitespaceChars"} {
			fmt.Fprintf(&sb, "/-- `%s` of syntax/charclass.go -/\ndef %s : List Nat := %s\n\n", n, n, leanNatList(tables[n]))
		}
		fmt.Fprintf(&sb, "def spaceCategoryText : String := %s\ndef wordCategoryText : String := %s\n\n", strconv.Quote(strs["SpaceCategoryText"]), strconv.Quote(strs["WordCategoryText"]))
		sb.WriteString("/-- constant classes made by `getCharSetFromOldString(setText, negate)`: (name, setText, negate) -/\n")
		fmt.Fprintf(&sb, "def oldStringClasses : List (String × List Nat × Bool) := [\n  %s\n]\n\n", strings.Join(olds, ",\n  "))
		sb.WriteString("/-- constant classes made by `getCharSetFromCategoryString(negateSet, negateCat, cats…)` -/\n")
		fmt.Fprintf(&sb, "def categoryClasses : List (String × Bool × Bool × List String) := [\n  %s\n]\n\n", strings.Join(cats, ",\n  "))
		sb.WriteString("/-- `knownDistinctSets(set1, set2)`: the constant classes `set1` / `set2` is compared with -/\n")
		fmt.Fprintf(&sb, "def knownDistinctFirst : List String := [%s]\ndef knownDistinctSecond : List String := [%s]\n\n", strings.Join(first, ", "), strings.Join(second, ", "))
		sb.WriteString("end RegexVerif.Generated\n")
		return sb.String(), nil
	})
}
