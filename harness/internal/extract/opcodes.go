package extract

import (
	"fmt"
	"go/ast"
	"go/token"
	"sort"
	"strconv"
	"strings"
)

// Opcodes: the opcode numbering, opcodeSize and opcodeBacktracks of syntax/code.go, the slot
// effect of every backtracking-stack helper of runner.go (trackPush…, trackPop…, backtrack) and,
// for every `case` of the interpreter switch in executeDefault, a fingerprint of what the case does
// to the backtracking stack along its worst path and how it leaves.  Used by the C13 theorems.

type trackFp struct {
	push, pop    int
	adv, jump    bool
	trackto, raw bool
	popAfterPush bool
}

type caseFp struct {
	op                   string
	flag                 int // 0 forward, 1 Back, 2 Back2
	maxPush, minPop      int
	maxPop, maxNet       int
	adv, jump, back, ret bool
	trackto, raw         bool
	pushOnBack           bool
	popAfterPush         bool
	paths                int
}

type fpWalker struct {
	pushSlots map[string]int // helper name -> slots pushed
	popSlots  map[string]int // helper name -> slots popped (-1: the argument)
	rawFields [2]string      // the slice and its position field (direct access = `raw`)
	out       *caseFp
	err       error
}

func (w *fpWalker) fail(format string, a ...any) {
	if w.err == nil {
		w.err = fmt.Errorf(format, a...)
	}
}

// recvCall returns the method name when e is a call r.<name>(…) on the identifier r.
func recvCall(e ast.Expr) (string, *ast.CallExpr) {
	ce, ok := e.(*ast.CallExpr)
	if !ok {
		return "", nil
	}
	se, ok := ce.Fun.(*ast.SelectorExpr)
	if !ok {
		return "", nil
	}
	if id, ok := se.X.(*ast.Ident); ok && id.Name == "r" {
		return se.Sel.Name, ce
	}
	return "", nil
}

// apply the stack effect of every call / raw access occurring inside node n (no control flow inside)
func (w *fpWalker) effects(n ast.Node, st []trackFp) []trackFp {
	if n == nil {
		return st
	}
	ast.Inspect(n, func(x ast.Node) bool {
		switch e := x.(type) {
		case *ast.FuncLit:
			w.fail("function literal inside a case body")
			return false
		case *ast.SelectorExpr:
			if id, ok := e.X.(*ast.Ident); ok && id.Name == "r" && (e.Sel.Name == w.rawFields[0] || e.Sel.Name == w.rawFields[1]) {
				for i := range st {
					st[i].raw = true
				}
			}
		case *ast.CallExpr:
			name, ce := recvCall(e)
			if ce == nil {
				return true
			}
			if k, ok := w.pushSlots[name]; ok {
				for i := range st {
					st[i].push += k
				}
			} else if k, ok := w.popSlots[name]; ok {
				if k < 0 {
					if len(ce.Args) != 1 {
						w.fail("%s without a single argument", name)
						return true
					}
					v, ok := evalInt(ce.Args[0], nil, 0)
					if !ok {
						w.fail("%s with a non-constant frame size", name)
						return true
					}
					k = int(v)
				}
				for i := range st {
					if st[i].push > 0 {
						st[i].popAfterPush = true
					}
					st[i].pop += k
				}
			} else {
				switch name {
				case "trackto":
					for i := range st {
						if st[i].push > 0 {
							st[i].popAfterPush = true
						}
						st[i].trackto = true
					}
				case "advance":
					for i := range st {
						st[i].adv = true
					}
				case "goTo":
					for i := range st {
						st[i].jump = true
					}
				case "backtrack", "ensureStorage", "growTrack":
					w.fail("case body calls %s directly", name)
				}
			}
		}
		return true
	})
	return st
}

func (w *fpWalker) exit(kind string, st []trackFp) {
	o := w.out
	for _, s := range st {
		if kind == "err" {
			continue
		}
		if o.paths == 0 || s.push > o.maxPush {
			o.maxPush = s.push
		}
		if o.paths == 0 || s.pop < o.minPop {
			o.minPop = s.pop
		}
		if o.paths == 0 || s.pop > o.maxPop {
			o.maxPop = s.pop
		}
		if o.paths == 0 || s.push-s.pop > o.maxNet {
			o.maxNet = s.push - s.pop
		}
		o.paths++
		o.trackto = o.trackto || s.trackto
		o.raw = o.raw || s.raw
		o.popAfterPush = o.popAfterPush || s.popAfterPush
		switch kind {
		case "continue":
			switch {
			case s.jump && !s.adv:
				o.jump = true
			case s.adv && !s.jump:
				o.adv = true
			default:
				w.fail("%s/%d: a path continues the interpreter loop after %v advance and %v goTo", o.op, o.flag, s.adv, s.jump)
			}
		case "back":
			o.back = true
			if s.push > 0 {
				o.pushOnBack = true
			}
			if s.adv || s.jump {
				w.fail("%s/%d: a path moves the code position and then backtracks", o.op, o.flag)
			}
		case "return":
			o.ret = true
		}
	}
}

// staticallyFalse: the condition has a conjunct `r.operator == syntax.X` and the case label being
// analysed is a different opcode (cases that share a body, e.g. Oneloop and Oneloopatomic).
func (w *fpWalker) staticallyFalse(e ast.Expr) bool {
	switch x := e.(type) {
	case *ast.ParenExpr:
		return w.staticallyFalse(x.X)
	case *ast.BinaryExpr:
		if x.Op == token.LAND {
			return w.staticallyFalse(x.X) || w.staticallyFalse(x.Y)
		}
		if x.Op == token.EQL {
			l, ok := x.X.(*ast.SelectorExpr)
			if !ok {
				return false
			}
			if id, ok := l.X.(*ast.Ident); !ok || id.Name != "r" || l.Sel.Name != "operator" {
				return false
			}
			op, flag, err := caseLabel(x.Y)
			if err != nil {
				return false
			}
			return op != w.out.op || flag != w.out.flag
		}
	}
	return false
}

func cloneFps(st []trackFp) []trackFp { return append([]trackFp(nil), st...) }

// walk the statements; returns the states that fall through the end of the list
func (w *fpWalker) walk(stmts []ast.Stmt, st []trackFp, inLoop bool, loopBreaks *[]trackFp) []trackFp {
	for _, s := range stmts {
		if len(st) == 0 {
			return st
		}
		switch x := s.(type) {
		case *ast.ExprStmt, *ast.AssignStmt, *ast.DeclStmt, *ast.IncDecStmt, *ast.EmptyStmt:
			st = w.effects(s, st)
		case *ast.BlockStmt:
			st = w.walk(x.List, st, inLoop, loopBreaks)
		case *ast.LabeledStmt:
			st = w.walk([]ast.Stmt{x.Stmt}, st, inLoop, loopBreaks)
		case *ast.IfStmt:
			if x.Init != nil {
				st = w.effects(x.Init, st)
			}
			st = w.effects(x.Cond, st)
			var thenOut []trackFp
			if !w.staticallyFalse(x.Cond) {
				thenOut = w.walk(x.Body.List, cloneFps(st), inLoop, loopBreaks)
			}
			var elseOut []trackFp
			switch e := x.Else.(type) {
			case nil:
				elseOut = cloneFps(st)
			case *ast.BlockStmt:
				elseOut = w.walk(e.List, cloneFps(st), inLoop, loopBreaks)
			case *ast.IfStmt:
				elseOut = w.walk([]ast.Stmt{e}, cloneFps(st), inLoop, loopBreaks)
			}
			st = append(thenOut, elseOut...)
		case *ast.ForStmt:
			// a loop body may not touch the backtracking stack; it runs zero or more times
			before := len(st)
			probe := w.effects(x.Body, cloneFps(st))
			for i := 0; i < before; i++ {
				if probe[i] != st[i] {
					w.fail("%s/%d: backtracking-stack operation inside a for loop", w.out.op, w.out.flag)
				}
			}
			if x.Init != nil {
				st = w.effects(x.Init, st)
			}
			if x.Cond != nil {
				st = w.effects(x.Cond, st)
			}
			var breaks []trackFp
			bodyOut := w.walk(x.Body.List, cloneFps(st), true, &breaks)
			st = append(append(st, bodyOut...), breaks...)
		case *ast.BranchStmt:
			switch x.Tok {
			case token.BREAK:
				if x.Label != nil {
					w.fail("labelled break")
				}
				if inLoop {
					*loopBreaks = append(*loopBreaks, st...)
				} else {
					w.exit("back", st)
				}
				return nil
			case token.CONTINUE:
				if inLoop || x.Label != nil {
					w.fail("continue inside a nested loop or with a label")
				}
				w.exit("continue", st)
				return nil
			case token.GOTO:
				if x.Label == nil || x.Label.Name != "BreakBackward" {
					w.fail("goto to an unexpected label")
				}
				w.exit("back", st)
				return nil
			default:
				w.fail("unexpected branch statement %s", x.Tok)
			}
		case *ast.ReturnStmt:
			kind := "return"
			if len(x.Results) == 1 {
				if id, ok := x.Results[0].(*ast.Ident); ok && id.Name == "err" {
					kind = "err" // the error of a failed goTo: the run ends, nothing more is pushed
				}
			}
			w.exit(kind, st)
			return nil
		default:
			w.fail("%s/%d: statement kind %T not understood by the fingerprint extractor", w.out.op, w.out.flag, s)
		}
	}
	return st
}

// caseLabel decodes `syntax.X`, `syntax.X | syntax.Back`, `syntax.X | syntax.Back2`.
func caseLabel(e ast.Expr) (string, int, error) {
	sel := func(e ast.Expr) (string, bool) {
		se, ok := e.(*ast.SelectorExpr)
		if !ok {
			return "", false
		}
		if id, ok := se.X.(*ast.Ident); !ok || id.Name != "syntax" {
			return "", false
		}
		return se.Sel.Name, true
	}
	if n, ok := sel(e); ok {
		return n, 0, nil
	}
	if be, ok := e.(*ast.BinaryExpr); ok && be.Op == token.OR {
		a, ok1 := sel(be.X)
		b, ok2 := sel(be.Y)
		if ok1 && ok2 {
			switch b {
			case "Back":
				return a, 1, nil
			case "Back2":
				return a, 2, nil
			}
		}
	}
	return "", 0, fmt.Errorf("case label not of the form syntax.Op [| syntax.Back|Back2]")
}

// helperSlots reads how many slots a helper pushes (count of `r.Runtrackpos--`) or pops.
func helperSlots(s *Src) (push, pop map[string]int, backtrackPops int, err error) {
	return helperSlotsOf(s, "track", "Runtrackpos")
}

// helperSlotsOf: the same for the helpers `<stack>Push…` / `<stack>Pop…` over the position field posField
// (`track`/`Runtrackpos`: the backtracking stack, plus backtrack(); `stack`/`Runstackpos`: the grouping stack).
func helperSlotsOf(s *Src, stack, posField string) (push, pop map[string]int, backtrackPops int, err error) {
	push, pop = map[string]int{}, map[string]int{}
	f, err := s.file("runner.go")
	if err != nil {
		return nil, nil, 0, err
	}
	isPos := func(e ast.Expr) bool {
		se, ok := e.(*ast.SelectorExpr)
		if !ok {
			return false
		}
		id, ok := se.X.(*ast.Ident)
		return ok && id.Name == "r" && se.Sel.Name == posField
	}
	pushPrefix, popPrefix := stack+"Push", stack+"Pop"
	for _, d := range f.Decls {
		fd, ok := d.(*ast.FuncDecl)
		if !ok || fd.Recv == nil || fd.Body == nil {
			continue
		}
		name := fd.Name.Name
		if !strings.HasPrefix(name, pushPrefix) && !strings.HasPrefix(name, popPrefix) && !(stack == "track" && name == "backtrack") {
			continue
		}
		decs, incs, addParam, writes := 0, 0, false, 0
		other := false
		ast.Inspect(fd.Body, func(n ast.Node) bool {
			switch x := n.(type) {
			case *ast.IncDecStmt:
				if isPos(x.X) {
					if x.Tok == token.DEC {
						decs++
					} else {
						incs++
					}
				}
			case *ast.AssignStmt:
				if len(x.Lhs) == 1 && isPos(x.Lhs[0]) {
					if x.Tok == token.ADD_ASSIGN {
						if id, ok := x.Rhs[0].(*ast.Ident); ok && len(fd.Type.Params.List) == 1 && id.Name == fd.Type.Params.List[0].Names[0].Name {
							addParam = true
						} else {
							other = true
						}
					} else {
						other = true
					}
				}
				if len(x.Lhs) == 1 {
					if ix, ok := x.Lhs[0].(*ast.IndexExpr); ok && isPos(ix.Index) {
						writes++
					}
				}
			}
			return true
		})
		switch {
		case other:
			return nil, nil, 0, fmt.Errorf("%s changes %s in an unexpected way", name, posField)
		case strings.HasPrefix(name, pushPrefix):
			if incs != 0 || addParam || decs == 0 || writes != decs {
				return nil, nil, 0, fmt.Errorf("%s is not a sequence of decrement-and-store pairs", name)
			}
			push[name] = decs
		case strings.HasPrefix(name, popPrefix):
			if decs != 0 || writes != 0 {
				return nil, nil, 0, fmt.Errorf("%s pushes", name)
			}
			if addParam && incs == 0 {
				pop[name] = -1
			} else if !addParam && incs > 0 {
				pop[name] = incs
			} else {
				return nil, nil, 0, fmt.Errorf("%s: pop size not understood", name)
			}
		default: // backtrack
			if decs != 0 || addParam || writes != 0 {
				return nil, nil, 0, fmt.Errorf("backtrack does more than pop")
			}
			backtrackPops = incs
		}
	}
	if len(push) == 0 || len(pop) == 0 || (stack == "track" && backtrackPops == 0) {
		return nil, nil, 0, fmt.Errorf("%s helpers not found in runner.go", stack)
	}
	return push, pop, backtrackPops, nil
}

// switchTable reads a `switch op { case A, B: return N … }` function into name -> returned literal.
func switchTable(fd *ast.FuncDecl) (map[string]string, error) {
	out := map[string]string{}
	var sw *ast.SwitchStmt
	ast.Inspect(fd.Body, func(n ast.Node) bool {
		if s, ok := n.(*ast.SwitchStmt); ok && sw == nil {
			sw = s
		}
		return true
	})
	if sw == nil {
		return nil, fmt.Errorf("%s: no switch", fd.Name.Name)
	}
	for _, c := range sw.Body.List {
		cc := c.(*ast.CaseClause)
		if cc.List == nil {
			continue
		}
		if len(cc.Body) != 1 {
			return nil, fmt.Errorf("%s: case body is not a single return", fd.Name.Name)
		}
		rs, ok := cc.Body[0].(*ast.ReturnStmt)
		if !ok || len(rs.Results) != 1 {
			return nil, fmt.Errorf("%s: case body is not a single return", fd.Name.Name)
		}
		var v string
		switch r := rs.Results[0].(type) {
		case *ast.BasicLit:
			v = r.Value
		case *ast.Ident:
			v = r.Name
		default:
			return nil, fmt.Errorf("%s: returned value is not a literal", fd.Name.Name)
		}
		for _, l := range cc.List {
			id, ok := l.(*ast.Ident)
			if !ok {
				return nil, fmt.Errorf("%s: case label is not an identifier", fd.Name.Name)
			}
			if _, dup := out[id.Name]; dup {
				return nil, fmt.Errorf("%s: duplicate label %s", fd.Name.Name, id.Name)
			}
			out[id.Name] = v
		}
	}
	return out, nil
}

// storageConstants reads the sizing constants of the storage checks: the factor in ensureStorage's loop
// condition, the factor and the floor of initMatch's first allocation, and the comparison that guards the
// check in goTo and in backtrack.
func storageConstants(s *Src) (ensureFactor, allocFactor, allocMin int64, goToOp, backOp string, err error) {
	isR := func(e ast.Expr, field string) bool {
		se, ok := e.(*ast.SelectorExpr)
		if !ok {
			return false
		}
		id, ok := se.X.(*ast.Ident)
		return ok && id.Name == "r" && se.Sel.Name == field
	}
	timesCount := func(e ast.Expr) (int64, bool) {
		be, ok := e.(*ast.BinaryExpr)
		if !ok || be.Op != token.MUL || !isR(be.X, "runtrackcount") {
			return 0, false
		}
		return evalInt(be.Y, nil, 0)
	}
	fd, err := s.funcDecl("runner.go", "Runner", "ensureStorage")
	if err != nil {
		return
	}
	found := 0
	ast.Inspect(fd.Body, func(n ast.Node) bool {
		if f, ok := n.(*ast.ForStmt); ok && f.Init == nil && f.Post == nil {
			if be, ok := f.Cond.(*ast.BinaryExpr); ok && be.Op == token.LSS && isR(be.X, "Runtrackpos") {
				if k, ok := timesCount(be.Y); ok {
					ensureFactor = k
					found++
					// the body must be exactly: if !r.growTrack() { return ErrBacktrackingStackLimit }
					okBody := false
					if len(f.Body.List) == 1 {
						if is, ok := f.Body.List[0].(*ast.IfStmt); ok && is.Else == nil && is.Init == nil {
							if ue, ok := is.Cond.(*ast.UnaryExpr); ok && ue.Op == token.NOT {
								if name, _ := recvCall(ue.X); name == "growTrack" && len(is.Body.List) == 1 {
									if rs, ok := is.Body.List[0].(*ast.ReturnStmt); ok && len(rs.Results) == 1 {
										if id, ok := rs.Results[0].(*ast.Ident); ok && id.Name == "ErrBacktrackingStackLimit" {
											okBody = true
										}
									}
								}
							}
						}
					}
					if !okBody {
						found = -100
					}
				}
			}
		}
		return true
	})
	if found != 1 {
		err = fmt.Errorf("ensureStorage: expected exactly one loop `for r.Runtrackpos < r.runtrackcount*K { if !r.growTrack() { return ErrBacktrackingStackLimit } }`")
		return
	}
	fd, err = s.funcDecl("runner.go", "Runner", "initMatch")
	if err != nil {
		return
	}
	gotF, gotM := false, false
	ast.Inspect(fd.Body, func(n ast.Node) bool {
		switch x := n.(type) {
		case *ast.AssignStmt:
			if len(x.Lhs) == 1 && len(x.Rhs) == 1 {
				if id, ok := x.Lhs[0].(*ast.Ident); ok && id.Name == "tracksize" && x.Tok == token.DEFINE {
					if k, ok := timesCount(x.Rhs[0]); ok {
						allocFactor, gotF = k, true
					}
				}
			}
		case *ast.IfStmt:
			if be, ok := x.Cond.(*ast.BinaryExpr); ok && be.Op == token.LSS {
				if id, ok := be.X.(*ast.Ident); ok && id.Name == "tracksize" && len(x.Body.List) == 1 {
					if as, ok := x.Body.List[0].(*ast.AssignStmt); ok && len(as.Rhs) == 1 {
						a, ok1 := evalInt(be.Y, nil, 0)
						b, ok2 := evalInt(as.Rhs[0], nil, 0)
						if ok1 && ok2 && a == b {
							allocMin, gotM = a, true
						}
					}
				}
			}
		}
		return true
	})
	if !gotF || !gotM {
		err = fmt.Errorf("initMatch: `tracksize := r.runtrackcount * K` / `if tracksize < M { tracksize = M }` not found")
		return
	}
	guard := func(fn string) (string, error) {
		fd, err := s.funcDecl("runner.go", "Runner", fn)
		if err != nil {
			return "", err
		}
		var ops []string
		ast.Inspect(fd.Body, func(n ast.Node) bool {
			if is, ok := n.(*ast.IfStmt); ok {
				calls := false
				ast.Inspect(is.Body, func(m ast.Node) bool {
					if ce, ok := m.(*ast.CallExpr); ok {
						if name, _ := recvCall(ce); name == "ensureStorage" {
							calls = true
						}
					}
					return true
				})
				if be, ok := is.Cond.(*ast.BinaryExpr); ok && calls {
					if id, ok := be.X.(*ast.Ident); ok && id.Name == "newpos" && isR(be.Y, "codepos") {
						ops = append(ops, be.Op.String())
					}
				}
			}
			return true
		})
		if len(ops) != 1 {
			return "", fmt.Errorf("%s: the guard `if newpos <cmp> r.codepos { … ensureStorage … }` was not found exactly once", fn)
		}
		return ops[0], nil
	}
	if goToOp, err = guard("goTo"); err != nil {
		return
	}
	backOp, err = guard("backtrack")
	return
}

func leanBool(b bool) string {
	if b {
		return "true"
	}
	return "false"
}

func init() {
	register("Opcodes", func(s *Src) (string, error) {
		consts, order, err := s.intConsts("syntax/code.go")
		if err != nil {
			return "", err
		}
		flags := map[string]bool{"Mask": true, "Rtl": true, "Back": true, "Back2": true, "Ci": true}
		for k := range flags {
			if _, ok := consts[k]; !ok {
				return "", fmt.Errorf("modifier constant %s not found in syntax/code.go", k)
			}
		}
		var ops []string
		byNum := map[int64]string{}
		for _, n := range order {
			if flags[n] {
				continue
			}
			v := consts[n]
			if v < 0 || v >= consts["Mask"] {
				return "", fmt.Errorf("constant %s = %d is not an opcode below Mask", n, v)
			}
			if o, dup := byNum[v]; dup {
				return "", fmt.Errorf("opcodes %s and %s share the number %d", o, n, v)
			}
			byNum[v] = n
			ops = append(ops, n)
		}
		sort.Slice(ops, func(i, j int) bool { return consts[ops[i]] < consts[ops[j]] })
		for i, n := range ops {
			if consts[n] != int64(i) {
				return "", fmt.Errorf("opcode numbering has a gap at %d", i)
			}
		}
		sizeFd, err := s.funcDecl("syntax/code.go", "", "opcodeSize")
		if err != nil {
			return "", err
		}
		sizes, err := switchTable(sizeFd)
		if err != nil {
			return "", err
		}
		btFd, err := s.funcDecl("syntax/code.go", "", "opcodeBacktracks")
		if err != nil {
			return "", err
		}
		bts, err := switchTable(btFd)
		if err != nil {
			return "", err
		}
		for n, v := range bts {
			if v != "true" {
				return "", fmt.Errorf("opcodeBacktracks: case %s returns %s", n, v)
			}
			if _, ok := consts[n]; !ok || flags[n] {
				return "", fmt.Errorf("opcodeBacktracks: unknown opcode %s", n)
			}
		}
		for n := range sizes {
			if _, ok := consts[n]; !ok || flags[n] {
				return "", fmt.Errorf("opcodeSize: unknown opcode %s", n)
			}
		}

		push, pop, btPops, err := helperSlots(s)
		if err != nil {
			return "", err
		}

		ensF, allocF, allocM, goToOp, backOp, err := storageConstants(s)
		if err != nil {
			return "", err
		}

		// the interpreter switch
		ex, err := s.funcDecl("runner.go", "", "executeDefault")
		if err != nil {
			return "", err
		}
		var sw *ast.SwitchStmt
		ast.Inspect(ex.Body, func(n ast.Node) bool {
			if x, ok := n.(*ast.SwitchStmt); ok && sw == nil {
				if se, ok := x.Tag.(*ast.SelectorExpr); ok && se.Sel.Name == "operator" {
					sw = x
				}
			}
			return true
		})
		if sw == nil {
			return "", fmt.Errorf("executeDefault: switch on r.operator not found")
		}
		// what follows the switch must be exactly: BreakBackward: ; if err := r.backtrack(); err != nil { return err }
		walkCases := func(push, pop map[string]int, raw [2]string) ([]caseFp, error) {
			var cases []caseFp
			seen := map[string]bool{}
			for _, c := range sw.Body.List {
				cc := c.(*ast.CaseClause)
				if cc.List == nil {
					continue // default: unknown opcode -> error return
				}
				for _, l := range cc.List {
					op, flag, err := caseLabel(l)
					if err != nil {
						return nil, err
					}
					if _, ok := consts[op]; !ok || flags[op] {
						return nil, fmt.Errorf("executeDefault: case for unknown opcode %s", op)
					}
					key := fmt.Sprintf("%s/%d", op, flag)
					if seen[key] {
						return nil, fmt.Errorf("executeDefault: duplicate case %s", key)
					}
					seen[key] = true
					fp := caseFp{op: op, flag: flag}
					w := &fpWalker{pushSlots: push, popSlots: pop, rawFields: raw, out: &fp}
					rest := w.walk(cc.Body, []trackFp{{}}, false, nil)
					w.exit("back", rest) // falling out of the switch reaches BreakBackward
					if w.err != nil {
						return nil, w.err
					}
					if fp.paths == 0 {
						return nil, fmt.Errorf("executeDefault: case %s has no path", key)
					}
					cases = append(cases, fp)
				}
			}
			sort.SliceStable(cases, func(i, j int) bool {
				if consts[cases[i].op] != consts[cases[j].op] {
					return consts[cases[i].op] < consts[cases[j].op]
				}
				return cases[i].flag < cases[j].flag
			})
			return cases, nil
		}
		cases, err := walkCases(push, pop, [2]string{"runtrack", "Runtrackpos"})
		if err != nil {
			return "", err
		}
		// the same walk for the grouping stack (stackPush/stackPush2/stackPop/stackPopN over Runstackpos)
		spush, spop, _, err := helperSlotsOf(s, "stack", "Runstackpos")
		if err != nil {
			return "", err
		}
		stackCases, err := walkCases(spush, spop, [2]string{"runstack", "Runstackpos"})
		if err != nil {
			return "", err
		}
		sc, err := stackConstants(s)
		if err != nil {
			return "", err
		}

		var b strings.Builder
		b.WriteString("namespace RegexVerif.Generated.Opcodes\n\n")
		b.WriteString("/-! opcode numbering of syntax/code.go -/\n")
		for _, n := range ops {
			fmt.Fprintf(&b, "def op%s : Nat := %d\n", n, consts[n])
		}
		fmt.Fprintf(&b, "def numOpcodes : Nat := %d\n", len(ops))
		for _, k := range []string{"Mask", "Rtl", "Back", "Back2", "Ci"} {
			fmt.Fprintf(&b, "def flag%s : Nat := %d\n", k, consts[k])
		}
		b.WriteString("\n/-- `opcodeSize` (index = opcode; 0 = the function panics for this opcode) -/\n")
		var sz []int64
		var bt []string
		for _, n := range ops {
			v := int64(0)
			if lit, ok := sizes[n]; ok {
				iv, err := strconv.ParseInt(lit, 0, 64)
				if err != nil {
					return "", fmt.Errorf("opcodeSize: %s returns %s", n, lit)
				}
				v = iv
			}
			sz = append(sz, v)
			bt = append(bt, leanBool(bts[n] == "true"))
		}
		fmt.Fprintf(&b, "def opcodeSize : List Nat := %s\n\n", leanNatList(sz))
		b.WriteString("/-- `opcodeBacktracks` (index = opcode) -/\n")
		fmt.Fprintf(&b, "def opcodeBacktracks : List Bool := [%s]\n\n", strings.Join(bt, ", "))

		b.WriteString("/-- slots pushed by each push helper of runner.go (number of `Runtrackpos--; runtrack[Runtrackpos] = …` pairs) -/\n")
		var pn []string
		for n := range push {
			pn = append(pn, n)
		}
		sort.Strings(pn)
		var ps []string
		for _, n := range pn {
			ps = append(ps, fmt.Sprintf("(%q, %d)", n, push[n]))
		}
		fmt.Fprintf(&b, "def pushHelperSlots : List (String × Nat) := [%s]\n", strings.Join(ps, ", "))
		fmt.Fprintf(&b, "/-- slots popped by `backtrack()` before it dispatches to the Back/Back2 case -/\ndef backtrackPops : Nat := %d\n\n", btPops)

		fmt.Fprintf(&b, "/-- `ensureStorage`: `for r.Runtrackpos < r.runtrackcount*%d { if !r.growTrack() { return ErrBacktrackingStackLimit } }` -/\ndef ensureFactor : Nat := %d\n", ensF, ensF)
		fmt.Fprintf(&b, "/-- `initMatch`: `tracksize := r.runtrackcount * %d; if tracksize < %d { tracksize = %d }` -/\ndef allocFactor : Nat := %d\ndef allocMin : Nat := %d\n", allocF, allocM, allocM, allocF, allocM)
		fmt.Fprintf(&b, "/-- the comparison `newpos <cmp> r.codepos` that guards ensureStorage in goTo and in backtrack -/\ndef goToGuard : String := %q\ndef backtrackGuard : String := %q\n\n", goToOp, backOp)
		b.WriteString(`/-- fingerprint of one ` + "`case`" + ` of the interpreter switch in executeDefault.
    flag: 0 forward, 1 ` + "`| Back`" + `, 2 ` + "`| Back2`" + `.  maxPush/minPop/maxPop: slots pushed / explicitly popped, max/min over
    the paths through the case body; maxNet = max over paths of pushed − popped.  adv/jump/back/ret:
    some path leaves by advance+continue / goTo+continue / break or goto BreakBackward (→ backtrack()) /
    return nil.  trackto: calls trackto (cut back to a saved level).  raw: touches runtrack/Runtrackpos
    directly.  pushOnBack: some path pushes and then backtracks.  popAfterPush: some path pops after
    it pushed. -/
structure CaseFp where
  op : Nat
  flag : Nat
  maxPush : Nat
  minPop : Nat
  maxPop : Nat
  maxNet : Int
  adv : Bool
  jump : Bool
  back : Bool
  ret : Bool
  trackto : Bool
  raw : Bool
  pushOnBack : Bool
  popAfterPush : Bool
  deriving DecidableEq, Repr

`)
		b.WriteString("def cases : List CaseFp := [\n")
		for i, c := range cases {
			net := fmt.Sprint(c.maxNet)
			if c.maxNet < 0 {
				net = "(" + net + ")"
			}
			fmt.Fprintf(&b, "  ⟨%d, %d, %d, %d, %d, %s, %s, %s, %s, %s, %s, %s, %s, %s⟩", consts[c.op], c.flag, c.maxPush, c.minPop, c.maxPop, net,
				leanBool(c.adv), leanBool(c.jump), leanBool(c.back), leanBool(c.ret), leanBool(c.trackto), leanBool(c.raw), leanBool(c.pushOnBack), leanBool(c.popAfterPush))
			if i+1 < len(cases) {
				b.WriteString(",")
			}
			fmt.Fprintf(&b, "  -- %s", c.op)
			if c.flag == 1 {
				b.WriteString(" | Back")
			} else if c.flag == 2 {
				b.WriteString(" | Back2")
			}
			b.WriteString("\n")
		}
		b.WriteString("]\n\n")

		// ---- grouping stack and crawl stack (slice-stackcap)
		b.WriteString("/-! grouping stack (`runstack`) and crawl stack (`runcrawl`) -/\n\n")
		b.WriteString("/-- slots pushed by `stackPush` / `stackPush2` (number of `Runstackpos--; runstack[Runstackpos] = …` pairs) -/\n")
		var sn []string
		for n := range spush {
			sn = append(sn, n)
		}
		sort.Strings(sn)
		var ss []string
		for _, n := range sn {
			ss = append(ss, fmt.Sprintf("(%q, %d)", n, spush[n]))
		}
		fmt.Fprintf(&b, "def stackPushHelperSlots : List (String × Nat) := [%s]\n\n", strings.Join(ss, ", "))
		b.WriteString(`/-- grouping-stack fingerprint of one ` + "`case`" + ` of the interpreter switch: slots pushed by stackPush/stackPush2
    and popped by stackPop/stackPopN, max/min over the paths of the case body; maxNet = max of pushed − popped;
    raw: touches runstack/Runstackpos directly; popAfterPush: some path pops after it pushed. -/
structure StackFp where
  op : Nat
  flag : Nat
  maxPush : Nat
  minPop : Nat
  maxPop : Nat
  maxNet : Int
  raw : Bool
  popAfterPush : Bool
  deriving DecidableEq, Repr

`)
		b.WriteString("def stackCases : List StackFp := [\n")
		for i, c := range stackCases {
			net := fmt.Sprint(c.maxNet)
			if c.maxNet < 0 {
				net = "(" + net + ")"
			}
			fmt.Fprintf(&b, "  ⟨%d, %d, %d, %d, %d, %s, %s, %s⟩", consts[c.op], c.flag, c.maxPush, c.minPop, c.maxPop, net,
				leanBool(c.raw), leanBool(c.popAfterPush))
			if i+1 < len(stackCases) {
				b.WriteString(",")
			}
			fmt.Fprintf(&b, "  -- %s", c.op)
			if c.flag == 1 {
				b.WriteString(" | Back")
			} else if c.flag == 2 {
				b.WriteString(" | Back2")
			}
			b.WriteString("\n")
		}
		b.WriteString("]\n\n")
		b.WriteString("/-- (opcode, flag, most grouping-stack slots pushed by the case) -/\n")
		b.WriteString("def stackPushSlots : List (Nat × Nat × Nat) := stackCases.map fun c => (c.op, c.flag, c.maxPush)\n\n")
		fmt.Fprintf(&b, "/-- `initMatch`: `stacksize := r.runtrackcount * %d; if stacksize < %d { stacksize = %d }` (no limit applies) -/\ndef stackAllocFactor : Nat := %d\ndef stackAllocMin : Nat := %d\n", sc.allocF, sc.allocM, sc.allocM, sc.allocF, sc.allocM)
		fmt.Fprintf(&b, "/-- `initMatch`: `r.runcrawl = make([]int, %d)` -/\ndef crawlAlloc : Nat := %d\n", sc.crawl, sc.crawl)
		fmt.Fprintf(&b, "/-- `ensureStorage`: `if r.Runstackpos < r.runtrackcount*%d { doubleIntSlice(&r.runstack, &r.Runstackpos) }` — an `if`, not a loop -/\ndef stackEnsureFactor : Nat := %d\n", sc.ensF, sc.ensF)
		fmt.Fprintf(&b, "/-- `ensureStack(plus)`: `if r.Runstackpos-plus < r.runtrackcount*%d { doubleIntSlice(…) }` (exported StackPush… of the code-gen API) -/\ndef ensureStackFactor : Nat := %d\n", sc.ensStackF, sc.ensStackF)
		fmt.Fprintf(&b, "/-- `doubleIntSlice`: `newS := make([]int, oldLen*%d); copy(newS[oldLen:], *s); *pos += oldLen` -/\ndef doubleFactor : Nat := %d\n", sc.dbl, sc.dbl)
		fmt.Fprintf(&b, "/-- `crawl`: `if r.runcrawlpos == 0 { doubleIntSlice(&r.runcrawl, &r.runcrawlpos) }` before every push -/\ndef crawlChecksEveryPush : Bool := %s\n", leanBool(sc.crawlCheck))
		b.WriteString("\nend RegexVerif.Generated.Opcodes\n")
		return b.String(), nil
	})
}
