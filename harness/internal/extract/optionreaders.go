package extract

import (
	"fmt"
	"go/ast"
	"go/token"
	"sort"
	"strings"
)

// OptionReaders: every use of a `.Options` / `.options` / `.RegexOptions` field outside
// syntax/parser.go, classified by its syntactic context (property C18).  The tree-equality
// certificate of C18 ignores the m/s/n/x bits of the nodes; that is sound only as long as no code
// after the parser looks at them.  The list is regenerated on every run; Props/C18.lean proves that
// it is the expected one and that every entry is harmless.
//
// kinds:  mask   `x.Options & M` (test or masked copy), M listed
//
//	maskout `x.Options & ^M` / `x.Options &^ M` (copy without M)
//	clear  `x.Options &= ^M`         set  `x.Options |= M`
//	cmp    `x.Options ==/!= y`  (whole-value comparison)
//	copy   the whole value flows into a new node / a variable / a struct field
//	pass   the whole value is an argument of a call
//	write  `x.Options = …`
//	other  anything else
func init() {
	register("OptionReaders", func(s *Src) (string, error) {
		type entry struct{ file, fn, kind, mask string }
		seen := map[entry]bool{}
		var files []string
		for f := range s.Files {
			files = append(files, f)
		}
		sort.Strings(files)
		for _, rel := range files {
			if rel == "syntax/parser.go" {
				continue
			}
			file := s.Files[rel]
			pkgs := map[string]bool{}
			for _, im := range file.Imports {
				p := strings.Trim(im.Path.Value, `"`)
				name := p[strings.LastIndex(p, "/")+1:]
				if im.Name != nil {
					name = im.Name.Name
				}
				pkgs[name] = true
			}
			for _, d := range file.Decls {
				fd, ok := d.(*ast.FuncDecl)
				if !ok || fd.Body == nil {
					continue
				}
				fn := fd.Name.Name
				if fd.Recv != nil && len(fd.Recv.List) == 1 {
					t := fd.Recv.List[0].Type
					if st, ok := t.(*ast.StarExpr); ok {
						t = st.X
					}
					if id, ok := t.(*ast.Ident); ok {
						fn = id.Name + "." + fn
					}
				}
				var stack []ast.Node
				ast.Inspect(fd.Body, func(n ast.Node) bool {
					if n == nil {
						stack = stack[:len(stack)-1]
						return true
					}
					stack = append(stack, n)
					sel, ok := n.(*ast.SelectorExpr)
					if !ok {
						return true
					}
					name := sel.Sel.Name
					if name != "Options" && name != "options" && name != "RegexOptions" {
						return true
					}
					if id, ok := sel.X.(*ast.Ident); ok && pkgs[id.Name] && id.Obj == nil {
						return true // a qualified type name such as syntax.RegexOptions
					}
					kind, mask := classifyOptionUse(stack)
					seen[entry{rel, fn, kind, mask}] = true
					return true
				})
			}
		}
		var es []entry
		for e := range seen {
			es = append(es, e)
		}
		sort.Slice(es, func(i, j int) bool {
			a, b := es[i], es[j]
			if a.file != b.file {
				return a.file < b.file
			}
			if a.fn != b.fn {
				return a.fn < b.fn
			}
			if a.kind != b.kind {
				return a.kind < b.kind
			}
			return a.mask < b.mask
		})
		if len(es) == 0 {
			return "", fmt.Errorf("no use of an Options field found outside syntax/parser.go")
		}
		var b strings.Builder
		b.WriteString("namespace RegexVerif.Generated\n\n")
		b.WriteString("/-- one use of an options field outside syntax/parser.go: package directory, file, function, kind, mask names -/\n")
		b.WriteString("structure OptionUse where\n  pkg : String\n  file : String\n  fn : String\n  kind : String\n  mask : List String\n  deriving DecidableEq, Repr\n\n")
		b.WriteString("def optionReaders : List OptionUse := [\n")
		for i, e := range es {
			var ms []string
			if e.mask != "" {
				for _, m := range strings.Split(e.mask, "|") {
					ms = append(ms, fmt.Sprintf("%q", m))
				}
			}
			sep := ","
			if i == len(es)-1 {
				sep = ""
			}
			pkg := "regexp2"
			if j := strings.LastIndex(e.file, "/"); j >= 0 {
				pkg = e.file[:j]
			}
			fmt.Fprintf(&b, "  ⟨%q, %q, %q, %q, [%s]⟩%s\n", pkg, e.file, e.fn, e.kind, strings.Join(ms, ", "), sep)
		}
		b.WriteString("]\n\nend RegexVerif.Generated\n")
		return b.String(), nil
	})
}

// maskNames flattens `A | B | (C)` / `^A` into sorted identifier names; "?" marks anything else.
func maskNames(e ast.Expr) string {
	var names []string
	var walk func(e ast.Expr)
	walk = func(e ast.Expr) {
		switch x := e.(type) {
		case *ast.ParenExpr:
			walk(x.X)
		case *ast.UnaryExpr:
			if x.Op == token.XOR {
				walk(x.X)
			} else {
				names = append(names, "?")
			}
		case *ast.BinaryExpr:
			if x.Op == token.OR {
				walk(x.X)
				walk(x.Y)
			} else {
				names = append(names, "?")
			}
		case *ast.Ident:
			names = append(names, x.Name)
		case *ast.SelectorExpr:
			names = append(names, x.Sel.Name)
		default:
			names = append(names, "?")
		}
	}
	walk(e)
	sort.Strings(names)
	return strings.Join(names, "|")
}

func classifyOptionUse(stack []ast.Node) (kind, mask string) {
	self := stack[len(stack)-1].(ast.Expr)
	// skip parentheses and conversions T(x) around the selector
	i := len(stack) - 2
	for i >= 0 {
		switch p := stack[i].(type) {
		case *ast.ParenExpr:
			self = p
			i--
			continue
		case *ast.CallExpr:
			if len(p.Args) == 1 && p.Args[0] == self && isTypeConversion(p.Fun) {
				self = p
				i--
				continue
			}
		}
		break
	}
	if i < 0 {
		return "other", ""
	}
	switch p := stack[i].(type) {
	case *ast.BinaryExpr:
		other := p.X
		if p.X == self {
			other = p.Y
		}
		switch p.Op {
		case token.AND:
			if u, ok := other.(*ast.UnaryExpr); ok && u.Op == token.XOR {
				return "maskout", maskNames(u.X)
			}
			return "mask", maskNames(other)
		case token.AND_NOT:
			return "maskout", maskNames(other)
		case token.EQL, token.NEQ:
			return "cmp", ""
		}
		return "other", ""
	case *ast.AssignStmt:
		for _, l := range p.Lhs {
			if l == self {
				switch p.Tok {
				case token.AND_ASSIGN:
					if len(p.Rhs) == 1 {
						if u, ok := p.Rhs[0].(*ast.UnaryExpr); ok && u.Op == token.XOR {
							return "clear", maskNames(u.X)
						}
						return "mask", maskNames(p.Rhs[0])
					}
				case token.OR_ASSIGN:
					if len(p.Rhs) == 1 {
						return "set", maskNames(p.Rhs[0])
					}
				case token.AND_NOT_ASSIGN:
					if len(p.Rhs) == 1 {
						return "clear", maskNames(p.Rhs[0])
					}
				}
				return "write", ""
			}
		}
		return "copy", ""
	case *ast.KeyValueExpr:
		return "copy", ""
	case *ast.ValueSpec:
		return "copy", ""
	case *ast.CallExpr:
		return "pass", ""
	case *ast.ReturnStmt:
		return "copy", ""
	}
	return "other", ""
}

func isTypeConversion(fun ast.Expr) bool {
	switch f := fun.(type) {
	case *ast.Ident:
		return f.Name == "RegexOptions" || f.Name == "int" || f.Name == "int32"
	case *ast.SelectorExpr:
		return f.Sel.Name == "RegexOptions"
	}
	return false
}
