package extract

import (
	"fmt"
	"go/ast"
	"go/token"
	"strconv"
)

// Replace: the rule-encoding constants of replace.go and syntax/replacerdata.go (two copies that
// must agree), the table of one-character substitutions in scanDollar (syntax/parser.go) and the
// decimal overflow bounds of the parser — used by the C09 model and theorems.
func init() {
	register("Replace", func(s *Src) (string, error) {
		names := []string{"replaceSpecials", "replaceLeftPortion", "replaceRightPortion", "replaceLastGroup", "replaceWholeString"}
		out := "namespace RegexVerif.Generated.Replace\n\n"
		for _, src := range []struct{ file, prefix string }{{"replace.go", "run"}, {"syntax/replacerdata.go", "syn"}} {
			consts, _, err := s.intConsts(src.file)
			if err != nil {
				return "", err
			}
			var vals []int64
			for _, n := range names {
				v, ok := consts[n]
				if !ok {
					return "", fmt.Errorf("constant %s not found in %s", n, src.file)
				}
				vals = append(vals, v)
			}
			out += fmt.Sprintf("/-- %s of %s -/\n", "replaceSpecials, replaceLeftPortion, replaceRightPortion, replaceLastGroup, replaceWholeString", src.file)
			out += fmt.Sprintf("def %sConsts : List Int := %s\n\n", src.prefix, leanIntList(vals))
		}

		// scanDollar: switch ch { case '$': …; case '&': capnum = 0; case '`': capnum = replaceLeftPortion … }
		synConsts, _, err := s.intConsts("syntax/replacerdata.go")
		if err != nil {
			return "", err
		}
		fd, err := s.funcDecl("syntax/parser.go", "parser", "scanDollar")
		if err != nil {
			return "", err
		}
		var table [][2]int64
		hasDollar := false
		found := false
		ast.Inspect(fd.Body, func(n ast.Node) bool {
			sw, ok := n.(*ast.SwitchStmt)
			if !ok || found {
				return true
			}
			if id, ok := sw.Tag.(*ast.Ident); !ok || id.Name != "ch" {
				return true
			}
			found = true
			for _, st := range sw.Body.List {
				cc := st.(*ast.CaseClause)
				for _, e := range cc.List {
					c, ok := evalInt(e, nil, 0)
					if !ok {
						err = fmt.Errorf("scanDollar: case label not a character")
						return false
					}
					assigned := false
					for _, b := range cc.Body {
						switch x := b.(type) {
						case *ast.AssignStmt:
							if len(x.Lhs) == 1 && len(x.Rhs) == 1 {
								if id, ok := x.Lhs[0].(*ast.Ident); ok && id.Name == "capnum" {
									v, ok := evalInt(x.Rhs[0], synConsts, 0)
									if !ok {
										err = fmt.Errorf("scanDollar: capnum value not constant")
										return false
									}
									table = append(table, [2]int64{c, v})
									assigned = true
								}
							}
						case *ast.ReturnStmt:
							if c == '$' {
								hasDollar = true
								assigned = true
							}
						}
					}
					if !assigned {
						err = fmt.Errorf("scanDollar: case %q neither sets capnum nor returns", rune(c))
						return false
					}
				}
			}
			return false
		})
		if err != nil {
			return "", err
		}
		if !found {
			return "", fmt.Errorf("scanDollar: switch on ch not found")
		}
		out += "/-- one-character substitutions of scanDollar: (character, NtRef value) -/\n"
		out += "def dollarSpecials : List (Nat × Int) := ["
		for i, p := range table {
			if i > 0 {
				out += ", "
			}
			out += fmt.Sprintf("(%d, (%d))", p[0], p[1])
		}
		out += "]\n\n"
		out += fmt.Sprintf("/-- scanDollar has a `case '$'` returning a literal -/\ndef dollarDollar : Bool := %v\n\n", hasDollar)

		// maxValueDiv10 / maxValueMod10
		pf, err := s.file("syntax/parser.go")
		if err != nil {
			return "", err
		}
		for _, want := range []string{"maxValueDiv10", "maxValueMod10"} {
			var expr ast.Expr
			for _, d := range pf.Decls {
				gd, ok := d.(*ast.GenDecl)
				if !ok || gd.Tok != token.CONST {
					continue
				}
				for _, sp := range gd.Specs {
					vs := sp.(*ast.ValueSpec)
					for i, n := range vs.Names {
						if n.Name == want && i < len(vs.Values) {
							expr = vs.Values[i]
						}
					}
				}
			}
			if expr == nil {
				return "", fmt.Errorf("constant %s not found in syntax/parser.go", want)
			}
			v, ok := evalMathInt(expr)
			if !ok {
				return "", fmt.Errorf("constant %s: unsupported expression", want)
			}
			out += fmt.Sprintf("def %s : Nat := %d\n", want, v)
		}
		out += "\nend RegexVerif.Generated.Replace\n"
		return out, nil
	})
}

// evalMathInt evaluates integer literals, math.MaxInt32, / and %.
func evalMathInt(e ast.Expr) (int64, bool) {
	switch x := e.(type) {
	case *ast.BasicLit:
		if x.Kind == token.INT {
			v, err := strconv.ParseInt(x.Value, 0, 64)
			return v, err == nil
		}
	case *ast.ParenExpr:
		return evalMathInt(x.X)
	case *ast.SelectorExpr:
		if id, ok := x.X.(*ast.Ident); ok && id.Name == "math" && x.Sel.Name == "MaxInt32" {
			return 1<<31 - 1, true
		}
	case *ast.BinaryExpr:
		a, ok1 := evalMathInt(x.X)
		b, ok2 := evalMathInt(x.Y)
		if !ok1 || !ok2 || b == 0 {
			return 0, false
		}
		switch x.Op {
		case token.QUO:
			return a / b, true
		case token.REM:
			return a % b, true
		}
	}
	return 0, false
}
