package extract

import (
	"fmt"
	"go/ast"
	"go/token"
	"strconv"
	"strings"
)

// Class: facts of syntax/charclass.go used by the C16 theorems — the POSIX range tables written in
// addNamedASCII (positive tables go through addRanges, negated ones through addNegativeRanges, whose
// complement construction is only exact on ascending disjoint tables that do not end at U+10FFFE),
// the names that are delegated to other adders, and the "linear scan up to n ranges" threshold of
// charInSlow.
func init() {
	register("Class", func(s *Src) (string, error) {
		fd, err := s.funcDecl("syntax/charclass.go", "CharSet", "addNamedASCII")
		if err != nil {
			return "", err
		}
		type tab struct {
			name string
			rs   [][2]int64
		}
		var tabs []tab
		var delegated []string
		var sw *ast.SwitchStmt
		ast.Inspect(fd.Body, func(n ast.Node) bool {
			if x, ok := n.(*ast.SwitchStmt); ok && sw == nil {
				sw = x
			}
			return true
		})
		if sw == nil {
			return "", fmt.Errorf("addNamedASCII: no switch statement")
		}
		for _, st := range sw.Body.List {
			cc := st.(*ast.CaseClause)
			if cc.List == nil {
				continue // default
			}
			for _, e := range cc.List {
				bl, ok := e.(*ast.BasicLit)
				if !ok || bl.Kind != token.STRING {
					return "", fmt.Errorf("addNamedASCII: case label is not a string literal")
				}
				name, _ := strconv.Unquote(bl.Value)
				var rs [][2]int64
				found := false
				for _, b := range cc.Body {
					as, ok := b.(*ast.AssignStmt)
					if !ok || len(as.Lhs) != 1 || len(as.Rhs) != 1 {
						continue
					}
					if id, ok := as.Lhs[0].(*ast.Ident); !ok || id.Name != "rs" {
						continue
					}
					cl, ok := as.Rhs[0].(*ast.CompositeLit)
					if !ok {
						return "", fmt.Errorf("addNamedASCII %s: rs is not assigned a composite literal", name)
					}
					for _, el := range cl.Elts {
						pair, ok := el.(*ast.CompositeLit)
						if !ok || len(pair.Elts) != 2 {
							return "", fmt.Errorf("addNamedASCII %s: range is not a pair", name)
						}
						a, ok1 := evalInt(pair.Elts[0], nil, 0)
						b, ok2 := evalInt(pair.Elts[1], nil, 0)
						if !ok1 || !ok2 {
							return "", fmt.Errorf("addNamedASCII %s: range bound is not a constant", name)
						}
						rs = append(rs, [2]int64{a, b})
					}
					found = true
				}
				if found {
					tabs = append(tabs, tab{name, rs})
				} else {
					delegated = append(delegated, name)
				}
			}
		}
		if len(tabs) == 0 {
			return "", fmt.Errorf("addNamedASCII: no range tables found")
		}
		// threshold of the linear scan in charInSlow: `if n <= K`
		cs, err := s.funcDecl("syntax/charclass.go", "CharSet", "charInSlow")
		if err != nil {
			return "", err
		}
		thr := int64(-1)
		ast.Inspect(cs.Body, func(n ast.Node) bool {
			if x, ok := n.(*ast.IfStmt); ok && thr < 0 {
				if be, ok := x.Cond.(*ast.BinaryExpr); ok && be.Op == token.LEQ {
					if id, ok := be.X.(*ast.Ident); ok && id.Name == "n" {
						if v, ok := evalInt(be.Y, nil, 0); ok {
							thr = v
						}
					}
				}
			}
			return true
		})
		if thr < 0 {
			return "", fmt.Errorf("charInSlow: `if n <= K` not found")
		}
		// lcTable: {chMin, chMax, op, data}
		consts, _, err := s.intConsts("syntax/charclass.go")
		if err != nil {
			return "", err
		}
		f, err := s.file("syntax/charclass.go")
		if err != nil {
			return "", err
		}
		var lc [][4]int64
		for _, d := range f.Decls {
			gd, ok := d.(*ast.GenDecl)
			if !ok || gd.Tok != token.VAR {
				continue
			}
			for _, sp := range gd.Specs {
				vs := sp.(*ast.ValueSpec)
				for i, n := range vs.Names {
					if n.Name != "lcTable" || i >= len(vs.Values) {
						continue
					}
					cl, ok := vs.Values[i].(*ast.CompositeLit)
					if !ok {
						return "", fmt.Errorf("lcTable is not a composite literal")
					}
					for _, el := range cl.Elts {
						row, ok := el.(*ast.CompositeLit)
						if !ok || len(row.Elts) != 4 {
							return "", fmt.Errorf("lcTable: row is not a 4-tuple")
						}
						var r [4]int64
						for k, e := range row.Elts {
							v, ok := evalInt(e, consts, 0)
							if !ok {
								return "", fmt.Errorf("lcTable: element is not a constant")
							}
							r[k] = v
						}
						lc = append(lc, r)
					}
				}
			}
		}
		if len(lc) == 0 {
			return "", fmt.Errorf("lcTable not found")
		}
		for _, k := range []string{"LowercaseSet", "LowercaseAdd", "LowercaseBor", "LowercaseBad"} {
			if _, ok := consts[k]; !ok {
				return "", fmt.Errorf("constant %s not found", k)
			}
		}
		var sb strings.Builder
		sb.WriteString("namespace RegexVerif.Generated\n\n")
		sb.WriteString("/-- `lcTable` of syntax/charclass.go: (chMin, chMax, op, data) -/\n")
		sb.WriteString("def lcTable : List (Nat × Nat × Nat × Int) := [\n")
		for i, r := range lc {
			sep := ","
			if i == len(lc)-1 {
				sep = ""
			}
			fmt.Fprintf(&sb, "  (%d, %d, %d, %d)%s\n", r[0], r[1], r[2], r[3], sep)
		}
		sb.WriteString("]\n\n")
		fmt.Fprintf(&sb, "def lowercaseSet : Nat := %d\ndef lowercaseAdd : Nat := %d\ndef lowercaseBor : Nat := %d\ndef lowercaseBad : Nat := %d\n\n",
			consts["LowercaseSet"], consts["LowercaseAdd"], consts["LowercaseBor"], consts["LowercaseBad"])
		sb.WriteString("/-- the range tables of `addNamedASCII` in syntax/charclass.go: (name, [(First, Last)…]) -/\n")
		sb.WriteString("def posixTables : List (String × List (Nat × Nat)) := [\n")
		for i, t := range tabs {
			var ps []string
			for _, r := range t.rs {
				ps = append(ps, fmt.Sprintf("(%d, %d)", r[0], r[1]))
			}
			sep := ","
			if i == len(tabs)-1 {
				sep = ""
			}
			fmt.Fprintf(&sb, "  (%s, [%s])%s\n", strconv.Quote(t.name), strings.Join(ps, ", "), sep)
		}
		sb.WriteString("]\n\n")
		sb.WriteString("/-- POSIX names `addNamedASCII` hands to addDigit / addWord instead of a table -/\n")
		var qs []string
		for _, d := range delegated {
			qs = append(qs, strconv.Quote(d))
		}
		fmt.Fprintf(&sb, "def posixDelegated : List String := [%s]\n\n", strings.Join(qs, ", "))
		sb.WriteString("/-- `charInSlow` scans linearly when `n <=` this many ranges -/\n")
		fmt.Fprintf(&sb, "def linearScanMax : Nat := %d\n\n", thr)
		sb.WriteString("end RegexVerif.Generated\n")
		return sb.String(), nil
	})
}
