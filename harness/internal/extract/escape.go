package extract

import "fmt"

// Escape: the `meta` string of syntax/escape.go and the parser's `_category` table with its class
// constants (syntax/parser.go), used by the C19 model and theorems.
func init() {
	register("Escape", func(s *Src) (string, error) {
		meta, err := s.constString("syntax/escape.go", "meta")
		if err != nil {
			return "", err
		}
		consts, _, err := s.intConsts("syntax/parser.go")
		if err != nil {
			return "", err
		}
		cat, err := s.varIntSlice("syntax/parser.go", "_category", consts)
		if err != nil {
			return "", err
		}
		out := "namespace RegexVerif.Generated\n\n"
		out += "/-- runes of the `meta` constant in syntax/escape.go -/\n"
		out += fmt.Sprintf("def metaChars : List Nat := %s\n\n", leanNatList(runesOf(meta)))
		out += "/-- `_category` table of syntax/parser.go (index = ASCII code) -/\n"
		out += fmt.Sprintf("def parserCategory : List Nat := %s\n\n", leanNatList(cat))
		for _, k := range []string{"Q", "S", "Z", "X", "E"} {
			v, ok := consts[k]
			if !ok {
				return "", fmt.Errorf("parser category constant %s not found", k)
			}
			out += fmt.Sprintf("def cat%s : Nat := %d\n", k, v)
		}
		out += "\nend RegexVerif.Generated\n"
		return out, nil
	})
}
