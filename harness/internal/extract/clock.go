package extract

import (
	"bytes"
	"fmt"
	"go/ast"
	"go/printer"
	"go/token"
	"strconv"
	"strings"
)

// Clock: the constants of fastclock.go that the C14 model uses (tick shift, clockEnd slop, default
// period) and the statement skeleton of every function the model mirrors.  The Lean side states the
// expected values (Props/C14.lean); any edit of these functions changes a generated list and the
// corresponding obligation no longer checks until the model has been compared with the new code.

var timeUnits = map[string]int64{
	"Nanosecond": 1, "Microsecond": 1e3, "Millisecond": 1e6, "Second": 1e9, "Minute": 60e9, "Hour": 3600e9,
}

// evalDuration evaluates a constant duration expression built from integer literals, time.<Unit>,
// named constants of env, and + - * /.
func evalDuration(e ast.Expr, env map[string]int64) (int64, bool) {
	switch x := e.(type) {
	case *ast.SelectorExpr:
		if id, ok := x.X.(*ast.Ident); ok && id.Name == "time" {
			v, ok := timeUnits[x.Sel.Name]
			return v, ok
		}
	case *ast.BasicLit:
		if x.Kind == token.INT {
			v, err := strconv.ParseInt(x.Value, 0, 64)
			return v, err == nil
		}
	case *ast.Ident:
		v, ok := env[x.Name]
		return v, ok
	case *ast.ParenExpr:
		return evalDuration(x.X, env)
	case *ast.BinaryExpr:
		a, ok1 := evalDuration(x.X, env)
		b, ok2 := evalDuration(x.Y, env)
		if !ok1 || !ok2 {
			return 0, false
		}
		switch x.Op {
		case token.ADD:
			return a + b, true
		case token.SUB:
			return a - b, true
		case token.MUL:
			return a * b, true
		case token.QUO:
			if b != 0 {
				return a / b, true
			}
		}
	case *ast.CallExpr:
		if len(x.Args) == 1 { // time.Duration(…)
			return evalDuration(x.Args[0], env)
		}
	}
	return 0, false
}

// skeleton prints the body of a function without comments, one trimmed line per list element.
func (s *Src) skeleton(fd *ast.FuncDecl) ([]string, error) {
	if fd.Body == nil {
		return nil, fmt.Errorf("%s has no body", fd.Name.Name)
	}
	var buf bytes.Buffer
	cfg := printer.Config{Mode: printer.RawFormat, Tabwidth: 1}
	if err := cfg.Fprint(&buf, token.NewFileSet(), fd.Body); err != nil {
		return nil, err
	}
	var out []string
	skip := 0 // inside an `if verifOn { … }` block (compiled away without the build tag): not part of the skeleton
	for _, ln := range strings.Split(buf.String(), "\n") {
		ln = strings.Join(strings.Fields(ln), " ")
		if ln == "" {
			continue
		}
		if skip > 0 {
			skip += strings.Count(ln, "{") - strings.Count(ln, "}")
			continue
		}
		if ln == "if verifOn {" {
			skip = 1
			continue
		}
		out = append(out, ln)
	}
	return out, nil
}

func leanStringList(xs []string) string {
	var b strings.Builder
	b.WriteString("[")
	for i, x := range xs {
		if i > 0 {
			b.WriteString(",")
		}
		b.WriteString("\n  ")
		b.WriteString(leanQuote(x))
	}
	b.WriteString("]")
	return b.String()
}

func leanQuote(s string) string {
	var b strings.Builder
	b.WriteByte('"')
	for _, r := range s {
		switch {
		case r == '"' || r == '\\':
			b.WriteByte('\\')
			b.WriteRune(r)
		case r < 32 || r > 126:
			fmt.Fprintf(&b, "\\u%04x", r&0xffff)
		default:
			b.WriteRune(r)
		}
	}
	b.WriteByte('"')
	return b.String()
}

func init() {
	register("Clock", func(s *Src) (string, error) {
		out := "namespace RegexVerif.Generated.Clock\n\n"
		// shift of durationToTicks
		fd, err := s.funcDecl("fastclock.go", "", "durationToTicks")
		if err != nil {
			return "", err
		}
		shift := int64(-1)
		nshift := 0
		ast.Inspect(fd.Body, func(n ast.Node) bool {
			if be, ok := n.(*ast.BinaryExpr); ok && be.Op == token.SHR {
				if v, ok := evalInt(be.Y, nil, 0); ok {
					shift = v
					nshift++
				}
			}
			return true
		})
		if nshift != 1 || shift < 0 {
			return "", fmt.Errorf("durationToTicks: expected exactly one right shift by a constant")
		}
		out += "/-- the right shift in durationToTicks -/\n"
		out += fmt.Sprintf("def tickShift : Nat := %d\n\n", shift)

		// DefaultClockPeriod
		f, err := s.file("fastclock.go")
		if err != nil {
			return "", err
		}
		env := map[string]int64{}
		foundDef := false
		clockPeriodInit := ""
		for _, d := range f.Decls {
			gd, ok := d.(*ast.GenDecl)
			if !ok {
				continue
			}
			for _, sp := range gd.Specs {
				vs, ok := sp.(*ast.ValueSpec)
				if !ok {
					continue
				}
				for i, n := range vs.Names {
					if i >= len(vs.Values) {
						continue
					}
					if gd.Tok == token.CONST {
						if v, ok := evalDuration(vs.Values[i], env); ok {
							env[n.Name] = v
							if n.Name == "DefaultClockPeriod" {
								foundDef = true
							}
						}
					}
					if gd.Tok == token.VAR && n.Name == "clockPeriod" {
						var b bytes.Buffer
						_ = printer.Fprint(&b, token.NewFileSet(), vs.Values[i])
						clockPeriodInit = b.String()
					}
				}
			}
		}
		if !foundDef {
			return "", fmt.Errorf("constant DefaultClockPeriod not found or not a constant duration")
		}
		out += "/-- DefaultClockPeriod in ns -/\n"
		out += fmt.Sprintf("def defaultClockPeriodNs : Int := %d\n\n", env["DefaultClockPeriod"])
		out += "/-- initial value of the variable clockPeriod -/\n"
		out += fmt.Sprintf("def clockPeriodInit : String := %s\n\n", leanQuote(clockPeriodInit))

		// the slop of extendClock: the argument of the durationToTicks call
		fd, err = s.funcDecl("fastclock.go", "", "extendClock")
		if err != nil {
			return "", err
		}
		var slops []int64
		ast.Inspect(fd.Body, func(n ast.Node) bool {
			if ce, ok := n.(*ast.CallExpr); ok {
				if id, ok := ce.Fun.(*ast.Ident); ok && id.Name == "durationToTicks" && len(ce.Args) == 1 {
					if v, ok := evalDuration(ce.Args[0], env); ok {
						slops = append(slops, v)
					} else {
						slops = append(slops, -1)
					}
				}
			}
			return true
		})
		if len(slops) != 1 || slops[0] < 0 {
			return "", fmt.Errorf("extendClock: expected exactly one durationToTicks(<constant duration>) call")
		}
		out += "/-- the duration added to the largest deadline by extendClock, in ns -/\n"
		out += fmt.Sprintf("def slopNs : Int := %d\n\n", slops[0])

		// statement skeletons
		type fn struct{ file, recv, name, lean string }
		for _, x := range []fn{
			{"fastclock.go", "fasttime", "reached", "reachedSrc"},
			{"fastclock.go", "", "makeDeadline", "makeDeadlineSrc"},
			{"fastclock.go", "", "extendClock", "extendClockSrc"},
			{"fastclock.go", "", "stopClock", "stopClockSrc"},
			{"fastclock.go", "", "deadlineTicks", "deadlineTicksSrc"},
			{"fastclock.go", "", "durationToTicks", "durationToTicksSrc"},
			{"fastclock.go", "", "runClock", "runClockSrc"},
			{"runner.go", "Runner", "startTimeoutWatch", "startTimeoutWatchSrc"},
			{"runner.go", "Runner", "CheckTimeout", "checkTimeoutSrc"},
			{"regexp.go", "", "SetTimeoutCheckPeriod", "setTimeoutCheckPeriodSrc"},
			{"regexp.go", "", "StopTimeoutClock", "stopTimeoutClockSrc"},
		} {
			fd, err := s.funcDecl(x.file, x.recv, x.name)
			if err != nil {
				return "", err
			}
			sk, err := s.skeleton(fd)
			if err != nil {
				return "", err
			}
			out += fmt.Sprintf("/-- body of %s (%s), comments removed -/\n", x.name, x.file)
			out += fmt.Sprintf("def %s : List String := %s\n\n", x.lean, leanStringList(sk))
		}

		// the ignoreTimeout rule and the places where the timeout is looked at, in (*Runner).scan and executeDefault
		scan, err := s.funcDecl("runner.go", "Runner", "scan")
		if err != nil {
			return "", err
		}
		var rule []string
		ast.Inspect(scan.Body, func(n ast.Node) bool {
			switch st := n.(type) {
			case *ast.AssignStmt:
				for _, l := range st.Lhs {
					if se, ok := l.(*ast.SelectorExpr); ok && (se.Sel.Name == "ignoreTimeout" || se.Sel.Name == "timeout") {
						var b bytes.Buffer
						_ = printer.Fprint(&b, token.NewFileSet(), st)
						rule = append(rule, strings.Join(strings.Fields(b.String()), " "))
					}
				}
			case *ast.CallExpr:
				if se, ok := st.Fun.(*ast.SelectorExpr); ok && (se.Sel.Name == "CheckTimeout" || se.Sel.Name == "startTimeoutWatch") {
					rule = append(rule, "call "+se.Sel.Name)
				}
			}
			return true
		})
		out += "/-- (*Runner).scan: assignments to timeout/ignoreTimeout and the timeout calls, in source order -/\n"
		out += fmt.Sprintf("def scanTimeoutSrc : List String := %s\n\n", leanStringList(rule))
		exec, err := s.funcDecl("runner.go", "", "executeDefault")
		if err != nil {
			return "", err
		}
		nCheck := 0
		ast.Inspect(exec.Body, func(n ast.Node) bool {
			if ce, ok := n.(*ast.CallExpr); ok {
				if se, ok := ce.Fun.(*ast.SelectorExpr); ok && se.Sel.Name == "CheckTimeout" {
					nCheck++
				}
			}
			return true
		})
		out += "/-- number of CheckTimeout calls in the interpreter loop executeDefault -/\n"
		out += fmt.Sprintf("def executeCheckTimeoutCalls : Nat := %d\n\n", nCheck)
		out += "end RegexVerif.Generated.Clock\n"
		return out, nil
	})
}
