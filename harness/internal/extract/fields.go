package extract

import (
	"fmt"
	"go/ast"
	"go/token"
	"os"
	"path"
	"sort"
	"strconv"
	"strings"
)

// Fields: facts for properties C12/C11, regenerated on every run:
//
//   - the field inventories of the structs that carry state from one call to the next or are shared
//     between goroutines (Runner, Match, matchText, Regexp, replacerDataCache, pooledSliceBuffers,
//     fastclock, …);
//   - the size classes of the two global buffer pools;
//   - for every Runner and Match field the functions that assign it (runnerFieldWriters,
//     matchFieldWriters) and the ordered assignment lists of the reset functions;
//   - the shared write-set: every assignment (=, op=, ++/--, element assignment, delete, copy, *p = …)
//     in the non-test sources of the three packages whose target lies in an object shared between
//     goroutines: reached through a field of Regexp, syntax.Code, syntax.CharSet,
//     syntax.FindOptimizations, … or a package-level variable.
//
// Types are resolved syntactically: receiver, parameters, obvious local definitions and struct field
// declarations. An unresolved root is reported (type "?") when the field name it writes also names a
// field of a shared struct, so a direct field write to a shared object cannot be missed; writes
// through a local alias of a shared slice or map are not tracked (the race detector leg covers those
// dynamically).

type structInfo struct {
	pkg    string
	name   string
	fields []string          // names in order (embedded: the type name)
	ftype  map[string]string // field -> qualified element type name ("" if not a named type)
}

type srcIndex struct {
	structs map[string]*structInfo // "pkg.Name"
	pkgVars map[string]map[string]bool
	funcs   []funcInfo
}

type funcInfo struct {
	file string
	pkg  string
	recv string
	decl *ast.FuncDecl
}

func pkgOf(rel string) string {
	d := path.Dir(rel)
	if d == "." {
		return "regexp2"
	}
	return d
}

// typeName reduces a type expression to the qualified name of the named type at its core
// (pointers, slices, arrays, maps (value type), generic arguments stripped); "" if there is none.
func typeName(pkg string, e ast.Expr) string {
	switch t := e.(type) {
	case *ast.Ident:
		switch t.Name {
		case "int", "int32", "int64", "uint", "uint32", "uint64", "bool", "string", "rune", "byte", "any", "error", "float64", "uint8", "uint16", "int8", "int16", "uintptr":
			return ""
		}
		return pkg + "." + t.Name
	case *ast.StarExpr:
		return typeName(pkg, t.X)
	case *ast.ArrayType:
		return typeName(pkg, t.Elt)
	case *ast.MapType:
		return typeName(pkg, t.Value)
	case *ast.SelectorExpr:
		if id, ok := t.X.(*ast.Ident); ok {
			return id.Name + "." + t.Sel.Name
		}
	case *ast.IndexExpr:
		return typeName(pkg, t.X)
	case *ast.IndexListExpr:
		return typeName(pkg, t.X)
	case *ast.ParenExpr:
		return typeName(pkg, t.X)
	case *ast.Ellipsis:
		return typeName(pkg, t.Elt)
	}
	return ""
}

func buildIndex(s *Src) *srcIndex {
	ix := &srcIndex{structs: map[string]*structInfo{}, pkgVars: map[string]map[string]bool{}}
	rels := make([]string, 0, len(s.Files))
	for rel := range s.Files {
		rels = append(rels, rel)
	}
	sort.Strings(rels)
	for _, rel := range rels {
		f := s.Files[rel]
		pkg := pkgOf(rel)
		if pkg == "compat" {
			continue
		}
		if ix.pkgVars[pkg] == nil {
			ix.pkgVars[pkg] = map[string]bool{}
		}
		for _, d := range f.Decls {
			switch dd := d.(type) {
			case *ast.GenDecl:
				for _, sp := range dd.Specs {
					switch sp := sp.(type) {
					case *ast.ValueSpec:
						if dd.Tok == token.VAR {
							for _, n := range sp.Names {
								ix.pkgVars[pkg][n.Name] = true
							}
						}
					case *ast.TypeSpec:
						st, ok := sp.Type.(*ast.StructType)
						if !ok {
							continue
						}
						si := &structInfo{pkg: pkg, name: sp.Name.Name, ftype: map[string]string{}}
						for _, fl := range st.Fields.List {
							tn := typeName(pkg, fl.Type)
							if len(fl.Names) == 0 {
								n := tn[strings.LastIndex(tn, ".")+1:]
								si.fields = append(si.fields, n)
								si.ftype[n] = tn
							}
							for _, n := range fl.Names {
								si.fields = append(si.fields, n.Name)
								si.ftype[n.Name] = tn
							}
						}
						ix.structs[pkg+"."+si.name] = si
					}
				}
			case *ast.FuncDecl:
				fi := funcInfo{file: rel, pkg: pkg, decl: dd}
				if dd.Recv != nil && len(dd.Recv.List) == 1 {
					tn := typeName(pkg, dd.Recv.List[0].Type)
					fi.recv = tn[strings.LastIndex(tn, ".")+1:]
				}
				ix.funcs = append(ix.funcs, fi)
			}
		}
	}
	return ix
}

func (f funcInfo) name() string {
	if f.recv != "" {
		return f.file + ":" + f.recv + "." + f.decl.Name.Name
	}
	return f.file + ":" + f.decl.Name.Name
}

// shared types: everything reachable from a *Regexp or a package-level variable
var sharedTypes = map[string]bool{
	"regexp2.Regexp": true, "regexp2.replacerDataCache": true, "regexp2.replacerDataCacheEntry": true,
	"regexp2.pooledSliceBuffers": true, "regexp2.fastclock": true, "regexp2.atomicTime": true,
	"regexp2.RuntimeEngineData": true, "regexp2.OptimizationOptions": false,
	"syntax.Code": true, "syntax.CharSet": true, "syntax.asciiBitmap": true, "syntax.FindOptimizations": true,
	"syntax.LiteralAfterLoop": true, "syntax.FixedDistanceSet": true, "syntax.FixedDistanceLiteral": true,
	"syntax.RequiredLandmarkChain": true, "syntax.RequiredLandmark": true, "syntax.RequiredLandmarkAlternative": true,
	"syntax.Prefix": true, "syntax.BmPrefix": true, "syntax.ReplacerData": true,
}

// constructors whose result type is known
var ctorTypes = map[string]string{
	"getRunner": "regexp2.Runner", "newMatch": "regexp2.Match", "newMatchSparse": "regexp2.Match",
	"newMatchText": "regexp2.matchText", "newStringMatchText": "regexp2.matchText",
	"newReplacerDataCache": "regexp2.replacerDataCache", "newStringByteMapper": "regexp2.stringByteMapper",
	"newCompileConfig": "regexp2.compileConfig", "newWriter": "syntax.writer",
}

type writeScan struct {
	ix    *srcIndex
	fn    funcInfo
	env   map[string]string // identifier -> qualified type name ("" unknown)
	fresh map[string]bool   // locals that hold an object allocated in this function (not shared until published)
	out   map[[2]string]bool
	calls map[callRef]bool // functions this one refers to (for the reachability estimate)
	// how each reported write is synchronised, syntactically (nil: not recorded):
	locked string                   // mutex expression of the X.Lock()/RLock() whose region we are lexically in ("" none)
	ev     map[[2]string][2]string  // (function, target) -> (kind, mutex); kind: lock | deref | plain (weakest wins)
	sites  map[string][]string      // plain function name -> lock state at each of its call sites
}

// record reports a write to a shared object together with the syntactic evidence of its
// synchronisation: inside a Lock()…Unlock() region of this function ("lock", mutex), through a
// pointer the caller passed or the function holds ("deref"), or neither ("plain").
func (w *writeScan) record(e ast.Expr) {
	k := [2]string{w.fn.name(), w.describe(e)}
	w.out[k] = true
	if w.ev == nil {
		return
	}
	kind := [2]string{"plain", ""}
	if w.locked != "" {
		kind = [2]string{"lock", w.locked}
	} else if strings.HasPrefix(k[1], "*") {
		kind = [2]string{"deref", ""}
	}
	rank := map[string]int{"plain": 0, "deref": 1, "lock": 2}
	if old, ok := w.ev[k]; !ok || rank[kind[0]] < rank[old[0]] || (kind[0] == "lock" && old[0] == "lock" && old[1] != kind[1]) {
		if ok && kind[0] == "lock" && old[0] == "lock" && old[1] != kind[1] {
			kind = [2]string{"plain", ""} // two different mutexes: no single lock protects the target
		}
		w.ev[k] = kind
	}
}

// callRef names a callee: recv = qualified receiver type ("" plain function, "?" unresolved method)
type callRef struct{ pkg, recv, name string }

// isFreshExpr: composite literal, &composite literal, new(T)
func isFreshExpr(e ast.Expr) bool {
	switch x := e.(type) {
	case *ast.CompositeLit:
		return true
	case *ast.UnaryExpr:
		if x.Op == token.AND {
			_, ok := x.X.(*ast.CompositeLit)
			return ok
		}
	case *ast.CallExpr:
		if id, ok := x.Fun.(*ast.Ident); ok && id.Name == "new" {
			return true
		}
	case *ast.ParenExpr:
		return isFreshExpr(x.X)
	}
	return false
}

// rootIdent returns the identifier a selector/index/deref chain starts from (nil if it starts
// from a call, a type assertion, …).
func rootIdent(e ast.Expr) *ast.Ident {
	for {
		switch x := e.(type) {
		case *ast.Ident:
			return x
		case *ast.ParenExpr:
			e = x.X
		case *ast.StarExpr:
			e = x.X
		case *ast.IndexExpr:
			e = x.X
		case *ast.SliceExpr:
			e = x.X
		case *ast.SelectorExpr:
			e = x.X
		default:
			return nil
		}
	}
}

func (w *writeScan) bindFieldList(fl *ast.FieldList) {
	if fl == nil {
		return
	}
	for _, f := range fl.List {
		tn := typeName(w.fn.pkg, f.Type)
		for _, n := range f.Names {
			w.env[n.Name] = tn
		}
	}
}

// exprType infers the named type of an expression where that is syntactically obvious.
func (w *writeScan) exprType(e ast.Expr) string {
	switch x := e.(type) {
	case *ast.UnaryExpr:
		if x.Op == token.AND {
			return w.exprType(x.X)
		}
	case *ast.CompositeLit:
		if x.Type != nil {
			return typeName(w.fn.pkg, x.Type)
		}
	case *ast.CallExpr:
		switch f := x.Fun.(type) {
		case *ast.Ident:
			if f.Name == "new" && len(x.Args) == 1 {
				return typeName(w.fn.pkg, x.Args[0])
			}
			if t, ok := ctorTypes[f.Name]; ok {
				return t
			}
		case *ast.SelectorExpr:
			if t, ok := ctorTypes[f.Sel.Name]; ok {
				return t
			}
		}
	case *ast.TypeAssertExpr:
		if x.Type != nil {
			return typeName(w.fn.pkg, x.Type)
		}
	case *ast.Ident:
		return w.env[x.Name]
	case *ast.ParenExpr:
		return w.exprType(x.X)
	case *ast.StarExpr:
		return w.exprType(x.X)
	case *ast.SelectorExpr:
		t, _ := w.chainType(x)
		return t
	case *ast.IndexExpr:
		return w.exprType(x.X)
	}
	return ""
}

// chainType types a selector chain; second result: whether the chain passes through a shared object
// (a shared type or a package-level variable) before its last selector.
func (w *writeScan) chainType(e ast.Expr) (string, bool) {
	switch x := e.(type) {
	case *ast.Ident:
		if _, local := w.env[x.Name]; !local && w.ix.pkgVars[w.fn.pkg][x.Name] {
			return "pkgvar", true
		}
		t := w.env[x.Name]
		return t, sharedTypes[t]
	case *ast.ParenExpr:
		return w.chainType(x.X)
	case *ast.StarExpr:
		return w.chainType(x.X)
	case *ast.IndexExpr:
		return w.chainType(x.X)
	case *ast.SliceExpr:
		return w.chainType(x.X)
	case *ast.TypeAssertExpr:
		t := typeName(w.fn.pkg, x.Type)
		_, sh := w.chainType(x.X)
		return t, sh || sharedTypes[t]
	case *ast.CallExpr:
		t := w.exprType(x)
		return t, sharedTypes[t]
	case *ast.SelectorExpr:
		bt, sh := w.chainType(x.X)
		if id, ok := x.X.(*ast.Ident); ok {
			if _, local := w.env[id.Name]; !local && (id.Name == "syntax" || id.Name == "helpers") {
				// qualified package-level identifier of another package
				if w.ix.pkgVars[id.Name][x.Sel.Name] {
					return "pkgvar", true
				}
				return "", false
			}
		}
		if si, ok := w.ix.structs[bt]; ok {
			ft := si.ftype[x.Sel.Name]
			return ft, sh || sharedTypes[ft]
		}
		return "", sh
	}
	return "", false
}

func (w *writeScan) describe(e ast.Expr) string {
	switch x := e.(type) {
	case *ast.Ident:
		if _, local := w.env[x.Name]; !local && w.ix.pkgVars[w.fn.pkg][x.Name] {
			return "var " + w.fn.pkg + "." + x.Name
		}
		t := w.env[x.Name]
		if t == "" {
			t = "?" + x.Name
		}
		return t
	case *ast.ParenExpr:
		return w.describe(x.X)
	case *ast.StarExpr:
		return "*" + w.describe(x.X)
	case *ast.IndexExpr:
		return w.describe(x.X) + "[]"
	case *ast.SliceExpr:
		return w.describe(x.X) + "[:]"
	case *ast.TypeAssertExpr:
		return typeName(w.fn.pkg, x.Type)
	case *ast.SelectorExpr:
		if id, ok := x.X.(*ast.Ident); ok {
			if _, local := w.env[id.Name]; !local && (id.Name == "syntax" || id.Name == "helpers") {
				return "var " + id.Name + "." + x.Sel.Name
			}
		}
		return w.describe(x.X) + "." + x.Sel.Name
	case *ast.CallExpr:
		t := w.exprType(x)
		if t == "" {
			t = "?"
		}
		return t
	}
	return "?"
}

// target inspects one assignment target.
func (w *writeScan) target(e ast.Expr) {
	// strip element/deref wrappers to find out what kind of lvalue this is
	base := e
	wrapped := false
	for {
		switch x := base.(type) {
		case *ast.ParenExpr:
			base = x.X
			continue
		case *ast.IndexExpr:
			base, wrapped = x.X, true
			continue
		case *ast.SliceExpr:
			base, wrapped = x.X, true
			continue
		case *ast.StarExpr:
			base, wrapped = x.X, true
			continue
		}
		break
	}
	switch b := base.(type) {
	case *ast.Ident:
		if b.Name == "_" {
			return
		}
		if _, local := w.env[b.Name]; !local && w.ix.pkgVars[w.fn.pkg][b.Name] {
			w.record(e)
			return
		}
		if wrapped {
			// *p = … through a pointer parameter or local: report pointer writes (their targets are
			// decided by the caller); element writes through a plain local slice/map are not tracked
			if _, isStar := stripParen(e).(*ast.StarExpr); isStar {
				w.record(e)
			}
		}
	case *ast.SelectorExpr, *ast.TypeAssertExpr, *ast.CallExpr:
		if id := rootIdent(base); id != nil && w.fresh[id.Name] {
			return // an object this function allocated itself
		}
		shared := false
		if sel, ok := base.(*ast.SelectorExpr); ok {
			// the write changes a field of the object sel.X denotes: is that object shared?
			bt, sh := w.chainType(sel.X)
			shared = sh || sharedTypes[bt]
			if wrapped {
				// … or an element / the pointee of what the field holds
				_, sh2 := w.chainType(base)
				shared = shared || sh2
			}
			if _, known := w.ix.structs[bt]; !known && !shared {
				// unresolved root: report if the field name also names a field of a shared struct
				for tn, on := range sharedTypes {
					if !on {
						continue
					}
					if si := w.ix.structs[tn]; si != nil {
						if _, has := si.ftype[sel.Sel.Name]; has {
							shared = true
						}
					}
				}
			}
		} else {
			_, shared = w.chainType(base)
		}
		if shared {
			w.record(e)
		}
	}
}

func isPointerType(e ast.Expr) bool {
	switch e.(type) {
	case *ast.StarExpr, *ast.MapType, *ast.ArrayType, *ast.InterfaceType, *ast.FuncType, *ast.ChanType:
		return true
	}
	return false
}

func stripParen(e ast.Expr) ast.Expr {
	for {
		p, ok := e.(*ast.ParenExpr)
		if !ok {
			return e
		}
		e = p.X
	}
}

func (w *writeScan) scan() {
	d := w.fn.decl
	w.bindFieldList(d.Recv)
	w.bindFieldList(d.Type.Params)
	w.bindFieldList(d.Type.Results)
	if d.Body == nil {
		return
	}
	ast.Inspect(d.Body, func(n ast.Node) bool {
		switch x := n.(type) {
		case *ast.FuncLit:
			w.bindFieldList(x.Type.Params)
		case *ast.DeclStmt:
			if gd, ok := x.Decl.(*ast.GenDecl); ok && gd.Tok == token.VAR {
				for _, sp := range gd.Specs {
					vs := sp.(*ast.ValueSpec)
					for i, n := range vs.Names {
						t := ""
						if vs.Type != nil {
							t = typeName(w.fn.pkg, vs.Type)
						} else if i < len(vs.Values) {
							t = w.exprType(vs.Values[i])
						}
						w.env[n.Name] = t
						if (i < len(vs.Values) && isFreshExpr(vs.Values[i])) || (len(vs.Values) == 0 && vs.Type != nil && !isPointerType(vs.Type)) {
							w.fresh[n.Name] = true
						}
					}
				}
			}
		case *ast.RangeStmt:
			if x.Tok == token.DEFINE {
				for _, e := range []ast.Expr{x.Key, x.Value} {
					if id, ok := e.(*ast.Ident); ok && id.Name != "_" {
						w.env[id.Name] = ""
					}
				}
			}
		case *ast.AssignStmt:
			if x.Tok == token.DEFINE {
				for i, l := range x.Lhs {
					id, ok := l.(*ast.Ident)
					if !ok || id.Name == "_" {
						continue
					}
					t := ""
					if len(x.Lhs) == len(x.Rhs) {
						t = w.exprType(x.Rhs[i])
					} else if len(x.Rhs) == 1 && i == 0 {
						t = w.exprType(x.Rhs[0])
					}
					if _, already := w.env[id.Name]; !already || t != "" {
						w.env[id.Name] = t
					}
					if len(x.Lhs) == len(x.Rhs) && isFreshExpr(x.Rhs[i]) {
						w.fresh[id.Name] = true
					}
				}
				return true
			}
			for i, l := range x.Lhs {
				if id, ok := l.(*ast.Ident); ok && w.fresh[id.Name] && !(len(x.Lhs) == len(x.Rhs) && isFreshExpr(x.Rhs[i])) {
					delete(w.fresh, id.Name) // re-pointed at something else
				}
				w.target(l)
			}
		case *ast.IncDecStmt:
			w.target(x.X)
		case *ast.Ident:
			// a function referred to by name (called or used as a value)
			if _, local := w.env[x.Name]; !local && w.calls != nil {
				w.calls[callRef{w.fn.pkg, "", x.Name}] = true
			}
		case *ast.SelectorExpr:
			if w.calls != nil {
				if id, ok := x.X.(*ast.Ident); ok {
					if _, local := w.env[id.Name]; !local && (id.Name == "syntax" || id.Name == "helpers") {
						w.calls[callRef{id.Name, "", x.Sel.Name}] = true
						return true
					}
				}
				t := w.exprType(x.X)
				if t == "" {
					t = "?"
				}
				w.calls[callRef{"", t, x.Sel.Name}] = true
			}
		case *ast.DeferStmt:
			// `defer mu.Unlock()` ends the region at function exit, not here
			if sel, ok := x.Call.Fun.(*ast.SelectorExpr); ok && (sel.Sel.Name == "Unlock" || sel.Sel.Name == "RUnlock") {
				return false
			}
		case *ast.CallExpr:
			if sel, ok := x.Fun.(*ast.SelectorExpr); ok && len(x.Args) == 0 {
				switch sel.Sel.Name {
				case "Lock", "RLock":
					w.locked = exprString(sel.X)
				case "Unlock", "RUnlock":
					w.locked = ""
				}
			}
			if id, ok := x.Fun.(*ast.Ident); ok && w.sites != nil {
				if _, local := w.env[id.Name]; !local {
					w.sites[id.Name] = append(w.sites[id.Name], w.locked)
				}
			}
			if id, ok := x.Fun.(*ast.Ident); ok && len(x.Args) > 0 {
				switch id.Name {
				case "delete", "clear":
					w.target(&ast.IndexExpr{X: x.Args[0]})
				case "copy":
					w.target(&ast.IndexExpr{X: x.Args[0]})
				}
			}
		}
		return true
	})
}

// fieldWriters: for the given struct, field -> functions (file:Recv.name) that assign the field itself
// (not its elements) through a root of that struct's type.
func fieldWriters(ix *srcIndex, qual string) map[string][]string {
	res := map[string]map[string]bool{}
	for _, fn := range ix.funcs {
		w := &writeScan{ix: ix, fn: fn, env: map[string]string{}, fresh: map[string]bool{}, out: map[[2]string]bool{}}
		d := fn.decl
		w.bindFieldList(d.Recv)
		w.bindFieldList(d.Type.Params)
		w.bindFieldList(d.Type.Results)
		if d.Body == nil {
			continue
		}
		note := func(e ast.Expr) {
			sel, ok := stripParen(e).(*ast.SelectorExpr)
			if !ok {
				return
			}
			bt := w.exprType(sel.X)
			if bt != qual {
				return
			}
			if res[sel.Sel.Name] == nil {
				res[sel.Sel.Name] = map[string]bool{}
			}
			res[sel.Sel.Name][fn.name()] = true
		}
		ast.Inspect(d.Body, func(n ast.Node) bool {
			switch x := n.(type) {
			case *ast.AssignStmt:
				if x.Tok == token.DEFINE {
					for i, l := range x.Lhs {
						if id, ok := l.(*ast.Ident); ok && len(x.Lhs) == len(x.Rhs) {
							if t := w.exprType(x.Rhs[i]); t != "" {
								w.env[id.Name] = t
							}
						}
					}
					return true
				}
				for _, l := range x.Lhs {
					note(l)
				}
			case *ast.IncDecStmt:
				note(x.X)
			case *ast.UnaryExpr:
				// &r.field handed to a helper that writes through it (doubleIntSlice(&r.runstack, &r.Runstackpos))
				if x.Op == token.AND {
					note(x.X)
				}
			}
			return true
		})
	}
	out := map[string][]string{}
	for f, m := range res {
		for fn := range m {
			out[f] = append(out[f], fn)
		}
		sort.Strings(out[f])
	}
	return out
}

// resetWrites: the ordered list of non-local assignment targets (fields of the receiver or of a
// parameter, elements) of a function.
func resetWrites(ix *srcIndex, file, recv, name string) ([]string, error) {
	for _, fn := range ix.funcs {
		if fn.file != file || fn.recv != recv || fn.decl.Name.Name != name {
			continue
		}
		var out []string
		ast.Inspect(fn.decl.Body, func(n ast.Node) bool {
			as, ok := n.(*ast.AssignStmt)
			if !ok || as.Tok == token.DEFINE {
				return true
			}
			for _, l := range as.Lhs {
				if _, plainLocal := l.(*ast.Ident); plainLocal {
					continue // assignments to local variables are not state
				}
				out = append(out, exprString(l))
			}
			return true
		})
		return out, nil
	}
	return nil, fmt.Errorf("func %s.%s not found in %s", recv, name, file)
}

func exprString(e ast.Expr) string {
	switch x := e.(type) {
	case *ast.Ident:
		return x.Name
	case *ast.SelectorExpr:
		return exprString(x.X) + "." + x.Sel.Name
	case *ast.IndexExpr:
		return exprString(x.X) + "[" + exprString(x.Index) + "]"
	case *ast.StarExpr:
		return "*" + exprString(x.X)
	case *ast.ParenExpr:
		return "(" + exprString(x.X) + ")"
	case *ast.BasicLit:
		return x.Value
	}
	return "?"
}

// matchTimeRoots: the entry points a goroutine can be inside while another goroutine uses the same
// Regexp (everything except compilation and registration).
var matchTimeRoots = map[string]bool{
	"Regexp.Replace": true, "Regexp.ReplaceFunc": true, "Regexp.FindStringMatch": true, "Regexp.FindRunesMatch": true,
	"Regexp.FindStringMatchStartingAt": true, "Regexp.FindRunesMatchStartingAt": true, "Regexp.FindAllStringIndex": true,
	"Regexp.FindAllRunesIndex": true, "Regexp.FindNextMatch": true, "Regexp.MatchString": true, "Regexp.MatchRunes": true,
	"Regexp.Split": true, "Regexp.String": true, "Regexp.RightToLeft": true, "Regexp.Debug": true, "Regexp.GetGroupNames": true,
	"Regexp.GetGroupNumbers": true, "Regexp.GroupNameFromNumber": true, "Regexp.GroupNumberFromName": true, "Regexp.MarshalText": true,
	"runClock": true,
}

// reachable estimates the functions reachable from the match-time roots (the listed Regexp methods,
// all methods of Match, Group, Capture, Runner, every function of stringprefixfilter.go because the
// filter is called through a function value, and the clock goroutine): an edge for every identifier
// that names a plain function of the same package, every pkg.F, and every x.m where m is a method
// of x's type -- or of any type when x's type cannot be resolved syntactically.
func reachable(ix *srcIndex, calls []map[callRef]bool) map[string]bool {
	seen := map[int]bool{}
	var todo []int
	for i, fn := range ix.funcs {
		key := fn.decl.Name.Name
		if fn.recv != "" {
			key = fn.recv + "." + key
		}
		if (fn.pkg == "regexp2" && (matchTimeRoots[key] || fn.recv == "Match" || fn.recv == "Group" || fn.recv == "Capture" || fn.recv == "Runner")) || fn.file == "stringprefixfilter.go" {
			seen[i] = true
			todo = append(todo, i)
		}
	}
	matches := func(c callRef, fn funcInfo) bool {
		if fn.decl.Name.Name != c.name {
			return false
		}
		switch c.recv {
		case "":
			return fn.recv == "" && fn.pkg == c.pkg
		case "?":
			return fn.recv != "" // unresolved receiver: any method of that name
		default:
			return fn.recv != "" && fn.pkg+"."+fn.recv == c.recv
		}
	}
	for len(todo) > 0 {
		i := todo[len(todo)-1]
		todo = todo[:len(todo)-1]
		for c := range calls[i] {
			for j, fn := range ix.funcs {
				if !seen[j] && matches(c, fn) {
					seen[j] = true
					todo = append(todo, j)
					if os.Getenv("RV_REACH_DEBUG") != "" {
						fmt.Fprintf(os.Stderr, "reach: %s <- %s (via %v)\n", fn.name(), ix.funcs[i].name(), c)
					}
				}
			}
		}
	}
	out := map[string]bool{}
	for i := range seen {
		out[ix.funcs[i].name()] = true
	}
	return out
}

func leanStrList(xs []string) string {
	q := make([]string, len(xs))
	for i, x := range xs {
		q[i] = strconv.Quote(x)
	}
	return "[" + strings.Join(q, ", ") + "]"
}

func poolSizes(s *Src, varName string) ([]int64, error) {
	f, err := s.file("bufferpool.go")
	if err != nil {
		return nil, err
	}
	for _, d := range f.Decls {
		gd, ok := d.(*ast.GenDecl)
		if !ok || gd.Tok != token.VAR {
			continue
		}
		for _, sp := range gd.Specs {
			vs := sp.(*ast.ValueSpec)
			for i, n := range vs.Names {
				if n.Name != varName || i >= len(vs.Values) {
					continue
				}
				call, ok := vs.Values[i].(*ast.CallExpr)
				if !ok {
					return nil, fmt.Errorf("%s is not initialised by a call", varName)
				}
				fun := call.Fun
				if ie, ok := fun.(*ast.IndexExpr); ok {
					fun = ie.X
				}
				if id, ok := fun.(*ast.Ident); !ok || id.Name != "newPooledSliceBuffers" {
					return nil, fmt.Errorf("%s is not initialised by newPooledSliceBuffers", varName)
				}
				var out []int64
				for _, a := range call.Args {
					v, ok := evalInt(a, map[string]int64{}, 0)
					if !ok {
						return nil, fmt.Errorf("%s: size argument is not a constant", varName)
					}
					out = append(out, v)
				}
				// newPooledSliceBuffers sorts its arguments
				sort.Slice(out, func(i, j int) bool { return out[i] < out[j] })
				return out, nil
			}
		}
	}
	return nil, fmt.Errorf("var %s not found in bufferpool.go", varName)
}

func init() {
	register("Fields", func(s *Src) (string, error) {
		ix := buildIndex(s)
		var b strings.Builder
		b.WriteString("namespace RegexVerif.Generated\n\n")
		for _, it := range []struct{ lean, qual string }{
			{"runnerFields", "regexp2.Runner"}, {"matchFields", "regexp2.Match"}, {"groupFields", "regexp2.Group"},
			{"captureFields", "regexp2.Capture"}, {"matchTextFields", "regexp2.matchText"}, {"regexpFields", "regexp2.Regexp"},
			{"replacerDataCacheFields", "regexp2.replacerDataCache"}, {"replacerDataCacheEntryFields", "regexp2.replacerDataCacheEntry"},
			{"pooledSliceBuffersFields", "regexp2.pooledSliceBuffers"}, {"fastclockFields", "regexp2.fastclock"},
			{"codeFields", "syntax.Code"}, {"charSetFields", "syntax.CharSet"},
		} {
			si, ok := ix.structs[it.qual]
			if !ok {
				return "", fmt.Errorf("struct %s not found", it.qual)
			}
			fmt.Fprintf(&b, "/-- fields of `%s` in declaration order -/\ndef %s : List String := %s\n\n", it.qual, it.lean, leanStrList(si.fields))
		}
		for _, v := range []struct{ lean, name string }{{"runePoolSizes", "pooledRuneBuffers"}, {"bytePoolSizes", "pooledByteBuffers"}} {
			sz, err := poolSizes(s, v.name)
			if err != nil {
				return "", err
			}
			fmt.Fprintf(&b, "/-- size classes of `%s` (sorted, as `newPooledSliceBuffers` does) -/\ndef %s : List Nat := %s\n\n", v.name, v.lean, leanNatList(sz))
		}
		// who assigns which Runner / Match field
		for _, v := range []struct{ lean, qual string }{{"runnerFieldWriters", "regexp2.Runner"}, {"matchFieldWriters", "regexp2.Match"}} {
			fw := fieldWriters(ix, v.qual)
			fmt.Fprintf(&b, "/-- for every field of `%s` that is assigned anywhere (or whose address is taken): the functions doing so -/\ndef %s : List (String × List String) := [\n", v.qual, v.lean)
			si := ix.structs[v.qual]
			first := true
			order := append([]string{}, si.fields...)
			var promoted []string
			for f := range fw {
				if _, own := si.ftype[f]; !own {
					promoted = append(promoted, f) // fields of embedded structs written through this type
				}
			}
			sort.Strings(promoted)
			for _, f := range append(order, promoted...) {
				if len(fw[f]) == 0 {
					continue
				}
				if !first {
					b.WriteString(",\n")
				}
				first = false
				fmt.Fprintf(&b, "  (%s, %s)", strconv.Quote(f), leanStrList(fw[f]))
			}
			b.WriteString("]\n\n")
		}
		for _, v := range []struct{ lean, file, recv, name string }{
			{"matchResetWrites", "match.go", "Match", "reset"},
			{"putRunnerWrites", "runner.go", "Regexp", "putRunner"},
			{"initMatchWrites", "runner.go", "Runner", "initMatch"},
			{"scanWrites", "runner.go", "Runner", "scan"},
		} {
			ws, err := resetWrites(ix, v.file, v.recv, v.name)
			if err != nil {
				return "", err
			}
			fmt.Fprintf(&b, "/-- assignment targets of `%s.%s` (%s) in source order -/\ndef %s : List String := %s\n\n", v.recv, v.name, v.file, v.lean, leanStrList(ws))
		}
		// who calls initCaches (the lazy call in getRunner must be dead for compiled Regexps)
		var initCallers []string
		for _, fn := range ix.funcs {
			if fn.decl.Body == nil {
				continue
			}
			found := false
			ast.Inspect(fn.decl.Body, func(n ast.Node) bool {
				if c, ok := n.(*ast.CallExpr); ok {
					if sel, ok := c.Fun.(*ast.SelectorExpr); ok && sel.Sel.Name == "initCaches" {
						found = true
					}
				}
				return true
			})
			if found {
				initCallers = append(initCallers, fn.name())
			}
		}
		sort.Strings(initCallers)
		fmt.Fprintf(&b, "/-- functions that call `initCaches` -/\ndef initCachesCallers : List String := %s\n\n", leanStrList(initCallers))
		// shared write-set
		all := map[[2]string]bool{}
		evid := map[[2]string][2]string{}
		sites := map[string][]string{}
		calls := make([]map[callRef]bool, len(ix.funcs))
		for i, fn := range ix.funcs {
			calls[i] = map[callRef]bool{}
			w := &writeScan{ix: ix, fn: fn, env: map[string]string{}, fresh: map[string]bool{}, out: all, calls: calls[i], ev: evid, sites: sites}
			w.scan()
		}
		// a plain function all of whose call sites lie inside a Lock region of one and the same mutex
		// runs with that mutex held by its caller
		for k, e := range evid {
			if e[0] != "plain" {
				continue
			}
			name := k[0][strings.Index(k[0], ":")+1:]
			if strings.Contains(name, ".") {
				continue // a method: call sites are not resolved
			}
			ss := sites[name]
			held := len(ss) > 0
			for _, m := range ss {
				if m == "" || m != ss[0] {
					held = false
				}
			}
			if held {
				evid[k] = [2]string{"callerlock", ss[0]}
			}
		}
		keys := make([][2]string, 0, len(all))
		for k := range all {
			keys = append(keys, k)
		}
		sort.Slice(keys, func(i, j int) bool {
			if keys[i][0] != keys[j][0] {
				return keys[i][0] < keys[j][0]
			}
			return keys[i][1] < keys[j][1]
		})
		reach := reachable(ix, calls)
		b.WriteString("/-- every assignment whose target lies in an object shared between goroutines: (function, target,\n    whether the function is reachable (by name) from a match-time entry point) -/\ndef sharedWrites : List (String × String × Bool) := [\n")
		for i, k := range keys {
			if i > 0 {
				b.WriteString(",\n")
			}
			fmt.Fprintf(&b, "  (%s, %s, %v)", strconv.Quote(k[0]), strconv.Quote(k[1]), reach[k[0]])
		}
		b.WriteString("]\n\n")
		b.WriteString("/-- for every entry of `sharedWrites`, in the same order: (function, target, kind, mutex) -- the syntactic\n    evidence of how the write is synchronised: `lock` = lexically inside `mutex.Lock()`…`Unlock()` of the function\n    (every occurrence, one mutex), `callerlock` = a plain function whose call sites all lie inside such a region,\n    `deref` = a store through a pointer (`*p = …`), `plain` = none of these -/\ndef sharedWriteSync : List (String × String × String × String) := [\n")
		for i, k := range keys {
			if i > 0 {
				b.WriteString(",\n")
			}
			e := evid[k]
			fmt.Fprintf(&b, "  (%s, %s, %s, %s)", strconv.Quote(k[0]), strconv.Quote(k[1]), strconv.Quote(e[0]), strconv.Quote(e[1]))
		}
		b.WriteString("]\n\nend RegexVerif.Generated\n")
		return b.String(), nil
	})
}
