package extract

import (
	"fmt"
	"go/ast"
	"go/token"
)

// stackConsts: the sizing of the grouping stack (runstack) and of the crawl stack (runcrawl) in runner.go —
// initMatch's first allocation, the single doubling in ensureStorage / ensureStack, doubleIntSlice, and the
// check at every push in crawl.  Written into Generated/Opcodes.lean next to the backtracking-stack constants.
type stackConsts struct {
	allocF, allocM int64 // stacksize := runtrackcount*allocF; floor allocM
	crawl          int64 // make([]int, crawl)
	ensF           int64 // ensureStorage: if Runstackpos < runtrackcount*ensF { double }
	ensStackF      int64 // ensureStack(plus): if Runstackpos-plus < runtrackcount*ensStackF { double }
	dbl            int64 // doubleIntSlice: make([]int, oldLen*dbl)
	crawlCheck     bool  // crawl: `if runcrawlpos == 0 { double }` precedes the push
}

func stackConstants(s *Src) (sc stackConsts, err error) {
	isR := func(e ast.Expr, field string) bool {
		se, ok := e.(*ast.SelectorExpr)
		if !ok {
			return false
		}
		id, ok := se.X.(*ast.Ident)
		return ok && id.Name == "r" && se.Sel.Name == field
	}
	timesCount := func(e ast.Expr) (int64, bool) {
		be, ok := e.(*ast.BinaryExpr)
		if !ok || be.Op != token.MUL || !isR(be.X, "runtrackcount") {
			return 0, false
		}
		return evalInt(be.Y, nil, 0)
	}
	// doubleIntSlice(&r.<slice>, &r.<pos>)
	isDouble := func(st ast.Stmt, slice, pos string) bool {
		es, ok := st.(*ast.ExprStmt)
		if !ok {
			return false
		}
		ce, ok := es.X.(*ast.CallExpr)
		if !ok || len(ce.Args) != 2 {
			return false
		}
		if id, ok := ce.Fun.(*ast.Ident); !ok || id.Name != "doubleIntSlice" {
			return false
		}
		a, ok1 := ce.Args[0].(*ast.UnaryExpr)
		b, ok2 := ce.Args[1].(*ast.UnaryExpr)
		return ok1 && ok2 && a.Op == token.AND && b.Op == token.AND && isR(a.X, slice) && isR(b.X, pos)
	}

	// ---- initMatch
	fd, err := s.funcDecl("runner.go", "Runner", "initMatch")
	if err != nil {
		return
	}
	gotF, gotM, gotMake, gotCrawl, gotCrawlPos := false, false, false, false, false
	stackAssigns := 0
	ast.Inspect(fd.Body, func(n ast.Node) bool {
		switch x := n.(type) {
		case *ast.AssignStmt:
			if len(x.Lhs) != 1 || len(x.Rhs) != 1 {
				return true
			}
			if id, ok := x.Lhs[0].(*ast.Ident); ok && id.Name == "stacksize" {
				stackAssigns++
				if x.Tok == token.DEFINE {
					if k, ok := timesCount(x.Rhs[0]); ok {
						sc.allocF, gotF = k, true
					}
				}
			}
			if ce, ok := x.Rhs[0].(*ast.CallExpr); ok && len(ce.Args) == 2 {
				if id, ok := ce.Fun.(*ast.Ident); ok && id.Name == "make" {
					if isR(x.Lhs[0], "runstack") {
						if a, ok := ce.Args[1].(*ast.Ident); ok && a.Name == "stacksize" {
							gotMake = true
						}
					}
					if isR(x.Lhs[0], "runcrawl") {
						if v, ok := evalInt(ce.Args[1], nil, 0); ok {
							sc.crawl, gotCrawl = v, true
						}
					}
				}
			}
			if isR(x.Lhs[0], "runcrawlpos") {
				if v, ok := evalInt(x.Rhs[0], nil, 0); ok && gotCrawl && v == sc.crawl {
					gotCrawlPos = true
				}
			}
		case *ast.IfStmt:
			if be, ok := x.Cond.(*ast.BinaryExpr); ok && be.Op == token.LSS {
				if id, ok := be.X.(*ast.Ident); ok && id.Name == "stacksize" && len(x.Body.List) == 1 && x.Else == nil {
					if as, ok := x.Body.List[0].(*ast.AssignStmt); ok && len(as.Rhs) == 1 {
						a, ok1 := evalInt(be.Y, nil, 0)
						b, ok2 := evalInt(as.Rhs[0], nil, 0)
						if ok1 && ok2 && a == b {
							sc.allocM, gotM = a, true
						}
					}
				}
			}
		}
		return true
	})
	if !gotF || !gotM || !gotMake || !gotCrawl || !gotCrawlPos || stackAssigns != 2 {
		err = fmt.Errorf("initMatch: `stacksize := r.runtrackcount * K; if stacksize < M { stacksize = M }; r.runstack = make([]int, stacksize); r.runcrawl = make([]int, C); r.runcrawlpos = C` not found in that shape (stacksize assigned %d times)", stackAssigns)
		return
	}

	// ---- ensureStorage: exactly one `if r.Runstackpos < r.runtrackcount*K { doubleIntSlice(&r.runstack, &r.Runstackpos) }`
	fd, err = s.funcDecl("runner.go", "Runner", "ensureStorage")
	if err != nil {
		return
	}
	found, mentions := 0, 0
	ast.Inspect(fd.Body, func(n ast.Node) bool {
		if se, ok := n.(*ast.SelectorExpr); ok && isR(se, "Runstackpos") {
			mentions++
		}
		if is, ok := n.(*ast.IfStmt); ok && is.Init == nil && is.Else == nil {
			if be, ok := is.Cond.(*ast.BinaryExpr); ok && be.Op == token.LSS && isR(be.X, "Runstackpos") {
				if k, ok := timesCount(be.Y); ok && len(is.Body.List) == 1 && isDouble(is.Body.List[0], "runstack", "Runstackpos") {
					sc.ensF = k
					found++
				}
			}
		}
		return true
	})
	// the field is mentioned twice: in the condition and in the call
	if found != 1 || mentions != 2 {
		err = fmt.Errorf("ensureStorage: expected exactly `if r.Runstackpos < r.runtrackcount*K { doubleIntSlice(&r.runstack, &r.Runstackpos) }` (found %d, %d mentions of Runstackpos)", found, mentions)
		return
	}

	// ---- ensureStack(plus)
	fd, err = s.funcDecl("runner.go", "Runner", "ensureStack")
	if err != nil {
		return
	}
	found = 0
	if len(fd.Body.List) == 1 {
		if is, ok := fd.Body.List[0].(*ast.IfStmt); ok && is.Init == nil && is.Else == nil {
			if be, ok := is.Cond.(*ast.BinaryExpr); ok && be.Op == token.LSS {
				if sub, ok := be.X.(*ast.BinaryExpr); ok && sub.Op == token.SUB && isR(sub.X, "Runstackpos") {
					if id, ok := sub.Y.(*ast.Ident); ok && id.Name == "plus" {
						if k, ok := timesCount(be.Y); ok && len(is.Body.List) == 1 && isDouble(is.Body.List[0], "runstack", "Runstackpos") {
							sc.ensStackF = k
							found++
						}
					}
				}
			}
		}
	}
	if found != 1 {
		err = fmt.Errorf("ensureStack: body is not `if r.Runstackpos-plus < r.runtrackcount*K { doubleIntSlice(&r.runstack, &r.Runstackpos) }`")
		return
	}

	// ---- doubleIntSlice(s *[]int, pos *int)
	fd, err = s.funcDecl("runner.go", "", "doubleIntSlice")
	if err != nil {
		return
	}
	gotLen, gotMk, gotCopy, gotPos, gotSet := false, false, false, false, false
	isStar := func(e ast.Expr, name string) bool {
		st, ok := e.(*ast.StarExpr)
		if !ok {
			return false
		}
		id, ok := st.X.(*ast.Ident)
		return ok && id.Name == name
	}
	for _, st := range fd.Body.List {
		switch x := st.(type) {
		case *ast.AssignStmt:
			if len(x.Lhs) != 1 || len(x.Rhs) != 1 {
				continue
			}
			if id, ok := x.Lhs[0].(*ast.Ident); ok && x.Tok == token.DEFINE {
				switch id.Name {
				case "oldLen": // oldLen := len(*s)
					if ce, ok := x.Rhs[0].(*ast.CallExpr); ok && len(ce.Args) == 1 && isStar(ce.Args[0], "s") {
						if f, ok := ce.Fun.(*ast.Ident); ok && f.Name == "len" {
							gotLen = true
						}
					}
				case "newS": // newS := make([]int, oldLen*F)
					if ce, ok := x.Rhs[0].(*ast.CallExpr); ok && len(ce.Args) == 2 {
						if f, ok := ce.Fun.(*ast.Ident); ok && f.Name == "make" {
							if be, ok := ce.Args[1].(*ast.BinaryExpr); ok && be.Op == token.MUL {
								if a, ok := be.X.(*ast.Ident); ok && a.Name == "oldLen" {
									if k, ok := evalInt(be.Y, nil, 0); ok {
										sc.dbl, gotMk = k, true
									}
								}
							}
						}
					}
				}
			}
			if isStar(x.Lhs[0], "pos") && x.Tok == token.ADD_ASSIGN {
				if a, ok := x.Rhs[0].(*ast.Ident); ok && a.Name == "oldLen" {
					gotPos = true
				}
			}
			if isStar(x.Lhs[0], "s") && x.Tok == token.ASSIGN {
				if a, ok := x.Rhs[0].(*ast.Ident); ok && a.Name == "newS" {
					gotSet = true
				}
			}
		case *ast.ExprStmt: // copy(newS[oldLen:], *s)
			if ce, ok := x.X.(*ast.CallExpr); ok && len(ce.Args) == 2 && isStar(ce.Args[1], "s") {
				if f, ok := ce.Fun.(*ast.Ident); ok && f.Name == "copy" {
					if sl, ok := ce.Args[0].(*ast.SliceExpr); ok && sl.High == nil {
						if a, ok := sl.X.(*ast.Ident); ok && a.Name == "newS" {
							if l, ok := sl.Low.(*ast.Ident); ok && l.Name == "oldLen" {
								gotCopy = true
							}
						}
					}
				}
			}
		}
	}
	if !gotLen || !gotMk || !gotCopy || !gotPos || !gotSet || len(fd.Body.List) != 5 {
		err = fmt.Errorf("doubleIntSlice: not `oldLen := len(*s); newS := make([]int, oldLen*F); copy(newS[oldLen:], *s); *pos += oldLen; *s = newS`")
		return
	}

	// ---- crawl(i): if r.runcrawlpos == 0 { double }; r.runcrawlpos--; r.runcrawl[r.runcrawlpos] = i
	fd, err = s.funcDecl("runner.go", "Runner", "crawl")
	if err != nil {
		return
	}
	if len(fd.Body.List) == 3 {
		ok1, ok2, ok3 := false, false, false
		if is, ok := fd.Body.List[0].(*ast.IfStmt); ok && is.Init == nil && is.Else == nil {
			if be, ok := is.Cond.(*ast.BinaryExpr); ok && be.Op == token.EQL && isR(be.X, "runcrawlpos") {
				if v, ok := evalInt(be.Y, nil, 0); ok && v == 0 && len(is.Body.List) == 1 && isDouble(is.Body.List[0], "runcrawl", "runcrawlpos") {
					ok1 = true
				}
			}
		}
		if ids, ok := fd.Body.List[1].(*ast.IncDecStmt); ok && ids.Tok == token.DEC && isR(ids.X, "runcrawlpos") {
			ok2 = true
		}
		if as, ok := fd.Body.List[2].(*ast.AssignStmt); ok && len(as.Lhs) == 1 {
			if ix, ok := as.Lhs[0].(*ast.IndexExpr); ok && isR(ix.X, "runcrawl") && isR(ix.Index, "runcrawlpos") {
				ok3 = true
			}
		}
		sc.crawlCheck = ok1 && ok2 && ok3
	}
	if !sc.crawlCheck {
		err = fmt.Errorf("crawl: not `if r.runcrawlpos == 0 { doubleIntSlice(&r.runcrawl, &r.runcrawlpos) }; r.runcrawlpos--; r.runcrawl[r.runcrawlpos] = i`")
		return
	}
	return
}
