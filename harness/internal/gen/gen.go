package gen

import (
	"math/rand"
)

// Config steers random AST generation.
type Config struct {
	MaxDepth int
	Opts     Opts
	// feature switches
	Backrefs, Lookaround, Atomic, Conditionals, Named, Anchors, LazyQuant bool
	// AllowNullableQuant lifts the C01 fragment restriction (used by the C02/C07-style generators)
	AllowNullableQuant bool
	// Balancing groups and Unicode category classes: full-syntax generators only
	Balancing, UnicodeCats bool
	Alphabet           []rune
}

// DefaultAlphabet: ASCII letters forming plain case pairs (no k/s: their fold orbits have three
// members), a digit, space, punctuation, newline, Latin-1/Greek/Cyrillic pairs, a combining mark and an
// astral rune.
var DefaultAlphabet = []rune{'a', 'b', 'c', 'A', 'B', 'x', 'y', '1', ' ', '-', '_', '\n', 'é', 'É', 'α', 'Α', 'я', 'Я', 0x301, 0x1F600, 0x1F601}

type state struct {
	rng   *rand.Rand
	cfg   Config
	names int
	// caps created so far in generation order (pre-order), used to pick back-reference targets that
	// exist; numbering is assigned afterwards.
	caps []*Node
}

func (s *state) lit() *Node {
	a := s.cfg.Alphabet
	// bias to the first letters so that patterns overlap with inputs
	r := a[s.rng.Intn(len(a))]
	if s.rng.Intn(2) == 0 {
		r = a[s.rng.Intn(5)]
	}
	return &Node{Kind: KLit, Ch: r}
}

func (s *state) class() *Class {
	c := &Class{Neg: s.rng.Intn(4) == 0}
	n := 1 + s.rng.Intn(3)
	for i := 0; i < n; i++ {
		switch s.rng.Intn(8) {
		case 0:
			c.Items = append(c.Items, ClassItem{Lo: 'a', Hi: 'c'})
		case 1:
			c.Items = append(c.Items, ClassItem{Lo: 'A', Hi: 'B'})
		case 2:
			c.Items = append(c.Items, ClassItem{Lo: '0', Hi: '9'})
		case 3:
			c.Items = append(c.Items, ClassItem{Short: "dwsDWS"[s.rng.Intn(6)]})
		case 4:
			if s.cfg.UnicodeCats && s.rng.Intn(2) == 0 {
				cats := []string{"L", "Lu", "Ll", "Nd", "P", "IsGreek", "Mn"}
				c.Items = append(c.Items, ClassItem{Cat: cats[s.rng.Intn(len(cats))], CatNeg: s.rng.Intn(4) == 0})
			} else {
				c.Items = append(c.Items, ClassItem{Lo: 'x', Hi: 'y'})
			}
		default:
			r := s.cfg.Alphabet[s.rng.Intn(len(s.cfg.Alphabet))]
			c.Items = append(c.Items, ClassItem{Lo: r, Hi: r})
		}
	}
	if s.rng.Intn(10) == 0 {
		sub := &Class{}
		r := s.cfg.Alphabet[s.rng.Intn(5)]
		sub.Items = []ClassItem{{Lo: r, Hi: r}}
		c.Sub = sub
	}
	return c
}

func (s *state) single() *Node {
	switch s.rng.Intn(10) {
	case 0, 1:
		return &Node{Kind: KClass, Class: s.class()}
	case 2:
		return &Node{Kind: KDot}
	case 3:
		return &Node{Kind: KShort, Short: "dwsDWS"[s.rng.Intn(6)]}
	default:
		return s.lit()
	}
}

func (s *state) anchor() *Node {
	as := []string{"^", "$", "A", "Z", "z", "b", "B", "G"}
	return &Node{Kind: KAnchor, Anchor: as[s.rng.Intn(len(as))]}
}

// nonNullable returns a node that consumes at least one rune and is not reducible to a bare quantifier.
func (s *state) quantBody(depth int) *Node {
	for tries := 0; tries < 20; tries++ {
		var b *Node
		switch s.rng.Intn(6) {
		case 0, 1, 2:
			b = s.single()
		case 3:
			b = &Node{Kind: KGroup, Subs: []*Node{s.seqOf(depth-1, 2+s.rng.Intn(2))}}
		case 4:
			b = s.capture(depth - 1)
		default:
			b = &Node{Kind: KGroup, Subs: []*Node{s.altOf(depth - 1)}}
		}
		if s.cfg.AllowNullableQuant || (!b.Nullable() && !b.ReducesToQuant()) {
			return b
		}
	}
	return s.lit()
}

func (s *state) capture(depth int) *Node {
	c := &Node{Kind: KCap, Style: s.rng.Intn(6)}
	if s.cfg.Named && s.rng.Intn(3) == 0 {
		s.names++
		c.Name = string(rune('m'+s.names%10)) + string(rune('a'+s.names/10%26))
	}
	s.caps = append(s.caps, c)
	c.Subs = []*Node{s.node(depth)}
	return c
}

func (s *state) seqOf(depth, n int) *Node {
	q := &Node{Kind: KSeq, Style: s.rng.Intn(5)}
	for i := 0; i < n; i++ {
		q.Subs = append(q.Subs, s.node(depth))
	}
	return q
}

func (s *state) altOf(depth int) *Node {
	a := &Node{Kind: KAlt}
	n := 2 + s.rng.Intn(2)
	for i := 0; i < n; i++ {
		if s.rng.Intn(12) == 0 {
			a.Subs = append(a.Subs, &Node{Kind: KEmpty})
		} else {
			a.Subs = append(a.Subs, s.node(depth))
		}
	}
	return a
}

func (s *state) quant(depth int) *Node {
	q := &Node{Kind: KQuant, Style: s.rng.Intn(6)}
	q.Lazy = s.cfg.LazyQuant && s.rng.Intn(3) == 0
	switch s.rng.Intn(8) {
	case 0, 1:
		q.Lo, q.Hi = 0, -1
	case 2, 3:
		q.Lo, q.Hi = 1, -1
	case 4:
		q.Lo, q.Hi = 0, 1
	case 5:
		q.Lo = s.rng.Intn(3)
		q.Hi = q.Lo + s.rng.Intn(3)
		if q.Hi == 0 {
			q.Hi = 1
		}
	case 6:
		q.Lo = 2
		q.Hi = -1
	default:
		q.Lo = 1 + s.rng.Intn(2)
		q.Hi = q.Lo
	}
	q.Subs = []*Node{s.quantBody(depth)}
	return q
}

func (s *state) node(depth int) *Node {
	if depth <= 0 {
		if s.cfg.Anchors && s.rng.Intn(8) == 0 {
			return s.anchor()
		}
		return s.single()
	}
	for {
		switch s.rng.Intn(16) {
		case 0, 1, 2:
			return s.single()
		case 3, 4:
			return s.seqOf(depth-1, 2+s.rng.Intn(3))
		case 5:
			return s.altOf(depth - 1)
		case 6, 7, 8:
			return s.quant(depth)
		case 9:
			return s.capture(depth - 1)
		case 10:
			if s.cfg.Anchors {
				return s.anchor()
			}
		case 11:
			if s.cfg.Lookaround {
				return &Node{Kind: KLook, Behind: s.rng.Intn(2) == 0, Neg: s.rng.Intn(3) == 0, Subs: []*Node{s.node(depth - 1)}}
			}
		case 12:
			if s.cfg.Atomic {
				return &Node{Kind: KAtomic, Subs: []*Node{s.node(depth - 1)}}
			}
		case 13:
			if s.cfg.Backrefs && len(s.caps) > 0 {
				return &Node{Kind: KRef, Style: s.rng.Intn(4), Subs: nil, Group: -1 - s.rng.Intn(len(s.caps))}
			}
		case 14:
			if s.cfg.Conditionals {
				if len(s.caps) > 0 && s.rng.Intn(2) == 0 {
					return &Node{Kind: KCondRef, Group: -1 - s.rng.Intn(len(s.caps)), Subs: []*Node{s.node(depth - 1), s.node(depth - 1)}}
				}
				ce := &Node{Kind: KCondExpr, Subs: []*Node{s.node(depth - 1), s.node(depth - 1), s.node(depth - 1)}}
				if s.rng.Intn(3) == 0 {
					// a lookaround written directly as the condition, (?(?=x)yes|no), followed by a capture
					ce.Subs[0] = &Node{Kind: KLook, Behind: s.rng.Intn(3) == 0, Neg: s.rng.Intn(3) == 0, Subs: []*Node{ce.Subs[0]}}
					ce.Style = 1
				}
				return ce
			}
		default:
			if s.cfg.Balancing && s.rng.Intn(3) == 0 {
				// balancing group on an earlier named group
				var named []*Node
				for _, c := range s.caps {
					if c.Name != "" {
						named = append(named, c)
					}
				}
				if len(named) > 0 {
					g := named[s.rng.Intn(len(named))]
					b := &Node{Kind: KBalance, RefName: g.Name, Subs: []*Node{s.node(depth - 1)}}
					if s.rng.Intn(2) == 0 {
						b.Name = named[s.rng.Intn(len(named))].Name
					}
					return b
				}
			}
			if s.cfg.UnicodeCats && s.rng.Intn(3) == 0 {
				cats := []string{"L", "Lu", "Ll", "Nd", "P", "IsGreek", "IsCyrillic", "Mn", "S", "Zs"}
				return &Node{Kind: KCat, Name: cats[s.rng.Intn(len(cats))], Neg: s.rng.Intn(4) == 0}
			}
			return &Node{Kind: KGroup, Subs: []*Node{s.node(depth - 1)}}
		}
	}
}

// Random generates an AST; back-reference targets are resolved to the final group numbers (a
// reference to a parenthesis that does not capture under ExplicitCapture is replaced by a literal).
func Random(rng *rand.Rand, cfg Config) *Node {
	if len(cfg.Alphabet) == 0 {
		cfg.Alphabet = DefaultAlphabet
	}
	s := &state{rng: rng, cfg: cfg}
	root := s.node(cfg.MaxDepth)
	if root.Kind == KAlt || rng.Intn(3) == 0 {
		// a few more top-level shapes
		root = &Node{Kind: KSeq, Subs: []*Node{root, s.node(cfg.MaxDepth - 1)}}
	}
	// Resolve reference targets now that the structure is final. A reference whose target
	// parenthesis is not in the tree (it belonged to a discarded candidate) or does not capture in
	// this configuration is replaced (by a literal / by its first branch); replacing can drop
	// further groups, so repeat until stable, then number the groups and fill the numbers in.
	caps := s.caps
	for changed := true; changed; {
		changed = false
		AssignGroups(root, cfg.Opts)
		inTree := map[*Node]bool{}
		root.Walk(func(n *Node) { inTree[n] = true })
		root.WalkPost(func(n *Node) {
			if (n.Kind == KRef || n.Kind == KCondRef) && n.Group < 0 {
				target := caps[-1-n.Group]
				if !inTree[target] || target.Group == 0 {
					if n.Kind == KRef {
						*n = Node{Kind: KLit, Ch: 'a'}
					} else {
						// move the first branch up (keep pointer identity of its children)
						sub := n.Subs[0]
						if sub.Kind == KCap {
							*n = Node{Kind: KGroup, Subs: []*Node{sub}}
						} else {
							*n = *sub
						}
					}
					changed = true
				}
			}
		})
	}
	AvoidKnownFindings(root)
	root.Walk(func(n *Node) {
		if (n.Kind == KRef || n.Kind == KCondRef) && n.Group < 0 {
			target := caps[-1-n.Group]
			n.Group = target.Group
			if target.Name != "" && n.Style%2 == 1 {
				n.Name = target.Name
			}
		}
	})
	return root
}

// AvoidKnownFindings rewrites the one shape behind the carried finding KF2 (known_findings.json):
// a loop with a positive minimum over a non-word literal or over \W / \D / [^\w] / [^\d] that the
// engine makes atomic in front of \B. If the pattern has such a loop, every \B becomes \b.
func AvoidKnownFindings(root *Node) {
	risky := false
	root.Walk(func(n *Node) {
		// (any minimum: the reducer coalesces adjacent loops and literals, e.g. ` {0,2}  *` into ` +`)
		if n.Kind != KQuant {
			return
		}
		b := n.Subs[0]
		for b.Kind == KGroup || b.Kind == KCap || b.Kind == KAtomic {
			b = b.Subs[0]
		}
		switch b.Kind {
		case KLit:
			if !NamedMember(NWordU, b.Ch) {
				risky = true
			}
		case KShort:
			if b.Short == 'W' || b.Short == 'D' {
				risky = true
			}
		case KClass:
			c := b.Class
			if c.Sub == nil && len(c.Items) == 1 && c.Items[0].Short != 0 {
				sh := c.Items[0].Short
				if (!c.Neg && (sh == 'W' || sh == 'D')) || (c.Neg && (sh == 'w' || sh == 'd')) {
					risky = true
				}
			}
			if c.Sub == nil && len(c.Items) == 1 && c.Items[0].Short == 0 && c.Items[0].Lo == c.Items[0].Hi && !c.Neg && !NamedMember(NWordU, c.Items[0].Lo) {
				risky = true // singleton class reduces to a literal
			}
		}
	})
	if !risky {
		return
	}
	root.Walk(func(n *Node) {
		if n.Kind == KAnchor && n.Anchor == "B" {
			n.Anchor = "b"
		}
	})
}
