// Package gen holds the pattern AST shared by the legs: random generation inside the C01 fragment,
// printing to regexp2 syntax, export to the Lean specification's S-expression form, oracle rows
// taken from Go's standard unicode tables, and input generation.
package gen

import (
	"fmt"
	"sort"
	"strings"
	"unicode"
)

type Kind int

const (
	KEmpty Kind = iota
	KLit        // one literal rune
	KClass      // [...] class
	KDot        // .
	KShort      // \d \w \s \D \W \S outside a class
	KAnchor     // ^ $ \A \Z \z \b \B \G
	KSeq
	KAlt
	KQuant
	KGroup // (?: )
	KCap   // ( ) or (?<name> )
	KLook
	KAtomic
	KRef
	KCondRef
	KCondExpr
	KBalance // (?<h-g>…) / (?<-g>…): full-syntax generators only (not part of the Lean specification)
	KCat     // \p{..} / \P{..} outside a class: full-syntax generators only
)

// Options of a case (compile-time regex options relevant to the meaning of the AST).
type Opts struct {
	I, M, S, N, X, RE2, RTL bool
}

func (o Opts) String() string {
	s := ""
	for _, p := range []struct {
		b bool
		c string
	}{{o.I, "i"}, {o.M, "m"}, {o.S, "s"}, {o.N, "n"}, {o.X, "x"}, {o.RE2, "R"}, {o.RTL, "r"}} {
		if p.b {
			s += p.c
		}
	}
	if s == "" {
		return "-"
	}
	return s
}

// ClassItem is a range (Lo..Hi) or a shorthand class (Short != 0: one of d w s D W S).
type ClassItem struct {
	Lo, Hi rune
	Short  byte
	Cat    string // Unicode category/script name for \p{..} (full-syntax generators only); CatNeg: \P{..}
	CatNeg bool
}

type Class struct {
	Neg   bool
	Items []ClassItem
	Sub   *Class
}

type Node struct {
	Kind   Kind
	Ch     rune   // KLit
	Class  *Class // KClass
	Short  byte   // KShort
	Anchor string // KAnchor: one of ^ $ A Z z b B G
	Subs   []*Node
	Lazy   bool // KQuant
	Lo, Hi int  // KQuant; Hi < 0 = unbounded
	Style  int  // print style variations
	Group  int    // KCap: group number (0 = not capturing under ExplicitCapture); KRef/KCondRef: referenced number
	Name   string // KCap: name ("" = unnamed); KRef: by name when non-empty
	Behind bool   // KLook
	Neg    bool   // KLook; KCat: \P
	RefName string // KBalance: the group that is popped
}

// ---------------------------------------------------------------------------------------------
// syntactic predicates of the fragment

// Nullable: may match the empty string (conservative, syntactic).
func (n *Node) Nullable() bool {
	switch n.Kind {
	case KEmpty, KAnchor, KLook, KRef:
		return true
	case KLit, KClass, KDot, KShort:
		return false
	case KSeq:
		for _, s := range n.Subs {
			if !s.Nullable() {
				return false
			}
		}
		return true
	case KAlt:
		for _, s := range n.Subs {
			if s.Nullable() {
				return true
			}
		}
		return false
	case KQuant:
		return n.Lo == 0 || n.Subs[0].Nullable()
	case KGroup, KCap, KAtomic, KBalance:
		return n.Subs[0].Nullable()
	case KCat:
		return false
	case KCondRef:
		return n.Subs[0].Nullable() || n.Subs[1].Nullable()
	case KCondExpr:
		return n.Subs[1].Nullable() || n.Subs[2].Nullable()
	}
	return true
}

// ReducesToQuant: after the engine strips non-capturing groups (and atomic wrappers, which fuse
// with single-character loops) the node is itself a quantified item — .NET-style engines multiply
// such directly nested repeaters, so the fragment excludes them as quantifier bodies.
func (n *Node) ReducesToQuant() bool {
	switch n.Kind {
	case KQuant:
		return true
	case KGroup, KAtomic:
		return n.Subs[0].ReducesToQuant()
	case KCap:
		// an unnamed parenthesis under ExplicitCapture is a plain group
		if n.Group == 0 && n.Name == "" {
			return n.Subs[0].ReducesToQuant()
		}
	case KSeq, KAlt:
		if len(n.Subs) == 1 {
			return n.Subs[0].ReducesToQuant()
		}
	}
	return false
}

// InFragment checks the C01 fragment conditions on every quantified sub-pattern.
func (n *Node) InFragment() bool {
	if n.Kind == KQuant {
		b := n.Subs[0]
		if b.Nullable() || b.ReducesToQuant() {
			return false
		}
	}
	for _, s := range n.Subs {
		if !s.InFragment() {
			return false
		}
	}
	return true
}

func (n *Node) Walk(f func(*Node)) {
	f(n)
	for _, s := range n.Subs {
		s.Walk(f)
	}
}

// WalkPost visits children before the node (so a node may be replaced by one of its children).
func (n *Node) WalkPost(f func(*Node)) {
	for _, s := range n.Subs {
		s.WalkPost(f)
	}
	f(n)
}

func (n *Node) Size() int {
	c := 0
	n.Walk(func(*Node) { c++ })
	return c
}

// ---------------------------------------------------------------------------------------------
// group numbering (documented rule: unnamed groups by opening parenthesis, then named groups in
// order of first appearance; with ExplicitCapture unnamed parentheses do not capture)

// AssignGroups numbers the capture nodes in pattern-text order and returns the highest number.
func AssignGroups(root *Node, o Opts) int {
	var caps []*Node
	var order func(n *Node)
	order = func(n *Node) {
		if n.Kind == KCap {
			caps = append(caps, n)
		}
		for _, s := range n.Subs {
			order(s)
		}
	}
	order(root)
	next := 1
	for _, c := range caps {
		if c.Name == "" {
			if o.N {
				c.Group = 0
			} else {
				c.Group = next
				next++
			}
		}
	}
	for _, c := range caps {
		if c.Name != "" {
			c.Group = next
			next++
		}
	}
	return next - 1
}

// ---------------------------------------------------------------------------------------------
// printing

var metaASCII = `\.+*?()|[]{}^$#`

func litString(r rune, o Opts, inClass bool) string {
	if inClass {
		switch r {
		case '\\', ']', '[', '^', '-':
			return `\` + string(r)
		case '\n':
			return `\n`
		case '\t':
			return `\t`
		case '\r':
			return `\r`
		}
		return string(r)
	}
	switch r {
	case '\r':
		return `\r`
	case '\n':
		return `\n`
	case '\t':
		return `\t`
	case ' ':
		if o.X {
			return `\ `
		}
		return " "
	}
	if strings.ContainsRune(metaASCII, r) {
		return `\` + string(r)
	}
	return string(r)
}

func (c *Class) print(o Opts) string {
	var b strings.Builder
	b.WriteByte('[')
	if c.Neg {
		b.WriteByte('^')
	}
	for _, it := range c.Items {
		if it.Cat != "" {
			if it.CatNeg {
				b.WriteString(`\P{` + it.Cat + `}`)
			} else {
				b.WriteString(`\p{` + it.Cat + `}`)
			}
			continue
		}
		if it.Short != 0 {
			b.WriteString(`\` + string(it.Short))
			continue
		}
		b.WriteString(litString(it.Lo, o, true))
		if it.Hi != it.Lo {
			b.WriteByte('-')
			b.WriteString(litString(it.Hi, o, true))
		}
	}
	if c.Sub != nil {
		b.WriteByte('-')
		b.WriteString(c.Sub.print(o))
	}
	b.WriteByte(']')
	return b.String()
}

// pad inserts whitespace and comments under IgnorePatternWhitespace (harmless, on purpose).
func pad(o Opts, style int) string {
	if !o.X {
		return ""
	}
	switch style % 5 {
	case 0:
		return " "
	case 1:
		return "\n"
	case 2:
		return " # c\n"
	}
	return ""
}

// Print renders the node in regexp2 syntax.
func (n *Node) Print(o Opts) string {
	var b strings.Builder
	n.print(&b, o)
	return b.String()
}

func (n *Node) print(b *strings.Builder, o Opts) {
	switch n.Kind {
	case KEmpty:
		if n.Style%2 == 1 {
			b.WriteString("(?:)")
		}
	case KLit:
		b.WriteString(litString(n.Ch, o, false))
	case KClass:
		b.WriteString(n.Class.print(o))
	case KDot:
		b.WriteByte('.')
	case KShort:
		b.WriteString(`\` + string(n.Short))
	case KAnchor:
		switch n.Anchor {
		case "^", "$":
			b.WriteString(n.Anchor)
		default:
			b.WriteString(`\` + n.Anchor)
		}
	case KSeq:
		for i, s := range n.Subs {
			if i > 0 {
				b.WriteString(pad(o, n.Style+i))
			}
			// an alternation inside a sequence needs grouping
			if s.Kind == KAlt {
				b.WriteString("(?:")
				s.print(b, o)
				b.WriteByte(')')
			} else {
				s.print(b, o)
			}
		}
	case KAlt:
		for i, s := range n.Subs {
			if i > 0 {
				b.WriteByte('|')
			}
			s.print(b, o)
		}
	case KQuant:
		body := n.Subs[0]
		single := body.Kind == KLit || body.Kind == KClass || body.Kind == KDot || body.Kind == KShort
		needGroup := !(single || body.Kind == KGroup || body.Kind == KCap || body.Kind == KAtomic || body.Kind == KLook || body.Kind == KCondRef || body.Kind == KCondExpr)
		if needGroup || (single && n.Style%3 == 2) {
			b.WriteString("(?:")
			body.print(b, o)
			b.WriteByte(')')
		} else {
			body.print(b, o)
		}
		b.WriteString(pad(o, n.Style))
		switch {
		case n.Lo == 0 && n.Hi < 0 && n.Style%2 == 0:
			b.WriteByte('*')
		case n.Lo == 1 && n.Hi < 0 && n.Style%2 == 0:
			b.WriteByte('+')
		case n.Lo == 0 && n.Hi == 1 && n.Style%2 == 0:
			b.WriteByte('?')
		case n.Hi < 0:
			fmt.Fprintf(b, "{%d,}", n.Lo)
		case n.Hi == n.Lo && n.Style%2 == 0:
			fmt.Fprintf(b, "{%d}", n.Lo)
		default:
			fmt.Fprintf(b, "{%d,%d}", n.Lo, n.Hi)
		}
		if n.Lazy {
			b.WriteByte('?')
		}
	case KGroup:
		b.WriteString("(?:")
		n.Subs[0].print(b, o)
		b.WriteByte(')')
	case KCap:
		if n.Name != "" {
			switch {
			case o.RE2 && n.Style%2 == 0:
				b.WriteString("(?P<" + n.Name + ">")
			case n.Style%3 == 1 && !o.RE2:
				b.WriteString("(?'" + n.Name + "'")
			default:
				b.WriteString("(?<" + n.Name + ">")
			}
		} else {
			b.WriteByte('(')
		}
		b.WriteString(pad(o, n.Style))
		n.Subs[0].print(b, o)
		b.WriteByte(')')
	case KLook:
		b.WriteString("(?")
		if n.Behind {
			b.WriteByte('<')
		}
		if n.Neg {
			b.WriteByte('!')
		} else {
			b.WriteByte('=')
		}
		n.Subs[0].print(b, o)
		b.WriteByte(')')
	case KAtomic:
		b.WriteString("(?>")
		n.Subs[0].print(b, o)
		b.WriteByte(')')
	case KRef:
		if n.Name != "" {
			b.WriteString(`\k<` + n.Name + `>`)
		} else if n.Style%2 == 0 {
			fmt.Fprintf(b, `\k<%d>`, n.Group)
		} else {
			fmt.Fprintf(b, `(?:\%d)`, n.Group)
		}
	case KCondRef:
		if n.Name != "" {
			b.WriteString("(?(" + n.Name + ")")
		} else {
			fmt.Fprintf(b, "(?(%d)", n.Group)
		}
		printBranch(b, n.Subs[0], o)
		b.WriteByte('|')
		printBranch(b, n.Subs[1], o)
		b.WriteByte(')')
	case KBalance:
		if n.Name != "" {
			b.WriteString("(?<" + n.Name + "-" + n.RefName + ">")
		} else {
			b.WriteString("(?<-" + n.RefName + ">")
		}
		n.Subs[0].print(b, o)
		b.WriteByte(')')
	case KCat:
		if n.Neg {
			b.WriteString(`\P{` + n.Name + `}`)
		} else {
			b.WriteString(`\p{` + n.Name + `}`)
		}
	case KCondExpr:
		if n.Style == 1 && n.Subs[0].Kind == KLook {
			// the lookaround itself is the condition's parenthesis
			b.WriteString("(?")
			n.Subs[0].print(b, o)
		} else {
			b.WriteString("(?((?:")
			n.Subs[0].print(b, o)
			b.WriteString("))")
		}
		printBranch(b, n.Subs[1], o)
		b.WriteByte('|')
		printBranch(b, n.Subs[2], o)
		b.WriteByte(')')
	}
}

// a conditional's branch must not contain a top-level '|'
func printBranch(b *strings.Builder, n *Node, o Opts) {
	if n.Kind == KAlt {
		b.WriteString("(?:")
		n.print(b, o)
		b.WriteByte(')')
		return
	}
	n.print(b, o)
}

// ---------------------------------------------------------------------------------------------
// export to the Lean specification

// named class ids used in the protocol
const (
	NDigitU = 0 // unicode Nd
	NWordU  = 1 // L, Mn, Nd, Pc, ZWJ, ZWNJ
	NSpaceU = 2 // unicode.IsSpace
	NDigitA = 3 // [0-9]
	NWordA  = 4 // [0-9A-Za-z_]
	NSpaceR = 5 // RE2 \s: [\t\n\f\r ]
)

func shortID(s byte, o Opts) (id int, neg bool) {
	neg = s >= 'A' && s <= 'Z'
	switch s | 0x20 {
	case 'd':
		id = NDigitU
		if o.RE2 {
			id = NDigitA
		}
	case 'w':
		id = NWordU
		if o.RE2 {
			id = NWordA
		}
	case 's':
		id = NSpaceU
		if o.RE2 {
			id = NSpaceR
		}
	}
	return
}

// NamedMember evaluates a named class from Go's standard tables (never from regexp2's own code).
func NamedMember(id int, r rune) bool {
	switch id {
	case NDigitU:
		return unicode.Is(unicode.Nd, r)
	case NWordU:
		return unicode.In(r, unicode.L, unicode.Mn, unicode.Nd, unicode.Pc) || r == 0x200d || r == 0x200c
	case NSpaceU:
		return unicode.IsSpace(r)
	case NDigitA:
		return r >= '0' && r <= '9'
	case NWordA:
		return r >= '0' && r <= '9' || r >= 'A' && r <= 'Z' || r >= 'a' && r <= 'z' || r == '_'
	case NSpaceR:
		return r == '\t' || r == '\n' || r == '\f' || r == '\r' || r == ' '
	}
	return false
}

func b2s(b bool) string {
	if b {
		return "1"
	}
	return "0"
}

func (c *Class) sexp(o Opts) string {
	var rs, ns []string
	for _, it := range c.Items {
		if it.Short != 0 {
			id, neg := shortID(it.Short, o)
			ns = append(ns, fmt.Sprintf("(%d %s)", id, b2s(neg)))
		} else {
			rs = append(rs, fmt.Sprintf("(%d %d)", it.Lo, it.Hi))
		}
	}
	base := fmt.Sprintf("(base %s (%s) (%s))", b2s(c.Neg), strings.Join(rs, " "), strings.Join(ns, " "))
	if c.Sub != nil {
		return fmt.Sprintf("(diff %s %s)", base, c.Sub.sexp(o))
	}
	return base
}

func seqSexp(tag string, subs []*Node, o Opts, unit string) string {
	if len(subs) == 0 {
		return unit
	}
	if len(subs) == 1 {
		return subs[0].Sexp(o)
	}
	return fmt.Sprintf("(%s %s %s)", tag, subs[0].Sexp(o), seqSexp(tag, subs[1:], o, unit))
}

// Sexp renders the AST, with the options resolved into each leaf, in the form the Lean driver reads.
func (n *Node) Sexp(o Opts) string {
	switch n.Kind {
	case KEmpty:
		return "(empty)"
	case KLit:
		return fmt.Sprintf("(chr (one %d %s))", n.Ch, b2s(o.I))
	case KClass:
		return fmt.Sprintf("(chr (set %s %s))", n.Class.sexp(o), b2s(o.I))
	case KDot:
		if o.S {
			return "(chr (set (base 1 () ()) 0))"
		}
		return "(chr (notone 10 0))"
	case KShort:
		id, neg := shortID(n.Short, o)
		return fmt.Sprintf("(chr (set (base 0 () ((%d %s))) %s))", id, b2s(neg), b2s(o.I))
	case KAnchor:
		a := ""
		switch n.Anchor {
		case "^":
			a = "beginning"
			if o.M {
				a = "bol"
			}
		case "$":
			a = "endz"
			if o.M {
				a = "eol"
			} else if o.RE2 {
				a = "end"
			}
		case "A":
			a = "beginning"
		case "Z":
			a = "endz"
			if o.RE2 {
				a = "end" // RE2 (and ECMAScript) mode: no "before the final newline" alternative
			}
		case "z":
			a = "end"
		case "b":
			a = "boundary"
		case "B":
			a = "nonboundary"
		case "G":
			a = "start"
		}
		return "(anchor " + a + ")"
	case KSeq:
		return seqSexp("seq", n.Subs, o, "(empty)")
	case KAlt:
		return seqSexp("alt", n.Subs, o, "(nothing)")
	case KQuant:
		hi := "inf"
		if n.Hi >= 0 {
			hi = fmt.Sprint(n.Hi)
		}
		return fmt.Sprintf("(quant %s %d %s %s)", b2s(n.Lazy), n.Lo, hi, n.Subs[0].Sexp(o))
	case KGroup:
		return n.Subs[0].Sexp(o)
	case KCap:
		if n.Group == 0 {
			return n.Subs[0].Sexp(o)
		}
		return fmt.Sprintf("(cap %d %s)", n.Group, n.Subs[0].Sexp(o))
	case KLook:
		return fmt.Sprintf("(look %s %s %s)", b2s(n.Behind), b2s(n.Neg), n.Subs[0].Sexp(o))
	case KAtomic:
		return fmt.Sprintf("(atomic %s)", n.Subs[0].Sexp(o))
	case KRef:
		return fmt.Sprintf("(ref %d %s)", n.Group, b2s(o.I))
	case KCondRef:
		return fmt.Sprintf("(refcond %d %s %s)", n.Group, n.Subs[0].Sexp(o), n.Subs[1].Sexp(o))
	case KCondExpr:
		return fmt.Sprintf("(exprcond %s %s %s)", n.Subs[0].Sexp(o), n.Subs[1].Sexp(o), n.Subs[2].Sexp(o))
	}
	return "(empty)"
}

// ---------------------------------------------------------------------------------------------
// oracle rows for a case (from Go's unicode package)

// SimplePartner returns the case partner of r when its fold orbit is a plain pair.
func SimplePartner(r rune) (rune, bool) {
	f := unicode.SimpleFold(r)
	if f == r {
		return 0, false
	}
	if unicode.SimpleFold(f) != r {
		return 0, false // orbit larger than two
	}
	return f, true
}

// EnvSexp builds the `(env …)` part: text, textstart, named rows, word rows, fold rows for the runes
// of the text and of the pattern.
func EnvSexp(text []rune, textstart int, patRunes []rune, o Opts) string {
	seen := map[rune]bool{}
	var all []rune
	for _, r := range append(append([]rune{}, text...), patRunes...) {
		if !seen[r] {
			seen[r] = true
			all = append(all, r)
		}
	}
	sort.Slice(all, func(i, j int) bool { return all[i] < all[j] })
	var named, word, fold []string
	for _, r := range all {
		for id := 0; id <= 5; id++ {
			if NamedMember(id, r) {
				named = append(named, fmt.Sprintf("(%d %d)", id, r))
			}
		}
		wid := NWordU
		if o.RE2 {
			wid = NWordA
		}
		if NamedMember(wid, r) {
			word = append(word, fmt.Sprint(r))
		}
		if p, ok := SimplePartner(r); ok {
			fold = append(fold, fmt.Sprintf("(%d %d)", r, p))
			if !seen[p] {
				// partner rows so that class items see the partner's membership
				for id := 0; id <= 5; id++ {
					if NamedMember(id, p) {
						named = append(named, fmt.Sprintf("(%d %d)", id, p))
					}
				}
				fold = append(fold, fmt.Sprintf("(%d %d)", p, r))
			}
		}
	}
	ts := make([]string, len(text))
	for i, r := range text {
		ts[i] = fmt.Sprint(r)
	}
	return fmt.Sprintf("(env (text %s) (start %d) (named %s) (word %s) (fold %s))",
		strings.Join(ts, " "), textstart, strings.Join(named, " "), strings.Join(word, " "), strings.Join(fold, " "))
}

// PatRunes lists the literal runes and range endpoints of the pattern.
func (n *Node) PatRunes() []rune {
	var out []rune
	n.Walk(func(x *Node) {
		if x.Kind == KLit {
			out = append(out, x.Ch)
		}
		if x.Kind == KClass {
			for c := x.Class; c != nil; c = c.Sub {
				for _, it := range c.Items {
					if it.Short == 0 && it.Cat == "" {
						out = append(out, it.Lo, it.Hi)
					}
				}
			}
		}
	})
	return out
}
