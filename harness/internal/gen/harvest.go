package gen

import (
	"go/ast"
	"go/parser"
	"go/token"
	"os"
	"path/filepath"
	"sort"
	"strconv"
	"strings"
)

// Harvest collects the string literals of the repository's own test files (candidate patterns and
// inputs). Callers filter by what compiles. Literals longer than maxLen are skipped.
func Harvest(repo string, maxLen int) []string {
	seen := map[string]bool{}
	var out []string
	fset := token.NewFileSet()
	for _, dir := range []string{".", "syntax", "compat", "helpers"} {
		ents, err := os.ReadDir(filepath.Join(repo, dir))
		if err != nil {
			continue
		}
		for _, e := range ents {
			if e.IsDir() || !strings.HasSuffix(e.Name(), "_test.go") {
				continue
			}
			f, err := parser.ParseFile(fset, filepath.Join(repo, dir, e.Name()), nil, 0)
			if err != nil {
				continue
			}
			ast.Inspect(f, func(n ast.Node) bool {
				bl, ok := n.(*ast.BasicLit)
				if !ok || bl.Kind != token.STRING {
					return true
				}
				s, err := strconv.Unquote(bl.Value)
				if err != nil || len(s) == 0 || len(s) > maxLen || seen[s] {
					return true
				}
				seen[s] = true
				out = append(out, s)
				return true
			})
		}
	}
	sort.Strings(out)
	return out
}
