package gen

import (
	"fmt"
	"strings"

	"github.com/dlclark/regexp2/v2/syntax"
)

// RNode export: the engine's tree as the n-ary mirror type of lean/RegexVerif/Model/RewriteDecisions.lean
// (node types One/Notone/Set, their loops in the three kinds, Multi, n-ary Alternate/Concatenate with the
// option word of the node), for the rewrite-decision model of C05 (leg Rw). Same refusals as FromGoTree:
// direction bits that contradict the position, IgnoreCase on a Set/Multi, balancing groups, ECMA boundaries.
// Unlike FromGoTree a Concatenate keeps the engine's child order (right-to-left concatenations are stored
// reversed; Lean's toPat reverses them back).

func (g *GoTree) rcp(n *syntax.RegexNode) (string, bool) {
	switch {
	case n.IsOneFamily():
		g.Runes = append(g.Runes, n.Ch)
		return fmt.Sprintf("(one %d 0)", n.Ch), true
	case n.IsNotoneFamily():
		g.Runes = append(g.Runes, n.Ch)
		return fmt.Sprintf("(notone %d 0)", n.Ch), true
	default:
		if n.Options&syntax.IgnoreCase != 0 {
			g.Unsupported = "set node with the IgnoreCase bit"
			return "", false
		}
		c, ok := g.cls(n.Set.VerifDump())
		if !ok {
			return "", false
		}
		return fmt.Sprintf("(set %s 0)", c), true
	}
}

func hiSexp(hi int) string {
	if hi == maxInt32 {
		return "inf"
	}
	return fmt.Sprint(hi)
}

func (g *GoTree) rnode(n *syntax.RegexNode, rtl bool) (string, bool) {
	nodeRTL := n.Options&syntax.RightToLeft != 0
	// the option word without the direction bit (the direction is structural in the model)
	// (IgnoreCase is removed by reduce() from everything but Ref; the bit is exported as it is)
	o := int(n.Options &^ syntax.RightToLeft)
	if n.IsSetFamily() && n.Ch != 0 {
		// a Set node that reduceSingleLetterAndNestedAlternations made out of a One keeps the One's Ch, and
		// extractCommonPrefixOneNotoneSet compares Ch: the stale rune is part of the node's identity
		o += int(n.Ch) << 16
	}
	dirOK := func(what string) bool {
		if nodeRTL != rtl {
			g.Unsupported = fmt.Sprintf("direction bit of %s node type %d contradicts its position", what, n.T)
			return false
		}
		return true
	}
	kids := func() (string, bool) {
		var parts []string
		for _, ch := range n.Children {
			s, ok := g.rnode(ch, rtl)
			if !ok {
				return "", false
			}
			parts = append(parts, s)
		}
		return "(" + strings.Join(parts, " ") + ")", true
	}
	switch n.T {
	case syntax.NtOne, syntax.NtNotone, syntax.NtSet:
		if !dirOK("leaf") {
			return "", false
		}
		p, ok := g.rcp(n)
		if !ok {
			return "", false
		}
		return fmt.Sprintf("(chr %d %s)", o, p), true
	case syntax.NtOneloop, syntax.NtNotoneloop, syntax.NtSetloop, syntax.NtOnelazy, syntax.NtNotonelazy, syntax.NtSetlazy,
		syntax.NtOneloopatomic, syntax.NtNotoneloopatomic, syntax.NtSetloopatomic:
		if !dirOK("leaf") {
			return "", false
		}
		p, ok := g.rcp(n)
		if !ok {
			return "", false
		}
		k := "g"
		switch n.T {
		case syntax.NtOnelazy, syntax.NtNotonelazy, syntax.NtSetlazy:
			k = "l"
		case syntax.NtOneloopatomic, syntax.NtNotoneloopatomic, syntax.NtSetloopatomic:
			k = "a"
		}
		return fmt.Sprintf("(cloop %d %s %s %d %s)", o, k, p, n.M, hiSexp(n.N)), true
	case syntax.NtMulti:
		if !dirOK("leaf") {
			return "", false
		}
		if n.Options&syntax.IgnoreCase != 0 {
			g.Unsupported = "Multi with the IgnoreCase bit"
			return "", false
		}
		var parts []string
		for _, r := range n.Str {
			g.Runes = append(g.Runes, r)
			parts = append(parts, fmt.Sprint(r))
		}
		return fmt.Sprintf("(multi %d (%s))", o, strings.Join(parts, " ")), true
	case syntax.NtRef:
		if !dirOK("leaf") {
			return "", false
		}
		return fmt.Sprintf("(ref %d %s)", n.M, b2s(n.Options&syntax.IgnoreCase != 0)), true
	case syntax.NtBol:
		return "(anchor bol)", true
	case syntax.NtEol:
		return "(anchor eol)", true
	case syntax.NtBoundary:
		return "(anchor boundary)", true
	case syntax.NtNonboundary:
		return "(anchor nonboundary)", true
	case syntax.NtBeginning:
		return "(anchor beginning)", true
	case syntax.NtStart:
		return "(anchor start)", true
	case syntax.NtEndZ:
		if n.Options&(syntax.RE2|syntax.ECMAScript) != 0 {
			return "(anchor end)", true
		}
		return "(anchor endz)", true
	case syntax.NtEnd:
		return "(anchor end)", true
	case syntax.NtNothing:
		return "(nothing)", true
	case syntax.NtEmpty:
		return "(empty)", true
	case syntax.NtUpdateBumpalong:
		return "(bump)", true
	case syntax.NtAlternate, syntax.NtConcatenate:
		if !dirOK("interior") {
			return "", false
		}
		k, ok := kids()
		if !ok {
			return "", false
		}
		tag := "alt"
		if n.T == syntax.NtConcatenate {
			tag = "cat"
		}
		return fmt.Sprintf("(%s %d %s)", tag, o, k), true
	case syntax.NtLoop, syntax.NtLazyloop:
		if !dirOK("interior") {
			return "", false
		}
		body, ok := g.rnode(n.Children[0], rtl)
		if !ok {
			return "", false
		}
		return fmt.Sprintf("(loop %s %d %s %s)", b2s(n.T == syntax.NtLazyloop), n.M, hiSexp(n.N), body), true
	case syntax.NtCapture:
		if !dirOK("interior") {
			return "", false
		}
		body, ok := g.rnode(n.Children[0], rtl)
		if !ok {
			return "", false
		}
		if n.N != -1 {
			g.Unsupported = "balancing group"
			return "", false
		}
		if n.M > g.NGroups {
			g.NGroups = n.M
		}
		return fmt.Sprintf("(cap %d %s)", n.M, body), true
	case syntax.NtGroup:
		g.Unsupported = "Group node in a reduced tree"
		return "", false
	case syntax.NtPosLook, syntax.NtNegLook:
		behind := nodeRTL
		body, ok := g.rnode(n.Children[0], behind)
		if !ok {
			return "", false
		}
		return fmt.Sprintf("(look %s %s %s)", b2s(behind), b2s(n.T == syntax.NtNegLook), body), true
	case syntax.NtAtomic:
		if !dirOK("interior") {
			return "", false
		}
		body, ok := g.rnode(n.Children[0], rtl)
		if !ok {
			return "", false
		}
		return "(atomic " + body + ")", true
	case syntax.NtBackRefCond:
		if !dirOK("interior") {
			return "", false
		}
		yes, ok := g.rnode(n.Children[0], rtl)
		if !ok {
			return "", false
		}
		no := "(empty)"
		if len(n.Children) > 1 {
			if no, ok = g.rnode(n.Children[1], rtl); !ok {
				return "", false
			}
		}
		return fmt.Sprintf("(refcond %d %s %s)", n.M, yes, no), true
	case syntax.NtExprCond:
		if !dirOK("interior") {
			return "", false
		}
		c, ok := g.rnode(n.Children[0], rtl)
		if !ok {
			return "", false
		}
		yes, ok := g.rnode(n.Children[1], rtl)
		if !ok {
			return "", false
		}
		no := "(empty)"
		if len(n.Children) > 2 {
			if no, ok = g.rnode(n.Children[2], rtl); !ok {
				return "", false
			}
		}
		return fmt.Sprintf("(exprcond %s %s %s)", c, yes, no), true
	}
	g.Unsupported = fmt.Sprintf("node type %d", n.T)
	return "", false
}

// RNodeFromGoTree converts the tree below the implicit root capture into the n-ary S-expression; base (may be
// nil) supplies the named-class numbering of an earlier conversion of the same pattern.
func RNodeFromGoTree(t *syntax.RegexTree, base *GoTree) *GoTree {
	g := &GoTree{Named: map[int]func(rune) bool{}, names: map[string]int{}, CatNames: map[int]string{}, RTL: t.Options&syntax.RightToLeft != 0}
	if base != nil {
		g.Named, g.names, g.CatNames = base.Named, base.names, base.CatNames
	}
	root := t.Root
	if root.T != syntax.NtCapture || root.M != 0 || len(root.Children) != 1 {
		g.Unsupported = "root is not the implicit capture"
		return g
	}
	s, ok := g.rnode(root.Children[0], g.RTL)
	if !ok {
		if g.Unsupported == "" {
			g.Unsupported = "unknown"
		}
		return g
	}
	g.Sexp = s
	return g
}

// RNodeOfNode converts one subtree (direction rtl).
func RNodeOfNode(n *syntax.RegexNode, rtl bool, base *GoTree) (string, *GoTree) {
	g := &GoTree{Named: map[int]func(rune) bool{}, names: map[string]int{}, CatNames: map[int]string{}, RTL: rtl}
	if base != nil {
		g.Named, g.names, g.CatNames = base.Named, base.names, base.CatNames
	}
	s, ok := g.rnode(n, rtl)
	if !ok {
		if g.Unsupported == "" {
			g.Unsupported = "unknown"
		}
		return "", g
	}
	g.Sexp = s
	return s, g
}
