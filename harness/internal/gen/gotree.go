package gen

import (
	"fmt"
	"math"
	"sort"
	"strings"
	"unicode"

	"github.com/dlclark/regexp2/v2/syntax"
)

// GoTree converts the engine's own (parsed, reduced, rewritten) tree into the Lean specification's
// pattern AST, so that the specification can be run on exactly what the writer compiles (leg T) and
// the Lean fact analysers can be run on exactly what the Go analysers see (leg F).
//
// The conversion is structural. Direction is a per-node option bit in Go and a parameter in the
// specification; concatenations under the RightToLeft bit are stored reversed by the parser and are
// reversed back here. A node whose direction bit contradicts its structural direction makes the
// conversion fail (never observed; it would mean the two notions of direction diverge).
type GoTree struct {
	Sexp    string
	RTL     bool
	NGroups int
	// named-class predicates used by the tree: id -> membership (from Go's unicode tables)
	Named map[int]func(rune) bool
	names map[string]int
	// id -> category name (the key of Named's predicates; lets a caller cache per-category tables)
	CatNames map[int]string
	// runes mentioned by the tree (literals and range endpoints)
	Runes []rune
	// slot -> group number (dense slots are mapped back to user group numbers for captures/refs)
	Unsupported string
}

const maxInt32 = math.MaxInt32

func catPredicate(name string) func(rune) bool {
	switch name {
	case syntax.SpaceCategoryText:
		return unicode.IsSpace
	case syntax.WordCategoryText:
		return func(r rune) bool { return NamedMember(NWordU, r) }
	}
	if t, ok := unicode.Categories[name]; ok {
		return func(r rune) bool { return unicode.Is(t, r) }
	}
	if t, ok := unicode.Scripts[name]; ok {
		return func(r rune) bool { return unicode.Is(t, r) }
	}
	if t, ok := unicode.Properties[name]; ok {
		return func(r rune) bool { return unicode.Is(t, r) }
	}
	if a, ok := unicode.CategoryAliases[name]; ok {
		if t, ok := unicode.Categories[a]; ok {
			return func(r rune) bool { return unicode.Is(t, r) }
		}
	}
	return nil
}

func (g *GoTree) nameID(cat string) (int, bool) {
	if id, ok := g.names[cat]; ok {
		return id, true
	}
	p := catPredicate(cat)
	if p == nil {
		return 0, false
	}
	id := 100 + len(g.names)
	g.names[cat] = id
	g.Named[id] = p
	g.CatNames[id] = cat
	return id, true
}

func (g *GoTree) cls(c *syntax.VerifCharSet) (string, bool) {
	var rs, ns []string
	for _, r := range c.Ranges {
		rs = append(rs, fmt.Sprintf("(%d %d)", r[0], r[1]))
		g.Runes = append(g.Runes, r[0], r[1])
	}
	for _, ct := range c.Categories {
		id, ok := g.nameID(ct.Cat)
		if !ok {
			g.Unsupported = "category " + ct.Cat
			return "", false
		}
		ns = append(ns, fmt.Sprintf("(%d %s)", id, b2s(ct.Negate)))
	}
	base := fmt.Sprintf("(base %s (%s) (%s))", b2s(c.Negate), strings.Join(rs, " "), strings.Join(ns, " "))
	if c.Sub != nil {
		sub, ok := g.cls(c.Sub)
		if !ok {
			return "", false
		}
		return fmt.Sprintf("(diff %s %s)", base, sub), true
	}
	return base, true
}

func quantSexp(lazy bool, lo, hi int, body string) string {
	h := "inf"
	if hi != maxInt32 {
		h = fmt.Sprint(hi)
	}
	return fmt.Sprintf("(quant %s %d %s %s)", b2s(lazy), lo, h, body)
}

func nest(tag string, parts []string, unit string) string {
	if len(parts) == 0 {
		return unit
	}
	if len(parts) == 1 {
		return parts[0]
	}
	return fmt.Sprintf("(%s %s %s)", tag, parts[0], nest(tag, parts[1:], unit))
}

func (g *GoTree) node(n *syntax.RegexNode, rtl bool) (string, bool) {
	nodeRTL := n.Options&syntax.RightToLeft != 0
	ci := n.Options&syntax.IgnoreCase != 0
	leafDir := func() bool {
		if nodeRTL != rtl {
			g.Unsupported = fmt.Sprintf("direction bit of node type %d contradicts its position", n.T)
			return false
		}
		return true
	}
	chr := func() (string, bool) {
		switch n.T {
		case syntax.NtOne, syntax.NtOneloop, syntax.NtOnelazy, syntax.NtOneloopatomic:
			g.Runes = append(g.Runes, n.Ch)
			return fmt.Sprintf("(chr (one %d %s))", n.Ch, b2s(ci)), true
		case syntax.NtNotone, syntax.NtNotoneloop, syntax.NtNotonelazy, syntax.NtNotoneloopatomic:
			g.Runes = append(g.Runes, n.Ch)
			return fmt.Sprintf("(chr (notone %d %s))", n.Ch, b2s(ci)), true
		default:
			if ci {
				g.Unsupported = "set node with the IgnoreCase bit"
				return "", false
			}
			c, ok := g.cls(n.Set.VerifDump())
			if !ok {
				return "", false
			}
			return fmt.Sprintf("(chr (set %s 0))", c), true
		}
	}
	switch n.T {
	case syntax.NtAlternate, syntax.NtConcatenate, syntax.NtLoop, syntax.NtLazyloop, syntax.NtCapture, syntax.NtGroup, syntax.NtAtomic,
		syntax.NtBackRefCond, syntax.NtExprCond:
		// an interior node whose direction bit contradicts its position (e.g. the Loop of `(?<=a){2}`,
		// which keeps the lookbehind's bit): the analyses read that bit, the specification has no place for it
		if nodeRTL != rtl {
			g.Unsupported = fmt.Sprintf("direction bit of interior node type %d contradicts its position", n.T)
			return "", false
		}
	}
	switch n.T {
	case syntax.NtOne, syntax.NtNotone, syntax.NtSet:
		if !leafDir() {
			return "", false
		}
		if ci && n.T != syntax.NtSet {
			// the engine compares the lower-cased text rune with the stored rune: not the specification's
			// folding; the parser converts cased literals to sets, so this only concerns uncased runes
			ci = false
		}
		return chr()
	case syntax.NtOneloop, syntax.NtNotoneloop, syntax.NtSetloop, syntax.NtOnelazy, syntax.NtNotonelazy, syntax.NtSetlazy,
		syntax.NtOneloopatomic, syntax.NtNotoneloopatomic, syntax.NtSetloopatomic:
		if !leafDir() {
			return "", false
		}
		if n.T != syntax.NtSetloop && n.T != syntax.NtSetlazy && n.T != syntax.NtSetloopatomic {
			ci = false
		}
		body, ok := chr()
		if !ok {
			return "", false
		}
		lazy := n.T == syntax.NtOnelazy || n.T == syntax.NtNotonelazy || n.T == syntax.NtSetlazy
		q := quantSexp(lazy, n.M, n.N, body)
		if n.T == syntax.NtOneloopatomic || n.T == syntax.NtNotoneloopatomic || n.T == syntax.NtSetloopatomic {
			return "(atomic " + q + ")", true
		}
		return q, true
	case syntax.NtMulti:
		if !leafDir() {
			return "", false
		}
		if ci {
			g.Unsupported = "Multi with the IgnoreCase bit"
			return "", false
		}
		var parts []string
		for _, r := range n.Str {
			g.Runes = append(g.Runes, r)
			parts = append(parts, fmt.Sprintf("(chr (one %d 0))", r))
		}
		return nest("seq", parts, "(empty)"), true
	case syntax.NtRef:
		if !leafDir() {
			return "", false
		}
		return fmt.Sprintf("(ref %d %s)", n.M, b2s(ci)), true
	case syntax.NtBol:
		return "(anchor bol)", true
	case syntax.NtEol:
		return "(anchor eol)", true
	case syntax.NtBoundary:
		return "(anchor boundary)", true
	case syntax.NtNonboundary:
		return "(anchor nonboundary)", true
	case syntax.NtBeginning:
		return "(anchor beginning)", true
	case syntax.NtStart:
		return "(anchor start)", true
	case syntax.NtEndZ:
		if n.Options&(syntax.RE2|syntax.ECMAScript) != 0 {
			return "(anchor end)", true
		}
		return "(anchor endz)", true
	case syntax.NtEnd:
		return "(anchor end)", true
	case syntax.NtNothing:
		return "(nothing)", true
	case syntax.NtEmpty, syntax.NtUpdateBumpalong:
		return "(empty)", true
	case syntax.NtAlternate:
		var parts []string
		for _, ch := range n.Children {
			s, ok := g.node(ch, rtl)
			if !ok {
				return "", false
			}
			parts = append(parts, s)
		}
		return nest("alt", parts, "(nothing)"), true
	case syntax.NtConcatenate:
		var parts []string
		for _, ch := range n.Children {
			s, ok := g.node(ch, rtl)
			if !ok {
				return "", false
			}
			parts = append(parts, s)
		}
		if rtl {
			// the parser stores a right-to-left concatenation reversed (emission order); the specification's
			// seq is in pattern order
			for i, j := 0, len(parts)-1; i < j; i, j = i+1, j-1 {
				parts[i], parts[j] = parts[j], parts[i]
			}
		}
		return nest("seq", parts, "(empty)"), true
	case syntax.NtLoop, syntax.NtLazyloop:
		body, ok := g.node(n.Children[0], rtl)
		if !ok {
			return "", false
		}
		return quantSexp(n.T == syntax.NtLazyloop, n.M, n.N, body), true
	case syntax.NtCapture:
		body, ok := g.node(n.Children[0], rtl)
		if !ok {
			return "", false
		}
		if n.N != -1 {
			g.Unsupported = "balancing group"
			return "", false
		}
		if n.M > g.NGroups {
			g.NGroups = n.M
		}
		return fmt.Sprintf("(cap %d %s)", n.M, body), true
	case syntax.NtGroup:
		return g.node(n.Children[0], rtl)
	case syntax.NtPosLook, syntax.NtNegLook:
		// the direction of a lookaround is the direction bit of the look node itself
		behind := nodeRTL
		body, ok := g.node(n.Children[0], behind)
		if !ok {
			return "", false
		}
		return fmt.Sprintf("(look %s %s %s)", b2s(behind), b2s(n.T == syntax.NtNegLook), body), true
	case syntax.NtAtomic:
		body, ok := g.node(n.Children[0], rtl)
		if !ok {
			return "", false
		}
		return "(atomic " + body + ")", true
	case syntax.NtBackRefCond:
		yes, ok := g.node(n.Children[0], rtl)
		if !ok {
			return "", false
		}
		no := "(empty)"
		if len(n.Children) > 1 {
			if no, ok = g.node(n.Children[1], rtl); !ok {
				return "", false
			}
		}
		return fmt.Sprintf("(refcond %d %s %s)", n.M, yes, no), true
	case syntax.NtExprCond:
		c, ok := g.node(n.Children[0], rtl)
		if !ok {
			return "", false
		}
		yes, ok := g.node(n.Children[1], rtl)
		if !ok {
			return "", false
		}
		no := "(empty)"
		if len(n.Children) > 2 {
			if no, ok = g.node(n.Children[2], rtl); !ok {
				return "", false
			}
		}
		return fmt.Sprintf("(exprcond %s %s %s)", c, yes, no), true
	}
	g.Unsupported = fmt.Sprintf("node type %d", n.T)
	return "", false
}

// FromGoTree converts the tree below the implicit root capture (group 0).
func FromGoTree(t *syntax.RegexTree) *GoTree { return FromGoTreeShared(t, nil) }

// FromGoTreeShared converts a second tree with the named-class numbering of a first conversion (so that
// the S-expressions of two trees of the same pattern use the same class ids); base == nil starts afresh.
func FromGoTreeShared(t *syntax.RegexTree, base *GoTree) *GoTree {
	g := &GoTree{Named: map[int]func(rune) bool{}, names: map[string]int{}, CatNames: map[int]string{}, RTL: t.Options&syntax.RightToLeft != 0}
	if base != nil {
		g.Named, g.names, g.CatNames = base.Named, base.names, base.CatNames
	}
	root := t.Root
	if root.T != syntax.NtCapture || root.M != 0 || len(root.Children) != 1 {
		g.Unsupported = "root is not the implicit capture"
		return g
	}
	s, ok := g.node(root.Children[0], g.RTL)
	if !ok {
		if g.Unsupported == "" {
			g.Unsupported = "unknown"
		}
		return g
	}
	g.Sexp = s
	// group numbers in the tree are user numbers; sparse numbering is left as is (the specification's
	// capture log is keyed by number)
	for k := range t.Caps {
		if k > g.NGroups {
			g.NGroups = k
		}
	}
	if t.Captop-1 > g.NGroups {
		g.NGroups = t.Captop - 1
	}
	return g
}

// EnvSexpNamed is EnvSexp with additional named-class predicates (ids ≥ 100 from GoTree).
func EnvSexpNamed(text []rune, textstart int, patRunes []rune, o Opts, extra map[int]func(rune) bool) string {
	base := EnvSexp(text, textstart, patRunes, o)
	if len(extra) == 0 {
		return base
	}
	seen := map[rune]bool{}
	var all []rune
	for _, r := range append(append([]rune{}, text...), patRunes...) {
		if !seen[r] {
			seen[r] = true
			all = append(all, r)
			if p, ok := SimplePartner(r); ok && !seen[p] {
				seen[p] = true
				all = append(all, p)
			}
		}
	}
	ids := make([]int, 0, len(extra))
	for id := range extra {
		ids = append(ids, id)
	}
	sort.Ints(ids)
	var rows []string
	for _, r := range all {
		for _, id := range ids {
			if extra[id](r) {
				rows = append(rows, fmt.Sprintf("(%d %d)", id, r))
			}
		}
	}
	return strings.Replace(base, "(named ", "(named "+strings.Join(rows, " ")+" ", 1)
}

// CatPredicate is the membership predicate (from Go's unicode tables) of a category name as it appears
// in a CharSet, or nil when the name is unknown.
func CatPredicate(name string) func(rune) bool { return catPredicate(name) }
