package gen

import (
	"math/rand"
	"sort"
)

// classMember picks a rune that is (probably) in the class.
func classMember(rng *rand.Rand, c *Class, alpha []rune) rune {
	if c.Neg || len(c.Items) == 0 {
		return alpha[rng.Intn(len(alpha))]
	}
	it := c.Items[rng.Intn(len(c.Items))]
	if it.Cat != "" {
		return alpha[rng.Intn(len(alpha))]
	}
	if it.Short != 0 {
		switch it.Short {
		case 'd':
			return '1'
		case 'w':
			return []rune{'a', '1', '_', 'é', 0x301}[rng.Intn(5)]
		case 's':
			return []rune{' ', '\n'}[rng.Intn(2)]
		default:
			return alpha[rng.Intn(len(alpha))]
		}
	}
	return it.Lo + rune(rng.Intn(int(it.Hi-it.Lo)+1))
}

// sampleCuts, when set, collects the lengths of the output after every emitted leaf (the places where
// an input can end "right after" a piece of a would-be match).  Generators are single-threaded per leg.
var sampleCuts *[]int

// sample walks the AST emitting text that tends to match it.
func sample(rng *rand.Rand, n *Node, alpha []rune, out *[]rune, depth int) {
	if sampleCuts != nil {
		defer func() {
			switch n.Kind {
			case KLit, KClass, KDot, KShort, KCat:
				*sampleCuts = append(*sampleCuts, len(*out))
			}
		}()
	}
	switch n.Kind {
	case KLit:
		r := n.Ch
		if rng.Intn(6) == 0 {
			if p, ok := SimplePartner(r); ok {
				r = p
			}
		}
		*out = append(*out, r)
	case KClass:
		*out = append(*out, classMember(rng, n.Class, alpha))
	case KDot:
		*out = append(*out, alpha[rng.Intn(len(alpha))])
	case KShort:
		c := &Class{Items: []ClassItem{{Short: n.Short}}}
		*out = append(*out, classMember(rng, c, alpha))
	case KCat:
		*out = append(*out, alpha[rng.Intn(len(alpha))])
	case KSeq, KGroup, KCap, KAtomic, KBalance:
		for _, s := range n.Subs {
			sample(rng, s, alpha, out, depth)
		}
	case KAlt:
		sample(rng, n.Subs[rng.Intn(len(n.Subs))], alpha, out, depth)
	case KQuant:
		k := n.Lo + rng.Intn(3)
		if n.Hi >= 0 && k > n.Hi {
			k = n.Hi
		}
		if depth > 2 && k > 2 {
			k = 2
		}
		for i := 0; i < k; i++ {
			sample(rng, n.Subs[0], alpha, out, depth+1)
		}
	case KLook:
		// a lookbehind's text precedes what follows it in the pattern: emitting it here puts it there; a
		// lookahead's text overlaps what follows (emitted half of the time, as a near miss or a prefix)
		if !n.Neg && (n.Behind && rng.Intn(4) != 0 || !n.Behind && rng.Intn(2) == 0) {
			sample(rng, n.Subs[0], alpha, out, depth)
		}
	case KRef:
		// repeat a recent chunk of the output (a plausible capture)
		if l := len(*out); l > 0 {
			k := 1 + rng.Intn(2)
			if k > l {
				k = l
			}
			chunk := append([]rune{}, (*out)[l-k:]...)
			if rng.Intn(3) == 0 {
				// the same text in the other case: equal to the capture only case-insensitively
				for i, r := range chunk {
					if p, ok := SimplePartner(r); ok {
						chunk[i] = p
					}
				}
			}
			*out = append(*out, chunk...)
		}
	case KCondRef:
		sample(rng, n.Subs[rng.Intn(2)], alpha, out, depth)
	case KCondExpr:
		sample(rng, n.Subs[1+rng.Intn(2)], alpha, out, depth)
	}
}

// Alphabet derives the input alphabet of a pattern: its literals and class endpoints, their case
// partners, one rune outside, newline.
func Alphabet(n *Node, extra []rune) []rune {
	seen := map[rune]bool{}
	var out []rune
	add := func(r rune) {
		if !seen[r] {
			seen[r] = true
			out = append(out, r)
		}
	}
	for _, r := range n.PatRunes() {
		add(r)
		if p, ok := SimplePartner(r); ok {
			add(p)
		}
	}
	add('\n')
	add('z')
	for _, r := range extra {
		add(r)
	}
	sort.Slice(out, func(i, j int) bool { return out[i] < out[j] })
	return out
}

// Inputs returns pattern-directed random strings (with near-miss mutations and random context).
func Inputs(rng *rand.Rand, n *Node, count, maxLen int) [][]rune {
	alpha := Alphabet(n, []rune{'a', 'b', '1', ' ', 'é', 0x301, 0x1F600, 0x1F601})
	var res [][]rune
	res = append(res, []rune{})
	for len(res) < count {
		var s []rune
		if k := rng.Intn(4); k > 0 {
			for i := 0; i < k-1; i++ {
				s = append(s, alpha[rng.Intn(len(alpha))])
			}
		}
		if rng.Intn(4) == 0 {
			// the input ends right after a piece of a would-be match (a literal, a class member) — the place
			// where a candidate finder looks one rune too far
			var cuts []int
			sampleCuts = &cuts
			sample(rng, n, alpha, &s, 0)
			sampleCuts = nil
			if len(cuts) > 0 {
				s = s[:cuts[rng.Intn(len(cuts))]]
			}
			if limit := maxLen + minRunes(n); len(s) > limit {
				s = s[:limit]
			}
			res = append(res, s)
			continue
		}
		reps := 1 + rng.Intn(2)
		for i := 0; i < reps; i++ {
			sample(rng, n, alpha, &s, 0)
			if rng.Intn(2) == 0 {
				s = append(s, alpha[rng.Intn(len(alpha))])
			}
		}
		// near-miss mutations
		for m := rng.Intn(3); m > 0 && len(s) > 0; m-- {
			i := rng.Intn(len(s))
			switch rng.Intn(3) {
			case 0:
				s[i] = alpha[rng.Intn(len(alpha))]
			case 1:
				s = append(s[:i], s[i+1:]...)
			case 2:
				s = append(s[:i], append([]rune{alpha[rng.Intn(len(alpha))]}, s[i:]...)...)
			}
		}
		if limit := maxLen + minRunes(n); len(s) > limit {
			s = s[:limit]
		}
		// a final newline: where $ and \Z have two legal positions
		if rng.Intn(8) == 0 {
			s = append(s, '\n')
		}
		res = append(res, s)
	}
	return res
}

// Exhaustive enumerates every string up to maxLen over the (truncated) alphabet.
func Exhaustive(alpha []rune, maxLen, maxAlpha int) [][]rune {
	if len(alpha) > maxAlpha {
		alpha = alpha[:maxAlpha]
	}
	res := [][]rune{{}}
	prev := [][]rune{{}}
	for l := 1; l <= maxLen; l++ {
		var cur [][]rune
		for _, p := range prev {
			for _, a := range alpha {
				s := append(append([]rune{}, p...), a)
				cur = append(cur, s)
			}
		}
		res = append(res, cur...)
		prev = cur
	}
	return res
}

// minRunes is a rough lower bound of the runes a match consumes (so that inputs for patterns with
// large counted repetitions are not truncated below what the pattern needs); capped at 200.
func minRunes(n *Node) int {
	var f func(n *Node) int
	f = func(n *Node) int {
		switch n.Kind {
		case KLit, KClass, KDot, KShort, KCat:
			return 1
		case KSeq:
			t := 0
			for _, s := range n.Subs {
				t += f(s)
			}
			return t
		case KAlt:
			m := -1
			for _, s := range n.Subs {
				if v := f(s); m < 0 || v < m {
					m = v
				}
			}
			if m < 0 {
				m = 0
			}
			return m
		case KQuant:
			return n.Lo * f(n.Subs[0])
		case KGroup, KCap, KAtomic, KBalance:
			return f(n.Subs[0])
		}
		return 0
	}
	v := f(n)
	if v > 200 {
		v = 200
	}
	return v
}
