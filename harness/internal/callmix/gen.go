package callmix

import "math/rand"

// input shapes ------------------------------------------------------------------------------------

type shape struct {
	name     string
	head     string
	unit     string
	tails    []string
	longRun  bool // one unbroken run: quadratic for most patterns, so capped unless the spec asks for it
	affinity []string
}

var shapes = []shape{
	{name: "words", unit: "foo12 bar ", tails: []string{"", "end", "foo7", " "}},
	{name: "multibyte", unit: "é日本 w7 ", tails: []string{"", "ü", "z9"}},
	{name: "parens", head: "x(", unit: "(a)b", tails: []string{")", "", "))", ")("}},
	{name: "hello", unit: "Hello World, hELLO you. ", tails: []string{"", "hello"}},
	{name: "doubles", unit: "abccd ", tails: []string{"", "xx"}},
	{name: "a-run", unit: "a", tails: []string{"c", "", "bc", "b"}, longRun: true, affinity: []string{"stacklimit", "stacklimit-bal", "sparse", "empty"}},
	{name: "ab-run", unit: "ab", tails: []string{"c", ""}, longRun: true, affinity: []string{"stacklimit", "stacklimit-bal"}},
	{name: "x-run", unit: "x", tails: []string{"", "y"}, longRun: true, affinity: []string{"timeout"}},
}

// byte lengths around the pool size classes (rune buffers: 1K/4K/16K/64K/256K entries keyed by the
// byte length of the string; replace buffers: 4K/16K/64K/256K/1M bytes)
var classEdges = []int{1 << 10, 4 << 10, 16 << 10}
var classEdgesBig = []int{64 << 10, 256 << 10}

func genLen(rng *rand.Rand, thorough bool) (int, string) {
	switch k := rng.Intn(20); {
	case k < 6:
		return rng.Intn(80), "len<80"
	case k < 8:
		return 80 + rng.Intn(900), "len<1K"
	case k < 18:
		e := classEdges[rng.Intn(len(classEdges))]
		d := []int{0, 1, -1, 2, -7, 13, -rng.Intn(e / 4), rng.Intn(e / 2)}[rng.Intn(8)]
		return e + d, "len~" + map[int]string{1 << 10: "1K", 4 << 10: "4K", 16 << 10: "16K"}[e]
	default:
		if thorough || rng.Intn(4) == 0 {
			e := classEdgesBig[0]
			if thorough && rng.Intn(5) == 0 {
				e = classEdgesBig[1]
			}
			d := []int{0, 1, -1, 64}[rng.Intn(4)]
			if e == 64<<10 {
				return e + d, "len~64K"
			}
			return e + d, "len~256K"
		}
		return 1024 + rng.Intn(3000), "len<4K"
	}
}

func contains(xs []string, s string) bool {
	for _, x := range xs {
		if x == s {
			return true
		}
	}
	return false
}

// GenInput draws an input for the given spec; the second result names the histogram bucket.
func GenInput(rng *rand.Rand, spec Spec, thorough bool) (Input, string) {
	var sh shape
	for {
		sh = shapes[rng.Intn(len(shapes))]
		// half of the time prefer the shapes made for this spec
		if len(sh.affinity) > 0 && !contains(sh.affinity, spec.Name) && rng.Intn(3) != 0 {
			continue
		}
		break
	}
	n, bucket := genLen(rng, thorough)
	if rng.Intn(25) == 0 {
		return Input{}, "len=0"
	}
	if sh.longRun && !contains(sh.affinity, spec.Name) && n > 1200 {
		n = 200 + n%1000
		bucket = "len<4K"
	}
	if spec.TimeoutMs > 0 && !(sh.name == "x-run") && n > 2048 {
		// keep untimed-out calls of the timed spec far from the limit
		n = n % 2048
		bucket = "len<4K"
	}
	if spec.Name == "mixed-quick" || spec.Name == "backref" || spec.Name == "lookbehind" {
		if n > 20000 {
			n = 16384 + n%100
			bucket = "len~16K"
		}
	}
	tail := sh.tails[rng.Intn(len(sh.tails))]
	reps := (n - len(sh.head) - len(tail)) / len(sh.unit)
	if reps < 0 {
		reps = 0
	}
	if sh.name == "x-run" {
		// a run of 13..39 x's is neither clearly fast nor clearly over the 5ms timeout: avoid it
		if reps > 12 && reps < 40 {
			reps = 40 + reps
		}
		if spec.TimeoutMs > 0 && tail == "y" && reps > 2000 {
			// a successful match over a very long run takes about as long as the timeout itself
			reps = 40 + reps%1000
			bucket = "len<4K"
		}
		if spec.TimeoutMs > 0 && reps >= 40 && tail != "y" {
			bucket = "x-run(timeout)"
		}
	}
	in := Input{Head: sh.head, Unit: sh.unit, Reps: reps, Tail: tail}
	// pad to the exact byte length for edge cases (only with ASCII filler the pattern families ignore)
	if pad := n - len(in.String()); pad > 0 && pad < len(sh.unit) && !sh.longRun {
		in.Tail = in.Tail + "      "[:min(pad, 6)]
	}
	return in, sh.name + "/" + bucket
}

// GenStep draws one self-contained call.
func GenStep(rng *rand.Rand, thorough bool) (Step, []string) {
	st := Step{Re: rng.Intn(len(Specs)), Op: Ops[rng.Intn(len(Ops))], StartAt: -1}
	spec := Specs[st.Re]
	var b string
	st.In, b = GenInput(rng, spec, thorough)
	buckets := []string{"op:" + st.Op, "re:" + spec.Name, "in:" + b}
	switch st.Op {
	case "Find", "FindRunes":
		st.Chain = rng.Intn(5)
	case "FindAt", "FindRunesAt":
		st.StartAt = rng.Intn(len(st.In.String()) + 1)
		st.Chain = rng.Intn(3)
	case "FindAll", "FindAllRunes":
		st.N = []int{-1, -1, 1, 3, 1000}[rng.Intn(5)]
	case "Replace", "ReplaceFunc":
		st.Repl = rng.Intn(len(Replacements))
		st.Count = []int{-1, -1, -1, 1, 2, 5}[rng.Intn(6)]
		if rng.Intn(6) == 0 {
			st.StartAt = rng.Intn(len(st.In.String()) + 1)
		}
	case "Split":
		st.Count = []int{-1, -1, 2, 3, 10}[rng.Intn(5)]
	}
	Normalize(rng, &st)
	return st, buckets
}

// Normalize bounds the cost of a step after its input was chosen: whole-input substitutions ($_, $`,
// $') and the 4.8K replacement are quadratic in the number of matches, so the number of
// replacements on larger inputs is limited.
func Normalize(rng *rand.Rand, st *Step) {
	if st.In.Unit == "x" && st.In.Reps >= 40 && st.StartAt > st.In.Reps-40 {
		// a search that starts inside a run of x's sees only the rest of the run: keep that rest clearly
		// over the timed spec's limit too (13..39 x's are neither clearly fast nor clearly too slow)
		st.StartAt = st.In.Reps - 40
	}
	n := len(st.In.String())
	if st.Op == "Replace" && st.Repl%len(Replacements) == len(Replacements)-1 && n > 200 && (st.Count < 0 || st.Count > 5) {
		st.Count = 1 + rng.Intn(5)
	}
	if st.Op == "Replace" && (st.Count < 0 || st.Count > 40) && n > 1500 {
		if n <= 20000 && st.Repl%len(Replacements) < 4 {
			return
		}
		st.Count = []int{1, 2, 5, 40}[rng.Intn(4)]
	}
}

// InputBucket classifies an input by its byte length relative to the pool size classes.
func InputBucket(in Input) string {
	n := len(in.String())
	switch {
	case n == 0:
		return "0"
	case n < 1024-16:
		return "<1K"
	case n <= 1024:
		return "1K-16..1K"
	case n <= 1024+16:
		return "1K+1..1K+16"
	case n < 4096-16:
		return "<4K"
	case n <= 4096:
		return "4K-16..4K"
	case n <= 4096+16:
		return "4K+1..4K+16"
	case n < 16384-16:
		return "<16K"
	case n <= 16384:
		return "16K-16..16K"
	case n <= 16384+16:
		return "16K+1..16K+16"
	case n < 65536-16:
		return "<64K"
	case n <= 65536:
		return "64K-16..64K"
	case n <= 65536+64:
		return "64K+1..64K+64"
	case n <= 262144:
		return "<=256K"
	default:
		return ">256K"
	}
}
