package callmix

import (
	"fmt"
	"math/rand"
	"runtime"
	"strings"
	"sync"

	regexp2 "github.com/dlclark/regexp2/v2"
)

// ConcConfig describes one concurrent run: G goroutines issue K calls each, on Regexps shared by
// all goroutines and on Regexps private to the goroutine (which still share the process-wide
// buffer pools and the timeout clock with everybody else).
type ConcConfig struct {
	Seed      int64 `json:"seed"`
	G         int   `json:"g"`
	K         int   `json:"k"`
	Procs     int   `json:"procs"`     // GOMAXPROCS during the run
	Yield     bool  `json:"yield"`     // runtime.Gosched() at random points between calls
	TimeoutMs int   `json:"timeoutMs"` // timeout of the timed spec (large enough not to fire spuriously under load)
	MaxLen    int   `json:"maxLen"`    // cap on input byte length (0: none); race-detector runs use a cap
	// FailBias: every few calls a goroutine makes a Replace that fails in its first scan (stack limit
	// reached) and then bool/find calls on inputs of the same pool size class, each goroutine with its own
	// letter: what an error path does to the pooled buffers shows as another goroutine's text
	FailBias bool `json:"failBias,omitempty"`
}

type ConcMismatch struct {
	Goroutine int    `json:"goroutine"`
	Index     int    `json:"index"`
	Step      Step   `json:"step"`
	Shared    bool   `json:"shared"`
	Want      string `json:"want"`
	Got       string `json:"got"`
}

type ConcReport struct {
	Calls        int            `json:"calls"`
	Mismatches   []ConcMismatch `json:"mismatches,omitempty"`
	Inconclusive int            `json:"inconclusive"` // timed spec timed out although alone it does not (load)
	Snapshot     []string       `json:"snapshot,omitempty"`
	Buckets      map[string]int `json:"buckets"`
}

type concCall struct {
	st     Step
	shared bool
	yield  bool
	want   string
}

// Table returns the spec table with the timed spec's timeout replaced.
func Table(timeoutMs int) []Spec {
	t := append([]Spec{}, Specs...)
	for i := range t {
		if t[i].TimeoutMs > 0 && timeoutMs > 0 {
			t[i].TimeoutMs = timeoutMs
		}
	}
	return t
}

func compileTable(t []Spec) []*regexp2.Regexp {
	out := make([]*regexp2.Regexp, len(t))
	for i, s := range t {
		re, err := s.Compile()
		if err != nil {
			panic(fmt.Sprintf("callmix: spec %s does not compile: %v", s.Name, err))
		}
		out[i] = re
	}
	return out
}

// RunConcurrent generates the calls of the run from the seed, computes every call's result alone
// (sequentially, each on a Regexp compiled for that call with pooling and caching off), then issues
// the calls from G goroutines and compares.
func RunConcurrent(cfg ConcConfig) ConcReport {
	rep := ConcReport{Buckets: map[string]int{}}
	table := Table(cfg.TimeoutMs)
	rng := rand.New(rand.NewSource(cfg.Seed))
	calls := make([][]concCall, cfg.G)
	timedOut := 0
	for g := range calls {
		for k := 0; k < cfg.K; k++ {
			st, _ := GenStep(rng, false)
			if cfg.FailBias {
				stack, tail := -1, -1
				for i, sp := range table {
					if sp.Name == "stacklimit" {
						stack = i
					}
					if sp.Name == "tail" {
						tail = i
					}
				}
				switch {
				case stack >= 0 && k%6 == 0:
					st = Step{Re: stack, Op: "Replace", In: Input{Unit: "ab", Reps: 1500 + 50*g}, Repl: 0, Count: -1, StartAt: -1}
				case tail >= 0 && k%6 <= 3:
					// (\w+)\W*$ sees every rune up to the end of the decoded text
					st = Step{Re: tail, Op: []string{"MatchString", "Find", "FindAll"}[k%3], In: Input{Unit: string(rune('A' + g%20)), Reps: 2900 + 10*g + k, Tail: " !"}, StartAt: -1, N: -1}
				}
			}
			if cfg.MaxLen > 0 && len(st.In.String()) > cfg.MaxLen && len(st.In.Unit) > 0 {
				st.In.Reps = cfg.MaxLen / len(st.In.Unit) / 2
				if st.StartAt > 0 {
					st.StartAt = 0
				}
			}
			spec := table[st.Re]
			if spec.TimeoutMs > 0 && st.In.Unit == "x" && st.In.Reps >= 13 {
				// a call that times out costs the whole timeout: keep a few per run
				if timedOut >= 4 || st.In.Tail == "y" {
					st.In.Reps = 3 + st.In.Reps%9
				} else {
					timedOut++
				}
			}
			iso, err := spec.CompileIsolated()
			if err != nil {
				panic(err)
			}
			c := concCall{st: st, shared: rng.Intn(3) != 0, yield: cfg.Yield && rng.Intn(3) == 0, want: Exec(iso, st)}
			calls[g] = append(calls[g], c)
			rep.Buckets["op:"+st.Op]++
			rep.Buckets["re:"+spec.Name]++
			rep.Buckets["in:"+InputBucket(st.In)]++
			rep.Buckets["alone:"+c.want[strings.LastIndexByte(c.want, ' ')+1:]]++
			if c.shared {
				rep.Buckets["target:shared-regexp"]++
			} else {
				rep.Buckets["target:private-regexp"]++
			}
		}
	}

	shared := compileTable(table)
	if cfg.Procs > 0 {
		defer runtime.GOMAXPROCS(runtime.GOMAXPROCS(cfg.Procs))
	}
	var mu sync.Mutex
	var wg sync.WaitGroup
	start := make(chan struct{})
	for g := 0; g < cfg.G; g++ {
		wg.Add(1)
		go func(g int) {
			defer wg.Done()
			private := compileTable(table) // distinct Regexps that share only the global pools and the clock
			<-start
			for i, c := range calls[g] {
				re := private[c.st.Re]
				if c.shared {
					re = shared[c.st.Re]
				}
				if c.yield {
					runtime.Gosched()
				}
				got := Exec(re, c.st)
				if got != c.want {
					mu.Lock()
					if strings.HasSuffix(got, " timeout") && !strings.HasSuffix(c.want, " timeout") && table[c.st.Re].TimeoutMs > 0 {
						rep.Inconclusive++
					} else if len(rep.Mismatches) < 8 {
						rep.Mismatches = append(rep.Mismatches, ConcMismatch{Goroutine: g, Index: i, Step: c.st, Shared: c.shared, Want: c.want, Got: got})
					}
					mu.Unlock()
				}
			}
		}(g)
	}
	close(start)
	wg.Wait()
	rep.Calls = cfg.G * cfg.K
	for i, re := range shared {
		s := regexp2.VerifRunnerSnapshot(re)
		if !s.CodeIsMain || !s.RuntextNil || !s.MatchTextNil {
			rep.Snapshot = append(rep.Snapshot, fmt.Sprintf("%s: %+v", table[i].Name, s))
		}
	}
	return rep
}
