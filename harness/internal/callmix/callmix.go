// Package callmix is the shared call vocabulary of the C12 (history independence) and C11
// (concurrency) legs and of the race-detector program cmd/rvrace: a fixed table of Regexp
// specifications, compact JSON-serialisable call descriptions, and an executor that turns one call
// on a given *Regexp into a canonical result string (value, error class, captures).
package callmix

import (
	"errors"
	"fmt"
	"hash/fnv"
	"strings"
	"time"

	regexp2 "github.com/dlclark/regexp2/v2"
)

// Spec describes how to compile one of the shared Regexps.
type Spec struct {
	Name       string
	Pattern    string
	Opts       regexp2.RegexOptions
	StackLimit int // 0: default; otherwise OptionMaxBacktrackingStackSize
	TimeoutMs  int // 0: none
	RuneBuf    int // 0: default; -2: OptionMaxCachedRuneBufferLength(0) (no pooling); >0: that limit
	ReplBuf    int // same for the replace output buffers
	CacheN     int // 0: default (16); -2: cache disabled; >0: that many entries
}

// Specs is the table of shared Regexps. Index = Step.Re.
var Specs = []Spec{
	{Name: "words", Pattern: `(\w+)\s(\w+)`},                                              // quick code exists (captures unobservable)
	{Name: "balanced", Pattern: `(?<o>\()+[^()]*(?<c-o>\))+(?(o)(?!))`},                   // balancing groups, no quick code
	{Name: "balanced-anch", Pattern: `^(?:(?<o>\()|(?<c-o>\))|[^()])*(?(o)(?!))$`},        // balancing, anchored at both ends
	{Name: "stacklimit", Pattern: `(?:(a)|b)*c`, StackLimit: 1000},                        // ErrBacktrackingStackLimit on long runs of a/b
	{Name: "timeout", Pattern: `(x+x+)+y`, TimeoutMs: 5},                                  // times out on long runs of x
	{Name: "backref", Pattern: `(\w)\1`},                                                  // no quick code
	{Name: "sparse", Pattern: `(?<5>a+)(?<10>b*)|(?<7>c)`},                                // sparse capture numbers (newMatchSparse)
	{Name: "prefix", Pattern: `foo(\d+)`},                                                 // raw-string prefix filter
	{Name: "digits-rtl", Pattern: `(\d)(\d*)`, Opts: regexp2.RightToLeft},                 // right to left
	{Name: "start-anchor", Pattern: `\G(\w)`},                                             // depends on textstart
	{Name: "empty", Pattern: `a*?`},                                                       // empty matches (bump-along paths)
	{Name: "tail", Pattern: `(\w+)\W*$`},                                                  // sensitive to anything after the decoded text
	{Name: "icase", Pattern: `h(e)llo (?<who>\w+)`, Opts: regexp2.IgnoreCase},             // named group
	{Name: "mixed-quick", Pattern: `(?<n>\w)+\k<n>(z)?`},                                  // some slots in use, some elided
	{Name: "nopool", Pattern: `(\w+)\W*$`, RuneBuf: -2, ReplBuf: -2, CacheN: -2},          // pooling and caching disabled
	{Name: "smallpool", Pattern: `(\d+)`, RuneBuf: 4 << 10, ReplBuf: 16 << 10, CacheN: 3}, // tighter limits
	{Name: "stacklimit-bal", Pattern: `(?:(?<o>a)|(?<c-o>b))*c`, StackLimit: 600},         // stack limit reached with balancing set
	{Name: "lookbehind", Pattern: `(?<=(\w))\s+(?=(\w))`},                                 // lookarounds with captures
}

// Compile compiles the spec from scratch.
func (s Spec) Compile() (*regexp2.Regexp, error) {
	opts := []regexp2.CompileOption{s.Opts}
	if s.StackLimit != 0 {
		opts = append(opts, regexp2.OptionMaxBacktrackingStackSize(s.StackLimit))
	}
	lim := func(v int) int {
		if v == -2 {
			return 0
		}
		return v
	}
	if s.RuneBuf != 0 {
		opts = append(opts, regexp2.OptionMaxCachedRuneBufferLength(lim(s.RuneBuf)))
	}
	if s.ReplBuf != 0 {
		opts = append(opts, regexp2.OptionMaxCachedReplaceBufferLength(lim(s.ReplBuf)))
	}
	if s.CacheN != 0 {
		opts = append(opts, regexp2.OptionMaxCachedReplacerDataEntries(lim(s.CacheN)))
	}
	re, err := regexp2.Compile(s.Pattern, opts...)
	if err != nil {
		return nil, err
	}
	if s.TimeoutMs > 0 {
		re.MatchTimeout = time.Duration(s.TimeoutMs) * time.Millisecond
	}
	return re, nil
}

// CompileIsolated compiles the spec with every cross-call reuse mechanism that can be switched off
// switched off: no pooled rune/replace buffers and no replacement cache. A call on a Regexp that was
// just compiled this way shares nothing with any earlier call: new interpreter state, newly
// allocated buffers, replacement parsed on the spot.
func (s Spec) CompileIsolated() (*regexp2.Regexp, error) {
	s.RuneBuf, s.ReplBuf, s.CacheN = -2, -2, -2
	return s.Compile()
}

// MustCompileAll compiles the whole table.
func MustCompileAll() []*regexp2.Regexp {
	out := make([]*regexp2.Regexp, len(Specs))
	for i, s := range Specs {
		re, err := s.Compile()
		if err != nil {
			panic(fmt.Sprintf("callmix: spec %s does not compile: %v", s.Name, err))
		}
		out[i] = re
	}
	return out
}

// ClockPeriod is the timeout clock period all users of this package set before the first match
// (the default 100ms would make every timed-out call cost 100ms+).
const ClockPeriod = 2 * time.Millisecond

// Input is a compact description of an input text: Head + Unit×Reps + Tail.
type Input struct {
	Head string `json:"head,omitempty"`
	Unit string `json:"unit,omitempty"`
	Reps int    `json:"reps,omitempty"`
	Tail string `json:"tail,omitempty"`
}

func (in Input) String() string {
	if in.Reps <= 0 || in.Unit == "" {
		return in.Head + in.Tail
	}
	var b strings.Builder
	b.Grow(len(in.Head) + len(in.Unit)*in.Reps + len(in.Tail))
	b.WriteString(in.Head)
	for i := 0; i < in.Reps; i++ {
		b.WriteString(in.Unit)
	}
	b.WriteString(in.Tail)
	return b.String()
}

// Step is one call.
type Step struct {
	Re      int    `json:"re"`
	Op      string `json:"op"`
	In      Input  `json:"in"`
	Repl    int    `json:"repl,omitempty"`    // index into Replacements
	Count   int    `json:"count,omitempty"`   // Replace/Split count (0 is replaced by -1)
	StartAt int    `json:"startAt,omitempty"` // Replace/FindAt start (byte offset; -1 = default)
	N       int    `json:"n,omitempty"`       // FindAll limit (0 is replaced by -1)
	Chain   int    `json:"chain,omitempty"`   // Find/FindRunes: number of FindNextMatch calls that follow
}

// Ops lists the entry points Exec knows.
var Ops = []string{"MatchString", "MatchRunes", "Find", "FindRunes", "FindAt", "FindRunesAt", "FindAll", "FindAllRunes", "Replace", "ReplaceFunc", "Split"}

// Replacements is larger than the default replacement cache (16 entries); the last entry is longer
// than MaxCachedReplacerDataBytes (4 KiB) and is therefore never cached.
var Replacements = func() []string {
	rs := []string{
		`$1`, `$2`, `[$2 $1]`, `$$`, `$&`, "$`", `$'`, `$+`, `$_`, `${who}`, `${o}`, `${c}`, `${n}`, `${5}-${10}`, `${7}`, `<$0>`,
		`$1$1`, `$2$1$2`, `-`, ``, `\n`, `$`, `$x`, `${`, `${nosuch}`, `$99`, `$1a`, `${1}a`, "é$1日", `$1$2$3`,
	}
	for i := 0; i < 12; i++ {
		rs = append(rs, fmt.Sprintf("r%d:$%d", i, i%3))
	}
	rs = append(rs, strings.Repeat("long$1", 800)) // 4800 bytes: over the cacheable size
	return rs
}()

// ErrClass maps an error to a stable class.
func ErrClass(err error) string {
	switch {
	case err == nil:
		return "ok"
	case errors.Is(err, regexp2.ErrBacktrackingStackLimit):
		return "stacklimit"
	case strings.HasPrefix(err.Error(), "match timeout after"):
		return "timeout"
	default:
		return "err:" + err.Error()
	}
}

func short(s string) string {
	if len(s) <= 48 {
		return fmt.Sprintf("%q", s)
	}
	h := fnv.New64a()
	h.Write([]byte(s))
	return fmt.Sprintf("%q…len=%d,fnv=%x", s[:24], len(s), h.Sum64())
}

// DumpMatch is the canonical form of a returned match: every group with every capture.
func DumpMatch(m *regexp2.Match) string {
	if m == nil {
		return "nil"
	}
	var b strings.Builder
	bi, bl := m.ByteRange()
	fmt.Fprintf(&b, "@%d+%d b%d+%d %s n=%d{", m.RuneIndex, m.RuneLength, bi, bl, short(m.String()), m.GroupCount())
	for _, g := range m.Groups() {
		fmt.Fprintf(&b, "%s@%d+%d:", g.Name, g.RuneIndex, g.RuneLength)
		for _, c := range g.Captures {
			fmt.Fprintf(&b, "(%d,%d,%s)", c.RuneIndex, c.RuneLength, short(c.String()))
		}
		b.WriteByte(';')
	}
	b.WriteByte('}')
	return b.String()
}

func evaluator(m regexp2.Match) string {
	var b strings.Builder
	b.WriteByte('<')
	for i, g := range m.Groups() {
		if i > 0 {
			b.WriteByte('|')
		}
		fmt.Fprintf(&b, "%s=%d:", g.Name, len(g.Captures))
		if len(g.Captures) > 0 {
			s := g.String()
			if len(s) > 8 {
				s = s[:8]
			}
			b.WriteString(s)
		}
	}
	b.WriteByte('>')
	return b.String()
}

// Exec performs the call on re and returns its canonical result.
func Exec(re *regexp2.Regexp, st Step) (res string) {
	// a panic of the code under test (stale state read through a recycled runner, an index out of range) is a
	// result like any other: it differs from what the sequential reference returned and is reported with the
	// call sequence that led to it, instead of killing the harness
	defer func() {
		if r := recover(); r != nil {
			res = fmt.Sprintf("panic: %v", r)
		}
	}()
	s := st.In.String()
	count, n, startAt := st.Count, st.N, st.StartAt
	if count == 0 {
		count = -1
	}
	if n == 0 {
		n = -1
	}
	switch st.Op {
	case "MatchString":
		ok, err := re.MatchString(s)
		return fmt.Sprintf("%v %s", ok, ErrClass(err))
	case "MatchRunes":
		ok, err := re.MatchRunes([]rune(s))
		return fmt.Sprintf("%v %s", ok, ErrClass(err))
	case "Find", "FindRunes", "FindAt", "FindRunesAt":
		var m *regexp2.Match
		var err error
		switch st.Op {
		case "Find":
			m, err = re.FindStringMatch(s)
		case "FindRunes":
			m, err = re.FindRunesMatch([]rune(s))
		case "FindAt":
			m, err = re.FindStringMatchStartingAt(s, clampStart(startAt, len(s)))
		default:
			rs := []rune(s)
			m, err = re.FindRunesMatchStartingAt(rs, clampStart(startAt, len(rs)))
		}
		var b strings.Builder
		b.WriteString(DumpMatch(m) + " " + ErrClass(err))
		for k := 0; k < st.Chain && m != nil && err == nil; k++ {
			m, err = re.FindNextMatch(m)
			b.WriteString(" -> " + DumpMatch(m) + " " + ErrClass(err))
		}
		return b.String()
	case "FindAll":
		idx, err := re.FindAllStringIndex(s, n)
		return short(fmt.Sprint(idx)) + " " + ErrClass(err)
	case "FindAllRunes":
		idx, err := re.FindAllRunesIndex([]rune(s), n)
		return short(fmt.Sprint(idx)) + " " + ErrClass(err)
	case "Replace":
		out, err := re.Replace(s, Replacements[st.Repl%len(Replacements)], startAt, count)
		return short(out) + " " + ErrClass(err)
	case "ReplaceFunc":
		out, err := re.ReplaceFunc(s, evaluator, startAt, count)
		return short(out) + " " + ErrClass(err)
	case "Split":
		parts, err := re.Split(s, count)
		return fmt.Sprintf("%d %s %s", len(parts), short(strings.Join(parts, "\x1f")), ErrClass(err))
	}
	return "unknown-op"
}

func clampStart(a, n int) int {
	if a < 0 {
		return 0
	}
	if a > n {
		return n
	}
	return a
}
