package legs

import (
	"fmt"
	"strings"
	"unicode/utf8"

	"rvharness/internal/core"

	regexp2 "github.com/dlclark/regexp2/v2"
	"github.com/dlclark/regexp2/v2/compat"
)

// C02 — every public entry point reports the same matches.
// Oracle A: one compiled pattern, one input; every entry point is compared with the match sequence
// obtained from FindRunesMatch + FindNextMatch (all groups), string results through an independent
// rune→byte conversion of the original string.

// byteOffsets: byte offset of every rune boundary of s, each invalid byte counting as one rune.
func byteOffsets(s string) []int {
	offs := make([]int, 0, len(s)+1)
	for i := 0; i < len(s); {
		offs = append(offs, i)
		_, w := utf8.DecodeRuneInString(s[i:])
		i += w
	}
	return append(offs, len(s))
}

type c02Match struct {
	idx, length int
	full        string // renderFull
}

func c02Sequence(re *regexp2.Regexp, runes []rune, limit int) ([]c02Match, error) {
	var seq []c02Match
	m, err := re.FindRunesMatch(runes)
	for m != nil && err == nil && len(seq) < limit {
		seq = append(seq, c02Match{m.RuneIndex, m.RuneLength, renderFull(m)})
		m, err = re.FindNextMatch(m)
	}
	return seq, err
}

// keepNonAdjacent is the documented find-all rule: drop an empty match adjacent (in scan direction)
// to the previously kept match.
func keepNonAdjacent(seq []c02Match, rtl bool) []c02Match {
	var out []c02Match
	prevEnd := -1
	for _, m := range seq {
		if m.length != 0 || m.idx != prevEnd {
			out = append(out, m)
			prevEnd = m.idx + m.length
			if rtl {
				prevEnd = m.idx
			}
		}
	}
	return out
}

func c02Check(c *core.Ctx, cases []engCase) []core.Outcome {
	outs := make([]core.Outcome, len(cases))
	cache := newEngCache()
	for i := range cases {
		cs := &cases[i]
		o := &outs[i]
		o.Key = fmt.Sprintf("%d|%v|%v|%s|%s", cs.Opts, cs.CodeGen, cs.NoBitmap, cs.Pattern, cs.str())
		cp := cache.get(cs)
		if cp.err != nil {
			o.Buckets = append(o.Buckets, "compile-error")
			continue
		}
		re := cp.re
		s := cs.str()
		runes := []rune(s)
		rtl := cs.rtl()
		offs := byteOffsets(s)
		if len(offs) != len(runes)+1 {
			o.Buckets = append(o.Buckets, "decode-mismatch") // cannot happen: both decode invalid bytes one by one
			continue
		}
		fail := func(key, what, want, got string) {
			if o.Fail == nil {
				o.Fail = &core.Failure{Kind: "impl-violation", Key: "C02:" + key,
					Summary:  fmt.Sprintf("%s: pattern %q opts %d codegen=%v nobitmap=%v input %q", what, cs.Pattern, cs.Opts, cs.CodeGen, cs.NoBitmap, s),
					Expected: want, Got: got}
			}
		}
		seq, err := c02Sequence(re, runes, 12)
		if err != nil {
			o.Buckets = append(o.Buckets, "match-error")
			continue
		}
		o.Nontrivial = len(runes) > 0
		o.Buckets = append(o.Buckets, fmt.Sprintf("matches=%d", min(len(seq), 4)), "source="+cs.Source)
		if s != string(runes) {
			o.Buckets = append(o.Buckets, "invalid-utf8-input")
		}
		has := len(seq) > 0
		first := "(none)"
		if has {
			first = seq[0].full
		}
		// boolean calls
		if ok, err := re.MatchRunes(runes); err == nil && ok != has {
			fail("MatchRunes", "MatchRunes disagrees with FindRunesMatch", fmt.Sprint(has), fmt.Sprint(ok))
		}
		if ok, err := re.MatchString(s); err == nil && ok != has {
			fail("MatchString", "MatchString disagrees with FindRunesMatch", fmt.Sprint(has), fmt.Sprint(ok))
		}
		// bool-only program, position by position (\G origin = scan start)
		origin := 0
		if rtl {
			origin = len(runes)
		}
		for p := 0; p <= len(runes) && o.Fail == nil && len(runes) <= 12; p++ {
			a, e1 := regexp2.VerifAttemptAt(re, runes, p, origin, false)
			b, e2 := regexp2.VerifAttemptAt(re, runes, p, origin, true)
			if e1 == nil && e2 == nil {
				if (a != nil) != (b != nil) || (a != nil && (a.RuneIndex != b.RuneIndex || a.RuneLength != b.RuneLength)) {
					fail("quick-program", fmt.Sprintf("the bool-only program and the full program disagree at position %d", p), renderFull(a), renderFull(b))
				}
			}
		}
		// single-match calls on strings
		if m, err := re.FindStringMatch(s); err == nil {
			if got := renderFull(m); got != first {
				fail("FindStringMatch", "FindStringMatch disagrees with FindRunesMatch", first, got)
			} else if m != nil {
				bi, bl := m.ByteRange()
				if bi != offs[m.RuneIndex] || bi+bl != offs[m.RuneIndex+m.RuneLength] {
					fail("ByteRange", "ByteRange of the string match is not the byte span of its rune span", fmt.Sprint(offs[m.RuneIndex], offs[m.RuneIndex+m.RuneLength]), fmt.Sprint(bi, bi+bl))
				}
				// the iteration from a string match
				k := 1
				for nm, err := re.FindNextMatch(m); nm != nil && err == nil && k < len(seq); nm, err = re.FindNextMatch(nm) {
					if got := renderFull(nm); got != seq[k].full {
						fail("FindNextMatch(string)", fmt.Sprintf("match %d of the string iteration differs from the rune iteration", k), seq[k].full, got)
						break
					}
					k++
				}
			}
		}
		// StartingAt variants at every rune boundary
		for k := 0; k <= len(runes) && o.Fail == nil && len(runes) <= 10; k++ {
			mr, e1 := re.FindRunesMatchStartingAt(runes, k)
			ms, e2 := re.FindStringMatchStartingAt(s, offs[k])
			if e1 == nil && e2 == nil {
				if a, b := renderFull(mr), renderFull(ms); a != b {
					fail("StartingAt", fmt.Sprintf("FindStringMatchStartingAt(byte %d) differs from FindRunesMatchStartingAt(rune %d)", offs[k], k), a, b)
				}
			}
		}
		// find-all index calls
		kept := keepNonAdjacent(seq, rtl)
		for _, n := range []int{-1, 1, 2} {
			if len(seq) >= 12 {
				break
			}
			want := kept
			if n >= 0 && len(want) > n {
				want = want[:n]
			}
			var wr, wb []string
			for _, m := range want {
				wr = append(wr, fmt.Sprintf("[%d %d]", m.idx, m.idx+m.length))
				wb = append(wb, fmt.Sprintf("[%d %d]", offs[m.idx], offs[m.idx+m.length]))
			}
			if got, err := re.FindAllRunesIndex(runes, n); err == nil {
				if g := strings.Trim(fmt.Sprint(got), "[]"); g != strings.Trim(fmt.Sprint(wr), "[]") {
					fail("FindAllRunesIndex", fmt.Sprintf("FindAllRunesIndex(n=%d) differs from the FindNextMatch sequence", n), fmt.Sprint(wr), fmt.Sprint(got))
				}
			}
			if got, err := re.FindAllStringIndex(s, n); err == nil {
				if g := strings.Trim(fmt.Sprint(got), "[]"); g != strings.Trim(fmt.Sprint(wb), "[]") {
					fail("FindAllStringIndex", fmt.Sprintf("FindAllStringIndex(n=%d) differs from the byte-converted FindNextMatch sequence", n), fmt.Sprint(wb), fmt.Sprint(got))
				}
			}
		}
		// the regexp-style adapter
		if o.Fail == nil && len(seq) < 12 {
			func() {
				defer func() {
					if r := recover(); r != nil {
						// the adapter panics only on match errors (timeouts); not compared
						o.Buckets = append(o.Buckets, "compat-panic")
					}
				}()
				cre := compat.Wrap(re)
				if ok := cre.MatchString(s); ok != has {
					fail("compat.MatchString", "compat MatchString disagrees", fmt.Sprint(has), fmt.Sprint(ok))
				}
				loc := cre.FindStringIndex(s)
				if has != (loc != nil) || (has && (loc[0] != offs[seq[0].idx] || loc[1] != offs[seq[0].idx+seq[0].length])) {
					fail("compat.FindStringIndex", "compat FindStringIndex disagrees with the first match", first, fmt.Sprint(loc))
				}
				all := cre.FindAllStringSubmatchIndex(s, -1)
				if len(all) != len(kept) {
					fail("compat.FindAllStringSubmatchIndex", "compat find-all has a different number of matches", fmt.Sprint(len(kept)), fmt.Sprint(len(all)))
				} else {
					for j, loc := range all {
						if loc[0] != offs[kept[j].idx] || loc[1] != offs[kept[j].idx+kept[j].length] {
							fail("compat.FindAllStringSubmatchIndex", fmt.Sprintf("compat find-all match %d differs", j), fmt.Sprint(offs[kept[j].idx], offs[kept[j].idx+kept[j].length]), fmt.Sprint(loc[:2]))
							break
						}
					}
				}
			}()
		}
		// the enumeration inside ReplaceFunc and Split
		if o.Fail == nil && len(seq) < 12 {
			var got []string
			_, err := re.ReplaceFunc(s, func(m regexp2.Match) string {
				got = append(got, renderFull(&m))
				return ""
			}, -1, -1)
			if err == nil {
				var want []string
				for _, m := range seq {
					want = append(want, m.full)
				}
				if strings.Join(got, ";") != strings.Join(want, ";") {
					fail("ReplaceFunc-enumeration", "the matches handed to the ReplaceFunc evaluator differ from the FindNextMatch sequence", strings.Join(want, ";"), strings.Join(got, ";"))
				}
			}
			// (with invalid UTF-8 and no match the original string comes back; with a match the text is
			// rebuilt from the decoded runes)
			if out, err := re.Replace(s, "$&", -1, -1); err == nil && out != string(runes) && out != s {
				fail("Replace-identity", "Replace with $& does not rebuild the (decoded) input", string(runes), out)
			}
			if parts, err := re.Split(s, -1); err == nil && len(seq) > 0 {
				ng := 0
				if g := re.GetGroupNumbers(); len(g) > 0 {
					ng = len(g) - 1
				}
				if want := len(seq)*(1+ng) + 1; len(parts) != want {
					fail("Split-enumeration", "Split saw a different number of matches than the FindNextMatch sequence", fmt.Sprint(want), fmt.Sprint(len(parts)))
				}
			}
		}
	}
	return outs
}

func init() {
	core.Register("C02", func(c *core.Ctx) {
		g := &engGen{allowRTL: true, perPat: 6, maxLen: 10, rawInput: true, biasFind: true}
		core.RunLeg(c, core.Leg[engCase]{
			Name: "A", Kind: "oracle(entry points pairwise)",
			Rule: "patterns: random full-syntax ASTs (nullable loops, \\G, balancing groups, Unicode classes, conditionals; half with the search-mode shapes in front) and literals harvested from the repository's tests/corpora; all regex options incl. RightToLeft/ECMAScript/RE2, code-gen analysis on 1/3, ASCII bitmap off 1/4; inputs pattern-directed ≤10 runes, 1/4 with invalid UTF-8 bytes. Reference = FindRunesMatch + FindNextMatch sequence with all groups. Compared: MatchRunes, MatchString, the bool-only program vs the full program at every position, FindStringMatch (+ByteRange against an independent utf8 recomputation, + its FindNextMatch chain), FindStringMatchStartingAt vs FindRunesMatchStartingAt at every rune boundary, FindAllRunesIndex / FindAllStringIndex for n in {-1,1,2}, compat MatchString / FindStringIndex / FindAllStringSubmatchIndex, the matches enumerated inside ReplaceFunc, Replace with $&, the number of matches Split saw. non-trivial = non-empty input",
			N:    c.N(6000, 300000), Corpus: engCorpus, Gen: g.next, Check: c02Check, Batch: 500,
		})
		sfRegister(c, 1)     // the raw-string prefix filters (leg Sf, see strfilter.go)
		wrLeg(c, 800, 40000) // the writer model behind QuickCodes / TrackCount (leg Wr, see writer.go)
		ccLeg(c, 800, 40000) // the bool-only program against the main program and the specification at interpreter level (leg Cc, see compile.go; Props/C02 part D)
	})
}
