package legs

import (
	"bufio"
	"bytes"
	"errors"
	"fmt"
	"io"
	"math/rand"
	"regexp"
	"strings"
	"unicode/utf8"

	"rvharness/internal/core"

	regexp2 "github.com/dlclark/regexp2/v2"
	"github.com/dlclark/regexp2/v2/compat"
)

// C06, leg Gm — the adapter model of lean/RegexVerif/Model/Compat.lean against compat/regexp.go,
// method by method.
//
// For the (pattern, input) cases of leg G: regexp2's match sequence with groups is obtained through
// the public API (FindStringMatch / FindNextMatch, rune indices) and sent, with the input as decoding
// steps (rune + its bytes) and a rune reader, to the Lean driver (request `c06 methods`). The Lean
// adapter model computes the results of all 21 methods (8 find-all methods x n in {-1,0,1,2,3}); each
// is compared, in a canonical rendering that keeps nil-ness, with what the real compat method returns.
// A difference is a correspondence break `Gm:<method>`: the model no longer describes
// compat/regexp.go (or the regexp2 entry points the adapter uses disagree with the FindNextMatch
// sequence). Whether compat agrees with regexp is leg G's business.
//
// Second half (`Gs:<method>`): the SPECIFICATION side of the same file — Go's regexp package as a
// function of its own search "leftmost match at or after byte position pos" — is run in Lean over a
// table obtained from the standard library itself (\A(?s:.{p})(?s:.*?)(P) for every rune boundary p)
// and compared with what regexp's 16 Find methods and Match really return.

type c06mCase struct {
	Pat string `json:"pat"`
	In  []int  `json:"in"`
	// Nil: the []byte argument is the nil slice (only with an empty input)
	Nil bool `json:"nil,omitempty"`
	// RTL: compile with RE2|RightToLeft (the adapter can wrap any regexp2.Regexp)
	RTL bool `json:"rtl,omitempty"`
	// RMode: 0 strings.Reader, 1 bytes.Reader, 2 bufio.Reader, 3 a reader that reports the sizes
	// RSizes and ends with io.EOF, 4 the same ending with io.ErrUnexpectedEOF, 5 ending with a custom error
	RMode  int   `json:"rmode,omitempty"`
	RSizes []int `json:"rsizes,omitempty"`
}

func (cs c06mCase) input() []byte {
	b := make([]byte, len(cs.In))
	for i, x := range cs.In {
		b[i] = byte(x)
	}
	return b
}

// c06mReader yields the given runes with the given sizes, then fails with err.
type c06mReader struct {
	runes []rune
	sizes []int
	i     int
	err   error
}

func (r *c06mReader) ReadRune() (rune, int, error) {
	if r.i >= len(r.runes) {
		return 0, 0, r.err
	}
	ch, w := r.runes[r.i], r.sizes[r.i]
	r.i++
	return ch, w, nil
}

var errC06mBoom = errors.New("reader failed")

func c06mGenCase(rng *rand.Rand, i int) c06mCase {
	g := c06GenCase(rng, i)
	cs := c06mCase{Pat: g.Pat, In: g.In}
	if len(cs.In) == 0 {
		cs.Nil = rng.Intn(2) == 0
	}
	cs.RTL = rng.Intn(8) == 0
	cs.RMode = rng.Intn(7)
	if cs.RMode >= 6 {
		cs.RMode = 3
	}
	if cs.RMode >= 3 {
		n := utf8.RuneCount(cs.input())
		cs.RSizes = make([]int, n)
		zeros := rng.Intn(6) == 0 // a size 0 is outside io.RuneReader's contract; regexp reads it as the end of the text
		for j := range cs.RSizes {
			cs.RSizes[j] = 1 + rng.Intn(6)
			if zeros && rng.Intn(3) == 0 {
				cs.RSizes[j] = 0
			}
		}
	}
	return cs
}

// ---- canonical rendering (nil-ness kept) -----------------------------------------------------------

func c06mBytes(b []byte) string {
	if b == nil {
		return "nil"
	}
	var sb strings.Builder
	sb.WriteByte('(')
	for i, x := range b {
		if i > 0 {
			sb.WriteByte(' ')
		}
		fmt.Fprintf(&sb, "%d", x)
	}
	sb.WriteByte(')')
	return sb.String()
}

func c06mList[T any](xs []T, f func(T) string) string {
	if xs == nil {
		return "nil"
	}
	parts := make([]string, len(xs))
	for i, x := range xs {
		parts[i] = f(x)
	}
	return "(" + strings.Join(parts, " ") + ")"
}

func c06mString(s string) string { return c06mBytes(append(make([]byte, 0, len(s)), s...)) }

func c06mIntsS(xs []int) string {
	return c06mList(xs, func(x int) string { return fmt.Sprint(x) })
}

func c06mShow(v any) string {
	switch x := v.(type) {
	case bool:
		return core.SBool(x)
	case string:
		return c06mString(x)
	case []byte:
		return c06mBytes(x)
	case []int:
		return c06mIntsS(x)
	case [][]byte:
		return c06mList(x, c06mBytes)
	case []string:
		return c06mList(x, c06mString)
	case [][]int:
		return c06mList(x, c06mIntsS)
	case [][][]byte:
		return c06mList(x, func(y [][]byte) string { return c06mList(y, c06mBytes) })
	case [][]string:
		return c06mList(x, func(y []string) string { return c06mList(y, c06mString) })
	}
	return fmt.Sprintf("unrenderable-%T", v)
}

// c06mSplitTop splits "(ok a (b c) d)" into ["ok" "a" "(b c)" "d"].
func c06mSplitTop(s string) []string {
	s = strings.TrimSpace(s)
	if len(s) < 2 || s[0] != '(' || s[len(s)-1] != ')' {
		return nil
	}
	s = s[1 : len(s)-1]
	var out []string
	depth, start := 0, -1
	for i := 0; i < len(s); i++ {
		switch s[i] {
		case '(':
			if depth == 0 && start < 0 {
				start = i
			}
			depth++
		case ')':
			depth--
			if depth == 0 {
				out = append(out, s[start:i+1])
				start = -1
			}
		case ' ':
			if depth == 0 && start >= 0 {
				out = append(out, s[start:i])
				start = -1
			}
		default:
			if start < 0 {
				start = i
			}
		}
	}
	if start >= 0 {
		out = append(out, s[start:])
	}
	return out
}

// ---- the calls in the order of the driver's answer ---------------------------------------------------

type c06mCall struct {
	Name string
	N    int // 99: no limit argument
	F    func(m compat.Matcher, b []byte, s string, rd func() io.RuneReader, n int) any
}

func c06mCalls() []c06mCall {
	var calls []c06mCall
	one := func(name string, f func(m compat.Matcher, b []byte, s string, rd func() io.RuneReader) any) {
		calls = append(calls, c06mCall{Name: name, N: 99, F: func(m compat.Matcher, b []byte, s string, rd func() io.RuneReader, _ int) any {
			return f(m, b, s, rd)
		}})
	}
	one("Match", func(m compat.Matcher, b []byte, s string, rd func() io.RuneReader) any { return m.Match(b) })
	one("MatchString", func(m compat.Matcher, b []byte, s string, rd func() io.RuneReader) any { return m.MatchString(s) })
	one("MatchReader", func(m compat.Matcher, b []byte, s string, rd func() io.RuneReader) any { return m.MatchReader(rd()) })
	one("Find", func(m compat.Matcher, b []byte, s string, rd func() io.RuneReader) any { return m.Find(b) })
	one("FindIndex", func(m compat.Matcher, b []byte, s string, rd func() io.RuneReader) any { return m.FindIndex(b) })
	one("FindString", func(m compat.Matcher, b []byte, s string, rd func() io.RuneReader) any { return m.FindString(s) })
	one("FindStringIndex", func(m compat.Matcher, b []byte, s string, rd func() io.RuneReader) any { return m.FindStringIndex(s) })
	one("FindReaderIndex", func(m compat.Matcher, b []byte, s string, rd func() io.RuneReader) any {
		return m.FindReaderIndex(rd())
	})
	one("FindSubmatch", func(m compat.Matcher, b []byte, s string, rd func() io.RuneReader) any { return m.FindSubmatch(b) })
	one("FindSubmatchIndex", func(m compat.Matcher, b []byte, s string, rd func() io.RuneReader) any { return m.FindSubmatchIndex(b) })
	one("FindStringSubmatch", func(m compat.Matcher, b []byte, s string, rd func() io.RuneReader) any {
		return m.FindStringSubmatch(s)
	})
	one("FindStringSubmatchIndex", func(m compat.Matcher, b []byte, s string, rd func() io.RuneReader) any {
		return m.FindStringSubmatchIndex(s)
	})
	one("FindReaderSubmatchIndex", func(m compat.Matcher, b []byte, s string, rd func() io.RuneReader) any {
		return m.FindReaderSubmatchIndex(rd())
	})
	type allF = func(m compat.Matcher, b []byte, s string, n int) any
	alls := []struct {
		name string
		f    allF
	}{
		{"FindAll", func(m compat.Matcher, b []byte, s string, n int) any { return m.FindAll(b, n) }},
		{"FindAllIndex", func(m compat.Matcher, b []byte, s string, n int) any { return m.FindAllIndex(b, n) }},
		{"FindAllString", func(m compat.Matcher, b []byte, s string, n int) any { return m.FindAllString(s, n) }},
		{"FindAllStringIndex", func(m compat.Matcher, b []byte, s string, n int) any { return m.FindAllStringIndex(s, n) }},
		{"FindAllSubmatch", func(m compat.Matcher, b []byte, s string, n int) any { return m.FindAllSubmatch(b, n) }},
		{"FindAllSubmatchIndex", func(m compat.Matcher, b []byte, s string, n int) any { return m.FindAllSubmatchIndex(b, n) }},
		{"FindAllStringSubmatch", func(m compat.Matcher, b []byte, s string, n int) any { return m.FindAllStringSubmatch(s, n) }},
		{"FindAllStringSubmatchIndex", func(m compat.Matcher, b []byte, s string, n int) any {
			return m.FindAllStringSubmatchIndex(s, n)
		}},
	}
	// the driver answers n by n, the eight find-all methods for each
	for _, n := range c06Ns {
		for _, a := range alls {
			f := a.f
			calls = append(calls, c06mCall{Name: a.name, N: n, F: func(m compat.Matcher, b []byte, s string, _ func() io.RuneReader, n int) any {
				return f(m, b, s, n)
			}})
		}
	}
	return calls
}

var c06mAllCalls = c06mCalls()

func c06mRender(call c06mCall, m compat.Matcher, b []byte, s string, rd func() io.RuneReader) string {
	res, pan := c06SafeCall(func() any { return call.F(m, b, s, rd, call.N) })
	if pan != nil {
		return "panic"
	}
	return c06mShow(res)
}

func c06mName(call c06mCall) string {
	if call.N == 99 {
		return call.Name
	}
	return fmt.Sprintf("%s(n=%d)", call.Name, call.N)
}

// c06mSegs: the decoding steps of the input, "(rune byte…)" each, and the runes.
func c06mSegs(in []byte) (string, []rune) {
	var sb strings.Builder
	var runes []rune
	sb.WriteByte('(')
	for i := 0; i < len(in); {
		ch, w := utf8.DecodeRune(in[i:])
		if i > 0 {
			sb.WriteByte(' ')
		}
		fmt.Fprintf(&sb, "(%d", ch)
		for _, x := range in[i : i+w] {
			fmt.Fprintf(&sb, " %d", x)
		}
		sb.WriteByte(')')
		runes = append(runes, ch)
		i += w
	}
	sb.WriteByte(')')
	return sb.String(), runes
}

// c06mSequence: FindStringMatch, FindNextMatch, … through the public API, as "((index len (cap…))…)".
func c06mSequence(re *regexp2.Regexp, s string) (string, int, error) {
	var sb strings.Builder
	sb.WriteByte('(')
	m, err := re.FindStringMatch(s)
	count := 0
	for ; m != nil && err == nil; m, err = re.FindNextMatch(m) {
		if count > 0 {
			sb.WriteByte(' ')
		}
		count++
		fmt.Fprintf(&sb, "(%d %d (", m.RuneIndex, m.RuneLength)
		for gi, g := range m.Groups()[1:] {
			if gi > 0 {
				sb.WriteByte(' ')
			}
			if len(g.Captures) == 0 {
				sb.WriteByte('x')
			} else {
				fmt.Fprintf(&sb, "(%d %d)", g.RuneIndex, g.RuneLength)
			}
		}
		sb.WriteString("))")
		if count > 10000 {
			return "", 0, errors.New("match sequence does not end")
		}
	}
	if err != nil {
		return "", 0, err
	}
	sb.WriteByte(')')
	return sb.String(), count, nil
}

// ---- the specification side: a table of the standard library's own searches -----------------------------

// c06mStdTable: for every rune boundary p (rune index) of the input the standard library's leftmost
// match at or after it, with groups, as "(lo hi (cap…))" in byte offsets, or "x".
func c06mStdTable(pat string, in []byte, nrunes int) (string, bool) {
	var sb strings.Builder
	sb.WriteByte('(')
	for p := 0; p <= nrunes; p++ {
		re, err := regexp.Compile(fmt.Sprintf(`\A(?s:.{%d})(?s:.*?)(%s)`, p, pat))
		if err != nil {
			return "", false
		}
		if p > 0 {
			sb.WriteByte(' ')
		}
		loc := re.FindSubmatchIndex(in)
		if loc == nil {
			sb.WriteByte('x')
			continue
		}
		fmt.Fprintf(&sb, "(%d %d (", loc[2], loc[3])
		for j := 4; j+1 < len(loc); j += 2 {
			if j > 4 {
				sb.WriteByte(' ')
			}
			if loc[j] < 0 {
				sb.WriteByte('x')
			} else {
				fmt.Fprintf(&sb, "(%d %d)", loc[j], loc[j+1])
			}
		}
		sb.WriteString("))")
	}
	sb.WriteByte(')')
	return sb.String(), true
}

// the 13+8 std calls whose model is in namespace Compat.Std (reader methods: on a strings.Reader)
func c06mStdCalls() []c06mCall { return c06mAllCalls }

func c06mCheck(c *core.Ctx, cases []c06mCase) []core.Outcome {
	outs := make([]core.Outcome, len(cases))
	var lines []string
	type pending struct {
		i    int
		kind string // "Gm" | "Gs"
		want []string
	}
	var pend []pending
	for i, cs := range cases {
		o := &outs[i]
		in := cs.input()
		s := string(in)
		o.Key = fmt.Sprintf("%s|%s|%v|%v|%d", cs.Pat, s, cs.Nil, cs.RTL, cs.RMode)
		opts := regexp2.RE2
		if cs.RTL {
			opts |= regexp2.RightToLeft
			o.Buckets = append(o.Buckets, "right-to-left")
		}
		re, err := regexp2.Compile(cs.Pat, opts)
		if err != nil {
			o.Buckets = append(o.Buckets, "skipped-regexp2-rejects")
			continue
		}
		cmp := compat.Wrap(re)
		class := c06InputClass(in)
		o.Buckets = append(o.Buckets, "input-"+class)
		var b []byte
		if !(cs.Nil && len(in) == 0) {
			b = in
		} else {
			o.Buckets = append(o.Buckets, "nil-slice")
		}
		if len(in) == 0 && b != nil {
			o.Buckets = append(o.Buckets, "empty-non-nil-slice")
		}
		segs, runes := c06mSegs(in)
		// the reader
		sizes := make([]int, len(runes))
		{
			j := 0
			for k := 0; k < len(in); j++ {
				_, w := utf8.DecodeRune(in[k:])
				sizes[j] = w
				k += w
			}
		}
		rfail := false
		var rd func() io.RuneReader
		switch cs.RMode {
		case 0:
			rd = func() io.RuneReader { return strings.NewReader(s) }
		case 1:
			rd = func() io.RuneReader { return bytes.NewReader(in) }
		case 2:
			rd = func() io.RuneReader { return bufio.NewReaderSize(strings.NewReader(s), 16) }
		default:
			if len(cs.RSizes) == len(runes) {
				sizes = cs.RSizes
			}
			endErr := io.EOF
			if cs.RMode == 4 {
				endErr = io.ErrUnexpectedEOF
				rfail = true
			} else if cs.RMode == 5 {
				endErr = errC06mBoom
				rfail = true
			}
			sz := sizes
			rd = func() io.RuneReader { return &c06mReader{runes: runes, sizes: sz, err: endErr} }
		}
		o.Buckets = append(o.Buckets, fmt.Sprintf("reader-mode-%d", cs.RMode))
		var ritems strings.Builder
		ritems.WriteByte('(')
		for j, ch := range runes {
			if j > 0 {
				ritems.WriteByte(' ')
			}
			fmt.Fprintf(&ritems, "(%d %d)", ch, sizes[j])
		}
		ritems.WriteByte(')')
		seq, count, err := c06mSequence(re, s)
		if err != nil {
			o.Fail = &core.Failure{Kind: "correspondence-break", Key: "Gm:sequence", Summary: fmt.Sprintf("FindStringMatch/FindNextMatch of %q on %q: %v", cs.Pat, s, err)}
			continue
		}
		o.Nontrivial = count > 0
		switch {
		case count == 0:
			o.Buckets = append(o.Buckets, "no-match")
		case count == 1:
			o.Buckets = append(o.Buckets, "one-match")
		default:
			o.Buckets = append(o.Buckets, "several-matches")
		}
		want := make([]string, len(c06mAllCalls))
		for k, call := range c06mAllCalls {
			want[k] = c06mRender(call, cmp, b, s, rd)
		}
		// the reader methods against regexp on the same reader (left-to-right only): sizes as reported, any
		// terminal error is the end of the text (D49: compat used to panic on a non-EOF error)
		zeroSize := false
		for _, w := range sizes {
			zeroSize = zeroSize || w == 0
		}
		if zeroSize {
			// regexp's machine reads a rune of width 0 as the end of the text; such a reader breaks the
			// contract of io.RuneReader, so only the model is compared with compat on it
			o.Buckets = append(o.Buckets, "reader-reports-size-0(not-compared-with-regexp)")
		}
		if std, err := regexp.Compile(cs.Pat); err == nil && !cs.RTL && !zeroSize {
			for k, call := range c06mAllCalls {
				if call.Name != "MatchReader" && call.Name != "FindReaderIndex" && call.Name != "FindReaderSubmatchIndex" {
					continue
				}
				if c06MixedGroups(std) && call.Name == "FindReaderSubmatchIndex" {
					continue // numbering of mixed named/unnamed groups needs OptionMaintainCaptureOrder (leg G)
				}
				if sw := c06mRender(call, std, b, s, rd); sw != want[k] {
					o.Fail = &core.Failure{Kind: "impl-violation", Key: "Gm:reader-error", Summary: fmt.Sprintf("compat %s differs from regexp on pattern %q (RE2) for a rune reader over %q (reader mode %d, sizes %v)", call.Name, cs.Pat, s, cs.RMode, sizes), Expected: sw, Got: want[k]}
					break
				}
			}
			if o.Fail != nil {
				continue
			}
			if rfail {
				o.Buckets = append(o.Buckets, "reader-ends-with-non-EOF-error:agrees-with-regexp")
			}
		}
		lines = append(lines, core.S("c06", "methods", core.S("rtl", core.SBool(cs.RTL)), core.S("err", "0"), core.S("nil", core.SBool(b == nil)),
			core.S("segs", segs), core.S("rfail", core.SBool(rfail)), core.S("ritems", ritems.String()), core.S("ms", seq), core.S("ns", core.SInts(c06Ns))))
		pend = append(pend, pending{i: i, kind: "Gm", want: want})

		// specification side, on a third of the left-to-right cases
		if cs.RTL || (len(cs.Pat)+len(in))%3 != 0 {
			continue
		}
		std, err := regexp.Compile(cs.Pat)
		if err != nil {
			continue
		}
		table, ok := c06mStdTable(cs.Pat, in, len(runes))
		if !ok {
			o.Buckets = append(o.Buckets, "no-std-table")
			continue
		}
		o.Buckets = append(o.Buckets, "spec-side-compared")
		sw := make([]string, len(c06mAllCalls))
		srd := func() io.RuneReader { return strings.NewReader(s) }
		for k, call := range c06mAllCalls {
			sw[k] = c06mRender(call, std, b, s, srd)
		}
		lines = append(lines, core.S("c06", "spec", core.S("nil", core.SBool(b == nil)), core.S("segs", segs), core.S("table", table), core.S("ns", core.SInts(c06Ns))))
		pend = append(pend, pending{i: i, kind: "Gs", want: sw})
	}
	res, err := c.RunDriver(lines)
	if err != nil {
		for i := range outs {
			if outs[i].Fail == nil {
				outs[i].Fail = core.DriverFailure(err)
				break
			}
		}
		return outs
	}
	for li, p := range pend {
		if outs[p.i].Fail != nil {
			continue
		}
		cs := cases[p.i]
		got := c06mSplitTop(res[li])
		if len(got) != len(p.want)+1 || got[0] != "ok" {
			outs[p.i].Fail = &core.Failure{Kind: "correspondence-break", Key: p.kind + ":driver-answer", Summary: "unexpected answer of the Lean driver", Expected: fmt.Sprintf("ok + %d results", len(p.want)), Got: res[li]}
			continue
		}
		for k, call := range c06mAllCalls {
			if got[k+1] == p.want[k] {
				continue
			}
			what := "the Lean adapter model (Model/Compat.lean) and compat." + call.Name + " differ"
			if p.kind == "Gs" {
				what = "the Lean specification Compat.Std." + call.Name + " over regexp's own searches and regexp." + call.Name + " differ"
			}
			outs[p.i].Fail = &core.Failure{Kind: "correspondence-break", Key: p.kind + ":" + call.Name,
				Summary:  fmt.Sprintf("%s: %s on pattern %q (RE2, rtl=%v) input %q nil=%v reader-mode=%d", what, c06mName(call), cs.Pat, cs.RTL, string(cs.input()), cs.Nil, cs.RMode),
				Expected: "lean: " + got[k+1], Got: "go: " + p.want[k]}
			break
		}
	}
	return outs
}

func c06MethodsLeg(c *core.Ctx) {
	bs := func(s string) []int {
		out := make([]int, len(s))
		for i := 0; i < len(s); i++ {
			out[i] = int(s[i])
		}
		return out
	}
	corpus := []c06mCase{
		{Pat: `a.`, In: bs("xa\xffy")},
		{Pat: `a*`, In: bs("baaab")},
		{Pat: `a*`, In: bs("baaab"), RTL: true},
		{Pat: `(a)|(é)|\xff`, In: bs("xé\xffa\xe6\x97"), RMode: 1},
		{Pat: `(a)|(é)|`, In: bs("é\xffa日"), RMode: 2},
		{Pat: `x*`, In: bs(""), Nil: true},
		{Pat: `x*`, In: bs("")},
		{Pat: `x`, In: bs(""), Nil: true},
		{Pat: `(b)?`, In: bs("日b\xc3"), RMode: 3, RSizes: []int{3, 0, 7}},
		{Pat: `a.`, In: bs("xa\xffb"), RMode: 4, RSizes: []int{1, 2, 1, 5}}, // D49: compat panicked, regexp [1 4]
		{Pat: `a.`, In: bs("xa\xffb"), RMode: 5, RSizes: []int{1, 2, 1, 5}},
		{Pat: `x*`, In: bs(""), RMode: 5},
		{Pat: `x`, In: bs(""), RMode: 4},
		{Pat: `\B`, In: bs("\xffé1")},
		{Pat: `(?P<n1>a+)(b)?`, In: bs("aab a")},
		{Pat: `\x{FFFD}`, In: bs("\xff�")},
		{Pat: ``, In: bs("\xed\xa0\x80\xf4\x90\x80\x80")},
	}
	core.RunLeg(c, core.Leg[c06mCase]{
		Name: "Gm", Kind: "correspondence",
		Rule:   "the (pattern, input) cases of leg G, plus: nil / empty non-nil byte slice, RE2|RightToLeft on 1 case in 8, the rune reader as strings.Reader / bytes.Reader / bufio.Reader / a reader reporting arbitrary sizes 1-6 per rune (sometimes 0: then not compared with regexp, which reads width 0 as the end of the text) and ending with io.EOF / io.ErrUnexpectedEOF / a custom error (also after zero items); the three reader methods are also compared with regexp on the same reader (impl-violation Gm:reader-error). regexp2's match sequence with groups (FindStringMatch, FindNextMatch; rune indices) + the input as decoding steps (rune, bytes) + the reader's (rune, size) items go to the Lean driver (c06 methods); the adapter model of Model/Compat.lean computes all 21 methods (8 find-all methods x n in {-1,0,1,2,3}); each result is compared with the real compat method in a rendering that keeps nil-ness (nil slice vs empty, nil element vs empty element, panic). On a third of the left-to-right cases the specification side (Compat.Std: regexp's 21 methods over 'leftmost match at or after byte position pos', request c06 spec) is run over a table taken from the standard library itself (\\A(?s:.{p})(?s:.*?)(P) at every rune boundary) and compared with the real regexp methods. non-trivial = regexp2 finds a match; distinct by (pattern, input, nil, rtl, reader mode)",
		Corpus: corpus, N: c.N(3000, 60000), Gen: c06mGenCase, Check: c06mCheck, Batch: 1000,
	})
}
