package legs

import (
	"fmt"
	"math"
	"math/rand"
	"runtime"
	"sort"
	"strconv"
	"strings"
	"sync"
	"sync/atomic"
	"time"

	"rvharness/internal/core"

	regexp2 "github.com/dlclark/regexp2/v2"
)

// C14 — Timeouts fire, only when due, and the clock cleans up.
//
// A case is a history of API-level events executed on the real code (one process-wide clock, so
// histories run strictly one after the other; each starts with StopTimeoutClock so that its behaviour
// does not depend on what ran before, except for the fixed origin fast.start).  What is observed:
// the error and wall-clock latency of every timed call, the duration of StopTimeoutClock, and the
// presence of the runClock goroutine in a stack dump after every event.  The same history with the
// measured timestamps is replayed on the Lean model (Model/Clock.lean, ideal tick schedule) and the
// observations are compared with what the model allows.

type c14Member struct {
	Kind  string `json:"kind"`            // cat | med | quick
	D     int64  `json:"d"`               // MatchTimeout in ns
	Delay int64  `json:"delay,omitempty"` // start delay inside a conc event, ns
}

type c14Event struct {
	Op      string      `json:"op"` // cat | med | quick | idle | longidle | stop | conc
	D       int64       `json:"d,omitempty"`
	Gap     int64       `json:"gap,omitempty"` // idle: ns; longidle: extra ns beyond the clock's planned end
	Members []c14Member `json:"members,omitempty"`
}

type c14Case struct {
	PeriodNs int64      `json:"period_ns"`
	Events   []c14Event `json:"events"`
}

const (
	c14Tick   = int64(1) << 20
	c14Second = int64(time.Second)
	c14Ms     = int64(time.Millisecond)
	// epsEarly: the assumed bound on how late the clock goroutine may wake (the model's eps) when an
	// early timeout is judged for a deadline computed from a running clock's possibly stale time.
	// (On a loaded machine wake-ups 5-6 ms late were observed; a deadline made from a clock that was
	// seen stopped involves no eps at all.)
	c14EpsEarly = 10 * c14Ms
)

var (
	c14Base        = time.Now()
	c14Started     bool
	c14StartNs     int64
	c14CatInput    string
	c14MedInput    string
	c14SpreadInput string
	c14CalibOnce   sync.Once
	c14CatNatural  time.Duration
	c14Failed      int
	c14Hung        bool
)

func c14Now() int64 { return int64(time.Since(c14Base)) }

func satAdd(a, b int64) int64 {
	if b > 0 && a > math.MaxInt64-b {
		return math.MaxInt64
	}
	return a + b
}

// calibrate input lengths: the catastrophic input must run far longer than any timeout plus allowance
// (but end by itself, so that a timeout that never fires is observed instead of hanging the harness),
// the medium input a few clock periods.
func c14Calibrate() {
	c14CalibOnce.Do(func() {
		re := regexp2.MustCompile(`(a+)+$`)
		best := time.Hour
		for i := 0; i < 3; i++ {
			t := time.Now()
			_, _ = re.MatchString(strings.Repeat("a", 18) + "b")
			if e := time.Since(t); e < best {
				best = e
			}
		}
		nCat, nMed := 18, 18
		for e := best; e < 1500*time.Millisecond && nCat < 34; e *= 2 {
			nCat++
		}
		for e := best; e > 12*time.Millisecond && nMed > 10; e /= 2 {
			nMed--
		}
		// "spread": polynomial backtracking spread over many start positions, each attempt far cheaper than
		// any timeout — the deadline has to bound the whole scan, not one attempt
		sp := regexp2.MustCompile(`(\w+)\s*(\w+)\s*=`)
		nSp := 200
		for ; nSp < 6400; nSp = nSp * 3 / 2 {
			t := time.Now()
			_, _ = sp.MatchString(strings.Repeat("x", nSp))
			if time.Since(t) > 1200*time.Millisecond {
				break
			}
		}
		c14SpreadInput = strings.Repeat("x", nSp)
		c14CatInput = strings.Repeat("a", nCat) + "b"
		c14MedInput = strings.Repeat("a", nMed) + "b"
		c14CatNatural = best << uint(nCat-18)
	})
}

func c14ClockAlive() bool {
	buf := make([]byte, 1<<18)
	n := runtime.Stack(buf, true)
	return strings.Contains(string(buf[:n]), "regexp2/v2.runClock")
}

// c14StopClock calls StopTimeoutClock; false when it has not returned after 5 s (it waits for the clock
// goroutine to leave its loop, which takes one period).  After that the process-wide clock is unusable
// for further histories.
func c14StopClock() bool {
	if c14Hung {
		return false
	}
	done := make(chan struct{})
	go func() {
		regexp2.StopTimeoutClock()
		close(done)
	}()
	select {
	case <-done:
		return true
	case <-time.After(5 * time.Second):
		c14Hung = true
		return false
	}
}

// A shadow ticker does what runClock does (sleep one period, note the time) next to the real one; how
// stale its note is when a timed call starts estimates the scheduler term eps of the model.  It only
// feeds a note in the evidence.
var (
	c14ShadowLast   atomic.Int64
	c14ShadowPeriod atomic.Int64
	c14ShadowN      int
	c14ShadowOver   [4]int // staleness beyond one period: >1ms, >3ms, >10ms, >50ms
	c14ShadowMax    int64
	c14ShadowMu     sync.Mutex
)

func c14ShadowRun(stop chan struct{}) {
	for {
		select {
		case <-stop:
			return
		default:
		}
		p := c14ShadowPeriod.Load()
		if p <= 0 {
			p = c14Ms
		}
		time.Sleep(time.Duration(p))
		c14ShadowLast.Store(c14Now())
	}
}

func c14ShadowSample() {
	last, p := c14ShadowLast.Load(), c14ShadowPeriod.Load()
	if last == 0 || p <= 0 {
		return
	}
	over := c14Now() - last - p
	c14ShadowMu.Lock()
	defer c14ShadowMu.Unlock()
	c14ShadowN++
	for i, lim := range []int64{c14Ms, 3 * c14Ms, 10 * c14Ms, 50 * c14Ms} {
		if over > lim {
			c14ShadowOver[i]++
		}
	}
	if over > c14ShadowMax {
		c14ShadowMax = over
	}
}

// observations ---------------------------------------------------------------------------------

type c14Match struct {
	ID       int
	Ev       int
	Kind     string
	D        int64
	TBefore  int64
	TAfter   int64
	TimedOut bool
	OtherErr string
	// the clock goroutine was seen absent after the previous armed call and nothing armed it since:
	// this call computed its deadline from a freshly read time
	FreshSeen bool
}

type c14Probe struct {
	Ev      int
	TBefore int64
	TAfter  int64
	Alive   bool
	After   string // op of the event it follows
}

type c14Stop struct {
	Ev       int
	T, TRet  int64
	AliveRet bool
}

type c14Run struct {
	Init    [3]int64
	Api     []c14Api
	Matches []c14Match
	Probes  []c14Probe
	Stops   []c14Stop
	// Go-side estimate (upper bound) of the time the clock is planned to leave its loop
	EndEst []int64 // per probe
	Hung   string  // StopTimeoutClock never returned
}

type c14Api struct {
	T    int64
	Line string
}

func c14RunMatch(kind string, d int64) (timedOut bool, other string, t0, t1 int64) {
	var re *regexp2.Regexp
	var in string
	switch kind {
	case "cat":
		re, in = regexp2.MustCompile(`(a+)+$`), c14CatInput
	case "med":
		re, in = regexp2.MustCompile(`(a+)+$`), c14MedInput
	case "spread":
		re, in = regexp2.MustCompile(`(\w+)\s*(\w+)\s*=`), c14SpreadInput
	default:
		re, in = regexp2.MustCompile(`a+b`), "xxaab"
	}
	re.MatchTimeout = time.Duration(d)
	c14ShadowSample()
	t0 = c14Now()
	_, err := re.MatchString(in)
	t1 = c14Now()
	if err != nil {
		if strings.Contains(err.Error(), "match timeout") {
			timedOut = true
		} else {
			other = err.Error()
		}
	}
	return
}

// c14Execute runs one history on the real clock.
func c14Execute(cs c14Case, lateAllow int64) *c14Run {
	c14Calibrate()
	r := &c14Run{}
	if !c14StopClock() {
		r.Hung = "StopTimeoutClock called before the history (clock left by the previous history) did not return within 5s"
		return r
	}
	regexp2.SetTimeoutCheckPeriod(time.Duration(cs.PeriodNs))
	c14ShadowPeriod.Store(cs.PeriodNs)
	st := int64(0)
	if c14Started {
		st = 1
	}
	r.Init = [3]int64{st, c14StartNs, c14Now()}
	nextID := 0
	endEst := int64(0) // when the clock is planned to have left its loop (upper estimate), 0 = not running
	seenAbsent := true // goroutine absent at the last look and nothing armed since
	armed := func(t0, d int64) {
		if d == math.MaxInt64 {
			return
		}
		if !c14Started {
			c14Started, c14StartNs = true, t0
		}
		e := satAdd(satAdd(satAdd(t0, d), cs.PeriodNs), c14Second+2*c14Tick)
		if e > endEst {
			endEst = e
		}
	}
	probe := func(ev int, after string) c14Probe {
		p := c14Probe{Ev: ev, After: after}
		p.TBefore = c14Now()
		p.Alive = c14ClockAlive()
		p.TAfter = c14Now()
		r.Probes = append(r.Probes, p)
		r.EndEst = append(r.EndEst, endEst)
		r.Api = append(r.Api, c14Api{p.TBefore, fmt.Sprintf("(probe %d)", p.TBefore)})
		if !p.Alive {
			seenAbsent = true
		}
		return p
	}
	single := func(ev int, kind string, d int64) {
		id := nextID
		nextID++
		fresh := seenAbsent
		to, other, t0, t1 := c14RunMatch(kind, d)
		if d != math.MaxInt64 {
			seenAbsent = false
		}
		armed(t0, d)
		r.Matches = append(r.Matches, c14Match{ID: id, Ev: ev, Kind: kind, D: d, TBefore: t0, TAfter: t1, TimedOut: to, OtherErr: other, FreshSeen: fresh})
		r.Api = append(r.Api, c14Api{t0, fmt.Sprintf("(make %d %d %d)", id, t0, d)}, c14Api{t1, fmt.Sprintf("(fin %d %d)", id, t1)})
	}
	for i, ev := range cs.Events {
		switch ev.Op {
		case "cat", "med", "quick", "spread":
			single(i, ev.Op, ev.D)
		case "idle":
			time.Sleep(time.Duration(ev.Gap))
		case "longidle":
			// sleep until the clock must have left its loop by the documented bound, plus Gap; then give
			// it the lateness allowance before looking a last time
			if target := satAdd(endEst, 2*cs.PeriodNs+ev.Gap); endEst != 0 && target-c14Now() < 5*c14Second {
				if w := target - c14Now(); w > 0 {
					time.Sleep(time.Duration(w))
				}
				limit := satAdd(target, lateAllow+20*c14Ms)
				for c14Now() < limit {
					if p := probe(i, "longidle-poll"); !p.Alive {
						break
					}
					time.Sleep(5 * time.Millisecond)
				}
			}
		case "stop":
			s := c14Stop{Ev: i, T: c14Now()}
			if !c14StopClock() {
				r.Hung = fmt.Sprintf("event %d: StopTimeoutClock did not return within 5s", i)
				return r
			}
			s.TRet = c14Now()
			// the goroutine clears `running` a few instructions before it is gone from the dump
			alive := true
			for k := 0; k < 50 && alive; k++ {
				if alive = c14ClockAlive(); alive {
					time.Sleep(2 * time.Millisecond)
				}
			}
			s.AliveRet = alive
			r.Stops = append(r.Stops, s)
			r.Api = append(r.Api, c14Api{s.T, fmt.Sprintf("(stop %d %d)", s.T, s.TRet)})
			endEst = 0
			seenAbsent = !alive
		case "conc":
			var wg sync.WaitGroup
			res := make([]c14Match, len(ev.Members))
			for k, m := range ev.Members {
				res[k] = c14Match{ID: nextID, Ev: i, Kind: m.Kind, D: m.D}
				nextID++
				wg.Add(1)
				go func(k int, m c14Member) {
					defer wg.Done()
					if m.Delay > 0 {
						time.Sleep(time.Duration(m.Delay))
					}
					if m.Kind == "stop" {
						// StopTimeoutClock while other matches are in flight (never generated; replays only)
						res[k].TBefore = c14Now()
						if !c14StopClock() {
							res[k].OtherErr = "hung"
						}
						res[k].TAfter = c14Now()
						return
					}
					to, other, t0, t1 := c14RunMatch(m.Kind, m.D)
					res[k].TimedOut, res[k].OtherErr, res[k].TBefore, res[k].TAfter = to, other, t0, t1
				}(k, m)
			}
			wg.Wait()
			for k := range res {
				if res[k].Kind == "stop" {
					if res[k].OtherErr != "" {
						r.Hung = fmt.Sprintf("event %d: StopTimeoutClock did not return within 5s", i)
						return r
					}
					r.Stops = append(r.Stops, c14Stop{Ev: i, T: res[k].TBefore, TRet: res[k].TAfter})
					r.Api = append(r.Api, c14Api{res[k].TBefore, fmt.Sprintf("(stop %d %d)", res[k].TBefore, res[k].TAfter)})
					endEst = 0
					continue
				}
				if res[k].D != math.MaxInt64 {
					seenAbsent = false
				}
				armed(res[k].TBefore, res[k].D)
			}
			for k := range res {
				if res[k].Kind == "stop" {
					continue
				}
				res[k].FreshSeen = false // concurrent starts: never treated as certainly fresh
				r.Matches = append(r.Matches, res[k])
				r.Api = append(r.Api, c14Api{res[k].TBefore, fmt.Sprintf("(make %d %d %d)", res[k].ID, res[k].TBefore, res[k].D)},
					c14Api{res[k].TAfter, fmt.Sprintf("(fin %d %d)", res[k].ID, res[k].TAfter)})
			}
		}
		probe(i, ev.Op)
	}
	return r
}

// model answers ----------------------------------------------------------------------------------

type c14ModelMake struct {
	Armed, Fresh bool
	Dl, Lo, Hi   int64
}
type c14ModelProbe struct {
	Running bool
	EndT    int64
}

type c14Model struct {
	Makes  map[int]c14ModelMake
	Probes []c14ModelProbe
	Stops  []int64
	Raw    string
}

func c14DriverLine(cs c14Case, r *c14Run) string {
	api := append([]c14Api{}, r.Api...)
	sort.SliceStable(api, func(i, j int) bool { return api[i].T < api[j].T })
	parts := make([]string, len(api))
	for i, a := range api {
		parts[i] = a.Line
	}
	return fmt.Sprintf("(c14 sim (period %d) (init %d %d %d) (events %s))", cs.PeriodNs, r.Init[0], r.Init[1], r.Init[2], strings.Join(parts, " "))
}

func c14ParseModel(ans string) (*c14Model, error) {
	m := &c14Model{Makes: map[int]c14ModelMake{}, Raw: ans}
	if !strings.HasPrefix(ans, "(ok") {
		return nil, fmt.Errorf("model answered %s", ans)
	}
	body := strings.TrimSuffix(strings.TrimPrefix(ans, "(ok"), ")")
	for _, item := range strings.Split(body, "(") {
		f := strings.Fields(strings.TrimRight(strings.TrimSpace(item), ")"))
		if len(f) == 0 {
			continue
		}
		num := func(i int) int64 {
			if i >= len(f) {
				return 0
			}
			v, err := strconv.ParseInt(f[i], 10, 64)
			if err != nil {
				// beyond int64: saturate (times derived from a deadline of about MaxInt64 ns)
				if strings.HasPrefix(f[i], "-") {
					return math.MinInt64
				}
				return math.MaxInt64
			}
			return v
		}
		switch f[0] {
		case "make":
			m.Makes[int(num(1))] = c14ModelMake{Armed: num(2) == 1, Dl: num(3), Lo: num(4), Hi: num(5), Fresh: num(6) == 1}
		case "probe":
			m.Probes = append(m.Probes, c14ModelProbe{Running: num(1) == 1, EndT: num(2)})
		case "stop":
			m.Stops = append(m.Stops, num(1))
		case "fin":
		default:
			return nil, fmt.Errorf("unexpected item %q in model answer", item)
		}
	}
	return m, nil
}

// verdicts ----------------------------------------------------------------------------------------

type c14Finding struct {
	Kind, Key, Summary, Expected, Got string
	Ev                                int // event index: a finding is confirmed only by the same class at the same event
}

func c14Judge(cs c14Case, r *c14Run, m *c14Model, lateAllow int64) (fs []c14Finding, buckets []string) {
	per := cs.PeriodNs
	curEv := -1
	add := func(kind, key, sum, exp, got string) {
		fs = append(fs, c14Finding{kind, key, sum, exp, got, curEv})
	}
	for _, x := range r.Matches {
		curEv = x.Ev
		el := x.TAfter - x.TBefore
		desc := fmt.Sprintf("event %d: %s match with MatchTimeout=%dns (period %dns)", x.Ev, x.Kind, x.D, per)
		buckets = append(buckets, "match:"+x.Kind, "timeout:"+c14DClass(x.D, per))
		if x.OtherErr != "" {
			add("impl-violation", "unexpected-error", desc+" failed with another error", "nil or a timeout error", x.OtherErr)
			continue
		}
		// --- model-free oracle
		if x.TimedOut {
			if x.D == math.MaxInt64 {
				add("impl-violation", "timeout-with-default", desc+" reported a timeout although MaxInt64 disables checking", "no timeout", fmt.Sprintf("timeout after %dns", el))
				continue
			}
			eps := c14EpsEarly
			if x.FreshSeen {
				eps = 0
			}
			if el < x.D-2*c14Tick-eps {
				add("impl-violation", "early-timeout:"+x.Kind+":"+c14DClass(x.D, per), desc+fmt.Sprintf(" reported a timeout after only %dns", el),
					fmt.Sprintf("no timeout before d - 2 ticks - eps = %dns (eps = %dns)", x.D-2*c14Tick-eps, eps), fmt.Sprintf("timeout after %dns", el))
				continue
			}
			if x.Kind != "cat" && x.Kind != "spread" {
				buckets = append(buckets, "slow-"+x.Kind+"-timed-out-when-due")
			}
		}
		if x.Kind == "cat" || x.Kind == "spread" {
			if !x.TimedOut {
				add("impl-violation", "no-timeout", desc+fmt.Sprintf(" ran to its natural end (%dns) without a timeout error", el), "timeout error", "nil")
				continue
			}
			over := el - x.D
			buckets = append(buckets, "cat-latency-minus-d:"+c14OverClass(over, per))
			if el > satAdd(x.D, 2*per+c14Tick+lateAllow) {
				add("impl-violation", "late-timeout", desc+fmt.Sprintf(" timed out only after %dns", el),
					fmt.Sprintf("timeout within d + 2*period + 1 tick + %dns allowance", lateAllow), fmt.Sprintf("%dns", el))
				continue
			}
		}
		// --- against the model
		mm, ok := m.Makes[x.ID]
		if !ok {
			add("correspondence-break", "model-missing-make", desc+": the model run has no entry", "entry", m.Raw)
			continue
		}
		if mm.Armed != (x.D != math.MaxInt64) {
			add("correspondence-break", "model-armed", desc+": model and harness disagree on whether a deadline exists", fmt.Sprint(mm.Armed), fmt.Sprint(x.D != math.MaxInt64))
			continue
		}
		if x.TimedOut && mm.Armed {
			fresh := x.FreshSeen && mm.Fresh
			lo := mm.Lo - c14Tick
			if !fresh {
				lo -= per + c14EpsEarly
			}
			if fresh {
				buckets = append(buckets, "deadline-from-fresh-clock")
			} else {
				buckets = append(buckets, "deadline-from-running-clock")
			}
			if x.TAfter < lo {
				key := "model-early:running"
				if fresh {
					key = "model-early:fresh"
				}
				add("correspondence-break", key, desc+fmt.Sprintf(" timed out at t=%d, before the model's deadline %d ticks can be reached (t=%d, fresh=%v)", x.TAfter, mm.Dl, mm.Lo, fresh),
					fmt.Sprintf("t >= %d", lo), fmt.Sprintf("t = %d (latency %dns)", x.TAfter, el))
			}
		}
	}
	for _, s := range r.Stops {
		curEv = s.Ev
		buckets = append(buckets, "stop")
		if s.AliveRet {
			add("impl-violation", "alive-after-stop", fmt.Sprintf("event %d: runClock goroutine still present 100ms after StopTimeoutClock returned", s.Ev), "goroutine gone", "present")
		}
		if s.TRet-s.T > 3*per+lateAllow {
			add("impl-violation", "stop-slow", fmt.Sprintf("event %d: StopTimeoutClock took %dns (period %dns)", s.Ev, s.TRet-s.T, per), fmt.Sprintf("<= 3 periods + %dns", lateAllow), fmt.Sprintf("%dns", s.TRet-s.T))
		}
	}
	if len(m.Probes) != len(r.Probes) {
		add("correspondence-break", "model-probes", "model answered a different number of probes", fmt.Sprint(len(r.Probes)), fmt.Sprint(len(m.Probes)))
		return
	}
	for i, p := range r.Probes {
		curEv = p.Ev
		mp := m.Probes[i]
		if p.Alive {
			buckets = append(buckets, "probe:alive")
		} else {
			buckets = append(buckets, "probe:absent")
		}
		est := r.EndEst[i]
		// model-free: every deadline has passed and so has the slop
		if p.Alive && est != math.MaxInt64 && p.TBefore > satAdd(est, 2*per+lateAllow) {
			add("impl-violation", "clock-leak", fmt.Sprintf("event %d (%s): runClock goroutine still present at t=%d although every deadline plus 1s slop had passed by t=%d", p.Ev, p.After, p.TBefore, est),
				"goroutine gone", "present")
			continue
		}
		if p.Alive && !mp.Running && p.TBefore > satAdd(mp.EndT, 2*per+c14Tick+lateAllow) {
			add("correspondence-break", "model-clock-leak", fmt.Sprintf("event %d (%s): goroutine present at t=%d, the model's clock left its loop at about t=%d", p.Ev, p.After, p.TBefore, mp.EndT), "gone", "present")
			continue
		}
		if !p.Alive && mp.Running && p.TAfter < mp.EndT-2*per-2*c14Tick-20*c14Ms {
			add("correspondence-break", "clock-missing", fmt.Sprintf("event %d (%s): no runClock goroutine at t=%d although the model's clock runs until about t=%d", p.Ev, p.After, p.TAfter, mp.EndT), "present", "absent")
		}
	}
	return
}

func c14DClass(d, per int64) string {
	switch {
	case d == math.MaxInt64:
		return "MaxInt64(off)"
	case d > math.MaxInt64-per:
		return "within-period-of-MaxInt64"
	case d >= math.MaxInt64-per-2:
		return "MaxInt64-period"
	case d >= int64(time.Minute):
		return ">=1min"
	case d >= c14Second:
		return "1s..1min"
	case d >= 100*c14Ms:
		return "100ms..1s"
	default:
		return "<100ms"
	}
}

func c14OverClass(over, per int64) string {
	switch {
	case over < -c14Tick:
		return "<-1tick"
	case over < 0:
		return "-1tick..0"
	case over < per:
		return "0..1period"
	case over < 2*per+c14Tick:
		return "1..2periods"
	case over < 2*per+c14Tick+20*c14Ms:
		return "late<20ms"
	default:
		return "late>=20ms"
	}
}

func c14LateAllow(c *core.Ctx) int64 {
	if c.Thorough() {
		return 250 * c14Ms
	}
	return 150 * c14Ms
}

// c14Once executes the history, runs the model on it and judges.
func c14Once(c *core.Ctx, cs c14Case) ([]c14Finding, []string, error) {
	la := c14LateAllow(c)
	r := c14Execute(cs, la)
	if r.Hung != "" {
		return []c14Finding{{"impl-violation", "stop-hang", r.Hung + " (the clock goroutine does not leave its loop)", "returns after about one period", "still blocked after 5s", -1}}, nil, nil
	}
	ans, err := c.RunDriver([]string{c14DriverLine(cs, r)})
	if err != nil {
		return nil, nil, err
	}
	m, err := c14ParseModel(ans[0])
	if err != nil {
		return nil, nil, err
	}
	fs, b := c14Judge(cs, r, m, la)
	return fs, b, nil
}

func c14Check(c *core.Ctx, cases []c14Case) []core.Outcome {
	outs := make([]core.Outcome, len(cases))
	stopShadow := make(chan struct{})
	go c14ShadowRun(stopShadow)
	defer func() {
		close(stopShadow)
		if c14StopClock() {
			regexp2.SetTimeoutCheckPeriod(regexp2.DefaultClockPeriod)
		}
		if c14ShadowN > 0 && c.ReplayCase == nil {
			c.Result.Notes = append(c.Result.Notes, fmt.Sprintf("C14 scheduler noise during the leg (assumption eps): a shadow ticker sleeping one clock period was, at the start of %d timed calls, stale by more than period+1ms %d times, +3ms %d, +10ms %d, +50ms %d (max %.1fms beyond one period); the leg assumes eps <= 10ms for earliness and re-runs a history before reporting", c14ShadowN, c14ShadowOver[0], c14ShadowOver[1], c14ShadowOver[2], c14ShadowOver[3], float64(c14ShadowMax)/1e6))
		}
	}()
	for i, cs := range cases {
		o := &outs[i]
		o.Key = string(core.RawJSON(cs))
		o.Nontrivial = len(cs.Events) > 1
		if c14Failed >= 3 || c14Hung {
			// a broken clock makes every history slow (catastrophic matches run to their end): stop early
			o.Buckets = []string{"skipped-after-3-failing-histories"}
			continue
		}
		fs, buckets, err := c14Once(c, cs)
		if err != nil {
			o.Fail = core.DriverFailure(err)
			c14Failed++
			continue
		}
		o.Buckets = append(buckets, fmt.Sprintf("period:%dms", cs.PeriodNs/c14Ms))
		if len(fs) == 0 {
			continue
		}
		if c14Hung {
			// nothing can be re-run: the clock cannot be stopped any more
			c14Failed++
			o.Fail = &core.Failure{Kind: fs[0].Kind, Key: fs[0].Key, Summary: fs[0].Summary, Expected: fs[0].Expected, Got: fs[0].Got}
			continue
		}
		// Timing observations are confirmed before they are reported: the history is run twice more and
		// only findings of a class seen in all three runs count (a loaded machine delays goroutines).
		ck := func(f c14Finding) string { return fmt.Sprintf("%s@%d", f.Key, f.Ev) }
		confirmed := map[string]c14Finding{}
		for _, f := range fs {
			if _, ok := confirmed[ck(f)]; !ok {
				confirmed[ck(f)] = f
			}
		}
		for k := 0; k < 2 && len(confirmed) > 0; k++ {
			o.Buckets = append(o.Buckets, "rerun")
			fs2, _, err := c14Once(c, cs)
			if err != nil {
				break
			}
			seen := map[string]bool{}
			for _, f := range fs2 {
				seen[ck(f)] = true
			}
			for key, f := range confirmed {
				if !seen[key] {
					o.Buckets = append(o.Buckets, "unconfirmed:"+f.Key)
					if len(c.Result.Notes) < 12 {
						c.Result.Notes = append(c.Result.Notes, fmt.Sprintf("C14 history %d: finding not confirmed by re-running the history (scheduling noise, not counted): %s: %s (expected %s, got %s)", i, f.Key, f.Summary, f.Expected, f.Got))
					}
					delete(confirmed, key)
				}
			}
		}
		if len(confirmed) == 0 {
			continue
		}
		c14Failed++
		keys := make([]string, 0, len(confirmed))
		for k := range confirmed {
			keys = append(keys, k)
		}
		sort.Slice(keys, func(a, b int) bool {
			ia, ib := confirmed[keys[a]].Kind == "impl-violation", confirmed[keys[b]].Kind == "impl-violation"
			if ia != ib {
				return ia
			}
			return keys[a] < keys[b]
		})
		f := confirmed[keys[0]]
		o.Fail = &core.Failure{Kind: f.Kind, Key: f.Key, Summary: f.Summary + " [seen at this event in 3 of 3 runs of the history; all confirmed class@event: " + strings.Join(keys, ", ") + "]", Expected: f.Expected, Got: f.Got}
	}
	return outs
}

// generator ---------------------------------------------------------------------------------------

func c14Gen(rng *rand.Rand, i int) c14Case {
	per := c14Ms
	if i%4 == 3 {
		per = []int64{4 * c14Ms, 16 * c14Ms}[rng.Intn(2)]
	}
	catD := func() int64 { return []int64{20, 30, 50, 80}[rng.Intn(4)]*c14Ms + int64(rng.Intn(3))*c14Ms/2 }
	quickD := func() int64 {
		switch rng.Intn(10) {
		case 0:
			return math.MaxInt64 - 1
		case 1:
			return math.MaxInt64 - per
		case 2:
			return math.MaxInt64 - per + 1
		case 3:
			return math.MaxInt64
		case 4:
			return int64(time.Hour)
		case 5:
			return 10 * c14Second
		case 6:
			return c14Second
		default:
			return []int64{20, 50, 200}[rng.Intn(3)] * c14Ms
		}
	}
	var evs []c14Event
	n := 6 + rng.Intn(6)
	longLeft := 1
	bigArmed := false
	for len(evs) < n {
		switch k := rng.Intn(20); {
		case k < 6:
			evs = append(evs, c14Event{Op: []string{"cat", "cat", "cat", "spread"}[rng.Intn(4)], D: catD()})
		case k < 9:
			d := quickD()
			if d > 2*c14Second && d != math.MaxInt64 {
				bigArmed = true
			}
			evs = append(evs, c14Event{Op: "quick", D: d})
		case k < 11:
			evs = append(evs, c14Event{Op: "med", D: []int64{c14Second, 10 * c14Second}[rng.Intn(2)]})
			if evs[len(evs)-1].D > 2*c14Second {
				bigArmed = true
			}
		case k < 14:
			evs = append(evs, c14Event{Op: "idle", Gap: []int64{0, c14Ms / 2, 3 * c14Ms, 7 * c14Ms, 30 * c14Ms, 120 * c14Ms}[rng.Intn(6)] + int64(rng.Intn(1000))*1000})
		case k < 16:
			evs = append(evs, c14Event{Op: "stop"})
			bigArmed = false
		case k < 18:
			if longLeft > 0 && len(evs) > 0 {
				longLeft--
				if bigArmed {
					evs = append(evs, c14Event{Op: "stop"})
					bigArmed = false
					evs = append(evs, c14Event{Op: "cat", D: catD()})
				}
				evs = append(evs, c14Event{Op: "longidle", Gap: []int64{5 * c14Ms, 40 * c14Ms}[rng.Intn(2)]})
				// what follows an exited clock: restart on demand, no false timeout from the stale time
				evs = append(evs, []c14Event{{Op: "cat", D: catD()}, {Op: "med", D: c14Second}}[rng.Intn(2)])
			}
		default:
			var ms_ []c14Member
			for j, m := 0, 2+rng.Intn(3); j < m; j++ {
				mem := c14Member{Kind: "cat", D: catD(), Delay: int64(rng.Intn(4)) * c14Ms}
				if rng.Intn(4) == 0 {
					mem = c14Member{Kind: "quick", D: quickD(), Delay: int64(rng.Intn(4)) * c14Ms}
					if mem.D > 2*c14Second && mem.D != math.MaxInt64 {
						bigArmed = true
					}
				}
				ms_ = append(ms_, mem)
			}
			evs = append(evs, c14Event{Op: "conc", Members: ms_})
		}
	}
	return c14Case{PeriodNs: per, Events: evs}
}

func c14Corpus() []c14Case {
	mx := int64(math.MaxInt64)
	return []c14Case{
		// first use of the clock in the process: timeouts next to MaxInt64 (fix 45a1777), then a stop, a
		// timeout, an idle gap longer than timeout + 1s + period, restart on demand
		{PeriodNs: c14Ms, Events: []c14Event{
			{Op: "quick", D: mx - 1}, {Op: "quick", D: mx - c14Ms}, {Op: "quick", D: mx - c14Ms + 1}, {Op: "quick", D: mx}, {Op: "med", D: mx - 1},
			{Op: "stop"}, {Op: "cat", D: 30 * c14Ms}, {Op: "idle", Gap: 300 * c14Ms}, {Op: "longidle", Gap: 5 * c14Ms},
			{Op: "cat", D: 20 * c14Ms}, {Op: "quick", D: 50 * c14Ms}, {Op: "idle", Gap: 5 * c14Ms}, {Op: "spread", D: 50 * c14Ms}, {Op: "stop"}, {Op: "cat", D: 20 * c14Ms}, {Op: "med", D: c14Second},
		}},
		// the time left by a stopped clock is older than timeout + 1s (the slop of clockEnd): the restarted clock
		// must be set to run until the new deadline, not until one computed from the old time
		{PeriodNs: c14Ms, Events: []c14Event{{Op: "cat", D: 20 * c14Ms}, {Op: "stop"}, {Op: "idle", Gap: 1200 * c14Ms}, {Op: "cat", D: 30 * c14Ms}, {Op: "quick", D: 50 * c14Ms}}},
		// a coarse period makes the +clockPeriod slack visible: deadline from a stopped clock, then from a running one
		{PeriodNs: 16 * c14Ms, Events: []c14Event{
			{Op: "cat", D: 40 * c14Ms}, {Op: "idle", Gap: 7 * c14Ms}, {Op: "cat", D: 40 * c14Ms}, {Op: "idle", Gap: 3 * c14Ms}, {Op: "cat", D: 60 * c14Ms},
			{Op: "conc", Members: []c14Member{{Kind: "cat", D: 30 * c14Ms}, {Kind: "cat", D: 60 * c14Ms, Delay: 5 * c14Ms}, {Kind: "quick", D: 10 * c14Second, Delay: 2 * c14Ms}}},
			{Op: "stop"}, {Op: "cat", D: 25 * c14Ms}, {Op: "stop"}, {Op: "cat", D: 50 * c14Ms},
		}},
		// concurrent deadlines, one of them an hour away; stop; a match that runs a few periods right after an idle gap
		{PeriodNs: c14Ms, Events: []c14Event{
			{Op: "conc", Members: []c14Member{{Kind: "cat", D: 20 * c14Ms}, {Kind: "cat", D: 50 * c14Ms, Delay: c14Ms}, {Kind: "cat", D: 80 * c14Ms, Delay: 2 * c14Ms}, {Kind: "quick", D: int64(time.Hour), Delay: c14Ms}}},
			{Op: "stop"}, {Op: "idle", Gap: 2 * c14Ms}, {Op: "cat", D: 20 * c14Ms}, {Op: "longidle", Gap: 40 * c14Ms}, {Op: "med", D: 10 * c14Second}, {Op: "stop"}, {Op: "quick", D: 20 * c14Ms},
		}},
	}
}

func init() {
	core.Register("C14", func(c *core.Ctx) {
		core.RunLeg(c, core.Leg[c14Case]{
			Name: "H", Kind: "oracle+correspondence",
			Rule:   "histories of 6-12 events on the real process-wide clock with SetTimeoutCheckPeriod(1ms) (every 4th: 4 or 16 c14Ms): catastrophic (a+)+$ matches and matches whose cubic cost is spread over a thousand start positions ((\\w+)\\s*(\\w+)\\s*= on a run of word characters), both with MatchTimeout 20-81ms, matches of a few c14Ms and instant matches with timeouts from 20ms to MaxInt64 (incl. MaxInt64-1, MaxInt64-period, MaxInt64-period+1), idle gaps 0-120ms, one gap beyond deadline+1s+period per history, StopTimeoutClock, 2-4 concurrent matches with different deadlines; a stack dump after every event. Oracle: a catastrophic match returns a timeout error, no timeout is reported before d - 2 ticks - eps (eps = 10ms for a deadline made while the clock was running, 0 when it was seen stopped), none later than d + 2 periods + 1 tick + allowance (150ms quick / 250ms thorough), the goroutine is gone after StopTimeoutClock and once every deadline + 1s + 2 periods (+allowance) has passed. Correspondence: the same history with measured timestamps run on the Lean model (ideal ticks): no timeout before the model's deadline can be reached (sharp when the clock was seen stopped before the call), goroutine present while the model's clock runs, gone after it left its loop. A finding counts only if its class recurs in 3 of 3 runs of the history. non-trivial = more than one event; distinct by history",
			Corpus: c14Corpus(), N: c.N(9, 330), Gen: c14Gen, Check: c14Check,
		})
		c14BurstLeg(c)
		c14SchedLeg(c)
		c14EntryLeg(c) // every entry point reports the timeout (leg Ep, see c14entry.go)
	})
}
