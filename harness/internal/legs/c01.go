package legs

import (
	"math/rand"

	"rvharness/internal/core"
	"rvharness/internal/gen"
)

// C01 — first match and captures follow leftmost priority-ordered backtracking.

func c01Config(rtl bool) func(rng *rand.Rand) gen.Config {
	return func(rng *rand.Rand) gen.Config {
		o := randOpts(rng, rtl, true)
		cfg := gen.Config{MaxDepth: 2 + rng.Intn(3), Opts: o, Backrefs: !o.RE2, Lookaround: true, Atomic: true,
			Conditionals: !o.RE2, Named: true, Anchors: true, LazyQuant: true}
		return cfg
	}
}

func init() {
	core.Register("C01", func(c *core.Ctx) {
		st := &specGenState{cfg: c01Config(false), perAst: 8, maxLen: 10}
		core.RunLeg(c, core.Leg[specCase]{
			Name: "S", Kind: "correspondence(spec)",
			Rule: "random ASTs of the C01 fragment (depth 1-3; literals, classes incl. shorthand/negation/subtraction, dot, anchors, seq/alt, greedy+lazy quantifiers on non-nullable non-quantifier bodies, captures named+unnamed, backrefs, lookahead/lookbehind, atomic, conditionals) printed to a pattern, option sets from {i,m,s,n,x,RE2}; 8 pattern-directed inputs per AST (≤10 runes: near-misses, newline, é/É, α/Α, я/Я, U+0301, U+1F600), start offset 0 or random; Go FindRunesMatchStartingAt (match span + every capture of every group) vs Lean Spec.find on the AST; non-trivial = AST has >1 node and input non-empty; distinct by (options, pattern, input, start)",
			N:    c.N(6000, 400000), Gen: st.next, Check: specCheck("C01"), Batch: 4000,
		})
		st2 := &specGenState{cfg: c01Config(false), perAst: 6, maxLen: 10}
		core.RunLeg(c, core.Leg[specCase]{
			Name: "T", Kind: "correspondence(spec on the engine's tree)",
			Rule: "same generator as leg S; the pattern is parsed by syntax.Parse (reductions and rewrites applied), the resulting RegexNode tree is converted structurally to the specification's AST (right-to-left concatenations reversed back, char loops as quantifiers, atomic variants as atomic(...), sets via their structural dump with category predicates from Go's unicode tables) and Spec.find on that tree must equal the engine's find: ties the writer and interpreter to the tree semantics and isolates the parser/reducer",
			N:    c.N(4000, 300000), Gen: st2.next, Check: specTreeCheck("C01"), Batch: 4000,
		})
		vmLeg(c, c.N(500, 8000), vmSizes{k: 24, maxSteps: 4000, maxText: 12, extra: 2}) // leg W: interpreter model vs executeDefault (vm.go)
		wrLeg(c, 4000, 400000)
		ccLeg(c, 3000, 150000) // leg Cc: toPat / InFrag / both sides of compile_correct on the engine's trees (compile.go)
		plLeg(c, 1100, 60000)  // leg Pl: the compiler as one Lean function, stage by stage (pipeline.go)
	})
}
