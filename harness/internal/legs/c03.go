package legs

import (
	"fmt"
	"os"
	"strings"

	"rvharness/internal/core"

	regexp2 "github.com/dlclark/regexp2/v2"
)

// C03 — search acceleration never loses, adds or moves a match.
// Oracle N: the real find (candidate finders, prefix filter, length cut-offs, bump-along) against the
// naive scan hook (attempt the compiled program at every position in scan order, nothing else).

func c03Check(c *core.Ctx, cases []engCase) []core.Outcome {
	outs := make([]core.Outcome, len(cases))
	cache := newEngCache()
	for i := range cases {
		cs := &cases[i]
		o := &outs[i]
		o.Key = fmt.Sprintf("%d|%v|%v|%s|%s|%d", cs.Opts, cs.CodeGen, cs.NoBitmap, cs.Pattern, cs.str(), cs.Start)
		cp := cache.get(cs)
		if cp.err != nil {
			o.Buckets = append(o.Buckets, "compile-error")
			continue
		}
		re := cp.re
		o.Nontrivial = len(cs.Text) > 0
		o.Buckets = append(o.Buckets, findModeName(re), "source="+cs.Source)
		fail := func(key, what, want, got string) {
			if o.Fail == nil {
				o.Fail = &core.Failure{Kind: "impl-violation", Key: "C03:" + key + ":" + findModeName(re),
					Summary:  fmt.Sprintf("%s: pattern %q opts %d codegen=%v input %q start %d", what, cs.Pattern, cs.Opts, cs.CodeGen, cs.str(), cs.Start),
					Expected: want, Got: got}
			}
		}
		text := cs.Text
		// 1. find from the start offset vs naive scan
		m, err := re.FindRunesMatchStartingAt(text, cs.Start)
		nm, nerr := regexp2.VerifNaiveScan(re, text, cs.Start, cs.Start, -1, false)
		if err != nil || nerr != nil {
			o.Buckets = append(o.Buckets, "match-error")
			continue
		}
		if a, b := renderFull(nm), renderFull(m); a != b {
			fail("find", "accelerated find differs from the scan with all acceleration disabled", a, b)
			continue
		}
		if m != nil {
			o.Buckets = append(o.Buckets, "match")
		} else {
			o.Buckets = append(o.Buckets, "nomatch")
		}
		// 2. every start offset (cheap inputs only)
		if len(text) <= 12 {
			for s := 0; s <= len(text) && o.Fail == nil; s++ {
				m, err := re.FindRunesMatchStartingAt(text, s)
				nm, nerr := regexp2.VerifNaiveScan(re, text, s, s, -1, false)
				if err != nil || nerr != nil {
					break
				}
				if a, b := renderFull(nm), renderFull(m); a != b {
					fail("find-at", fmt.Sprintf("accelerated find from offset %d differs from the naive scan", s), a, b)
				}
			}
		}
		// 3. the iteration (bump-along, previous-match handling) vs naive recomputation
		prev := m
		for k := 0; k < 4 && prev != nil && o.Fail == nil; k++ {
			next, err := re.FindNextMatch(prev)
			start := regexp2.VerifTextpos(prev)
			nn, nerr := regexp2.VerifNaiveScan(re, text, start, start, prev.RuneLength, false)
			if err != nil || nerr != nil {
				break
			}
			if a, b := renderFull(nn), renderFull(next); a != b {
				fail("next", "FindNextMatch differs from the naive scan from the previous match's end", a, b)
			}
			prev = next
		}
		// 4. the raw-string entry points (string prefix filter) and the bool-only program
		if o.Fail == nil && cs.Start == 0 && !cs.rtl() || o.Fail == nil && cs.rtl() && cs.Start == len(text) {
			s := cs.str()
			sm, err := re.FindStringMatch(s)
			nm0, nerr := regexp2.VerifNaiveScan(re, text, cs.Start, cs.Start, -1, false)
			if err == nil && nerr == nil {
				if a, b := renderFull(nm0), renderFull(sm); a != b {
					fail("find-string", "FindStringMatch (raw-string prefix filter) differs from the naive scan", a, b)
				}
				ok, err := re.MatchString(s)
				if err == nil && ok != (nm0 != nil) {
					fail("match-string", "MatchString differs from the naive scan", fmt.Sprint(nm0 != nil), fmt.Sprint(ok))
				}
				okr, err := re.MatchRunes(text)
				if err == nil && okr != (nm0 != nil) {
					fail("match-runes", "MatchRunes (bool-only program) differs from the naive scan", fmt.Sprint(nm0 != nil), fmt.Sprint(okr))
				}
			}
		}
	}
	return outs
}

// Leg Sc: the scan-loop model (Model/Scan.lean) on the engine's own tables. For one (pattern, input,
// start offset) the single-position attempt, the candidate finder's answer and the bump-along position
// are tabulated for every position through the verif hooks; the Lean model runs `scan` and `naive` on
// the tables and evaluates the hypotheses of `acceleration_transparent`; Go's real find must equal
// the model's scan, and every hypothesis must hold.
func c03ScanCheck(c *core.Ctx, cases []engCase) []core.Outcome {
	outs := make([]core.Outcome, len(cases))
	cache := newEngCache()
	lines := make([]string, len(cases))
	goAns := make([]string, len(cases))
	for i := range cases {
		cs := &cases[i]
		o := &outs[i]
		o.Key = fmt.Sprintf("%d|%v|%s|%s|%d", cs.Opts, cs.CodeGen, cs.Pattern, cs.str(), cs.Start)
		cp := cache.get(cs)
		if cp.err != nil {
			o.Buckets = append(o.Buckets, "compile-error")
			continue
		}
		re := cp.re
		text := cs.Text
		n := len(text)
		code := regexp2.VerifCode(re)
		minLen := 0
		if code.FindOptimizations != nil {
			minLen = code.FindOptimizations.MinRequiredLength
		}
		var row []string
		bad := false
		for p := 0; p <= n; p++ {
			m, after, err := regexp2.VerifAttemptAtEx(re, text, p, cs.Start, false)
			if err != nil {
				bad = true
				break
			}
			found, q := regexp2.VerifFindFirstChar(re, text, p, cs.Start)
			att := "x"
			if m != nil {
				att = fmt.Sprintf("(%d %d)", m.RuneIndex, m.RuneLength)
			}
			if q < 0 || q > n || after < 0 || after > n {
				o.Fail = &core.Failure{Kind: "impl-violation", Key: "C03:finder-out-of-range:" + findModeName(re),
					Summary:  fmt.Sprintf("candidate finder / bump-along leaves the input: pattern %q opts %d input %q pos %d -> q=%d after=%d", cs.Pattern, cs.Opts, cs.str(), p, q, after),
					Expected: "0 <= q, after <= len", Got: fmt.Sprint(q, after)}
				bad = true
				break
			}
			row = append(row, fmt.Sprintf("(%s %s %d %d)", att, core.SBool(found), q, after))
		}
		if bad {
			o.Buckets = append(o.Buckets, "skipped")
			continue
		}
		m, err := re.FindRunesMatchStartingAt(text, cs.Start)
		if err != nil {
			continue
		}
		goAns[i] = "x"
		if m != nil {
			goAns[i] = fmt.Sprintf("(%d %d)", m.RuneIndex, m.RuneLength)
		}
		o.Nontrivial = n > 0
		o.Buckets = append(o.Buckets, findModeName(re))
		lines[i] = fmt.Sprintf("(c03 (n %d) (rtl %s) (minlen %d) (start %d) (prevlen -1) (row %s))", n, core.SBool(cs.rtl()), minLen, cs.Start, strings.Join(row, " "))
	}
	var idx []int
	var send []string
	for i := range cases {
		if lines[i] != "" {
			idx = append(idx, i)
			send = append(send, lines[i])
		}
	}
	res, err := c.RunDriver(send)
	if err != nil {
		for i := range outs {
			if outs[i].Fail == nil {
				outs[i].Fail = core.DriverFailure(err)
				break
			}
		}
		return outs
	}
	for k, i := range idx {
		cs := &cases[i]
		// (ok <scan> <naive> (hyp a b c d))
		want := fmt.Sprintf("(ok %s %s (hyp 1 1 1 1))", goAns[i], goAns[i])
		if res[k] == want {
			continue
		}
		kind, key := "correspondence-break", "model:scan"
		var scan, naive, hyp string
		if f := strings.Fields(strings.NewReplacer("(", " ( ", ")", " ) ").Replace(res[k])); len(f) > 0 {
			_ = f
		}
		if strings.HasSuffix(res[k], "(hyp 1 1 1 1))") {
			// hypotheses hold, but the model's scan or naive differs from Go's find
			key = "model:scan-differs"
		} else {
			// a hypothesis of the transparency theorem is false on the engine's own tables: the finder,
			// the bump-along update or the minimum length would lose a match from some start position
			kind, key = "impl-violation", "C03:hypothesis-false:"+findModeName(cache.get(cs).re)
		}
		_, _, _ = scan, naive, hyp
		outs[i].Fail = &core.Failure{Kind: kind, Key: key,
			Summary:  fmt.Sprintf("scan-loop model on the engine's tables: pattern %q opts %d codegen=%v input %q start %d (answer = (ok scan naive (hyp shape finder after minlen)))", cs.Pattern, cs.Opts, cs.CodeGen, cs.str(), cs.Start),
			Expected: want, Got: res[k]}
	}
	return outs
}

func init() {
	core.Register("C03", func(c *core.Ctx) {
		if os.Getenv("C03_ONLY") == "Ix" { // development aid: leg Ix alone
			c03RegisterIx(c)
			return
		}
		g := &engGen{allowRTL: true, perPat: 8, maxLen: 12, rawInput: true, biasFind: true, biasRewrite: true}
		core.RunLeg(c, core.Leg[engCase]{
			Name: "N", Kind: "oracle(naive-scan)",
			Rule: "patterns: 70% random full-syntax ASTs (half of them prefixed with the shapes the search modes recognise: literal / alternation-of-literals prefix, set at a fixed offset, literal after a leading loop, leading and trailing anchors, fixed length, leading loops, leading lookahead), 30% literals harvested from the repository's tests and corpora that compile; options random incl. RightToLeft/ECMAScript/RE2, code-gen analysis on 1/3, bitmap off 1/4; 8 inputs per pattern (pattern-directed with near-miss mutations, ≤12 runes, 1/4 with invalid UTF-8 bytes), start offsets; find / find at every offset / FindNextMatch chain / FindStringMatch / MatchString / MatchRunes compared (span + all captures) with the verif hook that attempts the program at every position in scan order with no candidate finder, prefix filter, length cut-off or bump-along. non-trivial = non-empty input; histogram lists the find modes hit",
			N:    c.N(8000, 400000), Corpus: engCorpus, Gen: g.next, Check: c03Check, Batch: 500,
		})
		g2 := &engGen{allowRTL: true, perPat: 6, maxLen: 10, biasFind: true}
		core.RunLeg(c, core.Leg[engCase]{
			Name: "Sc", Kind: "correspondence(scan model)",
			Rule: "patterns/inputs as leg N (inputs ≤ 10 runes); per case the verif hooks tabulate, for every position, the single-position attempt, the candidate finder's answer and where a failed execution leaves the scan position; the Lean model (Model/Scan.lean) runs scan and naive on the tables and evaluates AttemptShape, FinderSound, AfterSound, MinLenSound (the hypotheses of acceleration_transparent); Go's find must equal the model's scan and naive, and all four hypotheses must hold on the engine's own tables",
			N:    c.N(3000, 150000), Gen: g2.next, Check: c03ScanCheck, Batch: 500,
			// right-to-left `\Z` with a literal prefix: the finder answers (false, end) at the end although the match
			// sits at end-1 — sound under the scan loop's reading of a false answer (FinderSkipSound), not under the
			// stronger one the check used to evaluate
			Corpus: []engCase{{Pattern: `abc$`, Opts: int32(regexp2.RightToLeft), Text: []rune("xabc\n"), Start: 5, Source: "corpus"},
				{Pattern: `a+\Z`, Opts: int32(regexp2.RightToLeft), Text: []rune("baaa\n"), Start: 5, Source: "corpus"}},
		})
		g3 := &engGen{allowRTL: true, perPat: 6, maxLen: 12, biasFind: true}
		core.RunLeg(c, core.Leg[engCase]{
			Name: "Fm", Kind: "correspondence(finder models)",
			Rule: "patterns/inputs as leg N (inputs ≤ 12 runes, valid UTF-8; the \\G origin anywhere in the input for half of the cases) plus a hand-made corpus (each anchor bit in both directions with the origin inside the input, \\Z's two positions, short inputs) and a small-scope exhaustive part: 38 patterns chosen to reach every path and helper, each on ALL inputs up to 4 (thorough: 6) runes over 2-5 runes taken from the pattern, \\G patterns with every origin; per case the facts findFirstCharDefault reads of the compiled program (anchor bits, Boyer-Moore prefix and case flag, find mode with its prefixes / distances / fixed-distance sets / literal after loop / landmark chain, first-character set, MinRequiredLength; every character set as a membership table over the runes of the input, unicode.ToLower as a table) go to the Lean driver, which runs the model of findFirstCharDefault (Model/Finders.lean) from every position 0..len; the real finder is called at every position through VerifFindFirstChar; (found, position left) and the dispatch path must agree. non-trivial = non-empty input; histogram: finder=<path>:<find mode> per case",
			N:    c.N(4000, 200000), Corpus: append(append([]engCase{}, fmCorpus...), fmDirected(c.N(4, 6))...), Gen: fmGen(g3), Check: c03FindersCheck, Batch: 500,
		})
		// leg Bm (c03bm.go): the Boyer-Moore prefix against its model and a naive search
		c03RegisterBm(c, 1)
		// leg Ix (c03indexof.go): the rune-slice searches of helpers/indexof.go against their mirrors and a naive search
		c03RegisterIx(c)
		// leg Sf (strfilter.go): the raw-string prefix filters (a quarter of C02's cases)
		sfRegister(c, 4)
		// leg L (c04loops.go): landmark chain / literal after the leading loop (a fifth of C04's cases)
		c04RegisterLoops(c, 5)
	})
}
