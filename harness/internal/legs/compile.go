package legs

import (
	"fmt"
	"hash/fnv"
	"math/rand"
	"regexp"
	"strings"
	"time"

	"rvharness/internal/core"
	"rvharness/internal/gen"

	regexp2 "github.com/dlclark/regexp2/v2"
	"github.com/dlclark/regexp2/v2/syntax"
)

// Leg Cc — the tie of the compile-correctness statement (Model/Compile.lean) to the Go code.
//
// The statement says: for a tree t in the fragment `InFrag k`, the interpreter model running the writer
// model's program computes the specification on `toPat t`. Legs Wr and W tie the writer model and the
// interpreter model to syntax.Write and executeDefault; this leg ties the remaining pieces:
//
//   - `toPatRoot` (the Lean port of gen.FromGoTree, the conversion legs T and F use) must print exactly the
//     S-expression gen.FromGoTree builds for the engine's tree, named-class ids included;
//   - the coverage class `InFrag` assigns to every explored tree is recorded (histogram: how much of the
//     explored pattern space the theorems speak about, and why the rest is outside);
//   - for covered trees both sides of the statement are run through the executable definitions inside Lean
//     on a few inputs (every start position): interpreter model on the written program vs Spec.attempt on
//     toPat, with the environments built as the statement's hypothesis EnvRel says — a guard against
//     vacuous hypotheses; the specification's verdict is also compared with the real engine
//     (VerifAttemptAt on the compiled pattern).
//
// Cases are leg Wr's (same generator, same corpus); the inputs are derived from the case.

const ccFuel = 20000

var ccCiRef = regexp.MustCompile(`\(ref \d+ 1\)`)

// ccShort shortens FromGoTree's "unsupported" text to a stable bucket name.
func ccShort(u string) string {
	switch {
	case strings.HasPrefix(u, "category "):
		return "category"
	case strings.HasPrefix(u, "direction bit of interior"):
		return "direction-interior"
	case strings.HasPrefix(u, "direction bit of node"):
		return "direction-leaf"
	case strings.HasPrefix(u, "set node with"):
		return "set-ci"
	case strings.HasPrefix(u, "Multi with"):
		return "multi-ci"
	case u == "balancing group":
		return "balancing"
	case strings.HasPrefix(u, "node type "):
		return "node-type-" + strings.TrimPrefix(u, "node type ")
	case strings.HasPrefix(u, "root is not"):
		return "root"
	}
	return strings.ReplaceAll(u, " ", "-")
}

// ccSample emits text that tends to match the tree below n (left-to-right reading).
func ccSample(rng *rand.Rand, n *syntax.RegexNode, alpha []rune, out *[]rune, depth int) {
	if len(*out) > 12 || depth > 12 {
		return
	}
	pick := func() rune { return alpha[rng.Intn(len(alpha))] }
	member := func() rune {
		for _, k := range rng.Perm(len(alpha)) {
			if n.Set.CharIn(alpha[k]) {
				return alpha[k]
			}
		}
		if d := n.Set.VerifDump(); d != nil && !d.Negate && len(d.Ranges) > 0 {
			r := d.Ranges[rng.Intn(len(d.Ranges))]
			return r[0] + rune(rng.Intn(int(min(r[1]-r[0], 3))+1))
		}
		return pick()
	}
	reps := func() int {
		k := n.M
		if n.N > n.M && rng.Intn(2) == 0 {
			k++
		}
		return min(k, 3)
	}
	sub := func(i int) { ccSample(rng, n.Children[i], alpha, out, depth+1) }
	switch n.T {
	case syntax.NtOne:
		*out = append(*out, n.Ch)
	case syntax.NtNotone:
		*out = append(*out, pick())
	case syntax.NtSet:
		*out = append(*out, member())
	case syntax.NtMulti:
		*out = append(*out, n.Str...)
	case syntax.NtOneloop, syntax.NtOnelazy, syntax.NtOneloopatomic:
		for k := reps(); k > 0; k-- {
			*out = append(*out, n.Ch)
		}
	case syntax.NtNotoneloop, syntax.NtNotonelazy, syntax.NtNotoneloopatomic:
		for k := reps(); k > 0; k-- {
			*out = append(*out, pick())
		}
	case syntax.NtSetloop, syntax.NtSetlazy, syntax.NtSetloopatomic:
		for k := reps(); k > 0; k-- {
			*out = append(*out, member())
		}
	case syntax.NtEol, syntax.NtEndZ:
		if rng.Intn(3) == 0 {
			*out = append(*out, '\n')
		}
	case syntax.NtConcatenate:
		// under RightToLeft the parser stores the children in reverse
		if n.Options&syntax.RightToLeft != 0 {
			for i := len(n.Children) - 1; i >= 0; i-- {
				sub(i)
			}
		} else {
			for i := range n.Children {
				sub(i)
			}
		}
	case syntax.NtAlternate:
		if len(n.Children) > 0 {
			sub(rng.Intn(len(n.Children)))
		}
	case syntax.NtLoop, syntax.NtLazyloop:
		for k := reps(); k > 0; k-- {
			sub(0)
		}
	case syntax.NtCapture, syntax.NtGroup, syntax.NtAtomic:
		if len(n.Children) == 1 {
			sub(0)
		}
	case syntax.NtPosLook:
		// the text a positive lookahead wants follows here; what comes after it in the pattern usually overlaps
		if n.Options&syntax.RightToLeft == 0 && rng.Intn(2) == 0 && len(n.Children) == 1 {
			sub(0)
		}
	case syntax.NtBackRefCond:
		if len(n.Children) > 0 {
			sub(rng.Intn(len(n.Children)))
		}
	case syntax.NtExprCond:
		if len(n.Children) > 1 {
			sub(1 + rng.Intn(len(n.Children)-1))
		}
	}
}

// ccInputs: 3–4 inputs of at most 8 runes for the tree, derived from the case alone.
func ccInputs(cs *wrCase, tree *syntax.RegexTree, runes []rune) [][]rune {
	h := fnv.New64a()
	fmt.Fprintf(h, "%d|%v|%s", cs.Opts, cs.Order, cs.Pattern)
	rng := rand.New(rand.NewSource(int64(h.Sum64())))
	seen := map[rune]bool{}
	var alpha []rune
	for _, r := range append(append([]rune{}, runes...), 'a', 'b', '1', ' ', '\n', 'é', '_', 'A', 'Ω') {
		if !seen[r] && len(alpha) < 18 {
			seen[r] = true
			alpha = append(alpha, r)
		}
	}
	var res [][]rune
	for len(res) < 3+rng.Intn(2) {
		var s []rune
		switch len(res) {
		case 0: // a would-be match
			ccSample(rng, tree.Root, alpha, &s, 0)
		case 1: // context, a would-be match, a near miss
			for k := rng.Intn(3); k > 0; k-- {
				s = append(s, alpha[rng.Intn(len(alpha))])
			}
			ccSample(rng, tree.Root, alpha, &s, 0)
			if len(s) > 0 && rng.Intn(2) == 0 {
				i := rng.Intn(len(s))
				switch rng.Intn(3) {
				case 0:
					s[i] = alpha[rng.Intn(len(alpha))]
				case 1:
					s = append(s[:i], s[i+1:]...)
				default:
					s = append(s[:i], append([]rune{alpha[rng.Intn(len(alpha))]}, s[i:]...)...)
				}
			}
			if rng.Intn(3) == 0 {
				s = append(s, alpha[rng.Intn(len(alpha))])
			}
		case 2: // two would-be matches in a row
			ccSample(rng, tree.Root, alpha, &s, 0)
			ccSample(rng, tree.Root, alpha, &s, 0)
		default:
			for k := rng.Intn(7); k > 0; k-- {
				s = append(s, alpha[rng.Intn(len(alpha))])
			}
		}
		if len(s) > 8 {
			s = s[:8]
		}
		if len(s) < 8 && rng.Intn(8) == 0 {
			s = append(s, '\n')
		}
		res = append(res, s)
	}
	return res
}

// ccInputSexp: the text with the oracle rows of the specification's environment: named-class rows (ids of
// the tree's conversion) and word rows for the runes of the text and of the pattern.
func ccInputSexp(text []rune, gt *gen.GoTree, re2 bool) string {
	seen := map[rune]bool{}
	var all []rune
	for _, r := range append(append([]rune{}, text...), gt.Runes...) {
		if !seen[r] {
			seen[r] = true
			all = append(all, r)
		}
	}
	ids := make([]int, 0, len(gt.Named))
	for id := 100; id < 100+len(gt.Named); id++ {
		ids = append(ids, id)
	}
	wid := gen.NWordU
	if re2 {
		wid = gen.NWordA
	}
	var named, word []string
	for _, r := range all {
		for _, id := range ids {
			if p := gt.Named[id]; p != nil && p(r) {
				named = append(named, fmt.Sprintf("(%d %d)", id, r))
			}
		}
		if gen.NamedMember(wid, r) {
			word = append(word, fmt.Sprint(r))
		}
	}
	return fmt.Sprintf("(input (text %s) (named %s) (word %s))", strings.Trim(core.SInts(text), "()"), strings.Join(named, " "), strings.Join(word, " "))
}

// ccFirstDiff names the first node (pre-order) at which two S-expressions differ: the tag of the innermost
// tagged list that holds the difference; "" when they are equal.
func ccFirstDiff(a, b *sx, enclosing string) string {
	if a.leaf != b.leaf {
		return enclosing
	}
	if a.leaf {
		if a.atom == b.atom {
			return ""
		}
		return enclosing
	}
	tag := enclosing
	if h := a.head(); h != "" {
		tag = h
	}
	if a.head() != b.head() || len(a.list) != len(b.list) {
		return tag
	}
	for i := range a.list {
		if d := ccFirstDiff(a.list[i], b.list[i], tag); d != "" {
			return d
		}
	}
	return ""
}

// ccPending is one case on its way through the driver.
type ccPending struct {
	ci                 int
	tree               *syntax.RegexTree
	gt                 *gen.GoTree
	strict, info, node string
	inputs             [][]rune
}

func (p *ccPending) line(cs *wrCase) string {
	var ins []string
	for _, t := range p.inputs {
		ins = append(ins, ccInputSexp(t, p.gt, regexp2.RegexOptions(cs.Opts)&regexp2.RE2 != 0))
	}
	return core.S("c01", "compile", p.strict, p.info, p.node, fmt.Sprint(ccFuel), "("+strings.Join(ins, " ")+")")
}

// ccFromLean builds the environment side of a conversion (named-class predicates by id, runes of the pattern)
// from the driver's answer, for a tree gen.FromGoTree rejects: the category names in id order and the
// printed pattern. nil when a category has no predicate in the harness.
func ccFromLean(names, pat *sx) *gen.GoTree {
	g := &gen.GoTree{Sexp: sxRender(pat), Named: map[int]func(rune) bool{}}
	for i, nm := range names.args() {
		b := make([]byte, len(nm.list))
		for k, x := range nm.list {
			b[k] = byte(x.int())
		}
		pr := gen.CatPredicate(string(b))
		if pr == nil {
			return nil
		}
		g.Named[100+i] = pr
	}
	var walk func(n *sx)
	walk = func(n *sx) {
		if n.leaf {
			return
		}
		switch n.head() {
		case "one", "notone":
			if len(n.list) > 1 {
				g.Runes = append(g.Runes, rune(n.list[1].int()))
			}
			return
		case "base":
			if len(n.list) > 2 {
				for _, r := range n.list[2].list {
					for _, x := range r.list {
						g.Runes = append(g.Runes, rune(x.int()))
					}
				}
			}
			return
		}
		for _, c := range n.list {
			walk(c)
		}
	}
	walk(pat)
	return g
}

func ccCheck(c *core.Ctx, cases []wrCase) []core.Outcome {
	outs := make([]core.Outcome, len(cases))
	var pend []*ccPending
	var lines []string
	for ci := range cases {
		cs := &cases[ci]
		o := &outs[ci]
		o.Key = fmt.Sprintf("%d|%v|%s", cs.Opts, cs.Order, cs.Pattern)
		o.Buckets = append(o.Buckets, "source="+cs.Source)
		tree, err := wrParse(cs)
		if err != nil || tree == nil {
			o.Buckets = append(o.Buckets, "parse-error")
			continue
		}
		p := &ccPending{ci: ci, tree: tree, info: wrInfo(tree), node: wrNode(tree.Root, map[string]bool{}),
			strict: core.SBool(regexp2.RegexOptions(cs.Opts)&(regexp2.RE2|regexp2.ECMAScript) != 0), gt: gen.FromGoTree(tree)}
		if p.gt.Unsupported == "" {
			p.inputs = ccInputs(cs, tree, p.gt.Runes)
		}
		pend = append(pend, p)
		lines = append(lines, p.line(cs))
	}
	res, err := c.RunDriver(lines)
	if err != nil {
		if len(outs) > 0 && outs[0].Fail == nil {
			outs[0].Fail = core.DriverFailure(err)
		}
		return outs
	}
	failOn := func(p *ccPending) func(kind, key, sum, exp, got string) {
		o, cs := &outs[p.ci], &cases[p.ci]
		return func(kind, key, sum, exp, got string) {
			if o.Fail == nil {
				o.Fail = &core.Failure{Kind: kind, Key: key, Summary: fmt.Sprintf("%s: pattern %q opts %d", sum, cs.Pattern, cs.Opts), Expected: exp, Got: got}
			}
		}
	}
	// readAnswer: the class, the printed pattern, the category names and the runs of `(cc class pat (names …) run…)`
	readAnswer := func(p *ccPending, line string) (cls, pat, names *sx, runs []*sx, ok bool) {
		ans, err := parseSx(line)
		if err != nil || ans.head() != "cc" || len(ans.args()) < 3 || ans.args()[2].head() != "names" {
			failOn(p)("correspondence-break", "Cc:answer", "the Lean driver did not answer the request", "(cc …)", line+" for "+p.line(&cases[p.ci]))
			return nil, nil, nil, nil, false
		}
		a := ans.args()
		return a[0], a[1], a[2], a[3:], true
	}
	// 2. both sides of the statement inside Lean (runs), and the specification against the engine
	sanity := func(p *ccPending, runs []*sx) {
		o, cs, fail := &outs[p.ci], &cases[p.ci], failOn(p)
		if len(runs) != len(p.inputs) {
			fail("correspondence-break", "Cc:answer", "the Lean driver did not run every input", fmt.Sprint(len(p.inputs)), fmt.Sprint(len(runs)))
			return
		}
		copts := []regexp2.CompileOption{regexp2.RegexOptions(cs.Opts)}
		if cs.Order {
			copts = append(copts, regexp2.OptionMaintainCaptureOrder())
		}
		re, cerr := safeCompile(cs.Pattern, copts...)
		if cerr != nil || re == nil {
			o.Buckets = append(o.Buckets, "engine-compile-error")
			return
		}
		re.MatchTimeout = 2 * time.Second
		engine := true
		if ccCiRef.MatchString(p.gt.Sexp) {
			// a case-insensitive backreference: the statement's environments (toLower = id, no fold rows) make both
			// models compare exactly, the engine folds — the models are still compared with each other
			engine = false
			o.Buckets = append(o.Buckets, "engine-skipped:ci-ref")
		} else if regexp2.RegexOptions(cs.Opts)&regexp2.ECMAScript != 0 && strings.Contains(p.gt.Sexp, "(ref ") {
			// under ECMAScript a reference to an unset group matches the empty string (the interpreter's `ecma`
			// oracle); the statement's environment has ecma = false, as the specification has no such rule
			engine = false
			o.Buckets = append(o.Buckets, "engine-skipped:ecma-ref")
		}
		for ii, text := range p.inputs {
			atts := runs[ii]
			if atts.leaf || len(atts.list) != len(text)+1 {
				fail("correspondence-break", "Cc:answer", "the Lean driver did not run every position", fmt.Sprint(len(text)+1), sxRender(atts))
				return
			}
			for i, a := range atts.list {
				o.Buckets = append(o.Buckets, "sanity-attempts")
				switch a.head() {
				case "fuel":
					o.Buckets = append(o.Buckets, "sanity-fuel")
					continue
				case "diff":
					w := "unknown"
					if len(a.args()) > 0 {
						w = a.args()[0].atom
					}
					fail("correspondence-break", "Cc:sanity:"+w, fmt.Sprintf("the interpreter model on the written program and the specification on toPat differ (%s) on %q at %d", sxRender(a), string(text), i), "(ok …)", sxRender(a))
					continue
				case "ok":
				default:
					fail("correspondence-break", "Cc:answer", "unreadable attempt", "(ok …)", sxRender(a))
					continue
				}
				if !engine {
					continue
				}
				want := sxRender(a)
				m, err := func() (m *regexp2.Match, err error) {
					defer func() {
						if r := recover(); r != nil {
							err = panicError{r}
						}
					}()
					return regexp2.VerifAttemptAt(re, text, i, i, false)
				}()
				if err != nil {
					if _, isPanic := err.(panicError); isPanic {
						fail("impl-violation", "Cc:engine-panic", fmt.Sprintf("the engine panicked on %q at %d: %v", string(text), i, err), want, err.Error())
					} else {
						o.Buckets = append(o.Buckets, "engine-error")
					}
					continue
				}
				got := "(ok none)"
				if m != nil {
					got = fmt.Sprintf("(ok %d %d)", m.RuneIndex, m.RuneLength)
					o.Buckets = append(o.Buckets, "sanity-match")
				}
				if got != want {
					fail("impl-violation", "Cc:engine", fmt.Sprintf("one attempt of the engine differs from the specification on the engine's own tree: input %q at %d (\\G there)", string(text), i), want, got)
				}
			}
		}
	}
	var again []*ccPending
	var lines2 []string
	for pi, p := range pend {
		o, fail := &outs[p.ci], failOn(p)
		cls, leanPat, names, runs, ok := readAnswer(p, res[pi])
		if !ok {
			continue
		}
		covered := cls.head() == "covered"
		what := ""
		if len(cls.args()) == 1 {
			what = cls.args()[0].atom
		}
		if covered {
			o.Buckets = append(o.Buckets, "covered:"+what)
			o.Nontrivial = true
		} else {
			o.Buckets = append(o.Buckets, "notcovered:"+what)
		}
		leanNone := leanPat.leaf && leanPat.atom == "none"
		if !leanNone && strings.Contains(sxRender(leanPat), "(look 1 ") && covered {
			o.Buckets = append(o.Buckets, "covered-with-lookbehind:"+what)
		}
		// (b) the translation
		if p.gt.Unsupported != "" {
			short := ccShort(p.gt.Unsupported)
			o.Buckets = append(o.Buckets, "go-unsupported:"+short)
			if !leanNone {
				// known difference: the model's tree does not carry what FromGoTree rejects here
				o.Buckets = append(o.Buckets, "lean-pattern-go-unsupported:"+short)
			}
			if covered {
				// the theorems speak about this tree: run both sides on the model's own translation
				o.Buckets = append(o.Buckets, "covered-go-unsupported:"+short)
				if g := ccFromLean(names, leanPat); g != nil && !leanNone {
					p.gt = g
					p.inputs = ccInputs(&cases[p.ci], p.tree, g.Runes)
					again = append(again, p)
					lines2 = append(lines2, p.line(&cases[p.ci]))
				}
			}
			continue
		}
		goPat, gerr := parseSx(p.gt.Sexp)
		if gerr != nil {
			fail("correspondence-break", "Cc:go-sexp", "gen.FromGoTree built an unreadable S-expression", "", p.gt.Sexp)
			continue
		}
		if leanNone {
			if covered {
				fail("correspondence-break", "Cc:covered-without-pattern", "the tree is in the fragment but toPatRoot gives none", p.gt.Sexp, res[pi])
			} else {
				o.Buckets = append(o.Buckets, "lean-none:"+what)
			}
			continue
		}
		if d := ccFirstDiff(leanPat, goPat, "top"); d != "" {
			fail("correspondence-break", "Cc:topat:"+d, "Compile.toPatRoot and gen.FromGoTree translate the engine's tree differently", sxRender(leanPat), sxRender(goPat))
			continue
		}
		if covered {
			sanity(p, runs)
		}
	}
	if len(again) > 0 {
		res2, err := c.RunDriver(lines2)
		if err != nil {
			failOn(again[0])("correspondence-break", "driver-error", "the Lean driver could not evaluate the model: "+err.Error(), "", "")
			return outs
		}
		for pi, p := range again {
			if _, _, _, runs, ok := readAnswer(p, res2[pi]); ok {
				outs[p.ci].Buckets = append(outs[p.ci].Buckets, "sanity-on-lean-translation")
				sanity(p, runs)
			}
		}
	}
	return outs
}

// ccCorpus: leg Wr's corpus, and patterns whose named classes are met in an order that differs from their
// order in the pattern text or are shared between sets (the ids are handed out in order of first use).
func ccCorpus() []wrCase {
	cs := wrCorpus()
	for _, p := range []string{`\w`, `\d`, `\p{Lu}`, `[\w-[a]]`, `\P{L}`, `\w\d\p{Lu}[\w-[a]]\P{L}`, `\d\w\d\s\w`, `[\p{Lu}-[\p{Ll}\d]]\d\w`,
		`[\d\p{Lu}-[\w-[\s\p{Ll}]]]\s\p{Ll}`, `(?:\p{Lu}|\d)+\P{Lu}\D\W\S`, `(?=\d)\w(?<!\s)`, `(?<=\d\w)\s`, `(\w)(?(1)\d|\s)`, `[\s\S]\d`,
		`\p{IsGreek}\p{Lu}`, `[^\W\d]\d`, `\p{L}*?\p{Nd}{2,3}[\p{L}\p{Nd}]`, `(?>\s+)\w*\b\d`} {
		cs = append(cs, wrCase{Pattern: p, Source: "corpus"}, wrCase{Pattern: p, Opts: int32(regexp2.RE2), Source: "corpus"},
			wrCase{Pattern: p, Opts: int32(regexp2.RightToLeft), Source: "corpus"}, wrCase{Pattern: p, Opts: int32(regexp2.ECMAScript), Source: "corpus"},
			wrCase{Pattern: p, Opts: int32(regexp2.IgnoreCase), Source: "corpus"})
	}
	return cs
}

// ccLeg registers leg Cc under the calling property.
func ccLeg(c *core.Ctx, quick, thorough int) {
	core.RunLeg(c, core.Leg[wrCase]{
		Name: "Cc", Kind: "correspondence(compile-correctness tie)",
		Rule:   "patterns and option sets of leg Wr (same generator and corpus). For each: syntax.Parse; the root, (Captop, Capnumlist, Caps, RightToLeft) and the RE2|ECMAScript bit go to the Lean driver, which answers (a) the coverage class: the smallest k ≤ 9 with Compile.InFrag k (the fragments of the theorems compile_correct_T1..T3, T4a..T4e = tiers 4..8; tier 9 = ECMAScript boundaries, defined, not proved), or the first thing in a pre-order walk that keeps the tree outside; (b) Compile.toPatRoot as an S-expression, which must equal the one gen.FromGoTree builds for the same tree (named-class ids in order of first use included) — trees FromGoTree rejects are bucketed (a covered one among them gets its environment rows from the category names the driver reports and is run in a second request); (c) for covered trees, on 3-4 inputs derived from the tree (≤ 8 runes, would-be matches, near misses, context) and EVERY start position (\\G there): VM.run on Writer.emit (sets read through Compile.readSet on the specification's environment, word characters and named-class rows from Go's unicode tables) against Spec.attempt on toPat in the direction of the tree option RightToLeft — matched, the live prefix of every capture slot = slotLog, final text position; the specification's verdict and group 0 span must also equal regexp2's VerifAttemptAt on the compiled pattern (not compared for case-insensitive backreferences and for backreferences under ECMAScript: the statement's environment has toLower = id and ecma = false; attempts that exhaust the fuel of 20000 iterations are bucketed). non-trivial = covered; distinct by (options, pattern)",
		Corpus: ccCorpus(), N: c.N(quick, thorough), Gen: wrGen, Check: ccCheck, Batch: 500,
	})
}

func init() {
	// "Compile": leg Cc alone (development aid; the registered property C01 runs it)
	core.Register("Compile", func(c *core.Ctx) { ccLeg(c, 3000, 150000) })
}
