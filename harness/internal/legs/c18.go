package legs

import (
	"fmt"
	"math/rand"
	"sort"
	"strconv"
	"strings"
	"time"

	"rvharness/internal/core"

	regexp2 "github.com/dlclark/regexp2/v2"
	"github.com/dlclark/regexp2/v2/syntax"
)

// C18 — Inline options equal compile-time options.
//
// A case is a small pattern AST (leaves, groups, inline option items "(?on-off)", scoped groups
// "(?on-off:…)") plus subject strings.  For each of the 32 subsets O of {i,m,n,s,x} the pattern
// is compiled in several spellings that must behave — and parse — alike.

type c18Node struct {
	K    string    `json:"k"`             // leaf | bar | opt | grp | sc
	Src  string    `json:"src,omitempty"` // leaf: source text of one atom (or blank/comment)
	Q    string    `json:"q,omitempty"`   // quantifier suffix (leaf, grp, sc)
	Opt  []int     `json:"opt,omitempty"` // opt/sc: signed flags in source order: +(f+1) switches flag f on, -(f+1) off; f: 0 i,1 m,2 n,3 s,4 x
	Cap  int       `json:"cap,omitempty"` // grp: 0 "(", 1 "(?:", 2 "(?<name>"
	Name string    `json:"name,omitempty"`
	Kids []c18Node `json:"kids,omitempty"`
}

type c18Case struct {
	Pat    []c18Node `json:"pat"`
	Inputs []string  `json:"inputs"`
	// every spelling is compiled with the RE2 option as well (it is no member of the inline alphabet, so it
	// is the same on both sides of every comparison); the pattern may then hold (?P=name) references
	Re2 bool `json:"re2,omitempty"`
}

const c18Flags = "imnsx"

var c18Bits = []regexp2.RegexOptions{regexp2.IgnoreCase, regexp2.Multiline, regexp2.ExplicitCapture, regexp2.Singleline, regexp2.IgnorePatternWhitespace}

func c18RO(o int) regexp2.RegexOptions {
	var ro regexp2.RegexOptions
	for f := 0; f < 5; f++ {
		if o&(1<<f) != 0 {
			ro |= c18Bits[f]
		}
	}
	return ro
}

// "(?imnsx" style option text of a signed flag sequence (scanOptions reads it back in order)
func c18OptText(seq []int) string {
	var sb strings.Builder
	neg := false
	for _, s := range seq {
		f, off := s-1, false
		if s < 0 {
			f, off = -s-1, true
		}
		if off != neg {
			if off {
				sb.WriteByte('-')
			} else {
				sb.WriteByte('+')
			}
			neg = off
		}
		sb.WriteByte(c18Flags[f])
	}
	return sb.String()
}

func c18SetText(o int) string {
	var sb strings.Builder
	for f := 0; f < 5; f++ {
		if o&(1<<f) != 0 {
			sb.WriteByte(c18Flags[f])
		}
	}
	return sb.String()
}

// full on-off text of an effective option set: every flag spelled out
func c18FullText(o int) string {
	on, off := "", ""
	for f := 0; f < 5; f++ {
		if o&(1<<f) != 0 {
			on += string(c18Flags[f])
		} else {
			off += string(c18Flags[f])
		}
	}
	if off != "" {
		return on + "-" + off
	}
	return on
}

// print the pattern; wrapLeaves: every leaf goes into a plain (?:…) (the shape of the explicit spelling)
func c18Print(ns []c18Node, wrapLeaves bool, sb *strings.Builder) {
	for _, n := range ns {
		switch n.K {
		case "leaf":
			if wrapLeaves {
				sb.WriteString("(?:" + n.Src + ")")
			} else {
				sb.WriteString(n.Src)
			}
		case "bar":
			sb.WriteString("|")
		case "opt":
			sb.WriteString("(?" + c18OptText(n.Opt) + ")")
		case "grp":
			switch n.Cap {
			case 0:
				sb.WriteString("(")
			case 1:
				sb.WriteString("(?:")
			default:
				sb.WriteString("(?<" + n.Name + ">")
			}
			c18Print(n.Kids, wrapLeaves, sb)
			sb.WriteString(")")
		case "sc":
			sb.WriteString("(?" + c18OptText(n.Opt) + ":")
			c18Print(n.Kids, wrapLeaves, sb)
			sb.WriteString(")")
		}
		sb.WriteString(n.Q)
	}
}

func c18Pattern(ns []c18Node, wrapLeaves bool) string {
	var sb strings.Builder
	c18Print(ns, wrapLeaves, &sb)
	return sb.String()
}

// c18Rescope spells the scope rule out without a model: an inline (?on-off) item holds until the end
// of the enclosing group, i.e. it is the scoped group (?on-off:…) around the rest of its
// alternative and around every later alternative of that group.  The result has no inline items.
func c18Rescope(items []c18Node) []c18Node {
	var segs [][]c18Node
	cur := []c18Node{}
	for _, it := range items {
		if it.K == "bar" {
			segs = append(segs, cur)
			cur = []c18Node{}
			continue
		}
		cur = append(cur, it)
	}
	segs = append(segs, cur)
	var active [][]int
	var out []c18Node
	for si, seg := range segs {
		atStart := append([][]int{}, active...)
		body := c18RescopeSeg(seg, &active)
		for k := len(atStart) - 1; k >= 0; k-- {
			body = []c18Node{{K: "sc", Opt: atStart[k], Kids: body}}
		}
		out = append(out, body...)
		if si < len(segs)-1 {
			out = append(out, c18Node{K: "bar"})
		}
	}
	return out
}

func c18RescopeSeg(seg []c18Node, active *[][]int) []c18Node {
	out := []c18Node{}
	for idx, it := range seg {
		switch it.K {
		case "opt":
			*active = append(*active, it.Opt)
			rest := c18RescopeSeg(seg[idx+1:], active)
			return append(out, c18Node{K: "sc", Opt: it.Opt, Kids: rest})
		case "grp", "sc":
			c := it
			c.Kids = c18Rescope(it.Kids)
			out = append(out, c)
		default:
			out = append(out, it)
		}
	}
	return out
}

// protocol: leaves and groups are numbered in preorder
func c18Sexp(ns []c18Node, id *int, sb *strings.Builder) {
	for _, n := range ns {
		switch n.K {
		case "leaf":
			fmt.Fprintf(sb, " (l %d)", *id)
			*id++
		case "bar":
			fmt.Fprintf(sb, " (b %d)", *id)
			*id++
		case "opt":
			sb.WriteString(" (o " + c18SeqSexp(n.Opt) + ")")
		case "grp":
			cap := 0
			if n.Cap == 0 {
				cap = 1 // unnamed: capturing unless n
			} else if n.Cap == 2 {
				cap = 2 // named: always capturing
			}
			fmt.Fprintf(sb, " (g %d %d", *id, cap)
			*id++
			c18Sexp(n.Kids, id, sb)
			sb.WriteString(")")
		case "sc":
			fmt.Fprintf(sb, " (s %d %s", *id, c18SeqSexp(n.Opt))
			*id++
			c18Sexp(n.Kids, id, sb)
			sb.WriteString(")")
		}
	}
}

func c18SeqSexp(seq []int) string {
	var p []string
	for _, s := range seq {
		if s < 0 {
			p = append(p, fmt.Sprintf("(%d 0)", -s-1))
		} else {
			p = append(p, fmt.Sprintf("(%d 1)", s-1))
		}
	}
	return "(" + strings.Join(p, " ") + ")"
}

type c18Flat struct {
	src, q string
	kind   string // leaf bar grp sc
	cap    int
	name   string
}

func c18Flatten(ns []c18Node, out *[]c18Flat) {
	for _, n := range ns {
		switch n.K {
		case "leaf", "bar":
			*out = append(*out, c18Flat{src: n.Src, q: n.Q, kind: n.K})
		case "grp", "sc":
			*out = append(*out, c18Flat{q: n.Q, kind: n.K, cap: n.Cap, name: n.Name})
			c18Flatten(n.Kids, out)
		}
	}
}

// c18Explicit prints the fully explicit spelling from the driver's token list:
// (ok (l id o) (b id) (g id capturing o) … (c id) …) with o the effective option set as a bit mask.
func c18Explicit(ans string, flat []c18Flat) (string, error) {
	toks := strings.Fields(strings.NewReplacer("(", " ( ", ")", " ) ").Replace(ans))
	if len(toks) < 3 || toks[0] != "(" || toks[1] != "ok" {
		return "", fmt.Errorf("driver answer: %s", ans)
	}
	var sb strings.Builder
	i := 2
	for i < len(toks)-1 {
		if toks[i] != "(" {
			return "", fmt.Errorf("driver answer: %s", ans)
		}
		j := i + 1
		var f []string
		for j < len(toks) && toks[j] != ")" {
			f = append(f, toks[j])
			j++
		}
		i = j + 1
		if len(f) < 2 {
			return "", fmt.Errorf("driver answer: %s", ans)
		}
		id, err := strconv.Atoi(f[1])
		if err != nil || id < 0 || id >= len(flat) {
			return "", fmt.Errorf("driver answer: bad id in %s", ans)
		}
		fl := flat[id]
		switch f[0] {
		case "l":
			o, _ := strconv.Atoi(f[2])
			sb.WriteString("(?" + c18FullText(o) + ":" + fl.src + ")" + fl.q)
		case "b":
			sb.WriteString("|")
		case "g":
			capturing := f[2] == "1"
			switch {
			case fl.kind == "grp" && fl.cap == 2:
				sb.WriteString("(?<" + fl.name + ">")
			case capturing:
				sb.WriteString("(")
			default:
				sb.WriteString("(?:")
			}
		case "c":
			sb.WriteString(")" + fl.q)
		default:
			return "", fmt.Errorf("driver answer: %s", ans)
		}
	}
	return sb.String(), nil
}

// c18ExplicitGo prints the same fully explicit spelling from the documented scoping rule alone (an
// inline (?on-off) holds to the end of the enclosing group, a scoped group (?on-off:…) for its body, an
// unnamed group captures unless n is in force where it opens) — written here a second time, in Go and
// without the Lean model, so that a difference of behaviour between the original and the explicit
// spelling is a finding about the engine whenever the two resolutions agree.
func c18ExplicitGo(ns []c18Node, o int, sb *strings.Builder) int {
	for _, n := range ns {
		switch n.K {
		case "leaf":
			sb.WriteString("(?" + c18FullText(o) + ":" + n.Src + ")" + n.Q)
		case "bar":
			sb.WriteString("|")
		case "opt":
			o = c18ApplySeq(o, n.Opt)
		case "grp":
			switch {
			case n.Cap == 2:
				sb.WriteString("(?<" + n.Name + ">")
			case n.Cap == 0 && o&4 == 0:
				sb.WriteString("(")
			default:
				sb.WriteString("(?:")
			}
			c18ExplicitGo(n.Kids, o, sb)
			sb.WriteString(")" + n.Q)
		case "sc":
			sb.WriteString("(?:")
			c18ExplicitGo(n.Kids, c18ApplySeq(o, n.Opt), sb)
			sb.WriteString(")" + n.Q)
		}
	}
	return o
}

func c18ApplySeq(o int, seq []int) int {
	for _, s := range seq {
		if s > 0 {
			o |= 1 << (s - 1)
		} else {
			o &^= 1 << (-s - 1)
		}
	}
	return o
}

// generator -------------------------------------------------------------------------------------

var c18Leaves = []string{"a", "b", "A", "B", "k", "c", "[a-c]", "[^b]", "[B]", `[ #a]`, ".", ".", "^", "$", "^", "$", `\n`, `\w`, `\b`, " ", " ", "\t", "#c\n", "# a\n", "\n", `\ `, `\#`, "ab", "Ab ",
	// constructs with their own parentheses: the parser's paren bookkeeping (ignoreNextParen, the option and
	// group stacks) has to come out of them as it went in, under every option set
	"(?(a)a|c)", "(?(?=a)a|c)", "(?(?!c)a|c)", "(?=a)", "(?!c)", "(?<=a)", "(?>a)", "(?#c)"}
var c18Quants = []string{"", "", "", "", "*", "+", "?", "*?", "+?", "{2}", "{1,2}?"}

func c18Seq(rng *rand.Rand) []int {
	n := 1 + rng.Intn(3)
	var s []int
	for i := 0; i < n; i++ {
		f := rng.Intn(5) + 1
		if rng.Intn(2) == 0 {
			f = -f
		}
		s = append(s, f)
	}
	if rng.Intn(3) == 0 {
		sort.Slice(s, func(i, j int) bool { return s[i] > s[j] }) // canonical on-off form
	}
	return s
}

func c18GenItems(rng *rand.Rand, depth int, names *int) []c18Node {
	n := 1 + rng.Intn(4)
	var out []c18Node
	for i := 0; i < n; i++ {
		r := rng.Intn(20)
		switch {
		case r < 10 || depth >= 3 && r < 17:
			src := c18Leaves[rng.Intn(len(c18Leaves))]
			q := ""
			if c := src[0]; c != '^' && c != '$' && c != ' ' && c != '\t' && c != '#' && c != '\n' && src != `\b` && len(src) == len(strings.TrimSpace(src)) {
				q = c18Quants[rng.Intn(len(c18Quants))]
				if len(src) > 1 && src[0] != '[' && src[0] != '\\' {
					q = "" // multi-character literal leaves stay unquantified (the quantifier would bind to the last character only)
				}
			}
			out = append(out, c18Node{K: "leaf", Src: src, Q: q})
		case r < 12:
			if i > 0 && i < n-1 {
				out = append(out, c18Node{K: "bar"})
			} else {
				out = append(out, c18Node{K: "leaf", Src: "a"})
			}
		case r < 15:
			out = append(out, c18Node{K: "opt", Opt: c18Seq(rng)})
		case r < 18:
			g := c18Node{K: "grp", Cap: rng.Intn(3), Q: c18Quants[rng.Intn(len(c18Quants))], Kids: c18GenItems(rng, depth+1, names)}
			if g.Cap == 2 {
				*names++
				g.Name = "g" + strconv.Itoa(*names)
			}
			out = append(out, g)
		default:
			out = append(out, c18Node{K: "sc", Opt: c18Seq(rng), Q: c18Quants[rng.Intn(len(c18Quants))], Kids: c18GenItems(rng, depth+1, names)})
		}
	}
	return out
}

func c18LeafTexts(ns []c18Node, out *[]string) {
	for _, n := range ns {
		switch n.K {
		case "leaf":
			switch {
			case n.Src == "." || n.Src == `\w`:
				*out = append(*out, "B")
			case n.Src[0] == '[':
				*out = append(*out, "a")
			case n.Src == `\n`:
				*out = append(*out, "\n")
			case n.Src[0] == '^' || n.Src[0] == '$' || n.Src == `\b` || strings.HasPrefix(n.Src, "(?P="):
			case strings.HasPrefix(n.Src, "(?(") || n.Src == "(?>a)":
				*out = append(*out, "a")
			case strings.HasPrefix(n.Src, "(?"):
			case n.Src[0] == '\\':
				*out = append(*out, n.Src[1:])
			default:
				*out = append(*out, n.Src)
			}
		case "grp", "sc":
			c18LeafTexts(n.Kids, out)
		}
	}
}

// c18AddPyRefs puts (?P=name) references to groups opened earlier into the item lists (RE2 cases)
func c18AddPyRefs(rng *rand.Rand, ns []c18Node, seen *[]string) []c18Node {
	var out []c18Node
	for _, n := range ns {
		if n.K == "grp" || n.K == "sc" {
			if n.K == "grp" && n.Cap == 2 {
				*seen = append(*seen, n.Name)
			}
			n.Kids = c18AddPyRefs(rng, n.Kids, seen)
		}
		out = append(out, n)
		if len(*seen) > 0 && rng.Intn(3) == 0 {
			out = append(out, c18Node{K: "leaf", Src: "(?P=" + (*seen)[rng.Intn(len(*seen))] + ")"})
		}
	}
	return out
}

func c18Gen(rng *rand.Rand, i int) c18Case {
	names := 0
	cs := c18Case{Pat: c18GenItems(rng, 0, &names)}
	if i%4 != 3 && rng.Intn(6) == 0 {
		// a construct with its own parentheses as the LAST thing of a scope that changes n (or another flag),
		// directly followed by a plain group: whatever the parser remembers about parentheses must not leak out
		paren := []string{"(?(a)a|c)", "(?(?=a)a|c)", "(?(?!c)a|c)", "(?=a)", "(?>a)", "(?#c)"}[rng.Intn(6)]
		seq := []int{[]int{3, 3, 3, 1, -3, 5}[rng.Intn(6)]}
		inner := []c18Node{{K: "leaf", Src: []string{"a", "b", "."}[rng.Intn(3)]}, {K: "leaf", Src: paren}}
		var scope c18Node
		if rng.Intn(2) == 0 {
			scope = c18Node{K: "sc", Opt: seq, Kids: inner}
		} else {
			scope = c18Node{K: "grp", Cap: 1, Kids: append([]c18Node{{K: "opt", Opt: seq}}, inner...)}
		}
		after := c18Node{K: "grp", Cap: 0, Kids: []c18Node{{K: "leaf", Src: []string{"b", "c", "a"}[rng.Intn(3)]}}}
		cs.Pat = append(cs.Pat, scope, after)
		if rng.Intn(2) == 0 {
			cs.Pat = append(cs.Pat, c18Node{K: "leaf", Src: "a"})
		}
	}
	if i%4 == 3 {
		cs.Re2 = true
		if names == 0 {
			cs.Pat = append([]c18Node{{K: "grp", Cap: 2, Name: "g9", Kids: []c18Node{{K: "leaf", Src: "a"}}}}, cs.Pat...)
		}
		var seen []string
		cs.Pat = c18AddPyRefs(rng, cs.Pat, &seen)
	}
	var lt []string
	c18LeafTexts(cs.Pat, &lt)
	alpha := []string{"a", "b", "c", "A", "B", "k", "K", "\n", " ", "#", "\t", "ab", "Ab "}
	for k := 0; k < 6; k++ {
		var sb strings.Builder
		switch k {
		case 0: // the leaf texts in order: likely to match under some option set
			for _, s := range lt {
				sb.WriteString(s)
			}
		case 1: // same, blanks and comments dropped, case flipped
			for _, s := range lt {
				t := strings.TrimSpace(s)
				if strings.HasPrefix(t, "#") {
					continue
				}
				if rng.Intn(2) == 0 {
					t = strings.ToUpper(t)
				} else {
					t = strings.ToLower(t)
				}
				sb.WriteString(t)
			}
		case 2:
			for _, s := range lt {
				if rng.Intn(4) == 0 {
					sb.WriteString("\n")
				}
				if rng.Intn(5) != 0 {
					sb.WriteString(strings.TrimSpace(s))
				}
			}
		default:
			n := rng.Intn(9)
			for j := 0; j < n; j++ {
				sb.WriteString(alpha[rng.Intn(len(alpha))])
			}
		}
		cs.Inputs = append(cs.Inputs, sb.String())
	}
	return cs
}

// comparing results --------------------------------------------------------------------------------

// all matches of re on s, rendered with every group's captures
func c18Results(re *regexp2.Regexp, s string) string {
	var sb strings.Builder
	m, err := re.FindStringMatch(s)
	for k := 0; k < 6; k++ {
		if err != nil {
			sb.WriteString("error:" + err.Error())
			break
		}
		if m == nil {
			sb.WriteString("<end>")
			break
		}
		fmt.Fprintf(&sb, "[%d+%d", m.RuneIndex, m.RuneLength)
		for _, g := range m.Groups() {
			fmt.Fprintf(&sb, " %q:", g.Name)
			for _, c := range g.Captures {
				fmt.Fprintf(&sb, "%d+%d,", c.RuneIndex, c.RuneLength)
			}
		}
		sb.WriteString("]")
		m, err = re.FindNextMatch(m)
	}
	if !strings.Contains(sb.String(), "error:") {
		// replacement references resolve through the same tables in every spelling
		r, err := re.Replace(s, "[$0|$1|${g1}|$$]", -1, -1)
		if err != nil {
			sb.WriteString(" replace error:" + err.Error())
		} else {
			fmt.Fprintf(&sb, " replace=%q", r)
		}
	}
	return sb.String()
}

const c18LeafMask = syntax.RightToLeft | syntax.IgnoreCase | syntax.ECMAScript | syntax.RE2
const c18InnerMask = syntax.RightToLeft | syntax.ECMAScript | syntax.RE2

// c18TreeText renders a parse tree over the exported RegexNode fields, with the option bits that
// code after the parser reads: leaves keep RightToLeft|IgnoreCase|ECMAScript|RE2, interior nodes
// RightToLeft|ECMAScript|RE2 (m, s, n, x — and i on interior nodes — are parser-only state).
func c18TreeText(n *syntax.RegexNode, sb *strings.Builder) {
	if n == nil {
		sb.WriteString("nil")
		return
	}
	mask := c18LeafMask
	if len(n.Children) > 0 {
		mask = c18InnerMask
	}
	fmt.Fprintf(sb, "(%d o%x m%d n%d", n.T, int(n.Options&mask), n.M, n.N)
	if n.Ch != 0 {
		fmt.Fprintf(sb, " ch%d", n.Ch)
	}
	if n.Str != nil {
		fmt.Fprintf(sb, " str%q", string(n.Str))
	}
	if n.Set != nil {
		fmt.Fprintf(sb, " set%q", n.Set.String())
	}
	for _, c := range n.Children {
		sb.WriteByte(' ')
		c18TreeText(c, sb)
	}
	sb.WriteByte(')')
}

type c18Parsed struct {
	err   string
	tree  string
	tabs  string
	find  string
	code  string
	re    *regexp2.Regexp
	cerr  string
	nodes int
}

func c18Tables(t *syntax.RegexTree) string {
	var ks []int
	for k := range t.Caps {
		ks = append(ks, k)
	}
	sort.Ints(ks)
	var nm []string
	for k, v := range t.Capnames {
		nm = append(nm, fmt.Sprintf("%s=%d", k, v))
	}
	sort.Strings(nm)
	return fmt.Sprintf("caps%v numlist%v captop%d names%v list%q", ks, t.Capnumlist, t.Captop, nm, t.Caplist)
}

// c18Parse parses and compiles one spelling. plain: the parse-level views (tree, tables, find
// optimizations, program) are taken with the optimizing rewrites of tree.go switched off
// (syntax.VerifDisableRewrites); the compiled Regexp used for matching is always the normal one.
func c18Parse(pat string, ro regexp2.RegexOptions, plain bool) c18Parsed {
	var p c18Parsed
	syntax.VerifDisableRewrites = plain
	t, err := syntax.Parse(pat, syntax.ParseOptions{RegexOptions: syntax.RegexOptions(ro)})
	syntax.VerifDisableRewrites = false
	if err != nil {
		p.err = err.Error()
	} else {
		var sb strings.Builder
		c18TreeText(t.Root, &sb)
		p.tree = sb.String()
		p.nodes = strings.Count(p.tree, "(")
		p.tabs = c18Tables(t)
		if t.FindOptimizations != nil {
			p.find = t.FindOptimizations.Dump()
		}
		if code, err := syntax.Write(t); err == nil {
			p.code = code.Dump()
		} else {
			p.code = "write error: " + err.Error()
		}
	}
	re, err := regexp2.Compile(pat, ro)
	if err != nil {
		p.cerr = err.Error()
	} else {
		re.MatchTimeout = 100 * time.Millisecond // nested quantifiers can blow up; such subjects are skipped
	}
	p.re = re
	return p
}

func c18Check(c *core.Ctx, cases []c18Case) []core.Outcome {
	outs := make([]core.Outcome, len(cases))
	var lines []string
	flats := make([][]c18Flat, len(cases))
	for i, cs := range cases {
		var sb strings.Builder
		id := 0
		c18Sexp(cs.Pat, &id, &sb)
		c18Flatten(cs.Pat, &flats[i])
		for o := 0; o < 32; o++ {
			lines = append(lines, fmt.Sprintf("(c18 resolve %d (pat%s))", o, sb.String()))
		}
	}
	var res []string
	{
		var err error
		res, err = c.RunDriver(lines)
		if err != nil {
			outs[0].Fail = core.DriverFailure(err)
			for i := range outs {
				outs[i].Key = c18Pattern(cases[i].Pat, false)
			}
			return outs
		}
	}
	for i, cs := range cases {
		o := &outs[i]
		pat := c18Pattern(cs.Pat, false)
		patW := c18Pattern(cs.Pat, true)
		patR := c18Pattern(c18Rescope(cs.Pat), false)
		o.Key = pat
		hasOpt := strings.Contains(pat, "(?") && (strings.Contains(pat, "(?-") || strings.ContainsAny(pat, "imnsx"))
		o.Nontrivial = hasOpt
		bad := func(kind, key, summary, exp, got string) {
			if o.Fail == nil {
				o.Fail = &core.Failure{Kind: kind, Key: key, Summary: summary, Expected: exp, Got: got}
			}
		}
		okCount, timeouts := 0, 0
		skip := map[string]bool{}
		var re2o regexp2.RegexOptions
		if cs.Re2 {
			re2o = regexp2.RE2
			o.Buckets = append(o.Buckets, "re2")
		}
		for os_ := 0; os_ < 32 && o.Fail == nil; os_++ {
			ro := c18RO(os_)
			set := c18SetText(os_)
			sp := map[string]string{"option": pat, "prefix": pat, "wrap": "(?:" + pat + ")"}
			if os_ != 0 {
				sp["prefix"] = "(?" + set + ")" + pat
				sp["wrap"] = "(?" + set + ":" + pat + ")"
			}
			base := c18Parse(pat, ro|re2o, false)
			if base.err != "" || base.cerr != "" {
				o.Buckets = append(o.Buckets, "compile-error")
			} else {
				okCount++
			}
			type alt struct {
				name string
				p    c18Parsed
				ref  c18Parsed
			}
			explicitAgree := false
			alts := []alt{{"prefix", c18Parse(sp["prefix"], re2o, false), base}, {"wrap", c18Parse(sp["wrap"], re2o, false), base}}
			if hasOpt {
				sp["rescoped"] = patR
				alts = append(alts, alt{"rescoped", c18Parse(patR, ro|re2o, false), base})
			}
			{
				expl, err := c18Explicit(res[i*32+os_], flats[i])
				if err != nil {
					bad("correspondence-break", "driver-answer", err.Error(), "token list", res[i*32+os_])
					break
				}
				// the explicit spelling has every leaf in its own group: compare with the pattern whose leaves are
				// wrapped in plain (?:…). Its interior nodes carry no option bits at all, and the auto-atomic /
				// prefix-factoring rewrites compare whole option words of a leaf and an interior node
				// (canBeMadeAtomic), so the parse-level views are compared before those rewrites.
				alts = append(alts, alt{"explicit", c18Parse(expl, re2o, true), c18Parse(patW, ro|re2o, true)})
				sp["explicit"] = expl
				sp["explicit-ref"] = patW
				var gb strings.Builder
				c18ExplicitGo(cs.Pat, os_, &gb)
				explicitAgree = gb.String() == expl
				if !explicitAgree {
					bad("correspondence-break", "explicit:resolution", fmt.Sprintf("O={%s}: Options.resolve (Lean) and the scoping rule written in Go resolve %q differently", set, pat), gb.String(), expl)
				}
			}
			for _, a := range alts {
				what := fmt.Sprintf("O={%s} %s spelling %q vs %q", set, a.name, sp[a.name], pat)
				kind := "impl-violation"
				if a.name == "explicit" && !explicitAgree {
					kind = "correspondence-break" // the explicit spelling is printed from the Lean model
					what = fmt.Sprintf("O={%s} explicit spelling %q (from Options.resolve) vs %q", set, sp[a.name], patW)
				}
				if (a.p.err != "") != (a.ref.err != "") || (a.p.cerr != "") != (a.ref.cerr != "") {
					bad(kind, a.name+":compile", what+": one compiles, the other does not", a.ref.err+a.ref.cerr, a.p.err+a.p.cerr)
					continue
				}
				if a.ref.err != "" || a.ref.cerr != "" {
					continue
				}
				// (a) behaviour on the inputs (for the explicit spelling: against the unwrapped original as well)
				for _, in := range cs.Inputs {
					if skip[in] {
						continue
					}
					want := c18Results(base.re, in)
					if strings.Contains(want, "error:") {
						timeouts++
						skip[in] = true // catastrophic backtracking on this subject: dropped for the rest of the case
						continue
					}
					got := c18Results(a.p.re, in)
					if strings.Contains(got, "error:") {
						timeouts++
						skip[in] = true
						continue
					}
					if got != want {
						bad(kind, a.name+":results", what+fmt.Sprintf(": different matches/captures on %q", in), want, got)
						break
					}
				}
				// (b) parse-level certificate
				if a.p.tabs != a.ref.tabs {
					bad(kind, a.name+":tables", what+": caps/capnames/caplist/captop differ", a.ref.tabs, a.p.tabs)
				}
				if a.name == "rescoped" {
					continue // extra group boundaries change which neighbours the reducer may merge: behaviour and tables only
				}
				if a.p.tree != a.ref.tree {
					bad(kind, a.name+":tree", what+": parse trees differ beyond parser-only option bits", a.ref.tree, a.p.tree)
				}
				if a.p.find != a.ref.find {
					bad(kind, a.name+":findopt", what+": find optimizations differ", a.ref.find, a.p.find)
				}
				if a.p.code != a.ref.code {
					bad(kind, a.name+":code", what+": compiled programs differ", a.ref.code, a.p.code)
				}
			}
		}
		if timeouts > 0 {
			o.Buckets = append(o.Buckets, "subject-skipped-after-timeout")
		}
		if okCount == 32 {
			o.Buckets = append(o.Buckets, "compiles-under-all-32")
		} else if okCount == 0 {
			o.Buckets = append(o.Buckets, "compiles-under-none")
		} else {
			o.Buckets = append(o.Buckets, "compiles-under-some")
		}
		if strings.Contains(pat, "(?-") || strings.Contains(pat, "-") && hasOpt {
			o.Buckets = append(o.Buckets, "has-off-switch")
		}
		if hasOpt {
			o.Buckets = append(o.Buckets, "has-inline-options")
		}
		if o.Fail != nil {
			o.Buckets = append(o.Buckets, "fail:"+o.Fail.Key)
		}
	}
	return outs
}

func init() {
	core.Register("C18", func(c *core.Ctx) {
		corpus := []c18Case{
			{Pat: []c18Node{{K: "leaf", Src: "a"}, {K: "opt", Opt: []int{1}}, {K: "leaf", Src: "b"}, {K: "grp", Cap: 0, Kids: []c18Node{{K: "opt", Opt: []int{-1}}, {K: "leaf", Src: "c"}}}, {K: "leaf", Src: "A"}}, Inputs: []string{"aBcA", "abca", "ABCA", "aBCa"}},
			{Pat: []c18Node{{K: "leaf", Src: "^"}, {K: "leaf", Src: "a"}, {K: "leaf", Src: " "}, {K: "leaf", Src: "#c\n"}, {K: "leaf", Src: ".", Q: "*"}, {K: "leaf", Src: "$"}}, Inputs: []string{"a\nb", "x\na #c\n\n", "A", "a #c\nzz"}},
			{Pat: []c18Node{{K: "grp", Cap: 0, Kids: []c18Node{{K: "leaf", Src: "a"}}}, {K: "sc", Opt: []int{3}, Kids: []c18Node{{K: "grp", Cap: 0, Kids: []c18Node{{K: "leaf", Src: "b"}}}}}, {K: "grp", Cap: 2, Name: "g1", Kids: []c18Node{{K: "opt", Opt: []int{-3}}, {K: "grp", Cap: 0, Kids: []c18Node{{K: "leaf", Src: "c"}}}}}}, Inputs: []string{"abc", "ABC"}},
		}
		core.RunLeg(c, core.Leg[c18Case]{
			Name: "O", Kind: "correspondence+oracle", Batch: 64,
			Rule:   "random pattern ASTs (depth <= 3, 1-4 items per level: letters of both cases, classes, '.', '^', '$', \\n, \\w, \\b, blanks, '#' comments ending in a newline, alternation, quantifiers, unnamed/non-capturing/named groups, inline (?on-off) items with 1-3 signed flags, scoped (?on-off:...) groups) x all 32 subsets O of {i,m,n,s,x} x 6 subjects (leaf texts in order, case-flipped, with newlines, random). non-trivial = the pattern contains an inline option; distinct by pattern. Each (pattern,O): compile option O vs prefix (?O) vs wrap (?O:...) vs the explicit spelling printed from Lean Options.resolve (every leaf in (?on-off:...), unnamed groups under n as (?:...)): same compile outcome, same matches and captures on the subjects, equal parse trees modulo parser-only option bits, equal capture tables, equal find optimizations, equal compiled programs",
			Corpus: corpus, N: c.N(800, 12000), Gen: c18Gen, Check: c18Check,
		})
		parserLeg(c, 400, 6000) // leg Pr: the parser model (parser.go)
		c18ParenLeg(c)          // leg Op: option scopes around constructs with parentheses (c18paren.go)
	})
}
