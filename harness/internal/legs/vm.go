package legs

import (
	"fmt"
	"math/rand"
	"strconv"
	"strings"
	"time"
	"unicode"

	"rvharness/internal/core"

	regexp2 "github.com/dlclark/regexp2/v2"
	"github.com/dlclark/regexp2/v2/syntax"
)

// Leg W (VM slice; registered under C10, and with small sizes under C01 and C13): the executable Lean
// model of the bytecode interpreter (lean/RegexVerif/Model/VM.lean, `step`/`runObs`) against
// executeDefault, step by step. For every compiled program (main and bool-only) of a pattern and every
// start position of an input, the hook VerifAttemptTrace reports the state at the top of every
// iteration of the interpreter loop; the Lean driver runs the model on the same program, text and
// oracle rows (set membership, unicode.ToLower, word characters — all taken from the Go side) and must
// produce the same outcome, capture arrays, final text position, number of iterations, deepest
// backtracking and grouping stack, the same first K trace tuples and the same rolling hash over all
// tuples (codepos, operator, textpos, track used, stack used, crawl used). It also evaluates the
// decidable well-formedness predicate `Prog.wf` (hypothesis of the safety theorems of Props/C10) on
// every program.

var vmOpNames = []string{"Onerep", "Notonerep", "Setrep", "Oneloop", "Notoneloop", "Setloop", "Onelazy", "Notonelazy", "Setlazy",
	"One", "Notone", "Set", "Multi", "Ref", "Bol", "Eol", "Boundary", "Nonboundary", "Beginning", "Start", "EndZ", "End", "Nothing",
	"Lazybranch", "Branchmark", "Lazybranchmark", "Nullcount", "Setcount", "Branchcount", "Lazybranchcount", "Nullmark", "Setmark",
	"Capturemark", "Getmark", "Setjump", "Backjump", "Forejump", "Testref", "Goto", "Prune", "Stop", "ECMABoundary", "NonECMABoundary",
	"Oneloopatomic", "Notoneloopatomic", "Setloopatomic", "UpdateBumpalong"}

func vmOpName(operator int) string {
	op := operator & int(syntax.Mask)
	n := fmt.Sprintf("op%d", op)
	if op < len(vmOpNames) {
		n = vmOpNames[op]
	}
	if operator&int(syntax.Back) != 0 {
		n += "|Back"
	}
	if operator&int(syntax.Back2) != 0 {
		n += "|Back2"
	}
	return n
}

const (
	vmMod = 1000000007
	vmMul = 1000003
)

func vmMix(h uint64, x int) uint64 {
	v := int64(x) % vmMod
	if v < 0 {
		v += vmMod
	}
	return (h*vmMul + uint64(v)) % vmMod
}

// vmAttempt is what the Go side observed for one attempt.
type vmAttempt struct {
	pos, textstart int
	skip           string // non-empty: not compared (error / too long)
	panicked       string
	steps          int
	maxTrack       int
	maxStack       int
	hash           uint64
	first          []int // first K tuples, flat
	lastOps        []int // operator of every step up to the cap (for naming a divergence)
	textpos        int
	matched        bool
	counts         []int
	arrays         [][]int
}

func vmRunGo(re *regexp2.Regexp, text []rune, pos, textstart int, quick bool, k, maxSteps int) (a vmAttempt) {
	a.pos, a.textstart = pos, textstart
	defer func() {
		if r := recover(); r != nil {
			a.panicked = fmt.Sprint(r)
		}
	}()
	h := uint64(0)
	m, after, err := regexp2.VerifAttemptTrace(re, text, pos, textstart, quick, func(s regexp2.VerifStep) bool {
		if a.steps >= maxSteps {
			a.skip = "too-long"
			return false
		}
		for _, x := range []int{s.Codepos, s.Operator, s.Textpos, s.TrackUsed, s.StackUsed, s.CrawlUsed} {
			h = vmMix(h, x)
		}
		if a.steps < k {
			a.first = append(a.first, s.Codepos, s.Operator, s.Textpos, s.TrackUsed, s.StackUsed, s.CrawlUsed)
		}
		a.lastOps = append(a.lastOps, s.Operator)
		if s.TrackUsed > a.maxTrack {
			a.maxTrack = s.TrackUsed
		}
		if s.StackUsed > a.maxStack {
			a.maxStack = s.StackUsed
		}
		a.steps++
		return true
	})
	a.hash = h
	if err != nil {
		if err == regexp2.ErrBacktrackingStackLimit {
			a.skip = "stack-limit"
		} else if strings.HasPrefix(err.Error(), "match timeout") {
			a.skip = "timeout"
		} else {
			a.skip = "error:" + err.Error()
		}
		return a
	}
	a.textpos = after
	if m != nil {
		a.matched = true
		counts, arrays, _ := regexp2.VerifMatchArrays(m)
		a.counts = counts
		for c, arr := range arrays {
			n := 0
			if c < len(counts) {
				n = 2 * counts[c]
			}
			if n > len(arr) {
				n = len(arr)
			}
			a.arrays = append(a.arrays, arr[:n])
		}
	}
	return a
}

// render as the Lean driver prints an attempt
func (a *vmAttempt) render() string {
	var b strings.Builder
	if a.matched {
		b.WriteString("(match ")
	} else {
		b.WriteString("(nomatch ")
	}
	fmt.Fprintf(&b, "%d %d %d %d %d %s", a.steps, a.maxTrack, a.maxStack, a.textpos, a.hash, core.SInts(a.first))
	if a.matched {
		b.WriteString(" " + core.SInts(a.counts))
		for _, arr := range a.arrays {
			b.WriteString(" " + core.SInts(arr))
		}
	}
	b.WriteString(")")
	return b.String()
}

func sxRender(n *sx) string {
	if n.leaf {
		return n.atom
	}
	parts := make([]string, len(n.list))
	for i, c := range n.list {
		parts[i] = sxRender(c)
	}
	return "(" + strings.Join(parts, " ") + ")"
}

// vmLine builds the protocol line for one program, one text and a list of attempts.
func vmLine(opts regexp2.RegexOptions, code *syntax.Code, text []rune, atts [][2]int, fuel, k int) string {
	strs := make([]string, len(code.Strings))
	for i, s := range code.Strings {
		strs[i] = core.SInts(s)
	}
	distinct := []rune{}
	seen := map[rune]bool{}
	for _, r := range text {
		if !seen[r] {
			seen[r] = true
			distinct = append(distinct, r)
		}
	}
	var setrows, lower []string
	var word, ecma []rune
	for _, r := range distinct {
		for i, s := range code.Sets {
			if s.CharIn(r) {
				setrows = append(setrows, fmt.Sprintf("(%d %d)", i, r))
			}
		}
		if l := vmToLower(r); l != r {
			lower = append(lower, fmt.Sprintf("(%d %d)", r, l))
		}
		if opts&regexp2.RE2 != 0 {
			if 'A' <= r && r <= 'Z' || 'a' <= r && r <= 'z' || '0' <= r && r <= '9' || r == '_' {
				word = append(word, r)
			}
		} else if syntax.IsWordChar(r) {
			word = append(word, r)
		}
		if syntax.IsECMAWordChar(r) {
			ecma = append(ecma, r)
		}
	}
	as := make([]string, len(atts))
	for i, a := range atts {
		as[i] = fmt.Sprintf("(%d %d)", a[0], a[1])
	}
	return core.S("c10", "vm", core.SInts(code.Codes), "("+strings.Join(strs, " ")+")", fmt.Sprint(len(code.Sets)), fmt.Sprint(code.Capsize), fmt.Sprint(code.TrackCount),
		core.SInts(text), "("+strings.Join(setrows, " ")+")", "("+strings.Join(lower, " ")+")", core.SInts(word), core.SInts(ecma),
		core.SBool(opts&(regexp2.RE2|regexp2.ECMAScript) != 0), core.SBool(opts&regexp2.ECMAScript != 0),
		fmt.Sprint(fuel), fmt.Sprint(k), "("+strings.Join(as, " ")+")")
}

type vmSizes struct {
	k, maxSteps, maxText, extra int
}

func vmCheck(sz vmSizes) func(c *core.Ctx, cases []engCase) []core.Outcome {
	return func(c *core.Ctx, cases []engCase) []core.Outcome {
		outs := make([]core.Outcome, len(cases))
		cache := newEngCache()
		type probe struct {
			ci    int
			which string
			re    *regexp2.Regexp
			code  *syntax.Code
			text  []rune
			atts  []vmAttempt
		}
		var probes []*probe
		var lines []string
		for ci := range cases {
			cs := &cases[ci]
			o := &outs[ci]
			text := cs.Text
			if len(text) > sz.maxText {
				text = text[:sz.maxText]
			}
			o.Key = fmt.Sprintf("%d|%v|%s|%s", cs.Opts, cs.CodeGen, cs.Pattern, string(text))
			comp := cache.get(cs)
			if comp.err != nil || comp.re == nil {
				o.Buckets = append(o.Buckets, "compile-error")
				continue
			}
			re := comp.re
			re.MatchTimeout = 3 * time.Second
			main := regexp2.VerifCode(re)
			o.Nontrivial = len(main.Codes) > 8 && len(text) > 0
			o.Buckets = append(o.Buckets, "source="+cs.Source)
			if regexp2.RegexOptions(cs.Opts)&regexp2.RightToLeft != 0 {
				o.Buckets = append(o.Buckets, "rtl")
			}
			progs := []struct {
				which string
				code  *syntax.Code
			}{{"main", main}}
			if q := regexp2.VerifQuickCode(re); q != nil {
				progs = append(progs, struct {
					which string
					code  *syntax.Code
				}{"quick", q})
				o.Buckets = append(o.Buckets, "has-quick-code")
			}
			// attempts: every position with \G bound to it, plus a few with \G elsewhere
			hsh := 0
			for _, r := range cs.Pattern + string(text) {
				hsh = hsh*31 + int(r)
			}
			if hsh < 0 {
				hsh = -hsh
			}
			opSeen := map[int]bool{}
			var plan [][2]int
			for p := 0; p <= len(text); p++ {
				plan = append(plan, [2]int{p, p})
			}
			for e := 0; e < sz.extra; e++ {
				plan = append(plan, [2]int{(hsh / (7 + e)) % (len(text) + 1), (hsh / (3 + 5*e)) % (len(text) + 1)})
			}
			for _, pr := range progs {
				p := &probe{ci: ci, which: pr.which, re: re, code: pr.code, text: text}
				var send [][2]int
				for _, pl := range plan {
					a := vmRunGo(re, text, pl[0], pl[1], pr.which == "quick", sz.k, sz.maxSteps)
					if a.panicked != "" {
						if o.Fail == nil {
							o.Fail = &core.Failure{Kind: "impl-violation", Key: "W:panic", Summary: fmt.Sprintf("the interpreter panicked: %s program of %q (options %d) on %q at %d (\\G at %d): %s", pr.which, cs.Pattern, cs.Opts, string(text), pl[0], pl[1], a.panicked), Expected: "no panic", Got: a.panicked}
						}
						continue
					}
					if a.skip != "" {
						o.Buckets = append(o.Buckets, "skipped="+strings.SplitN(a.skip, ":", 2)[0])
						continue
					}
					for _, opr := range a.lastOps {
						if !opSeen[opr] {
							opSeen[opr] = true
							o.Buckets = append(o.Buckets, "op="+vmOpName(opr))
						}
					}
					if a.matched {
						o.Buckets = append(o.Buckets, "attempt=match")
					} else {
						o.Buckets = append(o.Buckets, "attempt=nomatch")
					}
					o.Buckets = append(o.Buckets, "steps="+c13Bucket(a.steps))
					p.atts = append(p.atts, a)
					send = append(send, pl)
				}
				if len(send) == 0 {
					continue
				}
				probes = append(probes, p)
				lines = append(lines, vmLine(regexp2.RegexOptions(cs.Opts), pr.code, text, send, sz.maxSteps+1, sz.k))
			}
		}
		res, err := c.RunDriver(lines)
		if err != nil {
			if len(outs) > 0 && outs[0].Fail == nil {
				outs[0].Fail = core.DriverFailure(err)
			}
			return outs
		}
		for pi, p := range probes {
			o := &outs[p.ci]
			cs := &cases[p.ci]
			if o.Fail != nil {
				continue
			}
			ans, err := parseSx(res[pi])
			if err != nil || ans.head() != "vm" || len(ans.args()) != 4+len(p.atts) {
				o.Fail = &core.Failure{Kind: "correspondence-break", Key: "W:driver-answer", Summary: p.which + " program: the Lean driver did not answer the request", Expected: "(vm wf …)", Got: res[pi]}
				continue
			}
			args := ans.args()
			if args[0].atom != "1" {
				o.Fail = &core.Failure{Kind: "correspondence-break", Key: "W:wf-false:" + p.which, Summary: fmt.Sprintf("Prog.wf is false for the %s program of %q (options %d): %v", p.which, cs.Pattern, cs.Opts, p.code.Codes), Expected: "wf", Got: "not wf"}
				continue
			}
			if args[1].atom != "1" {
				o.Fail = &core.Failure{Kind: "correspondence-break", Key: "W:potential-exceeds-need:" + p.which, Summary: fmt.Sprintf("potOk is false for the %s program of %q (options %d): the positions of the program can push more than 4*TrackCount = %d slots between two storage checks (hypothesis of vm_track_no_overflow_program): %v", p.which, cs.Pattern, cs.Opts, 4*p.code.TrackCount, p.code.Codes), Expected: "potOk", Got: "not potOk"}
				continue
			}
			if args[2].atom != "0" {
				opname := "none"
				if n, err := strconv.Atoi(args[2].atom); err == nil && n >= 1 && n <= 64 {
					opname = vmOpName(n - 1)
				}
				o.Fail = &core.Failure{Kind: "correspondence-break", Key: "W:untyped:" + opname, Summary: fmt.Sprintf("StackTyping.typed is false for the %s program of %q (options %d): no consistent grouping-stack typing (height and kind of every slot at every instruction boundary); first failing instruction: %s: %v", p.which, cs.Pattern, cs.Opts, opname, p.code.Codes), Expected: "typed", Got: "untyped at " + opname}
				continue
			}
			// C13 section 6 (W:stackcap): the hypothesis of vm_stack_never_grows evaluated per program, the observed depth
			// against the static bound, and the real slice lengths of the pooled runner against the model's
			if sc := args[3]; sc.head() == "stackcap" && len(sc.args()) == 3 {
				var mh, sAlloc, cAlloc int
				fmt.Sscan(sc.args()[0].atom, &mh)
				fmt.Sscan(sc.args()[1].atom, &sAlloc)
				fmt.Sscan(sc.args()[2].atom, &cAlloc)
				tc := p.code.TrackCount
				deep := 0
				for ai := range p.atts {
					if p.atts[ai].maxStack > deep {
						deep = p.atts[ai].maxStack
					}
				}
				snap := regexp2.VerifRunnerSnapshot(p.re)
				switch {
				case mh+2 > 2*tc:
					// proved for the writer model: emit_height_closed (H+2 <= 2*TrackCount, hence <= 4*TrackCount, the
					// hypothesis of vm_stack_never_grows from the first allocation); evaluated here on the real Code as a cross-check
					o.Fail = &core.Failure{Kind: "correspondence-break", Key: "W:stackcap:height", Summary: fmt.Sprintf("%s program of %q (options %d): the largest height of the grouping-stack typing is %d, so H+2 > 2*TrackCount = %d: the closed-form height bound of emitted programs (emit_height_closed), under which the runstack doubling of ensureStorage is dead code (emitted_stack_no_overflow), fails: %v", p.which, cs.Pattern, cs.Opts, mh, 2*tc, p.code.Codes), Expected: fmt.Sprintf("maxHeight+2 <= %d", 2*tc), Got: fmt.Sprint(mh + 2)}
				case deep > mh+2:
					o.Fail = &core.Failure{Kind: "correspondence-break", Key: "W:stackcap:depth", Summary: fmt.Sprintf("%s program of %q (options %d) on %q: executeDefault used %d grouping-stack slots, more than maxHeight+2 = %d (vm_stack_no_overflow)", p.which, cs.Pattern, cs.Opts, string(p.text), deep, mh+2), Expected: fmt.Sprintf("<= %d", mh+2), Got: fmt.Sprint(deep)}
				case snap.StackLen != 0 && snap.StackLen != sAlloc:
					o.Fail = &core.Failure{Kind: "correspondence-break", Key: "W:stackcap:stacklen", Summary: fmt.Sprintf("%s program of %q (options %d) on %q: len(runstack) of the pooled runner is %d after the attempts, the model says it stays at stackAlloc0(TrackCount=%d) = %d (the doubling in ensureStorage is dead code)", p.which, cs.Pattern, cs.Opts, string(p.text), snap.StackLen, tc, sAlloc), Expected: fmt.Sprint(sAlloc), Got: fmt.Sprint(snap.StackLen)}
				case snap.CrawlLen != 0 && (snap.CrawlLen < cAlloc || snap.CrawlLen%cAlloc != 0 || (snap.CrawlLen/cAlloc)&(snap.CrawlLen/cAlloc-1) != 0):
					o.Fail = &core.Failure{Kind: "correspondence-break", Key: "W:stackcap:crawllen", Summary: fmt.Sprintf("%s program of %q (options %d) on %q: len(runcrawl) of the pooled runner is %d, not crawlAlloc0 = %d times a power of two", p.which, cs.Pattern, cs.Opts, string(p.text), snap.CrawlLen, cAlloc), Expected: fmt.Sprintf("%d * 2^k", cAlloc), Got: fmt.Sprint(snap.CrawlLen)}
				}
				if o.Fail != nil {
					continue
				}
				if snap.StackLen == sAlloc {
					o.Buckets = append(o.Buckets, "stackcap=never-grew")
				}
				switch slack := 2*tc - (mh + 2); {
				case slack <= 2:
					o.Buckets = append(o.Buckets, "stackheight-slack<=2")
				case slack <= 8:
					o.Buckets = append(o.Buckets, "stackheight-slack=3..8")
				default:
					o.Buckets = append(o.Buckets, "stackheight-slack>8")
				}
				if snap.CrawlLen > cAlloc {
					o.Buckets = append(o.Buckets, "crawlcap=doubled")
				}
			} else {
				o.Fail = &core.Failure{Kind: "correspondence-break", Key: "W:driver-answer", Summary: p.which + " program: no stackcap field in the driver's answer", Expected: "(stackcap h s c)", Got: sxRender(args[3])}
				continue
			}
			for ai := range p.atts {
				a := &p.atts[ai]
				want, got := a.render(), sxRender(args[4+ai])
				if want == got {
					continue
				}
				// name the first diverging step: full traces of this attempt from both sides
				full := vmRunGo(p.re, p.text, a.pos, a.textstart, p.which == "quick", sz.maxSteps, sz.maxSteps)
				key, detail := "W:result", ""
				if r2, err := c.RunDriver([]string{vmLine(regexp2.RegexOptions(cs.Opts), p.code, p.text, [][2]int{{a.pos, a.textstart}}, sz.maxSteps+1, sz.maxSteps)}); err == nil {
					if a2, err := parseSx(r2[0]); err == nil && len(a2.args()) == 5 {
						la := a2.args()[4]
						if strings.HasPrefix(la.head(), "fault-") {
							key = "W:" + la.head()
						}
						if len(la.args()) >= 6 {
							var lt []int
							for _, x := range la.args()[5].list {
								var v int
								fmt.Sscan(x.atom, &v)
								lt = append(lt, v)
							}
							n := len(lt) / 6
							if len(full.first)/6 < n {
								n = len(full.first) / 6
							}
							div := -1
							for i := 0; i < n && div < 0; i++ {
								for j := 0; j < 6; j++ {
									if lt[6*i+j] != full.first[6*i+j] {
										div = i
										break
									}
								}
							}
							if div < 0 && len(lt) != len(full.first) {
								div = n
							}
							if div == 0 {
								key, detail = "W:step:init", "the first trace tuple differs"
							} else if div > 0 {
								key = "W:step:" + vmOpName(full.first[6*(div-1)+1])
								lo := div - 1
								hi := div + 1
								goT, leanT := full.first[6*lo:], lt[6*lo:]
								if 6*(hi-lo) < len(goT) {
									goT = goT[:6*(hi-lo)]
								}
								if 6*(hi-lo) < len(leanT) {
									leanT = leanT[:6*(hi-lo)]
								}
								detail = fmt.Sprintf("iteration %d executes %s; states before/after (codepos operator textpos track stack crawl): Go %v, Lean %v", div-1, vmOpName(full.first[6*(div-1)+1]), goT, leanT)
							}
						}
					}
				}
				o.Fail = &core.Failure{Kind: "correspondence-break", Key: key,
					Summary:  fmt.Sprintf("%s program of %q (options %d, codegen %v) on %q at %d (\\G at %d): the interpreter model and executeDefault differ. %s\ncodes %v", p.which, cs.Pattern, cs.Opts, cs.CodeGen, string(p.text), a.pos, a.textstart, detail, p.code.Codes),
					Expected: want, Got: got}
				break
			}
		}
		return outs
	}
}

func vmToLower(r rune) rune { return unicode.ToLower(r) }

// vmGen mixes the full-syntax generator (engGen: random ASTs incl. lookarounds, backrefs, conditionals,
// balancing groups, atomic groups, lazy/greedy counted loops, all option sets, harvested repository
// patterns) with the loop-heavy families of the C13 generator.
type vmGen struct {
	eng *engGen
}

func (g *vmGen) next(rng *rand.Rand, i int) engCase {
	if i%6 == 5 {
		gg := &c13Gen{rng: rng, budget: 6 + rng.Intn(20)}
		var f c13Frag
		if rng.Intn(3) == 0 {
			f = gg.tower(2 + rng.Intn(4))
		} else {
			f = gg.node(2 + rng.Intn(3))
		}
		text := []rune(c13RandText(rng, rng.Intn(9)))
		return engCase{Pattern: f.pat, Opts: int32(c13Opts[rng.Intn(len(c13Opts))]), Text: text, Source: "c13gen"}
	}
	return g.eng.next(rng, i)
}

var vmCorpus = []engCase{
	{Pattern: `(?:ab?)*c`, Text: []rune("ababc"), Source: "corpus"},
	{Pattern: `(?<n>a)*?(?(n)b|c){2,5}(?>x+)(?<=y)`, Opts: int32(regexp2.RightToLeft), Text: []rune("aabbxxy"), Source: "corpus"},
	{Pattern: `(?<a>x)(?<b-a>y)\k<b>`, Text: []rune("xyx"), Source: "corpus"},
	{Pattern: `(?=.*(?<a>x))(?<b-a>y)\k<b>`, Text: []rune("y.x"), Source: "corpus"},
	{Pattern: `(?i)(a)\1{2,3}?b`, Text: []rune("aAAab"), Source: "corpus"},
	{Pattern: `\b(?!ab)\w+?\b(?<!c)$`, Opts: int32(regexp2.Multiline), Text: []rune("ab cd\nac"), Source: "corpus"},
	{Pattern: `(a|ab)(c|bcd){0,2}?(d*)`, Text: []rune("abcd"), Source: "corpus"},
	{Pattern: `(?>a+)b|\Ga{2}`, Text: []rune("aaab"), Source: "corpus"},
	{Pattern: `^(?:(?<o>\()|(?<-o>\))|[^()])*(?(o)(?!))$`, Text: []rune("(a(b)c)"), Source: "corpus"},
	{Pattern: `\w+\s\Z`, Opts: int32(regexp2.ECMAScript), Text: []rune("ab \n"), Source: "corpus"},
	{Pattern: `(\d{1,3}?)(?:,\1)*`, Opts: int32(regexp2.RE2), Text: []rune("12,12,1"), Source: "corpus"},
}

// vmLeg registers leg W with the given sizes.
func vmLeg(c *core.Ctx, n int, sz vmSizes) {
	g := &vmGen{eng: &engGen{allowRTL: true, perPat: 3, maxLen: 10, biasFind: true, biasRewrite: true}}
	core.RunLeg(c, core.Leg[engCase]{
		Name: "W", Kind: "correspondence(interpreter model)",
		Rule:   "patterns: 5/6 from the full-syntax engine generator (random ASTs with lookarounds, backreferences, conditionals, balancing groups, atomic groups, greedy/lazy/counted loops, shapes the finders and rewrites look for; 30% literals harvested from the repository's tests; option sets incl. RightToLeft, IgnoreCase, ECMAScript, RE2; code-gen analysis on/off), 1/6 loop towers and random nests of the C13 generator; inputs pattern-directed (≤ 10 runes) or random. For the main and the bool-only program and EVERY start position (\\G bound to it, plus two attempts with \\G elsewhere): VerifAttemptTrace (state at the top of every iteration of executeDefault) vs the Lean model Model/VM.lean run by the driver on the same code array, string table, text and oracle rows (Sets[i].CharIn, unicode.ToLower, word characters of the text's runes): outcome, capture arrays after tidy, final text position, number of iterations, deepest backtracking/grouping stack, the first K trace tuples and a rolling hash of all tuples must be equal; Prog.wf and potOk (Σ weight ≤ 4·TrackCount, hypothesis of vm_track_no_overflow_program) must be true of every program. A difference is re-run with full traces and keyed by the operator of the first diverging iteration. non-trivial = program longer than 8 words and non-empty input; attempts longer than the step cap are skipped (bucket)",
		Corpus: vmCorpus, N: n, Gen: g.next, Check: vmCheck(sz), Batch: 100,
	})
}

func init() {
	// "VM": leg W alone (development aid; the registered properties run it through C10, C01 and C13)
	core.Register("VM", func(c *core.Ctx) {
		vmLeg(c, c.N(3000, 100000), vmSizes{k: 24, maxSteps: c.N(4000, 20000), maxText: 12, extra: 2})
	})
}
