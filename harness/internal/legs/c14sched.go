package legs

import (
	"bytes"
	"fmt"
	"math/rand"
	"runtime"
	"strconv"
	"sync"
	"time"

	"rvharness/internal/core"

	regexp2 "github.com/dlclark/regexp2/v2"
)

// C14/C11 leg I — forced interleavings of concurrent makeDeadline calls on the real clock.
//
// makeDeadline consists of lock-free atomic reads and critical sections.  The schedule points of the
// verif build (VerifClockPoint: 1 = clockEnd read, 2 = time read and provisional deadline computed,
// 3 = between two critical sections, where the code has two) let the harness hold a goroutine outside
// every critical section and so drive the real code through a chosen interleaving — the ones the Go
// scheduler can produce by preempting a goroutine at that point — instead of waiting for the scheduler
// to stumble on it (leg B).  Real time passes between the steps (sleeps of 0-60 ms are part of the
// schedule); the updater goroutine runs freely.
//
// Oracle (no model): the deadline returned to a call that began at real time t0 with timeout d is not
// earlier than t0 + d - eps - 2 ticks, eps = 10 ms being the allowance for a running updater that
// woke late (the +period slack of deadlineTicks covers one period of staleness).  That is
// Props.C14.conc_no_early_deadline read off the real code.

type c14SchedStep struct {
	Op string `json:"op"` // begin | adv | sleep
	G  int    `json:"g,omitempty"`
	To int    `json:"to,omitempty"` // adv: run goroutine G until it stands at this point (4 = returned)
	Ms int    `json:"ms,omitempty"`
}

type c14Sched struct {
	PeriodNs int64          `json:"period_ns"`
	Pre      string         `json:"pre"`    // stopped | running
	IdleMs   int            `json:"idle_ms"`
	D        []int64        `json:"d"` // timeout of goroutine i
	Steps    []c14SchedStep `json:"steps"`
}

func c14Goid() int64 {
	var buf [64]byte
	n := runtime.Stack(buf[:], false)
	f := bytes.Fields(buf[:n])
	if len(f) < 2 {
		return -1
	}
	id, _ := strconv.ParseInt(string(f[1]), 10, 64)
	return id
}

type c14SchedG struct {
	resume chan int // target point
	at     chan int // reports the point reached (4 = returned)
	target int
	t0     time.Time
	dl     int64
	path   []int
}

type c14SchedCall struct {
	G      int
	D      int64
	T0Ns   int64 // since clock start (may be negative for a call begun before the first start)
	Dl     int64
	Path   []int
	Done   bool
	LagNs  int64 // (t0 - start) + d - dl*2^20: how much earlier than t0+d the deadline lies
	// the deadline is beyond clockEnd after the schedule; the updater was then seen gone with the
	// deadline not reached (time CurAtExit): the match holding it can no longer time out
	Uncovered bool
	Abandoned bool
	CurAtExit int64
}

func c14SchedRun(cs c14Sched) (calls []c14SchedCall, errs string) {
	if !c14StopClock() {
		return nil, "StopTimeoutClock did not return within 5s"
	}
	regexp2.SetTimeoutCheckPeriod(time.Duration(cs.PeriodNs))
	// the clock has been started at least once, so that "stopped" means a stale time
	_ = regexp2.VerifMakeDeadline(int64(20 * time.Millisecond))
	if cs.Pre == "stopped" {
		if !c14StopClock() {
			return nil, "StopTimeoutClock did not return within 5s"
		}
	}
	time.Sleep(time.Duration(cs.IdleMs) * time.Millisecond)

	var mu sync.Mutex
	byGoid := map[int64]*c14SchedG{}
	hook := func(p int) {
		mu.Lock()
		g := byGoid[c14Goid()]
		mu.Unlock()
		if g == nil {
			return // a makeDeadline that is not part of the schedule (none expected)
		}
		g.path = append(g.path, p)
		if p >= g.target {
			g.at <- p
			g.target = <-g.resume
		}
	}
	regexp2.VerifClockPoint.Store(&hook)
	defer regexp2.VerifClockPoint.Store(nil)

	gs := make([]*c14SchedG, len(cs.D))
	wait := func(g *c14SchedG) (int, bool) {
		select {
		case p := <-g.at:
			return p, true
		case <-time.After(5 * time.Second):
			return 0, false
		}
	}
	for _, st := range cs.Steps {
		switch st.Op {
		case "sleep":
			time.Sleep(time.Duration(st.Ms) * time.Millisecond)
		case "begin":
			if st.G >= len(gs) || gs[st.G] != nil {
				return nil, "bad schedule: begin"
			}
			g := &c14SchedG{resume: make(chan int), at: make(chan int, 1), target: 1}
			gs[st.G] = g
			d := cs.D[st.G]
			ready := make(chan struct{})
			go func() {
				mu.Lock()
				byGoid[c14Goid()] = g
				mu.Unlock()
				close(ready)
				g.t0 = time.Now()
				g.dl = regexp2.VerifMakeDeadline(d)
				g.at <- 4
			}()
			<-ready
			if _, ok := wait(g); !ok {
				return nil, "goroutine did not reach its first schedule point within 5s"
			}
		case "adv":
			if st.G >= len(gs) || gs[st.G] == nil {
				return nil, "bad schedule: adv"
			}
			g := gs[st.G]
			if g.target == 5 {
				continue // already returned
			}
			g.resume <- st.To
			p, ok := wait(g)
			if !ok {
				return nil, fmt.Sprintf("goroutine %d did not reach point %d within 5s", st.G, st.To)
			}
			if p == 4 {
				g.target = 5
			}
		}
	}
	// let every goroutine finish
	for _, g := range gs {
		if g != nil && g.target != 5 {
			g.resume <- 4
			for {
				p, ok := wait(g)
				if !ok {
					return nil, "goroutine did not return within 5s"
				}
				if p == 4 {
					break
				}
				g.resume <- 4
			}
			g.target = 5
		}
	}
	_, clockEnd, _, started, since := regexp2.VerifClockState()
	now := time.Now()
	if !started {
		return nil, "clock not started after the schedule"
	}
	start := now.Add(-time.Duration(since))
	for i, g := range gs {
		if g == nil {
			continue
		}
		c := c14SchedCall{G: i, D: cs.D[i], T0Ns: int64(g.t0.Sub(start)), Dl: g.dl, Path: g.path, Done: true}
		c.LagNs = c.T0Ns + c.D - c.Dl*c14Tick
		c.Uncovered = c.Dl > clockEnd
		calls = append(calls, c)
	}
	// A deadline beyond clockEnd: the updater will leave its loop before the deadline is reached.  Wait
	// for that (clockEnd is at most the other deadlines + 1s away) and look: no updater, deadline not reached.
	for k := range calls {
		if !calls[k].Uncovered {
			continue
		}
		for w := 0; w < 400; w++ {
			cur, _, running, _, _ := regexp2.VerifClockState()
			if !running {
				calls[k].Abandoned = cur < calls[k].Dl
				calls[k].CurAtExit = cur
				break
			}
			time.Sleep(10 * time.Millisecond)
		}
		break
	}
	return calls, ""
}

func c14SchedCheck(c *core.Ctx, cases []c14Sched) []core.Outcome {
	outs := make([]core.Outcome, len(cases))
	defer func() {
		if c14StopClock() {
			regexp2.SetTimeoutCheckPeriod(regexp2.DefaultClockPeriod)
		}
	}()
	for i, cs := range cases {
		o := &outs[i]
		o.Key = string(core.RawJSON(cs))
		o.Nontrivial = len(cs.D) > 1
		if c14Hung {
			o.Buckets = []string{"skipped-clock-cannot-be-stopped"}
			continue
		}
		var worst *c14SchedCall
		confirmed := 0
		// a stale deadline is confirmed by running the schedule again (real time is part of it)
		for try := 0; try < 3; try++ {
			calls, errs := c14SchedRun(cs)
			if errs != "" {
				o.Fail = &core.Failure{Kind: "impl-violation", Key: "sched-hang", Summary: errs, Expected: "every makeDeadline call returns", Got: "blocked"}
				break
			}
			var w *c14SchedCall
			for k := range calls {
				cl := &calls[k]
				if cl.Abandoned && o.Fail == nil {
					o.Fail = &core.Failure{Kind: "impl-violation", Key: "deadline-not-covered",
						Summary:  fmt.Sprintf("forced interleaving of %d makeDeadline calls (clock %s, idle %dms): goroutine %d (timeout %dms) was handed the deadline %d ticks, but the clock was set to stop before it; the updater has left its loop at time %d ticks and nothing will advance the time: that match can never time out", len(cs.D), cs.Pre, cs.IdleMs, cl.G, cl.D/c14Ms, cl.Dl, cl.CurAtExit),
						Expected: "clockEnd >= every deadline handed out (the updater runs until each is reached)", Got: fmt.Sprintf("updater gone at %d ticks, deadline %d ticks", cl.CurAtExit, cl.Dl)}
				}
				if try == 0 {
					path := "points-1-2-only"
					for _, p := range cl.Path {
						if p == 3 {
							path = "through-point-3"
						}
					}
					o.Buckets = append(o.Buckets, "path:"+path, "timeout:"+c14DClass(cl.D, cs.PeriodNs))
				}
				if cl.LagNs > c14EpsEarly+2*c14Tick && (w == nil || cl.LagNs > w.LagNs) {
					w = cl
				}
			}
			if w == nil || o.Fail != nil {
				break
			}
			confirmed++
			worst = w
		}
		o.Buckets = append(o.Buckets, "pre:"+cs.Pre, fmt.Sprintf("goroutines:%d", len(cs.D)))
		if o.Fail == nil && confirmed == 3 {
			o.Fail = &core.Failure{Kind: "impl-violation", Key: "early-deadline:forced-interleaving",
				Summary:  fmt.Sprintf("forced interleaving of %d makeDeadline calls (clock %s, idle %dms): the call of goroutine %d (timeout %dms) began %dms after the clock's origin and was handed the deadline %d ticks = %dms — %dms earlier than t0 + d (seen in 3 of 3 runs of the schedule)", len(cs.D), cs.Pre, cs.IdleMs, worst.G, worst.D/c14Ms, worst.T0Ns/c14Ms, worst.Dl, worst.Dl*c14Tick/c14Ms, worst.LagNs/c14Ms),
				Expected: fmt.Sprintf("deadline >= t0 + d - eps - 2 ticks (eps = %dms)", c14EpsEarly/c14Ms), Got: fmt.Sprintf("deadline %dns before t0 + d", worst.LagNs)}
		}
	}
	return outs
}

func c14SchedGen(rng *rand.Rand, i int) c14Sched {
	n := 2 + rng.Intn(2)
	cs := c14Sched{PeriodNs: c14Ms, Pre: []string{"stopped", "stopped", "running"}[rng.Intn(3)], IdleMs: []int{0, 40, 140}[rng.Intn(3)]}
	for g := 0; g < n; g++ {
		cs.D = append(cs.D, []int64{30 * c14Ms, 100 * c14Ms, 100 * c14Ms, int64(time.Hour)}[rng.Intn(4)])
	}
	at := make([]int, n) // 0 = not begun, 1..3 standing at a point, 4 = returned
	for steps := 0; steps < 6*n; steps++ {
		g := rng.Intn(n)
		switch {
		case at[g] == 0:
			cs.Steps = append(cs.Steps, c14SchedStep{Op: "begin", G: g})
			at[g] = 1
		case at[g] < 4:
			to := at[g] + 1 + rng.Intn(4-at[g])
			cs.Steps = append(cs.Steps, c14SchedStep{Op: "adv", G: g, To: to})
			at[g] = to
		}
		if rng.Intn(3) == 0 {
			cs.Steps = append(cs.Steps, c14SchedStep{Op: "sleep", Ms: []int{1, 5, 30, 60}[rng.Intn(4)]})
		}
	}
	return cs
}

func c14SchedLeg(c *core.Ctx) {
	h := int64(time.Hour)
	core.RunLeg(c, core.Leg[c14Sched]{
		Name: "I", Kind: "oracle",
		Rule: "forced interleavings on the real clock through the schedule points of the verif build (after the clockEnd read, after the time read, between critical sections): 2-3 concurrent makeDeadline calls (timeouts 30ms, 100ms, 1h) on a clock that is stopped (stale time, idle 0/40/140ms) or running, each goroutine advanced from point to point in a random order with sleeps of 0-60ms between steps. Oracle: no call is handed a deadline earlier than t0 + d - 10ms - 2 ticks (t0 = real time at which the call began); a finding counts when the schedule shows it in 3 of 3 runs; and every deadline handed out is covered by clockEnd — if one is not, the leg waits for the updater to leave its loop and reports the deadline that can no longer be reached. Lean: Props.C14.conc_no_early_deadline over Model/ClockConc.lean. non-trivial = more than one call",
		Corpus: []c14Sched{
			// B reads the stale time, A restarts the clock completely, B goes on (the race fixed by 648a49f)
			{PeriodNs: c14Ms, Pre: "stopped", IdleMs: 140, D: []int64{100 * c14Ms, 100 * c14Ms}, Steps: []c14SchedStep{{Op: "begin", G: 1}, {Op: "adv", G: 1, To: 2}, {Op: "begin", G: 0}, {Op: "adv", G: 0, To: 4}, {Op: "adv", G: 1, To: 4}}},
			// the lock-free path after another goroutine's one-hour deadline
			{PeriodNs: c14Ms, Pre: "stopped", IdleMs: 140, D: []int64{h, 100 * c14Ms}, Steps: []c14SchedStep{{Op: "begin", G: 1}, {Op: "begin", G: 0}, {Op: "adv", G: 0, To: 4}, {Op: "adv", G: 1, To: 4}}},
			// a goroutine held between refreshing the time and restarting the updater; another call arrives later
			{PeriodNs: c14Ms, Pre: "stopped", IdleMs: 140, D: []int64{100 * c14Ms, 100 * c14Ms}, Steps: []c14SchedStep{{Op: "begin", G: 0}, {Op: "adv", G: 0, To: 3}, {Op: "sleep", Ms: 50}, {Op: "adv", G: 0, To: 4}, {Op: "begin", G: 1}, {Op: "adv", G: 1, To: 4}}},
			// a single call on a clock whose time is older than timeout + 1s
			{PeriodNs: c14Ms, Pre: "stopped", IdleMs: 1200, D: []int64{100 * c14Ms}, Steps: []c14SchedStep{{Op: "begin", G: 0}, {Op: "adv", G: 0, To: 4}}},
			// both calls have decided to take the lock; the one-hour deadline extends the clock first, the short one after it
			{PeriodNs: c14Ms, Pre: "stopped", IdleMs: 40, D: []int64{h, 30 * c14Ms}, Steps: []c14SchedStep{{Op: "begin", G: 0}, {Op: "adv", G: 0, To: 2}, {Op: "begin", G: 1}, {Op: "adv", G: 1, To: 2}, {Op: "adv", G: 0, To: 4}, {Op: "adv", G: 1, To: 4}}},
			{PeriodNs: c14Ms, Pre: "stopped", IdleMs: 40, D: []int64{h, 100 * c14Ms, 30 * c14Ms}, Steps: []c14SchedStep{{Op: "begin", G: 0}, {Op: "adv", G: 0, To: 3}, {Op: "begin", G: 2}, {Op: "sleep", Ms: 60}, {Op: "adv", G: 0, To: 4}, {Op: "begin", G: 1}, {Op: "adv", G: 1, To: 4}, {Op: "adv", G: 2, To: 4}}},
		},
		N: c.N(12, 300), Gen: c14SchedGen, Check: c14SchedCheck,
	})
}
