package legs

import (
	"bytes"
	"fmt"
	"math/rand"
	"runtime"
	"sort"
	"strconv"
	"strings"
	"sync"
	"time"

	"rvharness/internal/core"

	regexp2 "github.com/dlclark/regexp2/v2"
)

// C14/C11 leg I — forced interleavings of concurrent makeDeadline calls on the real clock.
//
// makeDeadline consists of lock-free atomic reads and critical sections.  The schedule points of the
// verif build (VerifClockPoint: 1 = clockEnd read, 2 = time read and provisional deadline computed,
// 3 = between two critical sections, where the code has two) let the harness hold a goroutine outside
// every critical section and so drive the real code through a chosen interleaving — the ones the Go
// scheduler can produce by preempting a goroutine at that point — instead of waiting for the scheduler
// to stumble on it (leg B).  Real time passes between the steps (sleeps of 0-60 ms are part of the
// schedule); the updater goroutine runs freely.
//
// Oracle (no model): the deadline returned to a call that began at real time t0 with timeout d is not
// earlier than t0 + d - eps - 2 ticks, eps = 10 ms being the allowance for a running updater that
// woke late (the +period slack of deadlineTicks covers one period of staleness).  That is
// Props.C14.conc_no_early_deadline read off the real code.
//
// Correspondence (Model/ClockConc.lean, `ClockConc.simulate` through the driver request `(c14 conc …)`):
// the clock state seen right before the schedule (VerifClockState) and the schedule with the real
// time measured at every step (call, point 1, point 2, return) are replayed on the interleaving model,
// which lets the updater wake on the ideal schedule between the steps.  Per call the model's deadline
// and path (returned lock-free / took the mutex) and the clock after its return are compared with what
// the real call returned and left behind; tolerances below.

type c14SchedStep struct {
	Op string `json:"op"` // begin | adv | sleep
	G  int    `json:"g,omitempty"`
	To int    `json:"to,omitempty"` // adv: run goroutine G until it stands at this point (4 = returned)
	Ms int    `json:"ms,omitempty"`
}

type c14Sched struct {
	PeriodNs int64          `json:"period_ns"`
	Pre      string         `json:"pre"` // stopped | running
	IdleMs   int            `json:"idle_ms"`
	D        []int64        `json:"d"` // timeout of goroutine i
	Steps    []c14SchedStep `json:"steps"`
}

// Tolerances of the correspondence, all in ticks (2^20 ns).
//
// The wake-ups of the real updater are not observed; the model places them on the ideal schedule.  A
// deadline computed from the time of a *running* clock therefore differs by the unknown phase (at most
// one period), by how late the real updater woke (eps, the same 10 ms assumption as the oracle's) and
// by one tick of rounding:  |real - model| <= 1 + ceil((period + eps) / tick).
//
// A deadline computed on the refresh path (no updater before the call: the locked section re-reads the
// wall clock) involves no updater at all: the model reads the clock at the measured return time T of
// the call, the real code read it somewhere between Lo (the goroutine left its last schedule point) and
// T, and the reconstruction of fast.start from VerifClockState is exact to a few µs:
//
//	model - 1 - ceil((T - Lo) / tick) <= real <= model + 1.
const c14ConcEps = c14EpsEarly

func c14ConcTolRunning(period int64) int64 { return 1 + (period+c14ConcEps+c14Tick-1)/c14Tick }

// one observed step of a schedule
type c14SchedEv struct {
	G  int    `json:"g"`
	Op string `json:"op"` // begin | step
	P  int    `json:"p"`  // step: the point reached (1, 2, 3); 4 = returned
	T  int64  `json:"t"`  // c14Now() at that moment
	Lo int64  `json:"lo"` // P = 4: when the goroutine left its last schedule point (or was called)
	// the clock right after the event, read by the driver of the schedule while the goroutine stands
	// still (not for points a goroutine only passes through)
	Snap    bool  `json:"snap"`
	Cur     int64 `json:"cur"`
	Ce      int64 `json:"ce"`
	Running bool  `json:"running"`
}

type c14SchedTrace struct {
	// VerifClockState right before the schedule; StartNs, Now on the c14Now() axis
	Cur, Ce          int64
	Running, Started bool
	StartNs, Now     int64
	Evs              []c14SchedEv
}

func c14Goid() int64 {
	var buf [64]byte
	n := runtime.Stack(buf[:], false)
	f := bytes.Fields(buf[:n])
	if len(f) < 2 {
		return -1
	}
	id, _ := strconv.ParseInt(string(f[1]), 10, 64)
	return id
}

type c14SchedG struct {
	resume chan int // target point
	at     chan int // reports the point reached (4 = returned)
	target int
	t0     time.Time
	dl     int64
	path   []int
	idx    int
	left   int64 // c14Now() when it last left a schedule point
	lastEv int   // index of its latest event in the trace
}

type c14SchedCall struct {
	G     int
	D     int64
	T0Ns  int64 // since clock start (may be negative for a call begun before the first start)
	Dl    int64
	Path  []int
	Done  bool
	LagNs int64 // (t0 - start) + d - dl*2^20: how much earlier than t0+d the deadline lies
	// the deadline is beyond clockEnd after the schedule; the updater was then seen gone with the
	// deadline not reached (time CurAtExit): the match holding it can no longer time out
	Uncovered bool
	Abandoned bool
	CurAtExit int64
}

func c14SchedRun(cs c14Sched) (calls []c14SchedCall, tr *c14SchedTrace, errs string) {
	fail := func(msg string) ([]c14SchedCall, *c14SchedTrace, string) { return nil, nil, msg }
	if !c14StopClock() {
		return fail("StopTimeoutClock did not return within 5s")
	}
	regexp2.SetTimeoutCheckPeriod(time.Duration(cs.PeriodNs))
	// the clock has been started at least once, so that "stopped" means a stale time
	_ = regexp2.VerifMakeDeadline(int64(20 * time.Millisecond))
	if cs.Pre == "stopped" {
		if !c14StopClock() {
			return fail("StopTimeoutClock did not return within 5s")
		}
	}
	time.Sleep(time.Duration(cs.IdleMs) * time.Millisecond)

	tr = &c14SchedTrace{}
	{
		tb := c14Now()
		cur, ce, running, started, since := regexp2.VerifClockState()
		ta := c14Now()
		tr.Cur, tr.Ce, tr.Running, tr.Started, tr.StartNs, tr.Now = cur, ce, running, started, (tb+ta)/2-since, ta
	}

	var mu sync.Mutex
	byGoid := map[int64]*c14SchedG{}
	record := func(g *c14SchedG, ev c14SchedEv) {
		mu.Lock()
		tr.Evs = append(tr.Evs, ev)
		g.lastEv = len(tr.Evs) - 1
		mu.Unlock()
	}
	// the clock after the event the goroutine has just reported (it stands still, outside the mutex)
	snap := func(g *c14SchedG) {
		cur, ce, running, _, _ := regexp2.VerifClockState()
		mu.Lock()
		ev := &tr.Evs[g.lastEv]
		ev.Snap, ev.Cur, ev.Ce, ev.Running = true, cur, ce, running
		mu.Unlock()
	}
	hook := func(p int) {
		t := c14Now()
		mu.Lock()
		g := byGoid[c14Goid()]
		mu.Unlock()
		if g == nil {
			return // a makeDeadline that is not part of the schedule (none expected)
		}
		g.path = append(g.path, p)
		record(g, c14SchedEv{G: g.idx, Op: "step", P: p, T: t})
		if p >= g.target {
			g.at <- p
			g.target = <-g.resume
		}
		g.left = c14Now()
	}
	regexp2.VerifClockPoint.Store(&hook)
	defer regexp2.VerifClockPoint.Store(nil)

	gs := make([]*c14SchedG, len(cs.D))
	wait := func(g *c14SchedG) (int, bool) {
		select {
		case p := <-g.at:
			return p, true
		case <-time.After(5 * time.Second):
			return 0, false
		}
	}
	for _, st := range cs.Steps {
		switch st.Op {
		case "sleep":
			time.Sleep(time.Duration(st.Ms) * time.Millisecond)
		case "begin":
			if st.G >= len(gs) || gs[st.G] != nil {
				return fail("bad schedule: begin")
			}
			g := &c14SchedG{resume: make(chan int), at: make(chan int, 1), target: 1, idx: st.G}
			gs[st.G] = g
			d := cs.D[st.G]
			ready := make(chan struct{})
			go func() {
				mu.Lock()
				byGoid[c14Goid()] = g
				mu.Unlock()
				close(ready)
				g.t0 = time.Now()
				g.left = c14Now()
				record(g, c14SchedEv{G: g.idx, Op: "begin", T: g.left})
				g.dl = regexp2.VerifMakeDeadline(d)
				record(g, c14SchedEv{G: g.idx, Op: "step", P: 4, T: c14Now(), Lo: g.left})
				g.at <- 4
			}()
			<-ready
			if _, ok := wait(g); !ok {
				return fail("goroutine did not reach its first schedule point within 5s")
			}
			snap(g)
		case "adv":
			if st.G >= len(gs) || gs[st.G] == nil {
				return fail("bad schedule: adv")
			}
			g := gs[st.G]
			if g.target == 5 {
				continue // already returned
			}
			g.resume <- st.To
			p, ok := wait(g)
			if !ok {
				return fail(fmt.Sprintf("goroutine %d did not reach point %d within 5s", st.G, st.To))
			}
			snap(g)
			if p == 4 {
				g.target = 5
			}
		}
	}
	// let every goroutine finish
	for _, g := range gs {
		if g != nil && g.target != 5 {
			g.resume <- 4
			for {
				p, ok := wait(g)
				if !ok {
					return fail("goroutine did not return within 5s")
				}
				snap(g)
				if p == 4 {
					break
				}
				g.resume <- 4
			}
			g.target = 5
		}
	}
	_, clockEnd, _, started, since := regexp2.VerifClockState()
	now := time.Now()
	if !started {
		return fail("clock not started after the schedule")
	}
	start := now.Add(-time.Duration(since))
	for i, g := range gs {
		if g == nil {
			continue
		}
		c := c14SchedCall{G: i, D: cs.D[i], T0Ns: int64(g.t0.Sub(start)), Dl: g.dl, Path: g.path, Done: true}
		c.LagNs = c.T0Ns + c.D - c.Dl*c14Tick
		c.Uncovered = c.Dl > clockEnd
		calls = append(calls, c)
	}
	// A deadline beyond clockEnd: the updater will leave its loop before the deadline is reached.  Wait
	// for that (clockEnd is at most the other deadlines + 1s away) and look: no updater, deadline not reached.
	for k := range calls {
		if !calls[k].Uncovered {
			continue
		}
		for w := 0; w < 400; w++ {
			cur, _, running, _, _ := regexp2.VerifClockState()
			if !running {
				calls[k].Abandoned = cur < calls[k].Dl
				calls[k].CurAtExit = cur
				break
			}
			time.Sleep(10 * time.Millisecond)
		}
		break
	}
	return calls, tr, ""
}

// correspondence with the interleaving model ------------------------------------------------------

func c14ConcDriverLine(cs c14Sched, tr *c14SchedTrace) string {
	b2i := func(b bool) int {
		if b {
			return 1
		}
		return 0
	}
	parts := make([]string, len(tr.Evs))
	for i, ev := range tr.Evs {
		if ev.Op == "begin" {
			parts[i] = fmt.Sprintf("(begin %d %d %d)", ev.G, cs.D[ev.G], ev.T)
		} else {
			parts[i] = fmt.Sprintf("(step %d %d)", ev.G, ev.T)
		}
	}
	return fmt.Sprintf("(c14 conc (period %d) (init %d %d %d %d %d %d) (events %s))", cs.PeriodNs,
		tr.Cur, tr.Ce, b2i(tr.Running), b2i(tr.Started), tr.StartNs, tr.Now, strings.Join(parts, " "))
}

// what the model says after one event: (o id moved pc e tMade wasRunning current clockEnd running)
type c14ConcObs struct {
	G          int
	Moved      bool
	PC         int
	E, TMade   int64
	WasRunning bool
	Cur, Ce    int64
	Running    bool
}

func c14ConcParse(ans string, n int) ([]c14ConcObs, error) {
	if !strings.HasPrefix(ans, "(ok") {
		return nil, fmt.Errorf("model answered %s", ans)
	}
	var obs []c14ConcObs
	body := strings.TrimSuffix(strings.TrimPrefix(ans, "(ok"), ")")
	for _, item := range strings.Split(body, "(") {
		f := strings.Fields(strings.TrimRight(strings.TrimSpace(item), ")"))
		if len(f) == 0 {
			continue
		}
		if f[0] != "o" || len(f) != 10 {
			return nil, fmt.Errorf("unexpected item %q in model answer", item)
		}
		var v [9]int64
		for i := range v {
			x, err := strconv.ParseInt(f[i+1], 10, 64)
			if err != nil {
				return nil, fmt.Errorf("bad number %q in model answer", f[i+1])
			}
			v[i] = x
		}
		obs = append(obs, c14ConcObs{G: int(v[0]), Moved: v[1] == 1, PC: int(v[2]), E: v[3], TMade: v[4], WasRunning: v[5] == 1, Cur: v[6], Ce: v[7], Running: v[8] == 1})
	}
	if len(obs) != n {
		return nil, fmt.Errorf("model answered %d observations for %d events", len(obs), n)
	}
	return obs, nil
}

func c14ConcDiffClass(d, tol int64) string {
	switch {
	case d < -tol:
		return "<-tol"
	case d > tol:
		return ">tol"
	case d < -3:
		return "-tol..-4"
	case d > 3:
		return "+4..tol"
	case d < -1:
		return "-3..-2"
	case d > 1:
		return "+2..3"
	}
	return fmt.Sprintf("%+d", d)
}

type c14ConcFinding struct {
	Key, Summary, Expected, Got string
	G                           int
}

// c14ConcCompare replays the trace on the model and compares, per call: the path, the deadline, and the
// clock (clockEnd, running) right after the return.
func c14ConcCompare(c *core.Ctx, cs c14Sched, tr *c14SchedTrace, calls []c14SchedCall) (fs []c14ConcFinding, buckets []string, err error) {
	ans, err := c.RunDriver([]string{c14ConcDriverLine(cs, tr)})
	if err != nil {
		return nil, nil, err
	}
	obs, err := c14ConcParse(ans[0], len(tr.Evs))
	if err != nil {
		return nil, nil, err
	}
	tol := c14ConcTolRunning(cs.PeriodNs)
	dl := map[int]int64{}
	for _, cl := range calls {
		dl[cl.G] = cl.Dl
	}
	type gst struct {
		lastPC        int
		locked        bool // the model took the mutex
		lockedAtRet   bool // … in the step observed as the return (not at a point between two sections)
		lockedRunning bool // an updater was running in the model right before its locked section
	}
	gsts := map[int]*gst{}
	prevRunning := tr.Running // the real clock as last seen before the event
	abs := func(x int64) int64 {
		if x < 0 {
			return -x
		}
		return x
	}
	for i, ev := range tr.Evs {
		o := obs[i]
		st := gsts[ev.G]
		if st == nil {
			st = &gst{}
			gsts[ev.G] = st
		}
		if o.G != ev.G {
			return nil, nil, fmt.Errorf("model answer %d is about goroutine %d, event about %d", i, o.G, ev.G)
		}
		if ev.Op == "step" && o.Moved && st.lastPC == 2 {
			st.locked, st.lockedRunning, st.lockedAtRet = true, o.WasRunning, ev.P == 4
		}
		st.lastPC = o.PC
		if ev.Op == "step" && ev.P == 4 {
			add := func(key, sum, exp, got string) {
				fs = append(fs, c14ConcFinding{Key: key, G: ev.G, Summary: fmt.Sprintf("forced interleaving of %d makeDeadline calls (clock %s, idle %dms), goroutine %d (timeout %dms): %s", len(cs.D), cs.Pre, cs.IdleMs, ev.G, cs.D[ev.G]/c14Ms, sum), Expected: exp, Got: got})
			}
			real := dl[ev.G]
			if o.PC != 4 {
				add("conc-steps", fmt.Sprintf("the real call has returned, the model's call stands at point %d after the same number of steps", o.PC), "returned", fmt.Sprintf("point %d", o.PC))
				prevRunning = ev.Running
				continue
			}
			// path
			realRestart := ev.Snap && !prevRunning && ev.Running // only this goroutine ran in between: it took the mutex
			switch {
			case realRestart && !st.locked:
				add("conc-path", "the real call restarted the updater (it took the mutex); the model's call returned lock-free", "lock-free return, clock untouched", "updater started by the call")
			case st.locked && !st.lockedRunning && ev.Snap && !prevRunning && !ev.Running:
				add("conc-path", "the model's call took the mutex and restarted the updater; the real call returned and no updater is running", "updater running after the call", "no updater")
			}
			// deadline
			sharp := st.locked && st.lockedAtRet && !st.lockedRunning && !prevRunning
			lo, hi, class := o.E-tol, o.E+tol, "running"
			if sharp {
				lo, hi, class = o.E-1-(ev.T-ev.Lo+c14Tick-1)/c14Tick, o.E+1, "refresh"
			}
			path := "lock-free"
			if st.locked {
				path = "locked-" + class
			}
			buckets = append(buckets, "model-path:"+path, "real-minus-model:"+class+":"+c14ConcDiffClass(real-o.E, tol))
			if real < lo || real > hi {
				add("conc-deadline:"+class, fmt.Sprintf("returned the deadline %d ticks; the model (%s, deadline made at %dns) returns %d", real, path, o.TMade, o.E),
					fmt.Sprintf("deadline in [%d, %d] ticks", lo, hi), fmt.Sprintf("%d ticks (%+d)", real, real-o.E))
			}
			// the clock after the return
			if ev.Snap && abs(ev.Ce-o.Ce) > tol {
				add("conc-clockend", fmt.Sprintf("clockEnd after the call is %d ticks, in the model %d (model path %s, model deadline %d, real deadline %d)", ev.Ce, o.Ce, path, o.E, real),
					fmt.Sprintf("clockEnd within %d ticks of %d", tol, o.Ce), fmt.Sprintf("%d ticks (%+d)", ev.Ce, ev.Ce-o.Ce))
			}
		}
		if ev.Snap {
			prevRunning = ev.Running
		}
	}
	return fs, buckets, nil
}

func c14SchedCheck(c *core.Ctx, cases []c14Sched) []core.Outcome {
	outs := make([]core.Outcome, len(cases))
	defer func() {
		if c14StopClock() {
			regexp2.SetTimeoutCheckPeriod(regexp2.DefaultClockPeriod)
		}
	}()
	for i, cs := range cases {
		o := &outs[i]
		o.Key = string(core.RawJSON(cs))
		o.Nontrivial = len(cs.D) > 1
		if c14Hung {
			o.Buckets = []string{"skipped-clock-cannot-be-stopped"}
			continue
		}
		var worst *c14SchedCall
		confirmed := 0
		var corr map[string]c14ConcFinding // correspondence findings (key@goroutine) seen in every run so far
		tries := 0
		// a stale deadline - and a disagreement with the model - is confirmed by running the schedule
		// again (real time is part of it)
		for try := 0; try < 3; try++ {
			calls, tr, errs := c14SchedRun(cs)
			if errs != "" {
				o.Fail = &core.Failure{Kind: "impl-violation", Key: "sched-hang", Summary: errs, Expected: "every makeDeadline call returns", Got: "blocked"}
				break
			}
			tries++
			var w *c14SchedCall
			for k := range calls {
				cl := &calls[k]
				if cl.Abandoned && o.Fail == nil {
					o.Fail = &core.Failure{Kind: "impl-violation", Key: "deadline-not-covered",
						Summary:  fmt.Sprintf("forced interleaving of %d makeDeadline calls (clock %s, idle %dms): goroutine %d (timeout %dms) was handed the deadline %d ticks, but the clock was set to stop before it; the updater has left its loop at time %d ticks and nothing will advance the time: that match can never time out", len(cs.D), cs.Pre, cs.IdleMs, cl.G, cl.D/c14Ms, cl.Dl, cl.CurAtExit),
						Expected: "clockEnd >= every deadline handed out (the updater runs until each is reached)", Got: fmt.Sprintf("updater gone at %d ticks, deadline %d ticks", cl.CurAtExit, cl.Dl)}
				}
				if try == 0 {
					path := "points-1-2-only"
					for _, p := range cl.Path {
						if p == 3 {
							path = "through-point-3"
						}
					}
					o.Buckets = append(o.Buckets, "path:"+path, "timeout:"+c14DClass(cl.D, cs.PeriodNs))
				}
				if cl.LagNs > c14EpsEarly+2*c14Tick && (w == nil || cl.LagNs > w.LagNs) {
					w = cl
				}
			}
			// the same run on the model
			fs, buckets, err := c14ConcCompare(c, cs, tr, calls)
			if err != nil {
				if o.Fail == nil {
					o.Fail = core.DriverFailure(err)
				}
				break
			}
			if try == 0 {
				o.Buckets = append(o.Buckets, buckets...)
			} else {
				o.Buckets = append(o.Buckets, "rerun")
			}
			seen := map[string]c14ConcFinding{}
			for _, f := range fs {
				k := fmt.Sprintf("%s@%d", f.Key, f.G)
				if _, ok := seen[k]; !ok {
					seen[k] = f
				}
			}
			if try == 0 {
				corr = seen
			} else {
				for k, f := range corr {
					if _, ok := seen[k]; !ok {
						delete(corr, k)
						o.Buckets = append(o.Buckets, "unconfirmed:"+f.Key)
						if len(c.Result.Notes) < 12 {
							c.Result.Notes = append(c.Result.Notes, fmt.Sprintf("C14 leg I: disagreement with the model not confirmed by re-running the schedule (scheduling noise, not counted): %s: %s (expected %s, got %s)", f.Key, f.Summary, f.Expected, f.Got))
						}
					}
				}
			}
			if w != nil {
				confirmed++
				worst = w
			}
			if o.Fail != nil || (confirmed != tries && len(corr) == 0) {
				break
			}
		}
		o.Buckets = append(o.Buckets, "pre:"+cs.Pre, fmt.Sprintf("goroutines:%d", len(cs.D)))
		if o.Fail == nil && confirmed == 3 {
			o.Fail = &core.Failure{Kind: "impl-violation", Key: "early-deadline:forced-interleaving",
				Summary:  fmt.Sprintf("forced interleaving of %d makeDeadline calls (clock %s, idle %dms): the call of goroutine %d (timeout %dms) began %dms after the clock's origin and was handed the deadline %d ticks = %dms — %dms earlier than t0 + d (seen in 3 of 3 runs of the schedule)", len(cs.D), cs.Pre, cs.IdleMs, worst.G, worst.D/c14Ms, worst.T0Ns/c14Ms, worst.Dl, worst.Dl*c14Tick/c14Ms, worst.LagNs/c14Ms),
				Expected: fmt.Sprintf("deadline >= t0 + d - eps - 2 ticks (eps = %dms)", c14EpsEarly/c14Ms), Got: fmt.Sprintf("deadline %dns before t0 + d", worst.LagNs)}
		}
		if o.Fail == nil && tries == 3 && len(corr) > 0 {
			keys := make([]string, 0, len(corr))
			for k := range corr {
				keys = append(keys, k)
			}
			sort.Strings(keys)
			f := corr[keys[0]]
			o.Fail = &core.Failure{Kind: "correspondence-break", Key: f.Key, Summary: f.Summary + " [seen for this goroutine in 3 of 3 runs of the schedule; all confirmed class@goroutine: " + strings.Join(keys, ", ") + "]", Expected: f.Expected, Got: f.Got}
		}
	}
	return outs
}

func c14SchedGen(rng *rand.Rand, i int) c14Sched {
	n := 2 + rng.Intn(2)
	cs := c14Sched{PeriodNs: c14Ms, Pre: []string{"stopped", "stopped", "running"}[rng.Intn(3)], IdleMs: []int{0, 40, 140}[rng.Intn(3)]}
	for g := 0; g < n; g++ {
		cs.D = append(cs.D, []int64{30 * c14Ms, 100 * c14Ms, 100 * c14Ms, int64(time.Hour)}[rng.Intn(4)])
	}
	at := make([]int, n) // 0 = not begun, 1..3 standing at a point, 4 = returned
	for steps := 0; steps < 6*n; steps++ {
		g := rng.Intn(n)
		switch {
		case at[g] == 0:
			cs.Steps = append(cs.Steps, c14SchedStep{Op: "begin", G: g})
			at[g] = 1
		case at[g] < 4:
			to := at[g] + 1 + rng.Intn(4-at[g])
			cs.Steps = append(cs.Steps, c14SchedStep{Op: "adv", G: g, To: to})
			at[g] = to
		}
		if rng.Intn(3) == 0 {
			cs.Steps = append(cs.Steps, c14SchedStep{Op: "sleep", Ms: []int{1, 5, 30, 60}[rng.Intn(4)]})
		}
	}
	return cs
}

func c14SchedLeg(c *core.Ctx) {
	h := int64(time.Hour)
	core.RunLeg(c, core.Leg[c14Sched]{
		Name: "I", Kind: "oracle+correspondence",
		Rule: "forced interleavings on the real clock through the schedule points of the verif build (after the clockEnd read, after the time read, between critical sections): 2-3 concurrent makeDeadline calls (timeouts 30ms, 100ms, 1h) on a clock that is stopped (stale time, idle 0/40/140ms) or running, each goroutine advanced from point to point in a random order with sleeps of 0-60ms between steps. Oracle: no call is handed a deadline earlier than t0 + d - 10ms - 2 ticks (t0 = real time at which the call began); a finding counts when the schedule shows it in 3 of 3 runs; and every deadline handed out is covered by clockEnd — if one is not, the leg waits for the updater to leave its loop and reports the deadline that can no longer be reached. Lean: Props.C14.conc_no_early_deadline over Model/ClockConc.lean. Correspondence: the clock state read right before the schedule (VerifClockState) and the schedule with the real time measured at the call, at each schedule point and at the return of every goroutine are replayed on the interleaving model (ClockConc.simulate, driver request c14 conc; the updater wakes on the ideal schedule between the observed steps); per call the model's path, deadline and the clock after the return are compared with the real ones: deadline within 1 + ceil((period+10ms)/tick) ticks when it was computed from a running clock's time, within [model - 1 - ceil((T-Lo)/tick), model + 1] on the refresh path (T, Lo: measured return time and time the goroutine left its last schedule point), clockEnd after the return within the first tolerance, updater restarted by the call iff the model's call took the mutex on a stopped clock; a disagreement counts when the same class recurs for the same goroutine in 3 of 3 runs. non-trivial = more than one call",
		Corpus: []c14Sched{
			// B reads the stale time, A restarts the clock completely, B goes on (the race fixed by 648a49f)
			{PeriodNs: c14Ms, Pre: "stopped", IdleMs: 140, D: []int64{100 * c14Ms, 100 * c14Ms}, Steps: []c14SchedStep{{Op: "begin", G: 1}, {Op: "adv", G: 1, To: 2}, {Op: "begin", G: 0}, {Op: "adv", G: 0, To: 4}, {Op: "adv", G: 1, To: 4}}},
			// the lock-free path after another goroutine's one-hour deadline
			{PeriodNs: c14Ms, Pre: "stopped", IdleMs: 140, D: []int64{h, 100 * c14Ms}, Steps: []c14SchedStep{{Op: "begin", G: 1}, {Op: "begin", G: 0}, {Op: "adv", G: 0, To: 4}, {Op: "adv", G: 1, To: 4}}},
			// a goroutine held between refreshing the time and restarting the updater; another call arrives later
			{PeriodNs: c14Ms, Pre: "stopped", IdleMs: 140, D: []int64{100 * c14Ms, 100 * c14Ms}, Steps: []c14SchedStep{{Op: "begin", G: 0}, {Op: "adv", G: 0, To: 3}, {Op: "sleep", Ms: 50}, {Op: "adv", G: 0, To: 4}, {Op: "begin", G: 1}, {Op: "adv", G: 1, To: 4}}},
			// a single call on a clock whose time is older than timeout + 1s
			{PeriodNs: c14Ms, Pre: "stopped", IdleMs: 1200, D: []int64{100 * c14Ms}, Steps: []c14SchedStep{{Op: "begin", G: 0}, {Op: "adv", G: 0, To: 4}}},
			// both calls have decided to take the lock; the one-hour deadline extends the clock first, the short one after it
			{PeriodNs: c14Ms, Pre: "stopped", IdleMs: 40, D: []int64{h, 30 * c14Ms}, Steps: []c14SchedStep{{Op: "begin", G: 0}, {Op: "adv", G: 0, To: 2}, {Op: "begin", G: 1}, {Op: "adv", G: 1, To: 2}, {Op: "adv", G: 0, To: 4}, {Op: "adv", G: 1, To: 4}}},
			{PeriodNs: c14Ms, Pre: "stopped", IdleMs: 40, D: []int64{h, 100 * c14Ms, 30 * c14Ms}, Steps: []c14SchedStep{{Op: "begin", G: 0}, {Op: "adv", G: 0, To: 3}, {Op: "begin", G: 2}, {Op: "sleep", Ms: 60}, {Op: "adv", G: 0, To: 4}, {Op: "begin", G: 1}, {Op: "adv", G: 1, To: 4}, {Op: "adv", G: 2, To: 4}}},
		},
		N: c.N(12, 300), Gen: c14SchedGen, Check: c14SchedCheck,
	})
}
