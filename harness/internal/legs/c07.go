package legs

import (
	"fmt"
	"math/rand"
	"reflect"
	"strings"
	"time"

	"rvharness/internal/core"

	regexp2 "github.com/dlclark/regexp2/v2"
	"github.com/dlclark/regexp2/v2/compat"
)

// C07 — Successive matches are ordered, disjoint and terminate.
//
// Leg A: random patterns with many nullable / zero-width shapes, both directions, short inputs.
//   * model-free oracle on the real code (FindRunesMatch/FindStringMatch + FindNextMatch, the find-all
//     calls of regexp2 and of the compat adapter, the naive-scan hook as recomputation baseline);
//   * correspondence: the Lean model (Model/Scan.lean: scan, iterate, findAll, compatForEach) is fed the
//     table of single-position attempts (VerifAttemptAt, one row per \G origin), the candidate finder's
//     answers (VerifFindFirstChar) and MinRequiredLength, and must reproduce Go's sequences.

type c07Case struct {
	Pat   string `json:"pat"`
	RTL   bool   `json:"rtl"`
	Opts  int    `json:"opts,omitempty"` // extra regexp2.RegexOptions bits (IgnoreCase, Multiline, Singleline)
	Runes []rune `json:"runes"`
}

var c07Ns = []int{-1, 0, 1, 2, 3}

var c07Alphabet = []rune{'a', 'a', 'a', 'b', 'b', 'x', 'é', '日', '😀', '\n', ' '}

var c07Leaves = []string{
	// consuming
	"a", "b", "x", "é", "😀", ".", "[ab]", "[^a]", `\w`, `\s`, "ab", "a+", "[ab]+?",
	// nullable
	"a*", "b*", "x?", "a*?", "b??", "a{0,2}", "(?:ab)*", "[ab]*", `\w*`, ".*", ".*?", "(a*)", "(a|)", "(|b)", "(?:a|b|)", "(?>a*)", "(a)?",
	// zero-width
	`\b`, `\B`, "(?=a)", "(?!a)", "(?<=b)", "(?<!b)", "^", "$", `\G`, `\A`, `\z`, `\Z`, "(?=)", "", "(?:)", "()",
	"(?<=a*)", "(?<=b|^)", `(?<!\G)`, `(?<=\Ga)`, `(?=\b)`, "(?<=a)(?=b)", `(?!\z)`, "(?<=^|b)", `\G(?=a)`, "(?<!a)(?!a)",
	`(?<=(a))\1?`, `(a*)\1`,
}

var c07Quants = []string{"", "", "", "*", "?", "+", "*?", "??", "+?", "{0,2}", "{2}", "{1,}"}

func c07Atom(rng *rand.Rand, depth int) string {
	if depth <= 0 || rng.Intn(10) < 7 {
		return c07Leaves[rng.Intn(len(c07Leaves))]
	}
	body := c07Alt(rng, depth-1)
	switch rng.Intn(9) {
	case 0:
		return "(" + body + ")" + c07Quants[rng.Intn(len(c07Quants))]
	case 1, 2:
		return "(?:" + body + ")" + c07Quants[rng.Intn(len(c07Quants))]
	case 3:
		return "(?>" + body + ")"
	case 4:
		return "(?=" + body + ")"
	case 5:
		return "(?<=" + body + ")"
	case 6:
		return "(?!" + body + ")"
	case 7:
		return "(?<!" + body + ")"
	default:
		return "(?<n>" + body + ")" + c07Quants[rng.Intn(len(c07Quants))]
	}
}

func c07Seq(rng *rand.Rand, depth int) string {
	k := 1 + rng.Intn(3)
	var sb strings.Builder
	for i := 0; i < k; i++ {
		sb.WriteString(c07Atom(rng, depth))
	}
	return sb.String()
}

func c07Alt(rng *rand.Rand, depth int) string {
	k := 1
	if rng.Intn(3) == 0 {
		k = 2 + rng.Intn(2)
	}
	parts := make([]string, k)
	for i := range parts {
		if k > 1 && rng.Intn(6) == 0 {
			parts[i] = "" // empty branch
		} else {
			parts[i] = c07Seq(rng, depth)
		}
	}
	return strings.Join(parts, "|")
}

func c07Gen(rng *rand.Rand, i int) c07Case {
	cs := c07Case{Pat: c07Alt(rng, 2), RTL: rng.Intn(2) == 0}
	switch rng.Intn(8) {
	case 0:
		cs.Opts = int(regexp2.Multiline)
	case 1:
		cs.Opts = int(regexp2.IgnoreCase)
	case 2:
		cs.Opts = int(regexp2.Singleline | regexp2.Multiline)
	}
	n := rng.Intn(9)
	if rng.Intn(4) == 0 {
		n = rng.Intn(13)
	}
	cs.Runes = make([]rune, n)
	for j := range cs.Runes {
		cs.Runes[j] = c07Alphabet[rng.Intn(len(c07Alphabet))]
	}
	return cs
}

// c07M is one match as the oracle sees it.
type c07M struct {
	I, L, TP int
	G        string // every capture of every group
}

func c07Of(m *regexp2.Match) c07M {
	var sb strings.Builder
	for _, g := range m.Groups() {
		sb.WriteByte('[')
		for _, c := range g.Captures {
			fmt.Fprintf(&sb, "%d+%d ", c.RuneIndex, c.RuneLength)
		}
		sb.WriteByte(']')
	}
	return c07M{I: m.RuneIndex, L: m.RuneLength, TP: regexp2.VerifTextpos(m), G: sb.String()}
}

func (m c07M) same(o c07M) bool { return m.I == o.I && m.L == o.L && m.G == o.G }

// scan-direction start and end of a match
func c07Start(m c07M, rtl bool) int {
	if rtl {
		return m.I + m.L
	}
	return m.I
}
func c07End(m c07M, rtl bool) int {
	if rtl {
		return m.I
	}
	return m.I + m.L
}

// c07Iterate walks first, FindNextMatch, ... ; at most limit matches are collected.
func c07Iterate(re *regexp2.Regexp, first func() (*regexp2.Match, error), limit int) (seq []c07M, err error, overflow bool) {
	m, err := first()
	for m != nil && err == nil {
		if len(seq) >= limit {
			return seq, nil, true
		}
		seq = append(seq, c07Of(m))
		m, err = re.FindNextMatch(m)
	}
	return seq, err, false
}

// c07Expected is the property's own wording: the sequence minus every empty match that sits exactly
// where the match before it (in the sequence) ended in scan direction, truncated to n (n<0: all);
// nothing at all is nil.
func c07Expected(seq []c07M, rtl bool, n int) [][]int {
	var out [][]int
	for j, m := range seq {
		if n >= 0 && len(out) >= n {
			break
		}
		if m.L == 0 && j > 0 && m.I == c07End(seq[j-1], rtl) {
			continue
		}
		out = append(out, []int{m.I, m.I + m.L})
	}
	return out
}

func c07Pairs(p [][]int) string {
	if p == nil {
		return "nil"
	}
	var sb strings.Builder
	sb.WriteByte('(')
	for i, x := range p {
		if i > 0 {
			sb.WriteByte(' ')
		}
		fmt.Fprintf(&sb, "(%d %d)", x[0], x[1])
	}
	sb.WriteByte(')')
	return sb.String()
}

func c07SeqString(seq []c07M) string {
	var sb strings.Builder
	sb.WriteByte('(')
	for i, m := range seq {
		if i > 0 {
			sb.WriteByte(' ')
		}
		fmt.Fprintf(&sb, "(%d %d %d)", m.I, m.L, m.TP)
	}
	sb.WriteByte(')')
	return sb.String()
}

// byte offset of every rune index (len+1 entries) of a valid rune string
func c07ByteOffsets(rs []rune) []int {
	offs := make([]int, 0, len(rs)+1)
	b := 0
	for _, r := range rs {
		offs = append(offs, b)
		b += len(string(r))
	}
	return append(offs, b)
}

func c07ToBytes(p [][]int, offs []int) [][]int {
	if p == nil {
		return nil
	}
	out := make([][]int, len(p))
	for i, x := range p {
		out[i] = []int{offs[x[0]], offs[x[1]]}
	}
	return out
}

func c07Opts(cs c07Case) regexp2.RegexOptions {
	o := regexp2.RegexOptions(cs.Opts)
	if cs.RTL {
		o |= regexp2.RightToLeft
	}
	return o
}

func c07Fail(key, summary, exp, got string) *core.Failure {
	return &core.Failure{Kind: "impl-violation", Key: key, Summary: summary, Expected: exp, Got: got}
}

// c07Oracle checks the property on the real code without any model. It returns the iteration
// sequence for the correspondence part.
func c07Oracle(cs c07Case, re *regexp2.Regexp, o *core.Outcome) (seq []c07M, ok bool) {
	rs, rtl, n := cs.Runes, cs.RTL, len(cs.Runes)
	s := string(rs)
	limit := n + 4
	seq, err, over := c07Iterate(re, func() (*regexp2.Match, error) { return re.FindRunesMatch(rs) }, limit)
	if err != nil {
		o.Buckets = append(o.Buckets, "match-error")
		return nil, false
	}
	if over || len(seq) > n+1 {
		o.Fail = c07Fail("iter:too-many", fmt.Sprintf("FindNextMatch iteration yields more than len+1 = %d matches", n+1), fmt.Sprintf("<= %d matches", n+1), c07SeqString(seq))
		return nil, false
	}
	seqS, err, over := c07Iterate(re, func() (*regexp2.Match, error) { return re.FindStringMatch(s) }, limit)
	if err != nil {
		o.Buckets = append(o.Buckets, "match-error")
		return nil, false
	}
	same := !over && len(seqS) == len(seq)
	for j := 0; same && j < len(seq); j++ {
		same = seq[j].same(seqS[j]) && seq[j].TP == seqS[j].TP
	}
	if !same {
		o.Fail = c07Fail("iter:string-vs-runes", "iteration from FindStringMatch differs from iteration from FindRunesMatch", c07SeqString(seq), c07SeqString(seqS))
		return nil, false
	}
	// order, disjointness, no repeated empty match, resume position
	seen := map[[2]int]bool{}
	for j, m := range seq {
		if m.I < 0 || m.L < 0 || m.I+m.L > n {
			o.Fail = c07Fail("iter:span", "match span outside the input", "0 <= index <= index+len <= n", c07SeqString(seq))
			return nil, false
		}
		if m.TP != c07End(m, rtl) {
			o.Fail = c07Fail("iter:textpos", fmt.Sprintf("match %d resumes at %d, not at its end in scan direction", j, m.TP), fmt.Sprint(c07End(m, rtl)), c07SeqString(seq))
			return nil, false
		}
		if m.L == 0 {
			if seen[[2]int{m.I, 0}] {
				o.Fail = c07Fail("iter:repeated-empty", fmt.Sprintf("the empty match at %d is yielded twice", m.I), "distinct empty matches", c07SeqString(seq))
				return nil, false
			}
			seen[[2]int{m.I, 0}] = true
		}
		if j == 0 {
			continue
		}
		p := seq[j-1]
		strict, disjoint := false, false
		if rtl {
			strict, disjoint = c07Start(m, rtl) < c07Start(p, rtl), m.I+m.L <= p.I
		} else {
			strict, disjoint = c07Start(m, rtl) > c07Start(p, rtl), m.I >= p.I+p.L
		}
		if !strict {
			o.Fail = c07Fail("iter:not-advancing", fmt.Sprintf("match %d does not start strictly after match %d in scan order", j, j-1), "strictly advancing starts", c07SeqString(seq))
			return nil, false
		}
		if !disjoint {
			o.Fail = c07Fail("iter:overlap", fmt.Sprintf("match %d overlaps match %d", j, j-1), "disjoint spans", c07SeqString(seq))
			return nil, false
		}
	}
	// each match is what an independent naive search from the previous end finds (\G = that end)
	start, prevLen := 0, -1
	if rtl {
		start = n
	}
	for j := 0; j <= len(seq); j++ {
		nm, err := regexp2.VerifNaiveScan(re, rs, start, start, prevLen, false)
		if err != nil {
			o.Buckets = append(o.Buckets, "match-error")
			return nil, false
		}
		got := "none"
		if j < len(seq) {
			got = fmt.Sprintf("(%d %d) %s", seq[j].I, seq[j].L, seq[j].G)
		}
		exp := "none"
		if nm != nil {
			x := c07Of(nm)
			exp = fmt.Sprintf("(%d %d) %s", x.I, x.L, x.G)
		}
		if exp != got {
			o.Fail = c07Fail("iter:not-fresh-search", fmt.Sprintf("match %d of the iteration differs from a naive search started at %d (previous length %d, \\G there)", j, start, prevLen), exp, got)
			return nil, false
		}
		if j < len(seq) {
			start, prevLen = c07End(seq[j], rtl), seq[j].L
		}
	}
	// find-all calls
	offs := c07ByteOffsets(rs)
	cre := compat.Wrap(re)
	for _, k := range c07Ns {
		want := c07Expected(seq, rtl, k)
		wantB := c07ToBytes(want, offs)
		chk := func(name string, got [][]int, want [][]int) bool {
			if !reflect.DeepEqual(got, want) {
				o.Fail = c07Fail("findall:"+name, fmt.Sprintf("%s(n=%d) is not the FindNextMatch sequence minus adjacent empty matches, truncated", name, k), c07Pairs(want), c07Pairs(got)+" iteration="+c07SeqString(seq))
				return false
			}
			return true
		}
		r1, err := re.FindAllRunesIndex(rs, k)
		if err != nil {
			return nil, false
		}
		if !chk("FindAllRunesIndex", r1, want) {
			return nil, false
		}
		r2, err := re.FindAllStringIndex(s, k)
		if err != nil {
			return nil, false
		}
		if !chk("FindAllStringIndex", r2, wantB) {
			return nil, false
		}
		if !chk("compat.FindAllStringIndex", cre.FindAllStringIndex(s, k), wantB) {
			return nil, false
		}
		if !chk("compat.FindAllIndex", cre.FindAllIndex([]byte(s), k), wantB) {
			return nil, false
		}
		// forEachStringMatch users
		sub := cre.FindAllStringSubmatchIndex(s, k)
		var g0 [][]int
		for _, x := range sub {
			g0 = append(g0, []int{x[0], x[1]})
		}
		if !chk("compat.FindAllStringSubmatchIndex", g0, wantB) {
			return nil, false
		}
		strs := cre.FindAllString(s, k)
		var wantS []string
		for _, x := range wantB {
			wantS = append(wantS, s[x[0]:x[1]])
		}
		if !reflect.DeepEqual(strs, wantS) {
			o.Fail = c07Fail("findall:compat.FindAllString", fmt.Sprintf("compat.FindAllString(n=%d) differs from the expected sequence", k), fmt.Sprintf("%q", wantS), fmt.Sprintf("%q", strs))
			return nil, false
		}
	}
	return seq, true
}

// c07Line builds the protocol line for the Lean model: attempt tables (one row per \G origin,
// identical rows shared), finder answers, minimum length.
func c07Line(cs c07Case, re *regexp2.Regexp, o *core.Outcome) (string, bool) {
	rs, n := cs.Runes, len(cs.Runes)
	skips := false
	rowIdx := map[string]int{}
	var rows []string
	tsmap := make([]int, n+1)
	for ts := 0; ts <= n; ts++ {
		var sb strings.Builder
		sb.WriteString("(")
		for pos := 0; pos <= n; pos++ {
			m, err := regexp2.VerifAttemptAt(re, rs, pos, ts, false)
			if err != nil {
				return "", false
			}
			ok, q := regexp2.VerifFindFirstChar(re, rs, pos, ts)
			if !ok || q != pos {
				skips = true
			}
			// the shape the theorems assume of a single execution (AttemptShape)
			if m != nil {
				bad := m.RuneIndex != pos || m.RuneIndex+m.RuneLength > n
				if cs.RTL {
					bad = m.RuneIndex+m.RuneLength != pos || m.RuneIndex < 0
				}
				if bad {
					o.Fail = c07Fail("attempt-shape", fmt.Sprintf("an execution started at %d (\\G origin %d) reports the overall match (%d,%d): it does not begin (right-to-left: end) at the start position", pos, ts, m.RuneIndex, m.RuneLength), "match anchored at the attempt position", fmt.Sprintf("(%d %d)", m.RuneIndex, m.RuneLength))
					return "", false
				}
			}
			if pos > 0 {
				sb.WriteByte(' ')
			}
			if m == nil {
				fmt.Fprintf(&sb, "(x %s %d)", core.SBool(ok), q)
			} else {
				fmt.Fprintf(&sb, "((%d %d) %s %d)", m.RuneIndex, m.RuneLength, core.SBool(ok), q)
			}
		}
		sb.WriteString(")")
		row := sb.String()
		ix, seen := rowIdx[row]
		if !seen {
			ix = len(rows)
			rowIdx[row] = ix
			rows = append(rows, row)
		}
		tsmap[ts] = ix
	}
	minLen := 0
	if code := regexp2.VerifCode(re); code != nil && code.FindOptimizations != nil {
		minLen = code.FindOptimizations.MinRequiredLength
	}
	if skips {
		o.Buckets = append(o.Buckets, "finder-skips-or-rejects")
	}
	if minLen > 0 {
		o.Buckets = append(o.Buckets, "minlen>0")
	}
	return core.S("c07", core.S("n", fmt.Sprint(n)), core.S("rtl", core.SBool(cs.RTL)), core.S("minlen", fmt.Sprint(minLen)),
		core.S("ks", core.SInts(c07Ns)), core.S("tsmap", core.SInts(tsmap)), core.S("rows", strings.Join(rows, " "))), true
}

func c07Check(c *core.Ctx, cases []c07Case) []core.Outcome {
	outs := make([]core.Outcome, len(cases))
	var lines []string
	var lineOf []int
	goAns := map[int]string{}
	for i, cs := range cases {
		o := &outs[i]
		o.Key = fmt.Sprintf("%s|%v|%d|%s", cs.Pat, cs.RTL, cs.Opts, string(cs.Runes))
		re, err := regexp2.Compile(cs.Pat, c07Opts(cs))
		if err != nil {
			o.Buckets = append(o.Buckets, "compile-error")
			continue
		}
		// a generated pattern can backtrack exponentially; such a case is skipped (bucket match-error), C14 is
		// the property about timeouts
		re.MatchTimeout = 2 * time.Second
		seq, ok := c07Oracle(cs, re, o)
		if !ok {
			continue
		}
		dir := "ltr"
		if cs.RTL {
			dir = "rtl"
		}
		empties, adj := 0, 0
		for j, m := range seq {
			if m.L == 0 {
				empties++
				if j > 0 && m.I == c07End(seq[j-1], cs.RTL) {
					adj++
				}
			}
		}
		o.Nontrivial = len(seq) > 0
		o.Buckets = append(o.Buckets, dir, fmt.Sprintf("matches-%s", c07Bucket(len(seq))), fmt.Sprintf("empty-matches-%s", c07Bucket(empties)))
		if adj > 0 {
			o.Buckets = append(o.Buckets, "has-dropped-adjacent-empty")
		}
		if strings.Contains(cs.Pat, `\G`) {
			o.Buckets = append(o.Buckets, "uses-\\G")
		}
		line, ok := c07Line(cs, re, o)
		if !ok {
			continue
		}
		// Go's answer in the driver's output format
		var sb strings.Builder
		sb.WriteString("(ok (iter " + c07SeqString(seq) + ")")
		rs := cs.Runes
		s := string(rs)
		offs := c07ByteOffsets(rs)
		toRunes := map[int]int{}
		for ri, b := range offs {
			toRunes[b] = ri
		}
		cre := compat.Wrap(re)
		for _, k := range c07Ns {
			all, _ := re.FindAllRunesIndex(rs, k)
			sub := cre.FindAllStringSubmatchIndex(s, k)
			var fe [][]int
			for _, x := range sub {
				fe = append(fe, []int{toRunes[x[0]], toRunes[x[1]]})
			}
			fmt.Fprintf(&sb, " (k %d %s %s)", k, c07Pairs(all), c07Pairs(fe))
		}
		sb.WriteString(")")
		goAns[i] = sb.String()
		lines = append(lines, line)
		lineOf = append(lineOf, i)
	}
	res, err := c.RunDriver(lines)
	if err != nil {
		for i := range outs {
			if outs[i].Fail == nil {
				outs[i].Fail = core.DriverFailure(err)
				break
			}
		}
		return outs
	}
	for li, i := range lineOf {
		if outs[i].Fail != nil {
			continue
		}
		if res[li] != goAns[i] {
			outs[i].Fail = &core.Failure{Kind: "correspondence-break", Key: "model:scan-iterate-findall", Summary: "Lean model of scan/FindNextMatch iteration/find-all (fed Go's single-position attempts) disagrees with the Go calls", Expected: res[li], Got: goAns[i]}
		}
	}
	return outs
}

func c07Bucket(n int) string {
	switch {
	case n == 0:
		return "0"
	case n == 1:
		return "1"
	case n <= 3:
		return "2-3"
	case n <= 7:
		return "4-7"
	default:
		return "8+"
	}
}

func init() {
	core.Register("C07", func(c *core.Ctx) {
		corpus := []c07Case{
			{Pat: "a*", RTL: true, Runes: []rune("baa")},
			{Pat: "a*", RTL: false, Runes: []rune("baaab")},
			{Pat: `\G`, RTL: false, Runes: []rune("ab")},
			{Pat: `\Ga|b*`, RTL: false, Runes: []rune("aabab")},
			{Pat: `\Ga|b*`, RTL: true, Runes: []rune("babaa")},
			{Pat: `(?<=b)|a*?`, RTL: true, Runes: []rune("abé日")},
			{Pat: `\b|x?`, RTL: false, Runes: []rune("ax 😀x")},
			{Pat: `$|^`, RTL: true, Opts: int(regexp2.Multiline), Runes: []rune("a\n\nb")},
			{Pat: ``, RTL: false, Runes: []rune{}},
			{Pat: `(?=a)|(?<=a)`, RTL: false, Runes: []rune("aab")},
		}
		core.RunLeg(c, core.Leg[c07Case]{
			Name: "A", Kind: "correspondence+oracle",
			Rule:   "random patterns: alternations (1-3 branches, empty branches) of sequences of 1-3 atoms drawn from nullable (a*, x?, (a|), .*?), zero-width (\\b \\B ^ $ \\G \\A \\z \\Z, look-ahead/-behind incl. (?<=a*), (?<!\\G)) and consuming leaves, nested in capturing/non-capturing/atomic/look-around groups with quantifiers; RightToLeft in half the cases, Multiline/IgnoreCase/Singleline sometimes; inputs of 0-12 runes over {a,b,x,é,日,😀,\\n,space}; n in {-1,0,1,2,3}. non-trivial = at least one match; distinct by (pattern, options, input). Oracle (no model): FindRunesMatch/FindStringMatch+FindNextMatch strictly advancing, disjoint, no repeated empty match, <= len+1 matches, resume position = match end; every match = VerifNaiveScan from the previous end (one further after an empty match, \\G there); FindAllRunesIndex/FindAllStringIndex and compat FindAllStringIndex/FindAllIndex/FindAllStringSubmatchIndex/FindAllString = sequence minus empty matches adjacent to the match before, truncated to n, nil when empty. Correspondence: Lean iterate/findAll/compatForEach over the table of VerifAttemptAt results for every (\\G origin, position) + VerifFindFirstChar answers + MinRequiredLength vs the Go sequences (incl. resume positions)",
			Corpus: corpus, N: c.N(6000, 400000), Gen: c07Gen, Check: c07Check, Batch: 1000,
		})
	})
}
