package legs

import (
	"fmt"
	"math/rand"
	"slices"
	"strings"
	"unicode"

	"github.com/dlclark/regexp2/v2/helpers"

	"rvharness/internal/core"
)

// C03, leg Ix — the rune-slice searches of helpers/indexof.go (the loops behind the candidate finders)
// called directly. Every exported helper must (1) EQUAL its line-by-line Lean mirror (Model/IndexOf.lean),
// panics included, and (2) give the answer of a naive search written here, whenever the precondition its
// callers guarantee holds (non-empty needle where the Go code reads find[0] …).

type ixCase struct {
	In     []rune `json:"in"`
	Find   []rune `json:"find"`
	A      rune   `json:"a"`
	B      rune   `json:"b"`
	C      rune   `json:"c"`
	Start  int    `json:"start"`
	Length int    `json:"length"`
	Shape  string `json:"shape,omitempty"`
}

var ixAlphabets = [][]rune{
	[]rune("ab"),
	[]rune("abc"),
	[]rune("aAbBzZ@[`{"),
	[]rune("aAkKsSKſ"),     // Kelvin sign, long s: lower-case to ASCII
	[]rune("éÉσςΣǅǆǄİiıI"), // title case, dotted/dotless i, final sigma
	{0x10400, 0x10428, 0x1F600, 0x10FFFF, 'a', 'A'}, // astral: a Deseret case pair
	[]rune("aAbBKéÉ\U00010400\U00010428 \n0"),
}

func ixFlip(r rune) rune {
	if u := unicode.ToUpper(r); u != r {
		return u
	}
	return unicode.ToLower(r)
}

func ixGen(rng *rand.Rand, i int) ixCase {
	al := ixAlphabets[rng.Intn(len(ixAlphabets))]
	pick := func() rune { return al[rng.Intn(len(al))] }
	word := func(n int) []rune {
		w := make([]rune, n)
		for k := range w {
			w[k] = pick()
		}
		return w
	}
	var cs ixCase
	nf := rng.Intn(5)
	if rng.Intn(8) == 0 {
		nf = rng.Intn(9)
	}
	cs.Find = word(nf)
	lowered := func(w []rune) []rune {
		o := make([]rune, len(w))
		for k, r := range w {
			o[k] = unicode.ToLower(r)
		}
		return o
	}
	if rng.Intn(2) == 0 {
		cs.Find = lowered(cs.Find) // "find should always be sent in lower-case"
	}
	variant := func() []rune {
		v := slices.Clone(cs.Find)
		if rng.Intn(2) == 0 {
			for k := range v {
				if rng.Intn(2) == 0 {
					v[k] = ixFlip(v[k])
				}
			}
		}
		return v
	}
	switch sh := rng.Intn(10); sh {
	case 0:
		cs.Shape = "random"
		cs.In = word(rng.Intn(12))
	case 1:
		cs.Shape = "needle-at-0"
		cs.In = append(variant(), word(rng.Intn(6))...)
	case 2:
		cs.Shape = "needle-at-end"
		cs.In = append(word(rng.Intn(8)), variant()...)
	case 3:
		cs.Shape = "needle-inside"
		cs.In = append(append(word(rng.Intn(5)), variant()...), word(rng.Intn(5))...)
	case 4:
		cs.Shape = "overlapping"
		// a periodic needle and a text made of its period, with a near miss in front
		p := word(1 + rng.Intn(2))
		cs.Find = nil
		for len(cs.Find) < 2+rng.Intn(3) {
			cs.Find = append(cs.Find, p...)
		}
		cs.In = word(rng.Intn(3))
		for k := 0; k < 2+rng.Intn(3); k++ {
			cs.In = append(cs.In, p...)
		}
		cs.In = append(cs.In, word(rng.Intn(2))...)
	case 5:
		cs.Shape = "near-miss"
		// the needle with its last (or first) rune changed, then possibly the needle
		v := variant()
		if len(v) > 0 {
			if rng.Intn(2) == 0 {
				v[len(v)-1] = pick()
			} else {
				v[0] = pick()
			}
		}
		cs.In = append(word(rng.Intn(3)), v...)
		if rng.Intn(2) == 0 {
			cs.In = append(cs.In, variant()...)
		}
	case 6:
		cs.Shape = "needle-longer"
		cs.In = variant()
		if len(cs.In) > 0 {
			cs.In = cs.In[:rng.Intn(len(cs.In))]
		}
	case 7:
		cs.Shape = "twice"
		cs.In = append(append(append(word(rng.Intn(3)), variant()...), word(rng.Intn(3))...), variant()...)
	case 8:
		cs.Shape = "empty-in"
		cs.In = nil
	default:
		cs.Shape = "one-rune-run"
		r := pick()
		for k := rng.Intn(8); k > 0; k-- {
			cs.In = append(cs.In, r)
		}
		if rng.Intn(2) == 0 && len(cs.In) > 0 {
			cs.In[rng.Intn(len(cs.In))] = pick()
		}
	}
	from := func() rune {
		if len(cs.In) > 0 && rng.Intn(3) > 0 {
			return cs.In[rng.Intn(len(cs.In))]
		}
		return pick()
	}
	cs.A, cs.B, cs.C = from(), from(), from()
	if rng.Intn(3) == 0 {
		// a proper range around a rune of the input
		cs.A, cs.B = cs.A-rune(rng.Intn(3)), cs.A+rune(rng.Intn(3))
		if cs.A < 0 {
			cs.A = 0
		}
	}
	// Equals / EqualsIgnoreCase: mostly the window of len(find) runes somewhere in the input
	n := len(cs.In)
	switch rng.Intn(6) {
	case 0:
		cs.Start, cs.Length = rng.Intn(n+2), rng.Intn(n+2)
	case 1:
		cs.Start, cs.Length = 0, len(cs.Find)
	case 2:
		cs.Start, cs.Length = max(0, n-len(cs.Find)), len(cs.Find)
	default:
		cs.Start, cs.Length = rng.Intn(max(1, n-len(cs.Find)+1)), len(cs.Find)
		if w := slices.Index(cs.In, firstOr(cs.Find, -1)); w >= 0 && rng.Intn(2) == 0 {
			cs.Start = w
		}
	}
	return cs
}

func firstOr(rs []rune, d rune) rune {
	if len(rs) > 0 {
		return rs[0]
	}
	return d
}

func ixCorpus() []ixCase {
	r := func(s string) []rune { return []rune(s) }
	mk := func(in, find string, a, b, c rune, start, length int) ixCase {
		return ixCase{In: r(in), Find: r(find), A: a, B: b, C: c, Start: start, Length: length, Shape: "corpus"}
	}
	return []ixCase{
		mk("", "", 'a', 'b', 'c', 0, 0),
		mk("", "a", 'a', 'b', 'c', 0, 1),
		mk("a", "", 'a', 'a', 'a', 0, 0),
		mk("a", "a", 'a', 'a', 'a', 0, 1),
		mk("ab", "ab", 'b', 'a', 'c', 0, 2),
		mk("xab", "ab", 'b', 'x', 'c', 1, 2),
		mk("abx", "ab", 'x', 'b', 'a', 0, 2),
		mk("aab", "ab", 'a', 'c', 'b', 1, 2),
		mk("aaab", "aab", 'b', 'b', 'b', 1, 3),
		mk("abab", "ab", 'a', 'b', 'a', 2, 2),
		mk("ababa", "aba", 'a', 'a', 'b', 2, 3),
		mk("aaaa", "aa", 'a', 'a', 'a', 2, 2),
		mk("ab", "abc", 'a', 'c', 'b', 0, 3),
		mk("xxAB", "ab", 'A', 'B', 'x', 2, 2),
		mk("xxaZ", "az", 'Z', 'z', 'A', 2, 2),
		mk("@[`{", "@[", '@', '[', '`', 0, 2),
		mk("`{", "@[", 'A', 'Z', 'a', 0, 2),
		mk("xKy", "k", 'k', 'K', 0x212a, 1, 1),
		mk("É", "é", 'é', 'É', 'e', 0, 1),
		mk("\U00010400\U00010428", "\U00010428", 0x10400, 0x10428, 0x10FFFF, 0, 1),
		mk("a\U0001F600b", "\U0001F600b", 0x1F600, 0x1F600, 'b', 1, 2),
		mk("abc", "c", 'c', 'a', 'b', 2, 1),
		mk("abc", "abc", 'c', 'a', 'b', 0, 3),
		mk("abc", "bc", 'a', 'c', 'z', 1, 2),
		mk("abc", "b", 'a', 'c', 'z', 3, 0),
		mk("abc", "b", 'a', 'c', 'z', 4, 0),
		mk("abc", "bcd", 'a', 'c', 'z', 1, 2),
		mk("aB", "ab", 'a', 'b', 'B', 0, 1),
		mk("bbb", "b", 'b', 'b', 'b', 0, 1),
		mk("bbba", "b", 'b', 'b', 'b', 3, 1),
		mk("abbb", "b", 'b', 'b', 'b', 0, 1),
	}
}

var ixFunctions = []string{
	"IndexOfAny", "IndexOfAny1", "IndexOfAny2", "IndexOfAny3", "IndexOfAnyInRange",
	"IndexOfAnyExcept", "IndexOfAnyExcept1", "IndexOfAnyExcept2", "IndexOfAnyExcept3", "IndexOfAnyExceptInRange",
	"IndexFunc", "LastIndexOf", "LastIndexOfAnyExcept1", "LastIndexOfAny1", "LastIndexOfAnyInRange",
	"IndexOfIgnoreCase", "IndexOfIgnoreCaseAscii", "IndexOf", "StartsWith", "StartsWithIgnoreCase",
	"Equals", "EqualsIgnoreCase", "indexOfAnyRunes",
}

func ixInt(f func() int) (s string) {
	defer func() {
		if recover() != nil {
			s = "panic"
		}
	}()
	return fmt.Sprint(f())
}

func ixBool(f func() bool) (s string) {
	defer func() {
		if recover() != nil {
			s = "panic"
		}
	}()
	return core.SBool(f())
}

// ixGo calls every helper on the case. The slices are clipped (cap = len): Go checks the upper bound of a
// slice expression against the capacity.
func ixGo(cs *ixCase) map[string]string {
	in, find := slices.Clip(slices.Clone(cs.In)), slices.Clip(slices.Clone(cs.Find))
	if in == nil {
		in = []rune{}
	}
	if find == nil {
		find = []rune{}
	}
	a, b, c := cs.A, cs.B, cs.C
	return map[string]string{
		"IndexOfAny":              ixInt(func() int { return helpers.IndexOfAny(in, find) }),
		"IndexOfAny1":             ixInt(func() int { return helpers.IndexOfAny1(in, a) }),
		"IndexOfAny2":             ixInt(func() int { return helpers.IndexOfAny2(in, a, b) }),
		"IndexOfAny3":             ixInt(func() int { return helpers.IndexOfAny3(in, a, b, c) }),
		"IndexOfAnyInRange":       ixInt(func() int { return helpers.IndexOfAnyInRange(in, a, b) }),
		"IndexOfAnyExcept":        ixInt(func() int { return helpers.IndexOfAnyExcept(in, find) }),
		"IndexOfAnyExcept1":       ixInt(func() int { return helpers.IndexOfAnyExcept1(in, a) }),
		"IndexOfAnyExcept2":       ixInt(func() int { return helpers.IndexOfAnyExcept2(in, a, b) }),
		"IndexOfAnyExcept3":       ixInt(func() int { return helpers.IndexOfAnyExcept3(in, a, b, c) }),
		"IndexOfAnyExceptInRange": ixInt(func() int { return helpers.IndexOfAnyExceptInRange(in, a, b) }),
		"IndexFunc":               ixInt(func() int { return helpers.IndexFunc(in, func(ch rune) bool { return ch%2 == 1 || ch == a }) }),
		"LastIndexOf":             ixInt(func() int { return helpers.LastIndexOf(in, find) }),
		"LastIndexOfAnyExcept1":   ixInt(func() int { return helpers.LastIndexOfAnyExcept1(in, a) }),
		"LastIndexOfAny1":         ixInt(func() int { return helpers.LastIndexOfAny1(in, a) }),
		"LastIndexOfAnyInRange":   ixInt(func() int { return helpers.LastIndexOfAnyInRange(in, a, b) }),
		"IndexOfIgnoreCase":       ixInt(func() int { return helpers.IndexOfIgnoreCase(in, find) }),
		"IndexOfIgnoreCaseAscii":  ixInt(func() int { return helpers.IndexOfIgnoreCaseAscii(in, find) }),
		"IndexOf":                 ixInt(func() int { return helpers.IndexOf(in, find) }),
		"StartsWith":              ixBool(func() bool { return helpers.StartsWith(in, find) }),
		"StartsWithIgnoreCase":    ixBool(func() bool { return helpers.StartsWithIgnoreCase(in, find) }),
		"Equals":                  ixBool(func() bool { return helpers.Equals(in, cs.Start, cs.Length, find) }),
		"EqualsIgnoreCase":        ixBool(func() bool { return helpers.EqualsIgnoreCase(in, cs.Start, cs.Length, find) }),
		"indexOfAnyRunes":         ixInt(func() int { return ixIndexOfAnyRunes(in, find) }),
	}
}

// ixIndexOfAnyRunes is runner.go's unexported dispatcher of the same name, copied: the leg checks the
// dispatch by length against the model's (the real one is exercised through leg Fm).
func ixIndexOfAnyRunes(input, find []rune) int {
	switch len(find) {
	case 0:
		return -1
	case 1:
		return helpers.IndexOfAny1(input, find[0])
	case 2:
		return helpers.IndexOfAny2(input, find[0], find[1])
	case 3:
		return helpers.IndexOfAny3(input, find[0], find[1], find[2])
	default:
		return helpers.IndexOfAny(input, find)
	}
}

// the naive oracle: every answer by a direct scan over all positions, written without the helpers' tricks

func ixFirst(n int, p func(i int) bool) int {
	for i := 0; i < n; i++ {
		if p(i) {
			return i
		}
	}
	return -1
}

func ixLast(n int, p func(i int) bool) int {
	r := -1
	for i := 0; i < n; i++ {
		if p(i) {
			r = i
		}
	}
	return r
}

func ixAsciiFold(r rune) rune {
	if r >= 'A' && r <= 'Z' {
		return r | 0x20
	}
	return r
}

// ixOccurs: find lies in in at i under eq(text rune, needle rune)
func ixOccurs(in, find []rune, i int, eq func(t, c rune) bool) bool {
	if i < 0 || i+len(find) > len(in) {
		return false
	}
	for j, c := range find {
		if !eq(in[i+j], c) {
			return false
		}
	}
	return true
}

// ixOracle returns, per function, the expected answer — only for the functions whose precondition holds.
func ixOracle(cs *ixCase) map[string]string {
	in, find := cs.In, cs.Find
	n := len(in)
	a, b, c := cs.A, cs.B, cs.C
	isIn := func(r rune, set ...rune) bool {
		for _, s := range set {
			if s == r {
				return true
			}
		}
		return false
	}
	exact := func(t, c rune) bool { return t == c }
	lowerIn := func(t, c rune) bool { return t == c || unicode.ToLower(t) == c }
	ascii := func(t, c rune) bool { return ixAsciiFold(t) == ixAsciiFold(c) }
	lowerBoth := func(t, c rune) bool { return t == c || unicode.ToLower(t) == unicode.ToLower(c) }
	I := func(v int) string { return fmt.Sprint(v) }
	o := map[string]string{
		"IndexOfAny":              I(ixFirst(n, func(i int) bool { return isIn(in[i], find...) })),
		"indexOfAnyRunes":         I(ixFirst(n, func(i int) bool { return isIn(in[i], find...) })),
		"IndexOfAny1":             I(ixFirst(n, func(i int) bool { return in[i] == a })),
		"IndexOfAny2":             I(ixFirst(n, func(i int) bool { return isIn(in[i], a, b) })),
		"IndexOfAny3":             I(ixFirst(n, func(i int) bool { return isIn(in[i], a, b, c) })),
		"IndexOfAnyInRange":       I(ixFirst(n, func(i int) bool { return a <= in[i] && in[i] <= b })),
		"IndexOfAnyExcept":        I(ixFirst(n, func(i int) bool { return !isIn(in[i], find...) })),
		"IndexOfAnyExcept1":       I(ixFirst(n, func(i int) bool { return in[i] != a })),
		"IndexOfAnyExcept2":       I(ixFirst(n, func(i int) bool { return !isIn(in[i], a, b) })),
		"IndexOfAnyExcept3":       I(ixFirst(n, func(i int) bool { return !isIn(in[i], a, b, c) })),
		"IndexOfAnyExceptInRange": I(ixFirst(n, func(i int) bool { return !(a <= in[i] && in[i] <= b) })),
		"IndexFunc":               I(ixFirst(n, func(i int) bool { return in[i]%2 == 1 || in[i] == a })),
		"LastIndexOfAnyExcept1":   I(ixLast(n, func(i int) bool { return in[i] != a })),
		"LastIndexOfAny1":         I(ixLast(n, func(i int) bool { return in[i] == a })),
		"LastIndexOfAnyInRange":   I(ixLast(n, func(i int) bool { return a <= in[i] && in[i] <= b })),
		"IndexOfIgnoreCaseAscii":  I(ixFirst(n+1, func(i int) bool { return ixOccurs(in, find, i, ascii) })),
		"StartsWithIgnoreCase":    core.SBool(ixOccurs(in, find, 0, lowerIn)),
	}
	if len(find) > 0 {
		// the Go code reads find[0] (IndexOf, LastIndexOf, IndexOfIgnoreCase) or &find[0] (StartsWith)
		o["IndexOf"] = I(ixFirst(n+1, func(i int) bool { return ixOccurs(in, find, i, exact) }))
		o["LastIndexOf"] = I(ixLast(n+1, func(i int) bool { return ixOccurs(in, find, i, exact) }))
		o["IndexOfIgnoreCase"] = I(ixFirst(n+1, func(i int) bool { return ixOccurs(in, find, i, lowerIn) }))
		o["StartsWith"] = core.SBool(ixOccurs(in, find, 0, exact))
	}
	if cs.Start >= 0 && cs.Length >= 0 && cs.Start+cs.Length <= n && (len(find) == 0 || cs.Length > 0) {
		// the window lies in the input and is not empty (bytesEqual takes &a[0])
		o["Equals"] = core.SBool(len(find) == 0 || (cs.Length == len(find) && ixOccurs(in, find, cs.Start, exact)))
		if cs.Length == len(find) {
			// the only caller (searchvalues.go) passes length = len(find) with the window inside the input
			o["EqualsIgnoreCase"] = core.SBool(ixOccurs(in, find, cs.Start, lowerBoth))
		}
	}
	return o
}

func ixLine(cs *ixCase) string {
	seen := map[rune]bool{}
	var lower []string
	note := func(rs []rune) {
		for _, r := range rs {
			if !seen[r] {
				seen[r] = true
				if l := unicode.ToLower(r); l != r {
					lower = append(lower, fmt.Sprintf("(%d %d)", r, l))
				}
			}
		}
	}
	note(cs.In)
	note(cs.Find)
	return "(c03 (indexof " + strings.Join([]string{
		c03Runes("in", cs.In), c03Runes("find", cs.Find), c03Runes("abc", []rune{cs.A, cs.B, cs.C}),
		core.S("sl", fmt.Sprint(cs.Start), fmt.Sprint(cs.Length)), core.S("lower", lower...)}, " ") + "))"
}

// ixParse reads `(ok (Name v) (Name v) …)`.
func ixParse(s string) (map[string]string, bool) {
	s = strings.TrimSpace(s)
	if !strings.HasPrefix(s, "(ok") || !strings.HasSuffix(s, ")") {
		return nil, false
	}
	m := map[string]string{}
	for _, f := range strings.Split(strings.TrimSuffix(strings.TrimPrefix(s, "(ok"), ")"), "(") {
		f = strings.TrimSpace(strings.TrimSuffix(strings.TrimSpace(f), ")"))
		if f == "" {
			continue
		}
		parts := strings.Fields(f)
		if len(parts) != 2 {
			return nil, false
		}
		m[parts[0]] = parts[1]
	}
	return m, true
}

func (cs *ixCase) valid() bool {
	if cs.Start < 0 || cs.Length < 0 || cs.A < 0 || cs.B < 0 || cs.C < 0 {
		return false
	}
	for _, r := range cs.In {
		if r < 0 {
			return false
		}
	}
	for _, r := range cs.Find {
		if r < 0 {
			return false
		}
	}
	return true
}

func (cs *ixCase) describe() string {
	return fmt.Sprintf("in %q %v, find %q %v, a=%d b=%d c=%d, start=%d length=%d", string(cs.In), core.SInts(cs.In),
		string(cs.Find), core.SInts(cs.Find), cs.A, cs.B, cs.C, cs.Start, cs.Length)
}

func ixCheck(c *core.Ctx, cases []ixCase) []core.Outcome {
	outs := make([]core.Outcome, len(cases))
	lines := make([]string, 0, len(cases))
	where := make([]int, 0, len(cases))
	goAns := make([]map[string]string, len(cases))
	for i := range cases {
		cs := &cases[i]
		o := &outs[i]
		o.Key = cs.describe()
		if !cs.valid() {
			o.Buckets = append(o.Buckets, "invalid-case")
			continue
		}
		o.Nontrivial = len(cs.In) > 0 && len(cs.Find) > 0
		if cs.Shape != "" {
			o.Buckets = append(o.Buckets, "shape="+cs.Shape)
		}
		switch {
		case len(cs.Find) == 0:
			o.Buckets = append(o.Buckets, "find=empty")
		case len(cs.Find) > len(cs.In):
			o.Buckets = append(o.Buckets, "find>in")
		}
		astral := false
		for _, r := range cs.In {
			astral = astral || r > 0xFFFF
		}
		if astral {
			o.Buckets = append(o.Buckets, "astral")
		}
		g := ixGo(cs)
		goAns[i] = g
		want := ixOracle(cs)
		for _, fn := range ixFunctions {
			w, ok := want[fn]
			if !ok {
				o.Buckets = append(o.Buckets, "outside-precondition:"+fn)
				continue
			}
			if isBool := fn == "Equals" || fn == "EqualsIgnoreCase" || fn == "StartsWith" || fn == "StartsWithIgnoreCase"; (isBool && w == "1") || (!isBool && w != "-1") {
				o.Buckets = append(o.Buckets, "hit:"+fn)
			}
			if g[fn] != w && o.Fail == nil {
				o.Fail = &core.Failure{Kind: "impl-violation", Key: "Ix:" + fn,
					Summary:  fmt.Sprintf("helpers.%s differs from a naive search over all positions (first/last index satisfying the documented test, -1 when none; no panic under the callers' precondition): %s", fn, cs.describe()),
					Expected: w, Got: g[fn]}
			}
		}
		lines = append(lines, ixLine(cs))
		where = append(where, i)
	}
	res, err := c.RunDriver(lines)
	if err != nil {
		for i := range outs {
			if outs[i].Fail == nil {
				outs[i].Fail = core.DriverFailure(err)
				break
			}
		}
		return outs
	}
	for k, i := range where {
		cs := &cases[i]
		o := &outs[i]
		differs := func(key, summary, want, got string) {
			if o.Fail == nil {
				o.Fail = &core.Failure{Kind: "correspondence-break", Key: key, Summary: summary, Expected: want, Got: got}
			} else if o.Fail.Kind == "impl-violation" && !strings.Contains(o.Fail.Summary, "[the Lean mirror also differs") {
				o.Fail.Summary += " [the Lean mirror also differs from the Go code on this case: " + key + "]"
			}
		}
		m, ok := ixParse(res[k])
		if !ok {
			differs("model:ix-driver-answer", "the Lean driver's answer to the indexof request is not understood: "+cs.describe(), "(ok (Function v)…)", res[k])
			continue
		}
		for _, fn := range ixFunctions {
			if m[fn] != goAns[i][fn] {
				differs("Ix:"+fn, fmt.Sprintf("helpers.%s and its line-by-line Lean mirror (Model/IndexOf.lean) disagree (expected = the mirror): %s", fn, cs.describe()), m[fn], goAns[i][fn])
			}
		}
	}
	return outs
}

// c03RegisterIx runs leg Ix.
func c03RegisterIx(c *core.Ctx) {
	core.RunLeg(c, core.Leg[ixCase]{
		Name: "Ix", Kind: "correspondence(mirrors of helpers/indexof.go)+oracle(naive search)",
		Rule: "direct calls of every exported rune-slice helper of helpers/indexof.go (IndexOfAny, IndexOfAny1/2/3, IndexOfAnyInRange, IndexOfAnyExcept, IndexOfAnyExcept1/2/3, IndexOfAnyExceptInRange, IndexFunc, LastIndexOf, LastIndexOfAnyExcept1, LastIndexOfAny1, LastIndexOfAnyInRange, IndexOfIgnoreCase, IndexOfIgnoreCaseAscii, IndexOf, StartsWith, StartsWithIgnoreCase, Equals, EqualsIgnoreCase; plus a copy of runner.go's indexOfAnyRunes dispatch) on one case = (in, find, three runes a b c used as single needles / range bounds, start, length); clipped slices (cap = len). Corpus of boundary cases (both empty, needle at 0 / at the end / overlapping / twice / absent / longer than the haystack, ASCII range ends Z z @ [ ` {, Kelvin sign, astral case pair, windows at and beyond the end), then random cases: needles of 0-4 (1/8: 0-8) runes, half of them lower-cased, over {a,b}, {a,b,c}, ASCII letter-range ends and neighbours, runes that lower-case to ASCII (K, long s), Latin/Greek/title-case/dotted-i runes, astral runes incl. a Deseret case pair, a mix; haystacks: random, needle (or a case-flipped variant) planted at 0 / at the end / inside / twice, periodic overlaps, near misses (first or last rune changed), haystack shorter than the needle, empty, a run of one rune; a b c mostly runes of the haystack, 1/3 a proper range around one; windows mostly len(find) runes at a random / first-rune / last possible start, 1/6 arbitrary (also outside the input). (1) every helper's result, a panic included, must EQUAL its Lean mirror's; (2) under the callers' precondition (find non-empty for IndexOf, LastIndexOf, IndexOfIgnoreCase, StartsWith; window inside the input and non-empty unless find is empty for Equals; additionally length = len(find) for EqualsIgnoreCase) it must equal a naive search written in the leg (first, resp. last, index of all positions satisfying the documented test; ToLower from package unicode; ASCII fold = |0x20 on A-Z) and must not panic. non-trivial = haystack and needle non-empty",
		N:    c.N(20000, 1000000), Corpus: ixCorpus(), Gen: ixGen, Check: ixCheck, Batch: 2000,
	})
}
