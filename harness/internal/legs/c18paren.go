package legs

import (
	"fmt"
	"math/rand"
	"strings"

	"github.com/dlclark/regexp2/v2"

	"rvharness/internal/core"
)

// C18, leg Op — option scopes around constructs that have parentheses of their own.
//
// Leg O compares spellings of ONE pattern with each other; a parser slip that lets something leak out of an
// option scope in the same way in every spelling (the paren bookkeeping: ignoreNextParen, the option stack,
// the group stack) is invisible to it. Here the construct inside the scope is swapped for an equivalent
// that has no parentheses — (?(a)a|c) and (?(?=a)a|c) for (?:a|c)… no: for the alternation a|c written
// without a group where possible, (?>a) for a, (?#c) for nothing — and both patterns, compiled with the same
// compile-time options, must match and capture alike. What follows the scope (a plain group, letters that
// are case- or n-sensitive) shows whether the scope ended where it is written to end.

type c18ParenCase struct {
	Pre    string   `json:"pre"`   // text before the scope
	Open   string   `json:"open"`  // "(?n:" / "(?:(?n)" / "(?i:" …
	Body   string   `json:"body"`  // text inside the scope before the construct
	With   string   `json:"with"`  // the construct with parentheses of its own
	Plain  string   `json:"plain"` // its paren-free equivalent
	After  string   `json:"after"` // what follows the scope's ')'
	Opts   int      `json:"opts"`  // compile-time subset of {i,m,n,s,x}
	Inputs []string `json:"inputs"`
}

func (cs c18ParenCase) patterns() (with, plain string) {
	return cs.Pre + cs.Open + cs.Body + cs.With + ")" + cs.After, cs.Pre + cs.Open + cs.Body + cs.Plain + ")" + cs.After
}

func c18ParenGen(rng *rand.Rand, i int) c18ParenCase {
	pairs := [][2]string{
		{"(?(a)a|c)", "[ac]"}, {"(?(?=a)a|c)", "[ac]"}, {"(?(?!c)a|c)", "[ac]"}, {"(?(a)ab|c)", "(?:ab|c)"},
		{"(?>a)", "a"}, {"(?#c)", ""}, {"(?=a)a", "a"}, {"(?!c)a", "a"}, {"(?<=b)a", "(?<=b)a"},
		{"(?(?<=b)a|c)", "(?:(?<=b)a|(?<!b)c)"},
	}
	p := pairs[rng.Intn(len(pairs))]
	flag := "nnnismx"[rng.Intn(7)]
	sign := ""
	if rng.Intn(4) == 0 {
		sign = "-"
	}
	open := fmt.Sprintf("(?%s%c:", sign, flag)
	if rng.Intn(2) == 0 {
		open = fmt.Sprintf("(?:(?%s%c)", sign, flag)
	}
	cs := c18ParenCase{
		Pre:  []string{"", "b", "(x)?", "^"}[rng.Intn(4)],
		Open: open,
		Body: []string{"", "b", "b?", "(b)?"}[rng.Intn(4)],
		With: p[0], Plain: p[1],
		After: []string{"(d)", "(d)(e)", "(d)A", "(?<k>d)(e)", "(d)|z", "(d)\\1", "(d).", "(d)$"}[rng.Intn(8)],
		Opts:  rng.Intn(32) &^ 16, // IgnorePatternWhitespace would read the blanks of the inputs' alphabet only; keep x for the inline flag
	}
	alpha := []string{"a", "c", "b", "d", "e", "A", "D", "ab", "x", "\n", "z"}
	for k := 0; k < 8; k++ {
		var sb strings.Builder
		if k < 4 {
			sb.WriteString([]string{"", "b", "xb", "bb"}[rng.Intn(4)])
			sb.WriteString([]string{"a", "c", "ab", "ba"}[rng.Intn(4)])
			sb.WriteString([]string{"d", "de", "dA", "dd", "da", "d\n"}[rng.Intn(6)])
		} else {
			for j := rng.Intn(7); j > 0; j-- {
				sb.WriteString(alpha[rng.Intn(len(alpha))])
			}
		}
		cs.Inputs = append(cs.Inputs, sb.String())
	}
	return cs
}

func c18ParenCheck(c *core.Ctx, cases []c18ParenCase) []core.Outcome {
	outs := make([]core.Outcome, len(cases))
	for i := range cases {
		cs := &cases[i]
		o := &outs[i]
		with, plain := cs.patterns()
		o.Key = fmt.Sprintf("%d|%s", cs.Opts, with)
		o.Nontrivial = true
		o.Buckets = append(o.Buckets, "construct="+cs.With)
		ro := c18RO(cs.Opts)
		re1, err1 := regexp2.Compile(with, ro)
		re2, err2 := regexp2.Compile(plain, ro)
		if (err1 == nil) != (err2 == nil) {
			o.Fail = &core.Failure{Kind: "impl-violation", Key: "Op:compile", Summary: fmt.Sprintf("options %s: %q and its paren-free equivalent %q do not both compile", c18SetText(cs.Opts), with, plain), Expected: fmt.Sprint(err2), Got: fmt.Sprint(err1)}
			continue
		}
		if err1 != nil {
			o.Buckets = append(o.Buckets, "compile-error")
			continue
		}
		n1, n2 := re1.GetGroupNumbers(), re2.GetGroupNumbers()
		if fmt.Sprint(n1) != fmt.Sprint(n2) || fmt.Sprint(re1.GetGroupNames()) != fmt.Sprint(re2.GetGroupNames()) {
			o.Fail = &core.Failure{Kind: "impl-violation", Key: "Op:groups", Summary: fmt.Sprintf("options %s: %q and its paren-free equivalent %q have different groups", c18SetText(cs.Opts), with, plain), Expected: fmt.Sprint(n2, re2.GetGroupNames()), Got: fmt.Sprint(n1, re1.GetGroupNames())}
			continue
		}
		for _, in := range cs.Inputs {
			r1, r2 := c18Results(re1, in), c18Results(re2, in)
			if r1 != r2 {
				o.Fail = &core.Failure{Kind: "impl-violation", Key: "Op:results",
					Summary:  fmt.Sprintf("options %s, input %q: %q matches or captures differently from its paren-free equivalent %q — something leaks out of the option scope", c18SetText(cs.Opts), in, with, plain),
					Expected: r2, Got: r1}
				break
			}
		}
	}
	return outs
}

func c18ParenLeg(c *core.Ctx) {
	core.RunLeg(c, core.Leg[c18ParenCase]{
		Name: "Op", Kind: "oracle(option scopes around constructs with parentheses)",
		Rule: "pre + scope-open + body + CONSTRUCT + ')' + after: the scope is (?f: or (?:(?f) for a flag f of {i,m,n,s,x} (a quarter switched off), the construct one of (?(a)a|c), (?(?=a)a|c), (?(?!c)a|c), (?(a)ab|c), (?>a), (?#c), (?=a)a, (?!c)a, (?(?<=b)a|c); after the scope a plain group followed by groups / cased letters / backreference / '.' / '$'; compile-time options a random subset of {i,m,n,s}; the same pattern with the construct replaced by a paren-free equivalent must have the same group numbers and names and the same matches, captures and replacement results on 8 inputs; non-trivial = all",
		N:    c.N(600, 20000), Gen: c18ParenGen, Check: c18ParenCheck, Batch: 200,
	})
}
