package legs

import (
	"fmt"
	"math/rand"
	"sort"
	"strconv"
	"strings"
	"sync"
	"time"
	"unicode"
	"unicode/utf8"

	"rvharness/internal/core"
	"rvharness/internal/gen"

	regexp2 "github.com/dlclark/regexp2/v2"
	"github.com/dlclark/regexp2/v2/syntax"
)

// C04 leg V — the proved VALIDATOR for the set-valued search facts.
//
// For a pattern, syntax.Parse publishes (tree.FindOptimizations, and Write's FcPrefix) sets of
// characters that must stand at or after the start of every match, and lists of strings one of which
// every match must start with. Lean (Model/SetFacts.lean, theorems in Props/C04.lean) computes, on the
// engine's OWN tree converted by gen.FromGoTree, over-approximations that are PROVED sound against the
// specification. A published set E is sound if it includes the intersection of the Lean candidates for
// its offset (Props.C04.published_set_sound / published_first_sound); a published string list is sound
// if it covers one Lean candidate list (published_prefixes_sound). Inclusion is checked here, exactly,
// with Go's unicode tables. Lean's sets are over-approximations, so a failed inclusion is not yet a
// violation: the leg then searches for an input on which a real match (single-position attempt hook)
// carries a rune outside E at that offset.

// ---------------------------------------------------------------------------------------------
// a tiny S-expression reader (answers of the Lean driver)

type sx struct {
	atom string
	list []*sx
	leaf bool
}

func parseSx(s string) (*sx, error) {
	pos := 0
	var rec func() (*sx, error)
	rec = func() (*sx, error) {
		for pos < len(s) && s[pos] == ' ' {
			pos++
		}
		if pos >= len(s) {
			return nil, fmt.Errorf("unexpected end")
		}
		if s[pos] == '(' {
			pos++
			n := &sx{}
			for {
				for pos < len(s) && s[pos] == ' ' {
					pos++
				}
				if pos >= len(s) {
					return nil, fmt.Errorf("unclosed list")
				}
				if s[pos] == ')' {
					pos++
					return n, nil
				}
				c, err := rec()
				if err != nil {
					return nil, err
				}
				n.list = append(n.list, c)
			}
		}
		if s[pos] == ')' {
			return nil, fmt.Errorf("unexpected )")
		}
		st := pos
		for pos < len(s) && s[pos] != ' ' && s[pos] != '(' && s[pos] != ')' {
			pos++
		}
		return &sx{atom: s[st:pos], leaf: true}, nil
	}
	n, err := rec()
	if err != nil {
		return nil, err
	}
	if strings.TrimSpace(s[pos:]) != "" {
		return nil, fmt.Errorf("trailing text")
	}
	return n, nil
}

func (n *sx) head() string {
	if n != nil && !n.leaf && len(n.list) > 0 && n.list[0].leaf {
		return n.list[0].atom
	}
	return ""
}

func (n *sx) args() []*sx {
	if n == nil || n.leaf || len(n.list) == 0 {
		return nil
	}
	return n.list[1:]
}

func (n *sx) find(tag string) *sx {
	for _, c := range n.args() {
		if c.head() == tag {
			return c
		}
	}
	return nil
}

func (n *sx) int() int {
	v, _ := strconv.Atoi(n.atom)
	return v
}

// ---------------------------------------------------------------------------------------------
// Lean's symbolic sets (a union of leaf tests), evaluated with Go's unicode tables

type leanCls struct {
	diff   bool
	a, b   *leanCls
	neg    bool
	ranges [][2]rune
	names  []struct {
		id  int
		neg bool
	}
}

type leanPred struct {
	kind string // one | notone | set
	c    rune
	cls  *leanCls
}

type leanSet []*leanPred

func parseLeanCls(n *sx) (*leanCls, error) {
	switch n.head() {
	case "base":
		a := n.args()
		if len(a) != 3 {
			return nil, fmt.Errorf("bad base")
		}
		c := &leanCls{neg: a[0].atom == "1"}
		for _, r := range a[1].list {
			if len(r.list) != 2 {
				return nil, fmt.Errorf("bad range")
			}
			c.ranges = append(c.ranges, [2]rune{rune(r.list[0].int()), rune(r.list[1].int())})
		}
		for _, r := range a[2].list {
			if len(r.list) != 2 {
				return nil, fmt.Errorf("bad name")
			}
			c.names = append(c.names, struct {
				id  int
				neg bool
			}{r.list[0].int(), r.list[1].atom == "1"})
		}
		return c, nil
	case "diff":
		a := n.args()
		if len(a) != 2 {
			return nil, fmt.Errorf("bad diff")
		}
		x, err := parseLeanCls(a[0])
		if err != nil {
			return nil, err
		}
		y, err := parseLeanCls(a[1])
		if err != nil {
			return nil, err
		}
		return &leanCls{diff: true, a: x, b: y}, nil
	}
	return nil, fmt.Errorf("bad class %q", n.head())
}

// parseLeanSet reads `none` (nil, false) or `(some pred…)`.
func parseLeanSet(n *sx) (leanSet, bool, error) {
	if n.leaf {
		if n.atom == "none" {
			return nil, false, nil
		}
		return nil, false, fmt.Errorf("bad set %q", n.atom)
	}
	if n.head() != "some" {
		return nil, false, fmt.Errorf("bad set head %q", n.head())
	}
	out := leanSet{}
	for _, p := range n.args() {
		a := p.args()
		if len(a) != 2 {
			return nil, false, fmt.Errorf("bad pred")
		}
		if a[1].atom != "0" {
			// leaves of an engine tree never carry the specification's folding flag (gen.FromGoTree)
			return nil, false, fmt.Errorf("leaf with the case-folding flag")
		}
		switch p.head() {
		case "one", "notone":
			out = append(out, &leanPred{kind: p.head(), c: rune(a[0].int())})
		case "set":
			c, err := parseLeanCls(a[0])
			if err != nil {
				return nil, false, err
			}
			out = append(out, &leanPred{kind: "set", cls: c})
		default:
			return nil, false, fmt.Errorf("bad pred %q", p.head())
		}
	}
	return out, true, nil
}

func (c *leanCls) in(r rune, named map[int]func(rune) bool) bool {
	if c.diff {
		return c.a.in(r, named) && !c.b.in(r, named)
	}
	pos := false
	for _, rg := range c.ranges {
		if rg[0] <= r && r <= rg[1] {
			pos = true
			break
		}
	}
	if !pos {
		for _, nm := range c.names {
			f := named[nm.id]
			if f != nil && f(r) != nm.neg {
				pos = true
				break
			}
		}
	}
	return pos != c.neg
}

func (s leanSet) in(r rune, named map[int]func(rune) bool) bool {
	for _, p := range s {
		switch p.kind {
		case "one":
			if p.c == r {
				return true
			}
		case "notone":
			if p.c != r {
				return true
			}
		default:
			if p.cls.in(r, named) {
				return true
			}
		}
	}
	return false
}

// ---------------------------------------------------------------------------------------------
// boundary points: every atomic predicate of either side (a range, a single rune, a Unicode category)
// is constant between two consecutive points, so testing the points tests every rune

var catBoundsCache sync.Map // category name -> []rune

// catBounds: the runes r where membership of the category changes between r-1 and r (both recorded),
// found by one sweep of the whole domain per category name.
func catBounds(name string, pred func(rune) bool) []rune {
	if v, ok := catBoundsCache.Load(name); ok {
		return v.([]rune)
	}
	var out []rune
	prev := pred(0)
	for r := rune(1); r <= unicode.MaxRune; r++ {
		cur := pred(r)
		if cur != prev {
			out = append(out, r-1, r)
			prev = cur
		}
	}
	catBoundsCache.Store(name, out)
	return out
}

type pointSet struct{ m map[rune]struct{} }

func newPointSet() *pointSet {
	p := &pointSet{m: map[rune]struct{}{}}
	p.add(0)
	p.add(unicode.MaxRune)
	return p
}

func (p *pointSet) add(r rune) {
	for d := rune(-1); d <= 1; d++ {
		if q := r + d; q >= 0 && q <= unicode.MaxRune {
			p.m[q] = struct{}{}
		}
	}
}

func (p *pointSet) sorted() []rune {
	out := make([]rune, 0, len(p.m))
	for r := range p.m {
		out = append(out, r)
	}
	sort.Slice(out, func(i, j int) bool { return out[i] < out[j] })
	return out
}

func (c *leanCls) bounds(gt *gen.GoTree, p *pointSet) {
	if c.diff {
		c.a.bounds(gt, p)
		c.b.bounds(gt, p)
		return
	}
	for _, rg := range c.ranges {
		p.add(rg[0])
		p.add(rg[1])
	}
	for _, nm := range c.names {
		if f := gt.Named[nm.id]; f != nil {
			for _, r := range catBounds(gt.CatNames[nm.id], f) {
				p.m[r] = struct{}{}
			}
		}
	}
}

func (s leanSet) bounds(gt *gen.GoTree, p *pointSet) {
	for _, q := range s {
		if q.kind == "set" {
			q.cls.bounds(gt, p)
		} else {
			p.add(q.c)
		}
	}
}

func charSetBounds(d *syntax.VerifCharSet, p *pointSet) {
	if d == nil {
		return
	}
	for _, rg := range d.Ranges {
		p.add(rg[0])
		p.add(rg[1])
	}
	for _, ct := range d.Categories {
		if f := gen.CatPredicate(ct.Cat); f != nil {
			for _, r := range catBounds(ct.Cat, f) {
				p.m[r] = struct{}{}
			}
		}
	}
	charSetBounds(d.Sub, p)
}

// ---------------------------------------------------------------------------------------------
// what the engine published

// pubSet: the test E the engine applies to the rune at offset k from the match start (left-to-right:
// text[p+k]; right-to-left, k = 0: text[p-1]).
type pubSet struct {
	name   string
	k      int
	rtl    bool
	in     func(rune) bool
	bounds func(*pointSet)
	desc   string
}

// pubPrefix: a published list of strings with the comparison the search uses (x: published rune, t: text rune).
type pubPrefix struct {
	name  string
	E     [][]rune
	R     func(x, t rune) bool
	lower bool // the Lean strings are normalised with unicode.ToLower (R accepts ToLower(t) against t)
}

// charInFixedDistanceSet replicates runner.go: what findFixedDistanceSetsLeftToRight tests for a set.
func charInFixedDistanceSet(set syntax.FixedDistanceSet, ch rune) bool {
	if len(set.Chars) > 0 {
		found := false
		for _, c := range set.Chars {
			if c == ch {
				found = true
			}
		}
		return found != set.Negated
	}
	if set.Range != nil {
		found := ch >= set.Range.First && ch <= set.Range.Last
		return found != set.Negated
	}
	return set.Set != nil && set.Set.CharIn(ch)
}

func foldASCII(r rune) rune {
	if 'A' <= r && r <= 'Z' {
		return r + ('a' - 'A')
	}
	return r
}

func isASCIIRunes(rs []rune) bool {
	for _, r := range rs {
		if r >= 0x80 {
			return false
		}
	}
	return true
}

var caseChangingOnce sync.Once
var caseChangingRunes []rune

// caseChanging: every rune that unicode.ToLower moves
func caseChanging() []rune {
	caseChangingOnce.Do(func() {
		for r := rune(0); r <= unicode.MaxRune; r++ {
			if unicode.ToLower(r) != r {
				caseChangingRunes = append(caseChangingRunes, r)
			}
		}
	})
	return caseChangingRunes
}

// lowerTable: (r, ToLower r) for the literal runes of the tree and the members of its small sets — the
// runes Lean's string enumeration can meet
func lowerTable(n *syntax.RegexNode, out map[rune]rune) {
	add := func(r rune) {
		if l := unicode.ToLower(r); l != r {
			out[r] = l
		}
	}
	switch n.T {
	case syntax.NtOne, syntax.NtOneloop, syntax.NtOnelazy, syntax.NtOneloopatomic:
		add(n.Ch)
	case syntax.NtMulti:
		for _, r := range n.Str {
			add(r)
		}
	}
	if n.Set != nil {
		d := n.Set.VerifDump()
		total := 0
		for _, rg := range d.Ranges {
			total += int(rg[1]-rg[0]) + 1
		}
		if total <= 256 {
			for _, rg := range d.Ranges {
				for r := rg[0]; r <= rg[1]; r++ {
					add(r)
				}
			}
		}
	}
	for _, c := range n.Children {
		lowerTable(c, out)
	}
}

func singleton(name string, k int, rtl bool, c rune) pubSet {
	return pubSet{name: name, k: k, rtl: rtl, in: func(r rune) bool { return r == c },
		bounds: func(p *pointSet) { p.add(c) }, desc: fmt.Sprintf("{%q}", c)}
}

func published(t *syntax.RegexTree, code *syntax.Code) (sets []pubSet, prefixes []pubPrefix, skipped []string) {
	fo := t.FindOptimizations
	rtl := t.Options&syntax.RightToLeft != 0
	if fo != nil {
		for i, fs := range fo.FixedDistanceSets {
			fs := fs
			if fs.Set == nil {
				continue
			}
			dump := fs.Set.VerifDump()
			bounds := func(p *pointSet) {
				charSetBounds(dump, p)
				for _, c := range fs.Chars {
					p.add(c)
				}
				if fs.Range != nil {
					p.add(fs.Range.First)
					p.add(fs.Range.Last)
				}
			}
			sets = append(sets, pubSet{name: fmt.Sprintf("FixedDistanceSets[%d].Set", i), k: fs.Distance, rtl: rtl,
				in: fs.Set.CharIn, bounds: bounds, desc: fs.Set.String()})
			if !rtl {
				sets = append(sets, pubSet{name: fmt.Sprintf("FixedDistanceSets[%d].effective", i), k: fs.Distance,
					in: func(r rune) bool { return charInFixedDistanceSet(fs, r) }, bounds: bounds,
					desc: fmt.Sprintf("chars=%q range=%v negated=%v set=%s", string(fs.Chars), fs.Range, fs.Negated, fs.Set.String())})
			} else if len(fs.Chars) > 0 {
				sets = append(sets, pubSet{name: fmt.Sprintf("FixedDistanceSets[%d].Chars", i), k: fs.Distance, rtl: true,
					in: func(r rune) bool {
						for _, c := range fs.Chars {
							if c == r {
								return true
							}
						}
						return false
					}, bounds: bounds, desc: fmt.Sprintf("chars=%q", string(fs.Chars))})
			}
		}
		switch fo.FindMode {
		case syntax.LeadingChar_RightToLeft:
			sets = append(sets, singleton("LeadingChar(rtl)", 0, true, fo.FixedDistanceLiteral.C))
		case syntax.FixedDistanceChar_LeftToRight:
			sets = append(sets, singleton("FixedDistanceChar", fo.FixedDistanceLiteral.Distance, false, fo.FixedDistanceLiteral.C))
		case syntax.FixedDistanceString_LeftToRight:
			for i, c := range []rune(fo.FixedDistanceLiteral.S) {
				sets = append(sets, singleton("FixedDistanceString", fo.FixedDistanceLiteral.Distance+i, false, c))
			}
		case syntax.LeadingString_LeftToRight:
			// a single string is one singleton per position (findLeadingStringLeftToRight: helpers.IndexOf)
			if !utf8.ValidString(fo.LeadingPrefix) {
				skipped = append(skipped, "LeadingPrefix:invalid-utf8")
			} else {
				for i, c := range []rune(fo.LeadingPrefix) {
					sets = append(sets, singleton("LeadingPrefix", i, false, c))
				}
			}
		case syntax.LeadingString_OrdinalIgnoreCase_LeftToRight:
			pr := []rune(fo.LeadingPrefix)
			ascii := isASCIIRunes(pr)
			for i, x := range pr {
				x := x
				in := func(t rune) bool { return t == x || unicode.ToLower(t) == x } // helpers.IndexOfIgnoreCase
				if ascii {
					in = func(t rune) bool { return foldASCII(t) == foldASCII(x) } // helpers.IndexOfIgnoreCaseAscii
				}
				sets = append(sets, pubSet{name: "LeadingPrefix(ci)", k: i, in: in, desc: fmt.Sprintf("ci{%q}", x),
					bounds: func(p *pointSet) {
						p.add(x)
						p.add(x - 32)
						p.add(x + 32)
						for _, r := range caseChanging() {
							if unicode.ToLower(r) == x {
								p.add(r)
							}
						}
					}})
			}
		case syntax.LeadingStrings_LeftToRight:
			prefixes = append(prefixes, pubPrefix{name: "LeadingPrefixes", E: fo.LeadingPrefixesRunes,
				R: func(x, t rune) bool { return x == t }})
			if first := fo.LeadingPrefixFirstRunes; len(first) > 0 {
				// findLeadingStringsLeftToRight jumps between occurrences of these runes (case-sensitive mode only)
				sets = append(sets, pubSet{name: "LeadingPrefixFirstRunes", k: 0, desc: fmt.Sprintf("%q", string(first)),
					in: func(r rune) bool {
						for _, c := range first {
							if c == r {
								return true
							}
						}
						return false
					},
					bounds: func(p *pointSet) {
						for _, c := range first {
							p.add(c)
						}
					}})
			}
		case syntax.LeadingStrings_OrdinalIgnoreCase_LeftToRight:
			prefixes = append(prefixes, pubPrefix{name: "LeadingPrefixes(ci)", E: fo.LeadingPrefixesRunes, lower: true,
				R: func(x, t rune) bool { return t == x || unicode.ToLower(t) == x }}) // helpers.StartsWithIgnoreCase
		case syntax.LeadingString_RightToLeft:
			skipped = append(skipped, "LeadingPrefix(rtl):no-lean-analysis")
		}
	}
	if code != nil && code.FcPrefix != nil {
		// findFirstCharDefault tests PrefixSet.CharIn on the text rune as it is (the lower-casing of
		// forwardcharnext is commented out in runner.go)
		set := code.FcPrefix.PrefixSet
		dump := set.VerifDump()
		sets = append(sets, pubSet{name: "FcPrefix", k: 0, rtl: rtl, in: set.CharIn,
			bounds: func(p *pointSet) { charSetBounds(dump, p) }, desc: set.String()})
	}
	return
}

// ---------------------------------------------------------------------------------------------
// cases

type setsCase struct {
	Pattern string    `json:"pattern"`
	Opts    int32     `json:"opts"`
	CodeGen bool      `json:"codegen,omitempty"`
	Ast     *gen.Node `json:"ast,omitempty"`  // for pattern-directed inputs of the search step
	Text    []rune    `json:"text,omitempty"` // a witness input (corpus)
	Seed    int64     `json:"seed"`
	Source  string    `json:"source,omitempty"`
}

type setsGen struct{ n int }

func (g *setsGen) next(rng *rand.Rand, i int) setsCase {
	loadHarvest()
	g.n++
	ro, o := randRegexOptions(rng, true)
	c := setsCase{Opts: int32(ro), CodeGen: rng.Intn(2) == 0, Seed: rng.Int63(), Source: "ast"}
	if rng.Intn(10) < 2 && len(harvested) > 0 {
		c.Pattern = harvested[rng.Intn(len(harvested))]
		c.Source = "harvest"
		return c
	}
	cfg := fullConfig(rng, o)
	var ast *gen.Node
	switch rng.Intn(5) {
	case 0, 1, 2:
		ast = biasedAst(rng, cfg)
	case 3:
		ast = rewriteAst(rng, cfg)
	default:
		ast = gen.Random(rng, cfg)
	}
	c.Ast = ast
	c.Pattern = ast.Print(o)
	return c
}

var setsCorpus = func() []setsCase {
	var out []setsCase
	for _, e := range engCorpus {
		out = append(out, setsCase{Pattern: e.Pattern, Opts: e.Opts, CodeGen: e.CodeGen, Text: e.Text, Seed: 1, Source: "corpus"})
		if !e.CodeGen {
			out = append(out, setsCase{Pattern: e.Pattern, Opts: e.Opts, CodeGen: true, Text: e.Text, Seed: 1, Source: "corpus"})
		}
	}
	n, ci := int32(regexp2.ExplicitCapture), int32(regexp2.IgnoreCase)
	for _, e := range []setsCase{
		{Pattern: `(?=[ab]x)(?:a[xy]|b.)z*`, Text: []rune("zaxz")},
		{Pattern: `(?:ab|cde)f`, CodeGen: true, Text: []rune("cdef")},
		{Pattern: `(?:[ab]c|d[ef])g`, CodeGen: true, Text: []rune("deg")},
		{Pattern: `(?:ab){2,}c`, Text: []rune("ababc")},
		{Pattern: `[ab]{3}c`, CodeGen: true, Text: []rune("abac")},
		{Pattern: `a{24}c`, Text: []rune("aaaaaaaaaaaaaaaaaaaaaaaac")},
		{Pattern: `(?:abc|abd|x[yz])w`, CodeGen: true, Opts: n, Text: []rune("xzw")},
		{Pattern: `ab[cd]e`, CodeGen: true, Opts: ci, Text: []rune("ABDE")},
		{Pattern: `\w+@`, Text: []rune("ab@")},
		{Pattern: `(?(1)\1|a)b|c`, Text: []rune("ab")},
		{Pattern: `[^a]b|cd`, Text: []rune("xb")},
		{Pattern: `(?:y||[^\x{1F600}])b`, Text: []rune("\U0001F601b")},
		{Pattern: `(?:|\D)[^\x{1F600}]aab$`, Text: []rune("\U0001FBF0aab")},
		{Pattern: `(?:|x)[^\x{FFFF}]b`, Text: []rune("\U0001F601b")},
	} {
		e.Seed, e.Source = 1, "corpus"
		out = append(out, e)
	}
	return out
}()

// ---------------------------------------------------------------------------------------------
// the check

type leanSide struct {
	first    leanSet
	hasFirst bool
	at       map[int]leanSet
	prefixes [][]rune
	cover    bool
}

func parseLeanSide(items []*sx) (*leanSide, error) {
	s := &leanSide{at: map[int]leanSet{}}
	for _, it := range items {
		switch it.head() {
		case "first":
			a := it.args()
			if len(a) != 1 {
				return nil, fmt.Errorf("bad first")
			}
			set, ok, err := parseLeanSet(a[0])
			if err != nil {
				return nil, err
			}
			s.first, s.hasFirst = set, ok
		case "at":
			for _, e := range it.args() {
				if len(e.list) != 2 {
					return nil, fmt.Errorf("bad at")
				}
				set, ok, err := parseLeanSet(e.list[1])
				if err != nil {
					return nil, err
				}
				if ok {
					s.at[e.list[0].int()] = set
				}
			}
		case "prefixes":
			for _, e := range it.args() {
				var str []rune
				for _, r := range e.list {
					str = append(str, rune(r.int()))
				}
				s.prefixes = append(s.prefixes, str)
			}
		case "cover":
			a := it.args()
			s.cover = len(a) == 1 && a[0].atom == "1"
		}
	}
	return s, nil
}

// candidates for a published set: Props.C04.setCandidates (left-to-right), firstSet p true (right-to-left)
func (s *leanSide) candidates(k int) []leanSet {
	var out []leanSet
	if set, ok := s.at[k]; ok {
		out = append(out, set)
	}
	if k == 0 && s.hasFirst {
		out = append(out, s.first)
	}
	return out
}

func rPrefixGo(R func(x, t rune) bool, x, l []rune) bool {
	if len(x) > len(l) {
		return false
	}
	for i := range x {
		if !R(x[i], l[i]) {
			return false
		}
	}
	return true
}

// uncovered: the strings of L that start with no published string (checkPrefixes is true iff none)
func uncovered(R func(x, t rune) bool, E, L [][]rune) [][]rune {
	var out [][]rune
	for _, l := range L {
		ok := false
		for _, x := range E {
			if rPrefixGo(R, x, l) {
				ok = true
				break
			}
		}
		if !ok {
			out = append(out, l)
		}
	}
	return out
}

type setsPrepared struct {
	tree *syntax.RegexTree
	gt   *gen.GoTree
	sets []pubSet
	pre  []pubPrefix
}

func c04SetsCheck(c *core.Ctx, cases []setsCase) []core.Outcome {
	outs := make([]core.Outcome, len(cases))
	prep := make([]*setsPrepared, len(cases))
	var idx []int
	var send []string
	for i := range cases {
		cs := &cases[i]
		o := &outs[i]
		o.Key = fmt.Sprintf("%d|%v|%s", cs.Opts, cs.CodeGen, cs.Pattern)
		t, err := safeParse(cs.Pattern, syntax.ParseOptions{RegexOptions: syntax.RegexOptions(cs.Opts), CodeGen: cs.CodeGen})
		if err != nil || t == nil {
			o.Buckets = append(o.Buckets, "compile-error")
			continue
		}
		code, err := syntax.Write(t)
		if err != nil {
			o.Buckets = append(o.Buckets, "compile-error")
			continue
		}
		sets, pre, skipped := published(t, code)
		for _, s := range skipped {
			o.Buckets = append(o.Buckets, "skipped:"+s)
		}
		if t.FindOptimizations != nil {
			o.Buckets = append(o.Buckets, "mode="+t.FindOptimizations.FindMode.String())
		}
		if len(sets) == 0 && len(pre) == 0 {
			o.Buckets = append(o.Buckets, "nothing-published")
			continue
		}
		gt := gen.FromGoTree(t)
		if gt.Unsupported != "" {
			why := strings.SplitN(gt.Unsupported, " ", 2)[0]
			if why == "node" {
				why = strings.ReplaceAll(gt.Unsupported, " ", "-")
			}
			o.Buckets = append(o.Buckets, "tree-unsupported:"+why)
			continue
		}
		rtl := t.Options&syntax.RightToLeft != 0
		ks := map[int]bool{}
		for _, s := range sets {
			ks[s.k] = true
		}
		var kl []int
		for k := range ks {
			kl = append(kl, k)
		}
		sort.Ints(kl)
		maxLen := 8
		var E [][]rune
		var tbl []string
		for _, p := range pre {
			for _, x := range p.E {
				if len(x)+2 > maxLen {
					maxLen = len(x) + 2
				}
			}
			E = p.E
			if p.lower {
				m := map[rune]rune{}
				lowerTable(t.Root, m)
				var rs []int
				for r := range m {
					rs = append(rs, int(r))
				}
				sort.Ints(rs)
				for _, r := range rs {
					tbl = append(tbl, fmt.Sprintf("(%d %d)", r, m[rune(r)]))
				}
			}
		}
		var es []string
		for _, x := range E {
			es = append(es, core.SInts(x))
		}
		prep[i] = &setsPrepared{tree: t, gt: gt, sets: sets, pre: pre}
		idx = append(idx, i)
		send = append(send, fmt.Sprintf("(c04 sets %s %s %s %d %d (%s) (%s))", core.SBool(rtl), gt.Sexp, core.SInts(kl), maxLen, 64,
			strings.Join(es, " "), strings.Join(tbl, " ")))
		o.Nontrivial = true
	}
	res, err := c.RunDriver(send)
	if err != nil {
		for i := range outs {
			if outs[i].Fail == nil {
				outs[i].Fail = core.DriverFailure(err)
				break
			}
		}
		return outs
	}
	for n, i := range idx {
		c04SetsCompare(c, &cases[i], prep[i], res[n], &outs[i], n)
	}
	return outs
}

func safeParse(pat string, op syntax.ParseOptions) (t *syntax.RegexTree, err error) {
	defer func() {
		if r := recover(); r != nil {
			t, err = nil, panicError{r}
		}
	}()
	return syntax.Parse(pat, op)
}

func c04SetsCompare(c *core.Ctx, cs *setsCase, pp *setsPrepared, answer string, o *core.Outcome, n int) {
	bad := func(why string) {
		o.Fail = &core.Failure{Kind: "correspondence-break", Key: "V:driver-answer",
			Summary:  fmt.Sprintf("leg V cannot read the Lean driver's answer (%s): pattern %q opts %d", why, cs.Pattern, cs.Opts),
			Expected: "(ok …)", Got: answer}
	}
	ans, err := parseSx(answer)
	if err != nil || ans.head() != "ok" {
		bad(fmt.Sprint(err))
		return
	}
	own, err := parseLeanSide(ans.args())
	if err != nil {
		bad(err.Error())
		return
	}
	var look *leanSide
	if l := ans.find("look"); l != nil && len(l.args()) > 0 && !l.args()[0].leaf {
		if look, err = parseLeanSide(l.args()); err != nil {
			bad(err.Error())
			return
		}
		o.Buckets = append(o.Buckets, "leading-lookahead")
	}
	named := pp.gt.Named
	mode := "none"
	if pp.tree.FindOptimizations != nil {
		mode = pp.tree.FindOptimizations.FindMode.String()
	}
	for _, ps := range pp.sets {
		cands := own.candidates(ps.k)
		if look != nil && !ps.rtl {
			cands = append(cands, look.candidates(ps.k)...)
		}
		kind := strings.SplitN(ps.name, "[", 2)[0]
		if i := strings.Index(ps.name, "]."); i >= 0 {
			kind += ps.name[i+1:]
		}
		if len(cands) == 0 {
			o.Buckets = append(o.Buckets, "lean-none:"+kind)
		}
		// exact test of  ⋂ candidates ⊆ E  on the boundary points of both sides
		pts := newPointSet()
		ps.bounds(pts)
		for _, s := range cands {
			s.bounds(pp.gt, pts)
		}
		inAll := func(r rune) bool {
			for _, s := range cands {
				if !s.in(r, named) {
					return false
				}
			}
			return true
		}
		var witnesses []rune
		for _, r := range pts.sorted() {
			if !ps.in(r) && inAll(r) {
				witnesses = append(witnesses, r)
			}
		}
		if c.Thorough() && n%100 == 0 {
			// the boundary-point method against a sweep of the whole domain
			found := false
			for r := rune(0); r <= unicode.MaxRune; r++ {
				if !ps.in(r) && inAll(r) {
					found = true
					break
				}
			}
			o.Buckets = append(o.Buckets, "full-sweep")
			if found != (len(witnesses) > 0) {
				o.Fail = &core.Failure{Kind: "correspondence-break", Key: "V:boundary-method",
					Summary:  fmt.Sprintf("boundary-point inclusion test disagrees with the full sweep: pattern %q opts %d, %s", cs.Pattern, cs.Opts, ps.name),
					Expected: fmt.Sprint(found), Got: fmt.Sprint(len(witnesses) > 0)}
				return
			}
		}
		if len(cands) > 0 && len(witnesses) == 0 {
			o.Buckets = append(o.Buckets, "validated:"+kind)
			continue
		}
		if len(cands) == 0 && len(witnesses) == 0 && pp.tree.FindOptimizations != nil && pp.tree.FindOptimizations.MinRequiredLength > ps.k {
			// the published test accepts every rune: the fact only says that the rune exists, which is
			// MinRequiredLength (Props.C04.minLen_remaining, leg F) — nothing set-valued to validate
			o.Buckets = append(o.Buckets, "validated-by-minlen:"+kind)
			continue
		}
		// not included: Lean may be too coarse — search for a real match carrying a rune outside E
		if len(witnesses) > 12 {
			step := len(witnesses) / 12
			var w []rune
			for j := 0; j < len(witnesses); j += step {
				w = append(w, witnesses[j])
			}
			witnesses = w
		}
		if in, pos, found := searchSetViolation(cs, ps, witnesses); found {
			o.Fail = &core.Failure{Kind: "impl-violation", Key: "C04:V:" + kind + ":" + mode,
				Summary: fmt.Sprintf("published %s (offset %d) excludes a rune that a real match carries there: pattern %q opts %d codegen=%v input %q attempt position %d; the set does not include Lean's proved over-approximation",
					ps.name, ps.k, cs.Pattern, cs.Opts, cs.CodeGen, string(in), pos),
				Expected: "published set ⊇ the characters real matches carry at that offset", Got: ps.desc}
			cs.Text = in
			return
		}
		o.Fail = &core.Failure{Kind: "correspondence-break", Key: "V:not-included:" + kind,
			Summary: fmt.Sprintf("published %s (offset %d) does not include Lean's over-approximation and no failing input was found: pattern %q opts %d codegen=%v, runes allowed by Lean and rejected by the engine e.g. %q (%d candidates)",
				ps.name, ps.k, cs.Pattern, cs.Opts, cs.CodeGen, string(witnesses), len(cands)),
			Expected: "⋂ Lean candidates ⊆ published set", Got: ps.desc + "   lean: " + answer}
		return
	}
	for _, pf := range pp.pre {
		lists := [][][]rune{own.prefixes}
		covers := []bool{own.cover}
		if look != nil {
			lists = append(lists, look.prefixes)
			covers = append(covers, look.cover)
		}
		ok := false
		var missing [][]rune
		for j, L := range lists {
			// Props.C04.checkPrefixes: every (normalised) Lean string starts with a published string
			u := uncovered(func(x, t rune) bool { return x == t }, pf.E, L)
			if (len(u) == 0) != covers[j] {
				o.Fail = &core.Failure{Kind: "correspondence-break", Key: "V:cover-verdict",
					Summary:  fmt.Sprintf("Lean's checkPrefixes verdict differs from the harness's: pattern %q opts %d", cs.Pattern, cs.Opts),
					Expected: fmt.Sprint(covers[j]), Got: fmt.Sprint(len(u) == 0)}
				return
			}
			if len(u) == 0 {
				ok = true
			} else {
				missing = append(missing, u...)
			}
		}
		if ok {
			o.Buckets = append(o.Buckets, "validated:"+pf.name)
			continue
		}
		if in, pos, found := searchPrefixViolation(cs, pf, missing); found {
			o.Fail = &core.Failure{Kind: "impl-violation", Key: "C04:V:" + pf.name + ":" + mode,
				Summary: fmt.Sprintf("no published %s string matches the text at a real match: pattern %q opts %d codegen=%v input %q attempt position %d",
					pf.name, cs.Pattern, cs.Opts, cs.CodeGen, string(in), pos),
				Expected: "some published string is a prefix of every match", Got: fmt.Sprintf("%q", runeStrings(pf.E))}
			cs.Text = in
			return
		}
		o.Fail = &core.Failure{Kind: "correspondence-break", Key: "V:not-covered:" + pf.name,
			Summary: fmt.Sprintf("published %s does not cover Lean's prefix list and no failing input was found: pattern %q opts %d codegen=%v, uncovered e.g. %q",
				pf.name, cs.Pattern, cs.Opts, cs.CodeGen, runeStrings(missing)),
			Expected: "every Lean string starts with a published string", Got: fmt.Sprintf("%q   lean: %s", runeStrings(pf.E), answer)}
		return
	}
}

func runeStrings(x [][]rune) []string {
	var out []string
	for _, r := range x {
		out = append(out, string(r))
	}
	return out
}

// ---------------------------------------------------------------------------------------------
// the search for a failing input

func searchInputs(cs *setsCase) (*regexp2.Regexp, [][]rune) {
	opts := []regexp2.CompileOption{regexp2.RegexOptions(cs.Opts)}
	if cs.CodeGen {
		opts = append(opts, regexp2.OptionIsCodeGen())
	}
	re, err := safeCompile(cs.Pattern, opts...)
	if err != nil || re == nil {
		return nil, nil
	}
	re.MatchTimeout = 2 * time.Second
	rng := rand.New(rand.NewSource(cs.Seed))
	var inputs [][]rune
	if len(cs.Text) > 0 {
		inputs = append(inputs, cs.Text)
	}
	if cs.Ast != nil {
		inputs = append(inputs, gen.Inputs(rng, cs.Ast, 60, 8)...)
	} else {
		stripped := []rune(strings.NewReplacer(`\`, "", "(", "", ")", "", "[", "", "]", "", "*", "", "+", "", "?", "", "|", "", "^", "", "$", "").Replace(cs.Pattern))
		inputs = append(inputs, stripped)
		for k := 0; k < 40; k++ {
			var s []rune
			for j := rng.Intn(8); j > 0; j-- {
				if len(stripped) > 0 && rng.Intn(2) == 0 {
					s = append(s, stripped[rng.Intn(len(stripped))])
				} else {
					s = append(s, fullAlphabet[rng.Intn(len(fullAlphabet))])
				}
			}
			inputs = append(inputs, s)
		}
	}
	return re, inputs
}

func attemptMatches(re *regexp2.Regexp, text []rune, p, textstart int) bool {
	defer func() { _ = recover() }()
	m, err := regexp2.VerifAttemptAt(re, text, p, textstart, false)
	return err == nil && m != nil
}

// searchSetViolation looks for an input and an attempt position where the real engine matches while the
// rune at the published offset is outside the published set: first on pattern-directed inputs as they
// are, then with each witness rune forced at that offset of a matching input.
func searchSetViolation(cs *setsCase, ps pubSet, witnesses []rune) ([]rune, int, bool) {
	re, inputs := searchInputs(cs)
	if re == nil {
		return nil, 0, false
	}
	at := func(p int) int {
		if ps.rtl {
			return p - 1 - ps.k
		}
		return p + ps.k
	}
	for _, in := range inputs {
		starts := []int{0, len(in)}
		for p := 0; p <= len(in); p++ {
			q := at(p)
			for _, ts := range append(starts, p) {
				if q >= 0 && q < len(in) {
					if !ps.in(in[q]) && attemptMatches(re, in, p, ts) {
						return in, p, true
					}
					for _, w := range witnesses {
						mut := append([]rune{}, in...)
						mut[q] = w
						if attemptMatches(re, mut, p, ts) {
							return mut, p, true
						}
					}
				} else if attemptMatches(re, in, p, ts) {
					return in, p, true // a match with no rune at the published offset
				}
			}
		}
	}
	// witness runes planted into short contexts
	for _, w := range witnesses {
		for _, in := range inputs {
			if len(in) > 6 {
				continue
			}
			for p := 0; p <= len(in); p++ {
				mut := append(append(append([]rune{}, in[:p]...), w), in[p:]...)
				for a := 0; a <= len(mut); a++ {
					q := at(a)
					if q >= 0 && q < len(mut) && !ps.in(mut[q]) && attemptMatches(re, mut, a, 0) {
						return mut, a, true
					}
				}
			}
		}
	}
	return nil, 0, false
}

func searchPrefixViolation(cs *setsCase, pf pubPrefix, missing [][]rune) ([]rune, int, bool) {
	re, inputs := searchInputs(cs)
	if re == nil {
		return nil, 0, false
	}
	covered := func(text []rune, p int) bool {
		for _, x := range pf.E {
			if p+len(x) <= len(text) && rPrefixGo(pf.R, x, text[p:]) {
				return true
			}
		}
		return false
	}
	try := func(in []rune) (int, bool) {
		for p := 0; p <= len(in); p++ {
			if !covered(in, p) && (attemptMatches(re, in, p, 0) || attemptMatches(re, in, p, p)) {
				return p, true
			}
		}
		return 0, false
	}
	for _, in := range inputs {
		if p, ok := try(in); ok {
			return in, p, true
		}
	}
	for _, l := range missing {
		for _, in := range inputs {
			for p := 0; p <= len(in); p++ {
				// the uncovered string written over / inserted at p
				over := append([]rune{}, in...)
				for j, r := range l {
					if p+j < len(over) {
						over[p+j] = r
					} else {
						over = append(over, r)
					}
				}
				ins := append(append(append([]rune{}, in[:p]...), l...), in[p:]...)
				for _, cand := range [][]rune{over, ins} {
					if q, ok := try(cand); ok {
						return cand, q, true
					}
				}
			}
		}
	}
	return nil, 0, false
}

func c04RegisterSets(c *core.Ctx) {
	g := &setsGen{}
	core.RunLeg(c, core.Leg[setsCase]{
		Name: "V", Kind: "correspondence(proved validator)+oracle",
		Rule: "patterns: the minimised witnesses of every engine defect (both with and without the code-gen analyses) and hand-made shapes, then random full-syntax ASTs (60% the shapes the search modes recognise, 20% the shapes the rewrites look for, 20% unbiased) and harvested patterns, random option sets, code-gen analyses on for half. Each pattern is parsed by syntax.Parse; every published set-valued fact is collected: FixedDistanceSets (the CharSet and, left-to-right, the runner's effective test Chars/Range/Negated; right-to-left the Chars list), FixedDistanceChar, FixedDistanceString (one singleton per rune), LeadingChar right-to-left, FcPrefix, LeadingPrefix (case-sensitive and ordinal-ignore-case: one test per position), LeadingPrefixes (both) and LeadingPrefixFirstRunes. The engine's own tree is converted by gen.FromGoTree and sent to the Lean driver, which returns the proved over-approximations firstSet / setAt k / prefixes of the pattern and of the body of a leading positive lookahead. Check, rune-exact: the intersection of the Lean candidates for the offset is included in the published test, decided on the boundary points (every range end, single rune and Unicode-category transition of either side, ±1; thorough tier: every 100th case also by a sweep of all 1114112 runes, which must agree); a published string list must cover one Lean list under the comparison the runner uses. Theorems published_first_sound / published_set_sound / published_prefixes_sound turn a passed check into soundness of the fact. A failed check starts a search (pattern-directed inputs, every attempt position, each rejected rune forced at the offset of a matching input) for a real match (single-position attempt hook) that contradicts the fact: found → impl-violation with that input; not found → correspondence-break. non-trivial = something set-valued was published and the tree converted",
		N:    c.N(6000, 150000), Corpus: setsCorpus, Gen: g.next, Check: c04SetsCheck, Batch: 1000,
	})
}
