package legs

import (
	"fmt"
	"math/rand"
	"strings"
	"sync"
	"unicode"

	"rvharness/internal/core"

	"github.com/dlclark/regexp2/v2/syntax"
)

// Leg Bm: the Boyer-Moore prefix (syntax.BmPrefix: newBmPrefix, Scan, IsMatch) against its Lean model
// (Model/BoyerMoore.lean) and against a naive search written here without any table.
//
// One case is a literal pattern with the two constructor flags and a handful of texts, each with a
// window [beg, end]. Go side: the prefix is built through the hook VerifNewBmPrefix, its tables are read
// through VerifTables, Scan is called from every index of the window and IsMatch from every index of the
// text. Lean side: the same pattern (raw, with unicode.ToLower as a table over the runes that occur)
// goes to the driver, which builds the tables with the model of newBmPrefix and runs the models of Scan
// and IsMatch from every index.
//
//  1. correspondence: nil-ness, the lower-cased pattern, positive, lowASCII/highASCII, negativeASCII and
//     the allocated pages of negativeUnicode are EQUAL; Scan agrees at every index of the window, IsMatch
//     at every index of the text.
//  2. oracle (no model, no table): Scan returns the first occurrence in scan order that lies inside the
//     window, IsMatch says whether there is one exactly at the index.

type bmText struct {
	Text []rune `json:"text"`
	Beg  int    `json:"beg"`
	End  int    `json:"end"`
	Kind string `json:"kind,omitempty"`
}

type bmCase struct {
	Pattern []rune   `json:"pattern"`
	CI      bool     `json:"ci"`
	RTL     bool     `json:"rtl"`
	Shape   string   `json:"shape,omitempty"`
	Alpha   string   `json:"alphabet,omitempty"`
	Texts   []bmText `json:"texts"`
}

func bmValidRune(r rune) bool { return r >= 0 && r <= unicode.MaxRune && !(r >= 0xD800 && r <= 0xDFFF) }

func (cs *bmCase) valid() bool {
	if len(cs.Pattern) == 0 || len(cs.Texts) == 0 {
		return false
	}
	for _, r := range cs.Pattern {
		if !bmValidRune(r) {
			return false
		}
	}
	for _, t := range cs.Texts {
		if t.Beg < 0 || t.Beg > t.End || t.End > len(t.Text) {
			return false
		}
		for _, r := range t.Text {
			if !bmValidRune(r) {
				return false
			}
		}
	}
	return true
}

func (cs *bmCase) flags() string {
	s := ":ltr"
	if cs.RTL {
		s = ":rtl"
	}
	if cs.CI {
		s += ":ci"
	}
	return s
}

// Model-free oracle ---------------------------------------------------------------------------------

// bmOccurs: the (lower-cased) pattern p occurs in text at start s under the comparison the prefix was
// built for.
func bmOccurs(p, text []rune, s int, ci bool) bool {
	if s < 0 || s+len(p) > len(text) {
		return false
	}
	for j, want := range p {
		ch := text[s+j]
		if ci {
			ch = unicode.ToLower(ch)
		}
		if ch != want {
			return false
		}
	}
	return true
}

// bmNaiveScan is what Scan(text, index, beg, end) has to return for beg <= index <= end <= len(text).
// Left-to-right: the smallest start s >= index of an occurrence that ends at or before end.
// Right-to-left: the largest END e <= index of an occurrence that starts at or after beg.
func bmNaiveScan(occ []bool, m, index, beg, end int, rtl bool) int {
	if !rtl {
		for s := index; s+m <= end; s++ {
			if occ[s] {
				return s
			}
		}
		return -1
	}
	for e := index; e-m >= beg; e-- {
		if occ[e-m] {
			return e
		}
	}
	return -1
}

func bmNaiveIsMatch(occ []bool, m, index, beg, end int, rtl bool) bool {
	if !rtl {
		return index >= beg && end-index >= m && occ[index]
	}
	return index <= end && index-beg >= m && occ[index-m]
}

// Go side -------------------------------------------------------------------------------------------

func bmGoScan(b *syntax.BmPrefix, text []rune, index, beg, end int) (r int, panicked any) {
	defer func() {
		if p := recover(); p != nil {
			panicked = p
		}
	}()
	return b.Scan(text, index, beg, end), nil
}

func bmGoIsMatch(b *syntax.BmPrefix, text []rune, index, beg, end int) (r bool, panicked any) {
	defer func() {
		if p := recover(); p != nil {
			panicked = p
		}
	}()
	return b.IsMatch(text, index, beg, end), nil
}

func bmGoNew(pattern []rune, ci, rtl bool) (b *syntax.BmPrefix, panicked any) {
	defer func() {
		if p := recover(); p != nil {
			panicked = p
		}
	}()
	return syntax.VerifNewBmPrefix(pattern, ci, rtl), nil
}

// Lean side -----------------------------------------------------------------------------------------

func bmLine(cs *bmCase, t *bmText, tables bool) string {
	seen := map[rune]bool{}
	var lower []string
	note := func(rs []rune) {
		for _, r := range rs {
			if !seen[r] {
				seen[r] = true
				if l := unicode.ToLower(r); l != r {
					lower = append(lower, fmt.Sprintf("(%d %d)", r, l))
				}
			}
		}
	}
	note(cs.Pattern)
	note(t.Text)
	return "(c03 (bm " + strings.Join([]string{
		core.S("rtl", core.SBool(cs.RTL)), core.S("ci", core.SBool(cs.CI)), "(old 0)", core.S("tables", core.SBool(tables)),
		c03Runes("pat", cs.Pattern), core.S("lower", lower...), c03Runes("text", t.Text),
		core.S("beg", fmt.Sprint(t.Beg)), core.S("end", fmt.Sprint(t.End))}, " ") + "))"
}

// bmAnswer is a parsed answer of the driver: (ok nil) or (ok (field int…)… (pages (P int…)…) …).
type bmAnswer struct {
	Nil    bool
	Fields map[string][]int
	Pages  [][]int // page index followed by its entries
}

func bmParseAnswer(s string) (*bmAnswer, error) {
	a := &bmAnswer{Fields: map[string][]int{}}
	depth := 0
	field := ""
	wantName := false
	seenOK := false
	i, n := 0, len(s)
	for i < n {
		ch := s[i]
		switch {
		case ch == ' ':
			i++
		case ch == '(':
			depth++
			i++
			switch depth {
			case 1, 2:
				wantName = true
			case 3:
				if field != "pages" {
					return nil, fmt.Errorf("nested list inside field %q", field)
				}
				a.Pages = append(a.Pages, nil)
			default:
				return nil, fmt.Errorf("answer nested too deeply")
			}
		case ch == ')':
			depth--
			i++
			if depth < 0 {
				return nil, fmt.Errorf("unbalanced answer")
			}
			if depth == 1 {
				field = ""
			}
		default:
			j := i
			for j < n && s[j] != ' ' && s[j] != '(' && s[j] != ')' {
				j++
			}
			tok := s[i:j]
			i = j
			switch {
			case wantName && depth == 1:
				if tok != "ok" {
					return nil, fmt.Errorf("answer is not (ok …)")
				}
				seenOK, wantName = true, false
			case wantName && depth == 2:
				field, wantName = tok, false
				if _, dup := a.Fields[field]; dup {
					return nil, fmt.Errorf("field %q twice", field)
				}
				a.Fields[field] = []int{}
			case depth == 1:
				if tok != "nil" {
					return nil, fmt.Errorf("unexpected atom %q", tok)
				}
				a.Nil = true
			default:
				v, neg, k := 0, false, 0
				if tok[0] == '-' {
					neg, k = true, 1
				}
				if k == len(tok) {
					return nil, fmt.Errorf("bad integer %q", tok)
				}
				for ; k < len(tok); k++ {
					if tok[k] < '0' || tok[k] > '9' {
						return nil, fmt.Errorf("bad integer %q", tok)
					}
					v = v*10 + int(tok[k]-'0')
				}
				if neg {
					v = -v
				}
				if depth == 3 {
					a.Pages[len(a.Pages)-1] = append(a.Pages[len(a.Pages)-1], v)
				} else {
					a.Fields[field] = append(a.Fields[field], v)
				}
			}
		}
	}
	if depth != 0 || !seenOK {
		return nil, fmt.Errorf("malformed answer")
	}
	return a, nil
}

func bmIntsEq(a, b []int) bool {
	if len(a) != len(b) {
		return false
	}
	for i := range a {
		if a[i] != b[i] {
			return false
		}
	}
	return true
}

// bmShow abbreviates a table for a failure record: length and the entries that differ from the most
// common value are what matters.
func bmShow(xs []int) string {
	if len(xs) <= 64 {
		return fmt.Sprint(xs)
	}
	count := map[int]int{}
	best := 0
	for _, x := range xs {
		count[x]++
		if count[x] > count[best] || count[best] == 0 {
			best = x
		}
	}
	if count[best] == len(xs) {
		return fmt.Sprintf("[%d entries, all %d]", len(xs), best)
	}
	var b strings.Builder
	fmt.Fprintf(&b, "[%d entries, %d everywhere except", len(xs), best)
	k := 0
	for i, x := range xs {
		if x != best {
			if k == 40 {
				b.WriteString(" …")
				break
			}
			fmt.Fprintf(&b, " [%d]=%d", i, x)
			k++
		}
	}
	b.WriteByte(']')
	return b.String()
}

func bmLenBucket(n int) string {
	switch {
	case n <= 1:
		return "len=1"
	case n <= 4:
		return "len=2-4"
	case n <= 16:
		return "len=5-16"
	case n <= 50:
		return "len=17-50"
	}
	return "len=51+"
}

// The check -----------------------------------------------------------------------------------------

type bmGoText struct {
	scan    []int  // per index 0..len; only [beg, end] filled
	ismatch []bool // per index 0..len
}

func bmCheck(c *core.Ctx, cases []bmCase) []core.Outcome {
	outs := make([]core.Outcome, len(cases))
	prop := c.Property
	type pending struct {
		ci, ti int // case, text
	}
	var lines []string
	var where []pending
	goNil := make([]bool, len(cases))
	goTexts := make([][]bmGoText, len(cases))
	goTabs := make([]map[string][]int, len(cases))
	goPages := make([][][]int, len(cases))
	// an oracle failure is the finding that matters; a model difference on the same case is appended to
	// its summary
	setFail := func(o *core.Outcome, f *core.Failure) {
		if o.Fail == nil {
			o.Fail = f
		}
	}
	for i := range cases {
		cs := &cases[i]
		o := &outs[i]
		o.Key = fmt.Sprintf("%v|%v|%s", cs.CI, cs.RTL, string(cs.Pattern))
		if !cs.valid() {
			o.Buckets = append(o.Buckets, "invalid-case")
			continue
		}
		fl := cs.flags()
		dir := "dir=ltr"
		if cs.RTL {
			dir = "dir=rtl"
		}
		o.Buckets = append(o.Buckets, dir, bmLenBucket(len(cs.Pattern)))
		if cs.CI {
			o.Buckets = append(o.Buckets, "ci")
		}
		if cs.Shape != "" {
			o.Buckets = append(o.Buckets, "shape="+cs.Shape)
		}
		if cs.Alpha != "" {
			o.Buckets = append(o.Buckets, "alphabet="+cs.Alpha)
		}
		head := fmt.Sprintf("pattern %q (runes %v) caseInsensitive=%v rightToLeft=%v", string(cs.Pattern), core.SInts(cs.Pattern), cs.CI, cs.RTL)
		b, pv := bmGoNew(cs.Pattern, cs.CI, cs.RTL)
		if pv != nil {
			setFail(o, &core.Failure{Kind: "impl-violation", Key: prop + ":bm-panic" + fl,
				Summary: "newBmPrefix panics: " + head, Expected: "no panic", Got: fmt.Sprint(pv)})
			continue
		}
		// the first text carries the tables (and the nil-ness)
		lines = append(lines, bmLine(cs, &cs.Texts[0], true))
		where = append(where, pending{i, 0})
		if b == nil {
			goNil[i] = true
			o.Buckets = append(o.Buckets, "nil")
			continue
		}
		o.Nontrivial = true
		low, _, _ := b.VerifPattern()
		m := len(low)
		positive, ascii, uni, lowA, highA := b.VerifTables()
		goTabs[i] = map[string][]int{"positive": positive, "ascii": ascii, "lowhigh": {int(lowA), int(highA)}}
		pat := make([]int, m)
		for k, r := range low {
			pat[k] = int(r)
		}
		goTabs[i]["pattern"] = pat
		for pi, pg := range uni {
			if pg != nil {
				goPages[i] = append(goPages[i], append([]int{pi}, pg...))
			}
		}
		switch len(goPages[i]) {
		case 0:
			o.Buckets = append(o.Buckets, "pages=0")
		case 1:
			o.Buckets = append(o.Buckets, "pages=1")
		default:
			o.Buckets = append(o.Buckets, "pages=2+")
		}
		if len(ascii) == 256 {
			o.Buckets = append(o.Buckets, "ascii256")
		}
		hit, window := false, false
		kinds := map[string]bool{}
		goTexts[i] = make([]bmGoText, len(cs.Texts))
		for ti := range cs.Texts {
			t := &cs.Texts[ti]
			text, n := t.Text, len(t.Text)
			if ti > 0 {
				lines = append(lines, bmLine(cs, t, false))
				where = append(where, pending{i, ti})
			}
			if t.Beg != 0 || t.End != n {
				window = true
			}
			if t.Kind != "" && !kinds[t.Kind] {
				kinds[t.Kind] = true
				o.Buckets = append(o.Buckets, "text="+t.Kind)
			}
			occ := make([]bool, n+1)
			for s := 0; s <= n; s++ {
				occ[s] = bmOccurs(low, text, s, cs.CI)
			}
			g := bmGoText{scan: make([]int, n+1), ismatch: make([]bool, n+1)}
			at := func(index int) string {
				return fmt.Sprintf("%s text %q (runes %v) index %d window [%d,%d]", head, string(text), core.SInts(text), index, t.Beg, t.End)
			}
			for index := 0; index <= n; index++ {
				im, pv := bmGoIsMatch(b, text, index, t.Beg, t.End)
				if pv != nil {
					setFail(o, &core.Failure{Kind: "impl-violation", Key: prop + ":bm-panic" + fl,
						Summary: "IsMatch panics: " + at(index), Expected: "no panic", Got: fmt.Sprint(pv)})
					continue
				}
				g.ismatch[index] = im
				if want := bmNaiveIsMatch(occ, m, index, t.Beg, t.End, cs.RTL); im != want {
					setFail(o, &core.Failure{Kind: "impl-violation", Key: prop + ":bm-oracle-ismatch" + fl,
						Summary:  "IsMatch differs from the direct comparison of the pattern with the text at the index: " + at(index),
						Expected: fmt.Sprint(want), Got: fmt.Sprint(im)})
				}
			}
			for index := t.Beg; index <= t.End; index++ {
				r, pv := bmGoScan(b, text, index, t.Beg, t.End)
				if pv != nil {
					g.scan[index] = -2
					setFail(o, &core.Failure{Kind: "impl-violation", Key: prop + ":bm-panic" + fl,
						Summary: "Scan panics: " + at(index), Expected: "no panic", Got: fmt.Sprint(pv)})
					continue
				}
				g.scan[index] = r
				if r >= 0 {
					hit = true
				}
				if want := bmNaiveScan(occ, m, index, t.Beg, t.End, cs.RTL); r != want {
					what := "the smallest start >= index of an occurrence that ends inside the window"
					if cs.RTL {
						what = "the largest end <= index of an occurrence that starts inside the window"
					}
					setFail(o, &core.Failure{Kind: "impl-violation", Key: prop + ":bm-oracle-scan" + fl,
						Summary:  "Scan differs from a naive search (" + what + ", -1 when there is none): " + at(index),
						Expected: fmt.Sprint(want), Got: fmt.Sprint(r)})
				}
			}
			goTexts[i][ti] = g
		}
		if hit {
			o.Buckets = append(o.Buckets, "hit")
		} else {
			o.Buckets = append(o.Buckets, "miss")
		}
		if window {
			o.Buckets = append(o.Buckets, "window")
		}
	}
	res, err := c.RunDriver(lines)
	if err != nil {
		for i := range outs {
			if outs[i].Fail == nil {
				outs[i].Fail = core.DriverFailure(err)
				break
			}
		}
		return outs
	}
	// a model difference: recorded as the case's failure, or noted on the oracle failure already there
	differs := func(i int, key, summary, want, got string) {
		o := &outs[i]
		if o.Fail == nil {
			o.Fail = &core.Failure{Kind: "correspondence-break", Key: key, Summary: summary, Expected: want, Got: got}
		} else if o.Fail.Kind == "impl-violation" && !strings.Contains(o.Fail.Summary, "[the Lean model also differs") {
			o.Fail.Summary += " [the Lean model also differs from the Go code on this case: " + key + "]"
		}
	}
	for k, w := range where {
		i := w.ci
		cs := &cases[i]
		t := &cs.Texts[w.ti]
		fl := cs.flags()
		head := fmt.Sprintf("pattern %q (runes %v) caseInsensitive=%v rightToLeft=%v", string(cs.Pattern), core.SInts(cs.Pattern), cs.CI, cs.RTL)
		a, perr := bmParseAnswer(res[k])
		if perr != nil {
			got := res[k]
			if len(got) > 300 {
				got = got[:300] + "…"
			}
			differs(i, "model:bm-driver-answer", "the Lean driver's answer to the Boyer-Moore request is not understood ("+perr.Error()+"): "+head, "(ok …)", got)
			continue
		}
		if a.Nil != goNil[i] {
			say := func(b bool) string {
				if b {
					return "nil"
				}
				return "a prefix"
			}
			differs(i, prop+":bm-nil"+fl, "newBmPrefix and its model disagree on whether a prefix is built: "+head, say(a.Nil), say(goNil[i]))
			continue
		}
		if a.Nil {
			continue
		}
		if w.ti == 0 {
			for _, f := range []string{"pattern", "positive", "lowhigh", "ascii"} {
				lean, ok := a.Fields[f]
				if !ok || !bmIntsEq(lean, goTabs[i][f]) {
					differs(i, prop+":bm-tables:"+f+fl, "newBmPrefix's table "+f+" differs from the model's: "+head, bmShow(lean), bmShow(goTabs[i][f]))
				}
			}
			_, ok := a.Fields["pages"]
			same := ok && len(a.Pages) == len(goPages[i])
			for p := 0; same && p < len(a.Pages); p++ {
				same = bmIntsEq(a.Pages[p], goPages[i][p])
			}
			if !same {
				show := func(ps [][]int) string {
					var parts []string
					for _, p := range ps {
						if len(p) > 0 {
							parts = append(parts, fmt.Sprintf("page %d: %s", p[0], bmShow(p[1:])))
						}
					}
					return "[" + strings.Join(parts, "; ") + "]"
				}
				differs(i, prop+":bm-tables:pages"+fl, "newBmPrefix's allocated negativeUnicode pages differ from the model's: "+head, show(a.Pages), show(goPages[i]))
			}
		}
		g := goTexts[i][w.ti]
		n := len(t.Text)
		at := func(index int) string {
			return fmt.Sprintf("%s text %q (runes %v) index %d window [%d,%d]", head, string(t.Text), core.SInts(t.Text), index, t.Beg, t.End)
		}
		sc, im := a.Fields["scan"], a.Fields["ismatch"]
		if len(sc) != n+1 || len(im) != n+1 {
			differs(i, "model:bm-driver-answer", "the Lean driver's answer has the wrong number of scan/ismatch entries: "+head, fmt.Sprint(n+1), fmt.Sprint(len(sc), len(im)))
			continue
		}
		for index := t.Beg; index <= t.End; index++ {
			if g.scan[index] != sc[index] && g.scan[index] != -2 {
				differs(i, prop+":bm-scan"+fl, "Scan differs from its model (Model/BoyerMoore.lean): "+at(index), fmt.Sprint(sc[index]), fmt.Sprint(g.scan[index]))
				break
			}
		}
		for index := 0; index <= n; index++ {
			if gi := core.SBool(g.ismatch[index]); gi != fmt.Sprint(im[index]) {
				differs(i, prop+":bm-ismatch"+fl, "IsMatch differs from its model (Model/BoyerMoore.lean): "+at(index), fmt.Sprint(im[index]), gi)
				break
			}
		}
	}
	return outs
}

// Generators ----------------------------------------------------------------------------------------

// bmFolds: for a rune l, the runes r != l with unicode.ToLower(r) == l (computed once, by a sweep).
var (
	bmFoldsOnce sync.Once
	bmFoldsMap  map[rune][]rune
)

func bmFolds(l rune) []rune {
	bmFoldsOnce.Do(func() {
		bmFoldsMap = map[rune][]rune{}
		for r := rune(0); r <= 0x1FFFF; r++ {
			if lo := unicode.ToLower(r); lo != r {
				bmFoldsMap[lo] = append(bmFoldsMap[lo], r)
			}
		}
	})
	return bmFoldsMap[l]
}

// bmVary: under ci, some rune that compares equal to r (same ToLower); r itself otherwise.
func bmVary(rng *rand.Rand, r rune, ci bool) rune {
	if !ci || rng.Intn(2) == 0 {
		return r
	}
	l := unicode.ToLower(r)
	fs := bmFolds(l)
	k := rng.Intn(len(fs) + 1)
	if k == len(fs) {
		return l
	}
	return fs[k]
}

var bmAlphabets = []struct {
	name  string
	runes []rune
}{
	{"ab", []rune("ab")},
	{"abc", []rune("abc")},
	{"ascii", []rune("abcdefghijklmnopqrstuvwxyzABCDEFGHIJKLMNOPQRSTUVWXYZ")},
	{"asciifold", []rune("aAbBkKsSiI")},
	{"latin1", []rune("éÉÿŸabßµ")},
	{"greekcyr", []rune("σςΣαΑβдДжЖя")},
	{"ff", []rune{0xFF21, 0xFF41, 0xFF42, 0xFFFF, 0xFFFE, 0xFFFD, 0xFF00}},
	{"astral", []rune{'a', 'b', 0x10400, 0x10428, 0x1F600}},
	{"mixed", []rune{'a', 'b', 'K', 0xE9, 0xC9, 0xFF, 0x130, 0x131, 0x1C5, 0x3C3, 0x3A3, 0x434, 0x212A, 0x1E9E, 0xFF21, 0xFFFF}},
}

var bmForeign = []rune{'z', 'Z', 0, 0x7F, 0x80, 0xFF, 0x100, 0x17F, 0x2000, 0xFFFE, 0xFFFF, 0x10000, 0x10FFFF}

type bmGen struct{}

func bmPick(rng *rand.Rand, rs []rune) rune { return rs[rng.Intn(len(rs))] }

func bmWord(rng *rand.Rand, al []rune, n int) []rune {
	w := make([]rune, n)
	for i := range w {
		w[i] = bmPick(rng, al)
	}
	return w
}

func bmPeriod(p []rune) int {
	for d := 1; d < len(p); d++ {
		ok := true
		for i := d; i < len(p) && ok; i++ {
			ok = p[i] == p[i-d]
		}
		if ok {
			return d
		}
	}
	return len(p)
}

func (g *bmGen) pattern(rng *rand.Rand, al []rune) (pat []rune, shape string) {
	var L int
	switch k := rng.Intn(100); {
	case k < 65:
		L = 1 + rng.Intn(8)
	case k < 88:
		L = 9 + rng.Intn(31)
	default:
		L = 40 + rng.Intn(21)
	}
	switch rng.Intn(6) {
	case 0, 1:
		return bmWord(rng, al, L), "uniform"
	case 2:
		w := bmWord(rng, al, 1+rng.Intn(4))
		pat = make([]rune, L)
		for i := range pat {
			pat[i] = w[i%len(w)]
		}
		return pat, "periodic"
	case 3:
		a, b := bmPick(rng, al), bmPick(rng, al)
		for t := 0; b == a && t < 8; t++ {
			b = bmPick(rng, al)
		}
		k := (L - 1) / 2
		for i := 0; i < k; i++ {
			pat = append(pat, a)
		}
		pat = append(pat, b)
		for i := 0; i < k; i++ {
			pat = append(pat, a)
		}
		return pat, "akbak"
	case 4:
		x := bmWord(rng, al, 1+rng.Intn(L/3+1))
		y := bmWord(rng, al, rng.Intn(L/3+2))
		pat = append(append(append(pat, x...), y...), x...)
		if len(pat) > 60 {
			pat = pat[:60]
		}
		return pat, "border"
	default:
		w := bmWord(rng, al, 1+rng.Intn(4))
		pat = make([]rune, L)
		for i := range pat {
			pat[i] = w[i%len(w)]
		}
		for k := 1 + rng.Intn(2); k > 0; k-- {
			pat[rng.Intn(L)] = bmPick(rng, al)
		}
		return pat, "periodic-mutated"
	}
}

func (g *bmGen) next(rng *rand.Rand, _ int) bmCase {
	ai := 0
	switch k := rng.Intn(100); {
	case k < 14:
		ai = 0
	case k < 28:
		ai = 1
	case k < 38:
		ai = 2
	case k < 50:
		ai = 3
	case k < 63:
		ai = 4
	case k < 76:
		ai = 5
	case k < 87:
		ai = 6
	case k < 90:
		ai = 7
	default:
		ai = 8
	}
	al := bmAlphabets[ai].runes
	cs := bmCase{CI: rng.Intn(100) < 40, RTL: rng.Intn(2) == 0}
	cs.Pattern, cs.Shape = g.pattern(rng, al)
	cs.Alpha = bmAlphabets[ai].name
	nt := 3 + rng.Intn(4)
	for k := 0; k < nt; k++ {
		kind := rng.Intn(100)
		if k == 0 {
			kind = 40 // the first text has the pattern planted
		}
		cs.Texts = append(cs.Texts, bmMakeText(rng, &cs, al, kind))
	}
	return cs
}

// bmMakeText: kind < 30 random, < 65 planted, < 90 near-periodic, else empty / too short.
func bmMakeText(rng *rand.Rand, cs *bmCase, al []rune, kind int) bmText {
	pat, ci := cs.Pattern, cs.CI
	L := len(pat)
	maxLen := 3*L + 20
	filler := func() rune {
		switch k := rng.Intn(100); {
		case k < 70:
			return bmVary(rng, bmPick(rng, pat), ci)
		case k < 93:
			return bmVary(rng, bmPick(rng, al), ci)
		case k < 96:
			// same table page as a pattern rune, another entry
			if r := bmPick(rng, pat) ^ rune(1+rng.Intn(255)); bmValidRune(r) {
				return r
			}
			return 'z'
		default:
			return bmPick(rng, bmForeign)
		}
	}
	copyOf := func(nearMiss bool) []rune {
		w := make([]rune, L)
		for i, r := range pat {
			w[i] = bmVary(rng, r, ci)
		}
		if nearMiss {
			j := rng.Intn(L)
			for t := 0; t < 8; t++ {
				r := filler()
				if unicode.ToLower(r) != unicode.ToLower(pat[j]) {
					w[j] = r
					break
				}
			}
		}
		return w
	}
	var t bmText
	switch {
	case kind < 30:
		t.Kind = "random"
		n := rng.Intn(maxLen + 1)
		for i := 0; i < n; i++ {
			t.Text = append(t.Text, filler())
		}
	case kind < 65:
		t.Kind = "planted"
		n := L + rng.Intn(maxLen-L+1)
		for i := 0; i < n; i++ {
			t.Text = append(t.Text, filler())
		}
		for k := 1 + rng.Intn(3); k > 0; k-- {
			pos := rng.Intn(n - L + 1)
			switch v := rng.Intn(10); {
			case v < 6:
				copy(t.Text[pos:], copyOf(false))
			case v < 8:
				copy(t.Text[pos:], copyOf(true))
				t.Kind = "planted+nearmiss"
			default:
				// two copies overlapping each other (the later one wins where they differ)
				copy(t.Text[pos:], copyOf(false))
				if L > 1 {
					d := 1 + rng.Intn(L-1)
					if rng.Intn(2) == 0 {
						d = bmPeriod(pat)
					}
					if pos+d+L <= n {
						copy(t.Text[pos+d:], copyOf(false))
					} else if pos-d >= 0 {
						copy(t.Text[pos-d:], copyOf(false))
					}
				}
			}
		}
	case kind < 90:
		t.Kind = "near-periodic"
		p := bmPeriod(pat)
		n := rng.Intn(maxLen + 1)
		off := rng.Intn(p)
		for i := 0; i < n; i++ {
			t.Text = append(t.Text, bmVary(rng, pat[(i+off)%p], ci))
		}
		for k := rng.Intn(3); k > 0 && n > 0; k-- {
			t.Text[rng.Intn(n)] = filler()
		}
	default:
		t.Kind = "short"
		switch rng.Intn(4) {
		case 0:
		case 1:
			t.Text = copyOf(false)[:L-1]
		case 2:
			t.Text = copyOf(false)[1:]
		default:
			n := rng.Intn(L)
			for i := 0; i < n; i++ {
				t.Text = append(t.Text, filler())
			}
		}
	}
	if t.Text == nil {
		t.Text = []rune{}
	}
	n := len(t.Text)
	t.Beg, t.End = 0, n
	if rng.Intn(4) == 0 && n > 0 {
		switch rng.Intn(5) {
		case 0:
			t.Beg = 1
		case 1:
			t.End = n - 1
		case 2:
			if n >= 2 {
				t.Beg, t.End = 1, n-1
			}
		default:
			t.Beg = rng.Intn(n + 1)
			t.End = t.Beg + rng.Intn(n-t.Beg+1)
		}
	}
	return t
}

// bmCorpus: fixed witnesses, every one in both directions (right-to-left also mirrored) and, where the
// text has room, once more with a window that cuts one rune off each side.
func bmCorpus() []bmCase {
	type e struct {
		pat   string
		ci    bool
		texts []string
	}
	es := []e{
		// D43 (fixed in /repo 649b08f): U+FFFF in the text was not looked up in the page the constructor
		// filled; left-to-right the occurrence is at 1, mirrored right-to-left it ends at 2
		{"\uffffa", false, []string{"x\uffffa", "\uffffa", "\uffff\uffffa\uffffa", "a\uffffx"}},
		{"a\uffff", false, []string{"a\uffffx", "xa\uffff", "a\uffffa\uffff\uffff"}},
		{"abab", false, []string{"xxababab", "abababab", "abaabab", "bababa", ""}},
		{"aaa", false, []string{"aaaaaa", "aabaaabaaaa", "aa", "baaab"}},
		{"aab", false, []string{"aaaab", "aabaab", "abaabaaab", "aaa"}},
		{"baa", false, []string{"baaaa", "baabaa", "bbaabaab", "aaa"}},
		{"abcab", false, []string{"abcabcab", "abcaabcab", "xabcabx", "abcabcabcab", "ababcab"}},
		{"abcxabc", false, []string{"abcxabcxabc", "abcabcxabc", "xxabcxabcxx", "abcxabxabcxabc"}},
		{"café", false, []string{"un café, deux cafés", "cafe cafÉ café", "écafé", "ÿé"}},
		{"éaÿb", false, []string{"éaÿbéaÿb", "aÿbéaÿb", "\u0080éaÿb\u007f"}},
		{"σдαж", false, []string{"σдαж", "дασдαжж", "σдαеσдαж", "\u0400\u0300aσдαж"}},
		{"a\uffff\ufffeb", false, []string{"a\uffff\ufffeb", "\ufffe\uffffa\uffff\ufffeb\uffff", "a\ufffe\uffffba\uffff\ufffeb", "\uff00a\uffff\ufffeb"}},
		{"ab\U00010400", false, []string{"ab\U00010400", "xab"}},
		{"\U0001F600", true, []string{"\U0001F600"}},
		{"ABC", true, []string{"xxabcABCaBc", "ab", "abABc", "ÅBC"}},
		{"Straße", true, []string{"STRASSE straße STRAẞE", "Straße", "straßstraße"}},
		{"İi", true, []string{"iİIıİi", "ii", "İİ", "ıi"}},
		{"ǅ", true, []string{"Ǆǅǆ", "dzǅ", ""}},
		{"xǅy", true, []string{"XǄYXǅYxǆy", "xǆ"}},
		{"K", true, []string{"k K K", "K", "x"}},
		{"Ka", true, []string{"ka Ka Ka KA", "KKa"}},
		{"Ka", false, []string{"ka Ka Ka KA", "KKa"}},
		{"ΣΑΣ", true, []string{"σας σασ ΣΑΣ ςασ", "σασασ", "ΣΑς"}},
		{"ΣΑΣ", false, []string{"σασ ΣΑΣ", "ΣΑΣΑΣ"}},
		{"Ａｂ", true, []string{"ａｂＡＢａＢ", "Ａ"}},
		{"a", false, []string{"", "a", "aaa", "bab", "b"}},
		{"ÿ", true, []string{"Ÿÿ", "y"}},
	}
	rev := func(rs []rune) []rune {
		out := make([]rune, len(rs))
		for i, r := range rs {
			out[len(rs)-1-i] = r
		}
		return out
	}
	var out []bmCase
	for _, x := range es {
		for v := 0; v < 3; v++ {
			cs := bmCase{Pattern: []rune(x.pat), CI: x.ci, RTL: v > 0, Shape: "corpus"}
			if v == 2 {
				cs.Pattern = rev(cs.Pattern)
			}
			for _, s := range x.texts {
				text := []rune(s)
				if v == 2 {
					text = rev(text)
				}
				cs.Texts = append(cs.Texts, bmText{Text: text, Beg: 0, End: len(text), Kind: "corpus"})
				if len(text) >= 3 {
					cs.Texts = append(cs.Texts, bmText{Text: text, Beg: 1, End: len(text) - 1, Kind: "corpus"})
				}
			}
			out = append(out, cs)
		}
	}
	return out
}

// c03RegisterBm runs leg Bm; div scales the generated part down (C04 runs a tenth of C03's).
func c03RegisterBm(c *core.Ctx, div int) {
	if div < 1 {
		div = 1
	}
	g := &bmGen{}
	core.RunLeg(c, core.Leg[bmCase]{
		Name: "Bm", Kind: "correspondence(Boyer-Moore model)+oracle(naive search)",
		Rule: "literal patterns (no regex): a corpus of fixed witnesses (U+FFFF next to an ASCII rune — defect D43 —, abab, aaa, aab/baa, abcab, abcxabc, Latin-1 with ASCII, two Unicode pages, U+FFFF with U+FFFE, astral runes, case-insensitive ABC / Straße / İi / ǅ / Kelvin sign / ΣΑΣ against ς σ Σ; each left-to-right, right-to-left and right-to-left mirrored, each text also with a window cutting one rune off each side), then random patterns of 1..60 runes (65% 1..8, 12% 40..60) over {a,b}, {a,b,c}, ASCII letters, an ASCII set with K/S/I folds, Latin-1 (é É ÿ Ÿ ß µ), Greek/Cyrillic, U+FF00..U+FFFF incl. U+FFFF, astral (3%), a mix of pages; shapes uniform / periodic w^k·prefix / a^k b a^k / border x y x / periodic with 1-2 mutations; caseInsensitive 40%, rightToLeft 50%. 3-6 texts per pattern: random over the pattern's runes (case variants = any rune with the same unicode.ToLower when case-insensitive, plus runes on the same table page and foreign runes), the pattern planted 1-3 times (plain, near-miss copy, two overlapping copies), near-periodic texts from the pattern's own period with 0-2 mutations, empty / shorter than the pattern; 25% of the texts with a window 0 <= beg <= end <= len. Per case: newBmPrefix through the hook VerifNewBmPrefix, tables through VerifTables, Scan from every index of the window, IsMatch from every index of the text. (1) the Lean model (Model/BoyerMoore.lean; unicode.ToLower passed as a table) must agree on nil-ness, the lower-cased pattern, positive, lowASCII/highASCII, negativeASCII, the allocated negativeUnicode pages, every Scan and every IsMatch result; (2) without any model: Scan = first occurrence in scan order inside the window by direct comparison (left-to-right the smallest start >= index with start+len <= end, right-to-left the largest end <= index with end-len >= beg, else -1), IsMatch = occurrence exactly at the index inside the window. non-trivial = a prefix was built (no rune above U+FFFF)",
		N:    c.N(1500, 60000) / div, Corpus: bmCorpus(), Gen: g.next, Check: bmCheck, Batch: 500,
	})
}
