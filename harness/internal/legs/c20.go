package legs

import (
	"fmt"
	"math/rand"
	"time"

	"rvharness/internal/core"
	"rvharness/internal/gen"

	regexp2 "github.com/dlclark/regexp2/v2"
)

// C20 — case-insensitive matching ignores case.

type c20Case struct {
	Ast   *gen.Node `json:"ast"`
	Opts  gen.Opts  `json:"opts"`
	Text  []rune    `json:"text"`
	Start int       `json:"start"`
	// FlipText[i]: flip the case of input rune i; FlipPat: indexes (in pre-order literal/class-item
	// numbering) of pattern letters/ranges whose case is flipped.
	FlipText []int  `json:"flip_text"`
	FlipPat  []int  `json:"flip_pat"`
	Pattern  string `json:"pattern,omitempty"`
	Pattern2 string `json:"pattern2,omitempty"`
}

func flipRune(r rune) rune {
	if p, ok := gen.SimplePartner(r); ok {
		return p
	}
	return r
}

// cloneNode deep-copies an AST.
func cloneNode(n *gen.Node) *gen.Node {
	c := *n
	if n.Class != nil {
		c.Class = cloneClass(n.Class)
	}
	c.Subs = nil
	for _, s := range n.Subs {
		c.Subs = append(c.Subs, cloneNode(s))
	}
	return &c
}

func cloneClass(c *gen.Class) *gen.Class {
	d := *c
	d.Items = append([]gen.ClassItem(nil), c.Items...)
	if c.Sub != nil {
		d.Sub = cloneClass(c.Sub)
	}
	return &d
}

// flipPattern flips the case of the selected letters / ranges (both endpoints together, only when
// both have simple partners and the flipped range is still ascending and of the same width).
func flipPattern(n *gen.Node, sel map[int]bool) {
	k := 0
	n.Walk(func(x *gen.Node) {
		switch x.Kind {
		case gen.KLit:
			if sel[k] {
				x.Ch = flipRune(x.Ch)
			}
			k++
		case gen.KClass:
			for c := x.Class; c != nil; c = c.Sub {
				for i := range c.Items {
					it := &c.Items[i]
					if it.Short == 0 {
						if sel[k] {
							lo, hi := flipRune(it.Lo), flipRune(it.Hi)
							if lo != it.Lo && hi != it.Hi && hi-lo == it.Hi-it.Lo {
								it.Lo, it.Hi = lo, hi
							} else if it.Lo == it.Hi {
								it.Lo, it.Hi = lo, lo
							}
						}
						k++
					}
				}
			}
		}
	})
}

func countFlippable(n *gen.Node) int {
	k := 0
	n.Walk(func(x *gen.Node) {
		switch x.Kind {
		case gen.KLit:
			k++
		case gen.KClass:
			for c := x.Class; c != nil; c = c.Sub {
				for _, it := range c.Items {
					if it.Short == 0 {
						k++
					}
				}
			}
		}
	})
	return k
}

type c20GenState struct {
	spec *specGenState
}

func (g *c20GenState) next(rng *rand.Rand, i int) c20Case {
	sc := g.spec.next(rng, i)
	cs := c20Case{Ast: sc.Ast, Opts: sc.Opts, Text: sc.Text, Start: sc.Start}
	for j := range cs.Text {
		if rng.Intn(3) == 0 {
			cs.FlipText = append(cs.FlipText, j)
		}
	}
	n := countFlippable(cs.Ast)
	for j := 0; j < n; j++ {
		if rng.Intn(3) == 0 {
			cs.FlipPat = append(cs.FlipPat, j)
		}
	}
	return cs
}

func c20Check(c *core.Ctx, cases []c20Case) []core.Outcome {
	outs := make([]core.Outcome, len(cases))
	for i := range cases {
		cs := &cases[i]
		o := &outs[i]
		ng := gen.AssignGroups(cs.Ast, cs.Opts)
		pat := cs.Ast.Print(cs.Opts)
		ast2 := cloneNode(cs.Ast)
		sel := map[int]bool{}
		for _, k := range cs.FlipPat {
			sel[k] = true
		}
		flipPattern(ast2, sel)
		gen.AssignGroups(ast2, cs.Opts)
		pat2 := ast2.Print(cs.Opts)
		cs.Pattern, cs.Pattern2 = pat, pat2
		text2 := append([]rune(nil), cs.Text...)
		for _, j := range cs.FlipText {
			if j < len(text2) {
				text2[j] = flipRune(text2[j])
			}
		}
		o.Key = fmt.Sprintf("%s|%s|%s|%s|%s|%d", cs.Opts, pat, pat2, string(cs.Text), string(text2), cs.Start)
		o.Nontrivial = (pat != pat2 || string(text2) != string(cs.Text)) && len(cs.Text) > 0
		if pat != pat2 {
			o.Buckets = append(o.Buckets, "pattern-flipped")
		}
		if string(text2) != string(cs.Text) {
			o.Buckets = append(o.Buckets, "input-flipped")
		}
		re1, err1 := regexp2.Compile(pat, regexOptions(cs.Opts))
		re2, err2 := regexp2.Compile(pat2, regexOptions(cs.Opts))
		if err1 != nil || err2 != nil {
			o.Fail = &core.Failure{Kind: "correspondence-break", Key: "compile-error", Summary: fmt.Sprintf("generated pattern does not compile: %q / %q: %v %v", pat, pat2, err1, err2)}
			continue
		}
		re1.MatchTimeout, re2.MatchTimeout = 3*time.Second, 3*time.Second
		base, e0 := re1.FindRunesMatchStartingAt(cs.Text, cs.Start)
		if e0 != nil {
			o.Buckets = append(o.Buckets, "go-error")
			continue
		}
		want := renderMatch(base, ng)
		if base == nil {
			o.Buckets = append(o.Buckets, "nomatch")
		} else {
			o.Buckets = append(o.Buckets, "match")
		}
		type variant struct {
			name string
			re   *regexp2.Regexp
			text []rune
		}
		for _, v := range []variant{{"input-flip", re1, text2}, {"pattern-flip", re2, cs.Text}, {"both-flip", re2, text2}} {
			m, err := v.re.FindRunesMatchStartingAt(v.text, cs.Start)
			if err != nil {
				continue
			}
			got := renderMatch(m, ng)
			if got != want {
				o.Fail = &core.Failure{Kind: "impl-violation", Key: "C20:" + v.name + ":" + classify(cs.Ast, cs.Opts),
					Summary:  fmt.Sprintf("IgnoreCase result changes under %s: pattern %q / %q options %s input %q / %q start %d", v.name, pat, pat2, cs.Opts, string(cs.Text), string(text2), cs.Start),
					Expected: want, Got: got}
				break
			}
		}
		// the string entry points go through the prefix-search fast paths
		if o.Fail == nil && !cs.Opts.RTL {
			a, _ := re1.MatchString(string(cs.Text))
			b, _ := re1.MatchString(string(text2))
			d, _ := re2.MatchString(string(cs.Text))
			if a != b || a != d {
				o.Fail = &core.Failure{Kind: "impl-violation", Key: "C20:matchstring:" + classify(cs.Ast, cs.Opts),
					Summary:  fmt.Sprintf("IgnoreCase MatchString changes under case flips: pattern %q / %q options %s input %q / %q", pat, pat2, cs.Opts, string(cs.Text), string(text2)),
					Expected: fmt.Sprint(a), Got: fmt.Sprint(b, d)}
			}
		}
	}
	return outs
}

func c20Config(rng *rand.Rand) gen.Config {
	o := randOpts(rng, rng.Intn(5) == 0, false)
	o.I = true
	return gen.Config{MaxDepth: 2 + rng.Intn(3), Opts: o, Backrefs: true, Lookaround: true, Atomic: true,
		Conditionals: true, Named: true, Anchors: true, LazyQuant: true,
		// letters with plain case pairs only (ASCII without k/s, Latin-1, Greek, Cyrillic) plus neutrals
		Alphabet: []rune{'a', 'b', 'c', 'A', 'B', 'x', 'Y', 'é', 'É', 'α', 'Α', 'я', 'Я', 'ö', 'Ω', 'д', '1', ' ', '-', '\n'}}
}

func init() {
	core.Register("C20", func(c *core.Ctx) {
		defer c20FoldLeg(c)
		g := &c20GenState{spec: &specGenState{cfg: c20Config, perAst: 6, maxLen: 10}}
		core.RunLeg(c, core.Leg[c20Case]{
			Name: "F", Kind: "oracle(flips)",
			Rule: "random ASTs of the C01 fragment compiled with IgnoreCase (plus random m/s/n/x, 20% RightToLeft), literals/classes/ranges/subtractions/backrefs over letters with plain case pairs (ASCII without k/s, Latin-1, Greek, Cyrillic); each case flips the case of a random third of the input letters and of a random third of the pattern's literal letters / class members / range endpoints; Go find (span + all captures) on (pattern,input) must equal find on (pattern,flipped input), (flipped pattern,input), (flipped pattern,flipped input); MatchString likewise (prefix-search fast paths); first a corpus of backreferences matched right to left (RightToLeft, or inside a lookbehind) whose text differs from the capture only in case. non-trivial = something was flipped and input non-empty",
			Corpus: c20RtlRefCorpus(),
			N:      c.N(6000, 300000), Gen: g.next, Check: c20Check, Batch: 4000,
		})
		st := &specGenState{cfg: c20Config, perAst: 6, maxLen: 10}
		core.RunLeg(c, core.Leg[specCase]{
			Name: "S-ci", Kind: "correspondence(spec)",
			Rule: "as leg S of C01 with IgnoreCase always on: Go find vs Lean Spec.find, where a literal matches a rune iff equal or simple case partners, a class member test also accepts the partner, back-references compare up to partners",
			N:    c.N(4000, 200000), Gen: st.next, Check: specCheck("C20"), Batch: 4000,
		})
	})
}

// c20RtlRefCorpus: a backreference that is matched right to left under IgnoreCase (RightToLeft, or inside a
// lookbehind) and whose text differs from the capture only in case — the one instruction that still reads the
// case-insensitive bit at run time, in the direction the random streams reach least often.
func c20RtlRefCorpus() []c20Case {
	lit := func(r rune) *gen.Node { return &gen.Node{Kind: gen.KLit, Ch: r} }
	var out []c20Case
	for _, r := range []rune{'b', 'q', 'é', 'δ'} {
		rtl := &gen.Node{Kind: gen.KSeq, Subs: []*gen.Node{{Kind: gen.KRef, Group: 1}, {Kind: gen.KCap, Subs: []*gen.Node{lit(r)}}}}
		behind := &gen.Node{Kind: gen.KSeq, Subs: []*gen.Node{
			{Kind: gen.KLook, Behind: true, Subs: []*gen.Node{{Kind: gen.KSeq, Subs: []*gen.Node{{Kind: gen.KRef, Group: 1}, {Kind: gen.KCap, Subs: []*gen.Node{lit(r)}}}}}},
			lit('z')}}
		oR, oB := gen.Opts{I: true, RTL: true}, gen.Opts{I: true}
		gen.AssignGroups(rtl, oR)
		gen.AssignGroups(behind, oB)
		for _, f := range [][]int{{0}, {1}} {
			out = append(out, c20Case{Ast: rtl, Opts: oR, Text: []rune{r, r}, Start: 2, FlipText: f})
			out = append(out, c20Case{Ast: behind, Opts: oB, Text: []rune{r, r, 'z'}, Start: 0, FlipText: f})
		}
	}
	return out
}
