package legs

import (
	"bytes"
	"fmt"
	"io"
	"math/rand"
	"os"
	"reflect"
	"regexp"
	"strings"
	"unicode/utf8"

	"rvharness/internal/core"

	regexp2 "github.com/dlclark/regexp2/v2"
	"github.com/dlclark/regexp2/v2/compat"
)

// C06 — RE2-mode adapter agrees with Go's regexp package.
//
// Leg G: patterns printed from random ASTs over the constructs common to both engines, with no
// quantified nullable sub-pattern (there leftmost-first and backtracking semantics differ
// legitimately), compiled with compat.Compile(p, regexp2.RE2) and regexp.Compile(p); every method of
// compat.Matcher is called on both with the same input and the results compared with
// reflect.DeepEqual (nil-ness included). Correspondence: the Lean model's compatForEach / findAll /
// stdAll are run over the table of single-position matches derived from the standard library and
// compared with what the adapter and the standard library really return.

type c06Case struct {
	Pat string `json:"pat"`
	In  []int  `json:"in"` // input bytes
	// Plain: compile with the RE2 option alone even when named and unnamed groups are mixed
	Plain bool `json:"plain,omitempty"`
	// Probe: name of the known divergence class this fixed case belongs to (leg K)
	Probe string `json:"probe,omitempty"`
}

// c06MixedGroups: the pattern has both named and unnamed capturing groups.
func c06MixedGroups(re *regexp.Regexp) bool {
	named, unnamed := false, false
	for i, n := range re.SubexpNames() {
		if i == 0 {
			continue
		}
		if n == "" {
			unnamed = true
		} else {
			named = true
		}
	}
	return named && unnamed
}

func (cs c06Case) input() []byte {
	b := make([]byte, len(cs.In))
	for i, x := range cs.In {
		b[i] = byte(x)
	}
	return b
}

var c06Ns = []int{-1, 0, 1, 2, 3}

// ---- pattern generator -------------------------------------------------------------------------

type c06Gen struct {
	rng   *rand.Rand
	names int
	// a quantifier with minimum > 0 was put on a single non-word literal or on \W / \D / [^\w]
	nonWordLoop bool
}

// Known finding KF2 (property C05): a loop with minimum > 0 over a non-word character, \W, \D,
// [^\w] or [^\d] is made atomic in front of \B, which loses matches (-+\B on "--b"). Patterns with
// such a loop get \b in place of every \B.
var c06NonWordAtoms = map[string]bool{
	"é": true, "日": true, " ": true, `\n`: true, "-": true, `\.`: true, `\x{e9}`: true, `\+`: true, `\\`: true, `\x{FFFD}`: true,
	`\W`: true, `\D`: true, `[^\w]`: true, `[^\d]`: true,
}

var c06Lits = []string{"a", "a", "b", "b", "c", "x", "A", "B", "é", "日", "1", "_", " ", `\n`, "-", `\.`, `\x41`, `\x{e9}`, "y", "z", `\+`, `\\`, `\x{FFFD}`}

var c06Classes = []string{
	"[ab]", "[^a]", "[a-c]", "[^a-c\\n]", "[[:alpha:]]", "[[:^alpha:]]", "[[:digit:]_]", "[[:space:]]", "[[:word:]]", "[[:upper:]b]", "[^[:lower:]]", "[[:punct:]]",
	`\d`, `\w`, `\s`, `\D`, `\W`, `\S`, `[\d\s]`, `[^\w]`, `[\w-]`, ".", ".", "[é日]", "[^é]", `[\x00-\x{10FFFF}]`, `\pL`, `\PL`, `[\p{Lu}1]`,
}

var c06Anchors = []string{"^", "$", `\A`, `\z`, `\b`, `\B`}

var c06Quants = []string{"*", "+", "?", "{2}", "{1,3}", "{0,2}", "{2,}", "{0}", "{1}"}

// atom returns a quantifiable unit, whether it can match the empty string, and whether it is a
// non-capturing group whose whole body is one quantified piece. Such a group must not be quantified
// again: regexp2 (like .NET) merges directly nested loops of the same greediness into one loop,
// (?:X{2,}?){1,2}? -> X{2,}?, (?:(X)+){2} -> (X){2,}, which changes the preference order among
// matches / the captures whenever the orders differ (design.d/C06.md, "nested quantifiers").
func (g *c06Gen) atom(depth int) (string, bool, bool) {
	r := g.rng.Intn(100)
	switch {
	case r < 35 || depth <= 0 && r < 60:
		return c06Lits[g.rng.Intn(len(c06Lits))], false, false
	case r < 60 || depth <= 0:
		return c06Classes[g.rng.Intn(len(c06Classes))], false, false
	}
	body, nullable, single := g.alt(depth - 1)
	switch g.rng.Intn(8) {
	case 0, 1, 2:
		return "(" + body + ")", nullable, false
	case 3, 4:
		return "(?:" + body + ")", nullable, single
	case 5:
		g.names++
		return fmt.Sprintf("(?P<n%d>%s)", g.names, body), nullable, false
	default:
		flags := []string{"i", "s", "m", "i", "is", "ms", "-s", "-i"}
		return "(?" + flags[g.rng.Intn(len(flags))] + ":" + body + ")", nullable, single
	}
}

// piece = anchor | atom with an optional quantifier (only on a non-nullable atom); the third result
// says whether the piece is transparent to loop merging: a quantified atom, or an unquantified
// non-capturing group around exactly one such piece
func (g *c06Gen) piece(depth int) (string, bool, bool) {
	if g.rng.Intn(8) == 0 {
		return c06Anchors[g.rng.Intn(len(c06Anchors))], true, false
	}
	a, nullable, single := g.atom(depth)
	if nullable || single || g.rng.Intn(5) < 2 {
		return a, nullable, single
	}
	q := c06Quants[g.rng.Intn(len(c06Quants))]
	qn := q == "*" || q == "?" || strings.HasPrefix(q, "{0")
	if !qn && c06NonWordAtoms[a] {
		g.nonWordLoop = true
	}
	if g.rng.Intn(3) == 0 {
		q += "?"
	}
	return a + q, qn, true
}

func (g *c06Gen) seq(depth int) (string, bool, bool) {
	k := 1 + g.rng.Intn(3)
	var sb strings.Builder
	nullable, single := true, false
	for i := 0; i < k; i++ {
		p, pn, ps := g.piece(depth)
		sb.WriteString(p)
		nullable = nullable && pn
		single = k == 1 && ps
	}
	return sb.String(), nullable, single
}

func (g *c06Gen) alt(depth int) (string, bool, bool) {
	k := 1
	if g.rng.Intn(3) == 0 {
		k = 2 + g.rng.Intn(2)
	}
	parts := make([]string, k)
	nullable, single := false, false
	for i := range parts {
		if k > 1 && g.rng.Intn(8) == 0 {
			parts[i] = ""
			nullable = true
			continue
		}
		p, pn, ps := g.seq(depth)
		parts[i] = p
		nullable = nullable || pn
		single = k == 1 && ps
	}
	return strings.Join(parts, "|"), nullable, single
}

var c06InputItems = []string{
	"a", "a", "a", "b", "b", "c", "x", "A", "B", "1", "_", " ", "\n", "-", ".", "y", "Z", "+", "\\",
	"é", "É", "日", "😀", "\u00a0", "\u0416", "\u0663", "\ufffd",
	"\xff", "\xc3", "\xe6\x97", "\xed\xa0\x80", "\xc0\x80", "\xf4\x90\x80\x80", "\x80",
}

func c06GenCase(rng *rand.Rand, i int) c06Case {
	g := &c06Gen{rng: rng}
	pat, _, _ := g.alt(2)
	if g.nonWordLoop {
		pat = strings.ReplaceAll(pat, `\B`, `\b`)
	}
	if rng.Intn(6) == 0 {
		pat = []string{"(?i)", "(?s)", "(?m)", "(?is)", "(?im)"}[rng.Intn(5)] + pat
	}
	n := rng.Intn(8)
	if rng.Intn(5) == 0 {
		n = rng.Intn(14)
	}
	mode := rng.Intn(4) // 0,1: ASCII-ish, 2: multi-byte, 3: invalid bytes allowed
	var sb []byte
	for j := 0; j < n; j++ {
		var it string
		switch {
		case mode <= 1:
			it = c06InputItems[rng.Intn(19)]
		case mode == 2:
			it = c06InputItems[rng.Intn(27)]
		default:
			it = c06InputItems[rng.Intn(len(c06InputItems))]
		}
		sb = append(sb, it...)
	}
	in := make([]int, len(sb))
	for j, b := range sb {
		in[j] = int(b)
	}
	return c06Case{Pat: pat, In: in}
}

// ---- the calls ---------------------------------------------------------------------------------

type c06Call struct {
	Name string
	N    int // find-all limit, or 99 when the method has none
	F    func(m compat.Matcher, b []byte, s string, n int) any
}

func c06Calls() []c06Call {
	var calls []c06Call
	one := func(name string, f func(m compat.Matcher, b []byte, s string) any) {
		calls = append(calls, c06Call{Name: name, N: 99, F: func(m compat.Matcher, b []byte, s string, _ int) any { return f(m, b, s) }})
	}
	one("Match", func(m compat.Matcher, b []byte, s string) any { return m.Match(b) })
	one("MatchString", func(m compat.Matcher, b []byte, s string) any { return m.MatchString(s) })
	one("MatchReader", func(m compat.Matcher, b []byte, s string) any { return m.MatchReader(strings.NewReader(s)) })
	one("Find", func(m compat.Matcher, b []byte, s string) any { return m.Find(b) })
	one("FindIndex", func(m compat.Matcher, b []byte, s string) any { return m.FindIndex(b) })
	one("FindString", func(m compat.Matcher, b []byte, s string) any { return m.FindString(s) })
	one("FindStringIndex", func(m compat.Matcher, b []byte, s string) any { return m.FindStringIndex(s) })
	one("FindReaderIndex", func(m compat.Matcher, b []byte, s string) any { return m.FindReaderIndex(bytes.NewReader(b)) })
	one("FindSubmatch", func(m compat.Matcher, b []byte, s string) any { return m.FindSubmatch(b) })
	one("FindSubmatchIndex", func(m compat.Matcher, b []byte, s string) any { return m.FindSubmatchIndex(b) })
	one("FindStringSubmatch", func(m compat.Matcher, b []byte, s string) any { return m.FindStringSubmatch(s) })
	one("FindStringSubmatchIndex", func(m compat.Matcher, b []byte, s string) any { return m.FindStringSubmatchIndex(s) })
	one("FindReaderSubmatchIndex", func(m compat.Matcher, b []byte, s string) any {
		return m.FindReaderSubmatchIndex(io.RuneReader(strings.NewReader(s)))
	})
	all := func(name string, f func(m compat.Matcher, b []byte, s string, n int) any) {
		for _, n := range c06Ns {
			calls = append(calls, c06Call{Name: name, N: n, F: f})
		}
	}
	all("FindAll", func(m compat.Matcher, b []byte, s string, n int) any { return m.FindAll(b, n) })
	all("FindAllIndex", func(m compat.Matcher, b []byte, s string, n int) any { return m.FindAllIndex(b, n) })
	all("FindAllString", func(m compat.Matcher, b []byte, s string, n int) any { return m.FindAllString(s, n) })
	all("FindAllStringIndex", func(m compat.Matcher, b []byte, s string, n int) any { return m.FindAllStringIndex(s, n) })
	all("FindAllSubmatch", func(m compat.Matcher, b []byte, s string, n int) any { return m.FindAllSubmatch(b, n) })
	all("FindAllSubmatchIndex", func(m compat.Matcher, b []byte, s string, n int) any { return m.FindAllSubmatchIndex(b, n) })
	all("FindAllStringSubmatch", func(m compat.Matcher, b []byte, s string, n int) any { return m.FindAllStringSubmatch(s, n) })
	all("FindAllStringSubmatchIndex", func(m compat.Matcher, b []byte, s string, n int) any { return m.FindAllStringSubmatchIndex(s, n) })
	return calls
}

var c06AllCalls = c06Calls()

func c06Show(v any) string {
	s := fmt.Sprintf("%#v", v)
	if len(s) > 400 {
		s = s[:400] + "…"
	}
	return s
}

func c06SafeCall(f func() any) (res any, panicked any) {
	defer func() {
		if r := recover(); r != nil {
			panicked = r
		}
	}()
	return f(), nil
}

func c06InputClass(b []byte) string {
	if !utf8.Valid(b) {
		return "invalid-utf8"
	}
	for _, x := range b {
		if x >= 0x80 {
			return "multibyte"
		}
	}
	return "ascii"
}

// ---- attempt table from the standard library --------------------------------------------------

// c06StdTable: for every rune position p of the input (Go's decoding: an invalid byte is one rune),
// the match of the pattern anchored at p as the standard library sees it, via \A(?s:.{p})(P).
// Entries are rune (index, length) or nil.
func c06StdTable(pat string, in []byte) (table [][]int, offs []int, ok bool) {
	for i := 0; i < len(in); {
		offs = append(offs, i)
		_, w := utf8.DecodeRune(in[i:])
		i += w
	}
	offs = append(offs, len(in))
	toRune := map[int]int{}
	for ri, b := range offs {
		toRune[b] = ri
	}
	n := len(offs) - 1
	for p := 0; p <= n; p++ {
		re, err := regexp.Compile(fmt.Sprintf(`\A(?s:.{%d})(%s)`, p, pat))
		if err != nil {
			return nil, nil, false
		}
		loc := re.FindSubmatchIndex(in)
		if loc == nil {
			table = append(table, nil)
			continue
		}
		s, sok := toRune[loc[2]]
		e, eok := toRune[loc[3]]
		if !sok || !eok || s != p {
			return nil, nil, false
		}
		table = append(table, []int{s, e - s})
	}
	return table, offs, true
}

func c06Spans(p [][]int, toRune map[int]int) string {
	if p == nil {
		return "nil"
	}
	out := make([][]int, len(p))
	for i, x := range p {
		out[i] = []int{toRune[x[0]], toRune[x[1]]}
	}
	return c07Pairs(out)
}

func c06Check(c *core.Ctx, cases []c06Case) []core.Outcome {
	outs := make([]core.Outcome, len(cases))
	var lines []string
	var lineOf []int
	goAns := map[int]string{}
	for i, cs := range cases {
		o := &outs[i]
		in := cs.input()
		o.Key = cs.Pat + "|" + string(in)
		std, err := regexp.Compile(cs.Pat)
		if err != nil {
			o.Buckets = append(o.Buckets, "skipped-regexp-rejects")
			continue
		}
		opts := []regexp2.CompileOption{regexp2.RE2}
		if c06MixedGroups(std) && !cs.Plain {
			// named groups are numbered after the unnamed ones unless this option is given (see probe leg K)
			opts = append(opts, regexp2.OptionMaintainCaptureOrder())
			o.Buckets = append(o.Buckets, "named+unnamed-groups(MaintainCaptureOrder)")
		}
		cmp, err := compat.Compile(cs.Pat, opts...)
		if err != nil {
			o.Buckets = append(o.Buckets, "skipped-regexp2-rejects")
			continue
		}
		class := c06InputClass(in)
		o.Buckets = append(o.Buckets, "input-"+class)
		s := string(in)
		var b []byte
		if len(in) > 0 || len(cs.Pat)%2 == 0 {
			b = in // an empty input is passed as an empty non-nil or as a nil slice, by pattern parity
		}
		o.Nontrivial = std.Match(in)
		if o.Nontrivial {
			o.Buckets = append(o.Buckets, "matches")
		} else {
			o.Buckets = append(o.Buckets, "no-match")
		}
		for _, call := range c06AllCalls {
			want := call.F(std, b, s, call.N)
			got, pan := c06SafeCall(func() any { return call.F(cmp, b, s, call.N) })
			name := call.Name
			if call.N != 99 {
				name = fmt.Sprintf("%s(n=%d)", call.Name, call.N)
			}
			if pan != nil {
				o.Fail = &core.Failure{Kind: "impl-violation", Key: c06Key(cs, call.Name, "panic", class), Summary: fmt.Sprintf("compat %s panics on pattern %q (RE2) input %q: %v", name, cs.Pat, s, pan), Expected: c06Show(want), Got: fmt.Sprint(pan)}
				break
			}
			if !reflect.DeepEqual(want, got) {
				o.Fail = &core.Failure{Kind: "impl-violation", Key: c06Key(cs, call.Name, "diff", class), Summary: fmt.Sprintf("compat %s differs from regexp on pattern %q (RE2) input %q", name, cs.Pat, s), Expected: c06Show(want), Got: c06Show(got)}
				break
			}
		}
		if o.Fail != nil {
			continue
		}
		if cs.Probe != "" {
			o.Buckets = append(o.Buckets, "probe-agrees:"+cs.Probe)
			continue
		}
		// correspondence: Lean compatForEach / findAll / stdAll over the standard library's
		// single-position matches
		table, offs, ok := c06StdTable(cs.Pat, in)
		if !ok {
			o.Buckets = append(o.Buckets, "no-std-table")
			continue
		}
		toRune := map[int]int{}
		for ri, bo := range offs {
			toRune[bo] = ri
		}
		// model-free: regexp2's single-position attempts are the standard library's
		runes := []rune(s)
		re2 := cmp.Unwrap()
		if len(runes) == len(table)-1 {
			for p := range table {
				m, err := regexp2.VerifAttemptAt(re2, runes, p, 0, false)
				if err != nil {
					break
				}
				got, want := "none", "none"
				if m != nil {
					got = fmt.Sprintf("(%d %d)", m.RuneIndex, m.RuneLength)
				}
				if table[p] != nil {
					want = fmt.Sprintf("(%d %d)", table[p][0], table[p][1])
				}
				if got != want {
					o.Fail = &core.Failure{Kind: "impl-violation", Key: c06Key(cs, "attempt-at", "diff", class), Summary: fmt.Sprintf("the match of %q (RE2) anchored at rune %d of %q differs from regexp's (\\A(?s:.{%d})(P))", cs.Pat, p, s, p), Expected: want, Got: got}
					break
				}
			}
			if o.Fail != nil {
				continue
			}
		}
		var row strings.Builder
		row.WriteByte('(')
		for p, e := range table {
			if p > 0 {
				row.WriteByte(' ')
			}
			if e == nil {
				row.WriteString("x")
			} else {
				fmt.Fprintf(&row, "(%d %d)", e[0], e[1])
			}
		}
		row.WriteByte(')')
		var ans strings.Builder
		ans.WriteString("(ok")
		for _, k := range c06Ns {
			var fe [][]int
			for _, x := range cmp.FindAllStringSubmatchIndex(s, k) {
				fe = append(fe, []int{x[0], x[1]})
			}
			fmt.Fprintf(&ans, " (k %d %s %s %s)", k, c06Spans(fe, toRune), c06Spans(cmp.FindAllStringIndex(s, k), toRune), c06Spans(std.FindAllStringIndex(s, k), toRune))
		}
		ans.WriteString(")")
		goAns[i] = ans.String()
		lines = append(lines, core.S("c06", core.S("n", fmt.Sprint(len(table)-1)), core.S("ks", core.SInts(c06Ns)), core.S("row", row.String())))
		lineOf = append(lineOf, i)
	}
	res, err := c.RunDriver(lines)
	if err != nil {
		for i := range outs {
			if outs[i].Fail == nil {
				outs[i].Fail = core.DriverFailure(err)
				break
			}
		}
		return outs
	}
	for li, i := range lineOf {
		if outs[i].Fail != nil {
			continue
		}
		if res[li] != goAns[i] {
			outs[i].Fail = &core.Failure{Kind: "correspondence-break", Key: "model:compat-findall-stdall", Summary: "Lean compatForEach/findAll/stdAll over regexp's single-position matches disagree with compat.FindAllStringSubmatchIndex / compat.FindAllStringIndex / regexp.FindAllStringIndex (per n: forEach, findAll, std)", Expected: res[li], Got: goAns[i]}
		}
	}
	return outs
}

// c06Key classifies a difference: method, kind, input class, and the pattern features that
// single out known classes.
func c06Key(cs c06Case, method, kind, class string) string {
	if cs.Probe != "" {
		return "probe:" + cs.Probe
	}
	return method + ":" + kind + ":" + class
}

func init() {
	core.Register("C06", func(c *core.Ctx) {
		// VERIF_C06_LEGS=K,G,Gm restricts the run to the named legs (a debugging aid; unset = all legs)
		want := func(name string) bool {
			only := os.Getenv("VERIF_C06_LEGS")
			if only == "" {
				return true
			}
			for _, n := range strings.Split(only, ",") {
				if n == name {
					return true
				}
			}
			return false
		}
		if want("Q") {
			c06SpecLeg(c)
		}
		bs := func(s string) []int {
			out := make([]int, len(s))
			for i := 0; i < len(s); i++ {
				out[i] = int(s[i])
			}
			return out
		}
		corpus := []c06Case{
			{Pat: `a*`, In: bs("baaab")},
			{Pat: `a.`, In: bs("xa\xffy")},
			{Pat: `\B`, In: bs("\xffé1")},
			{Pat: `x`, In: bs("")},
			{Pat: `x`, In: bs("abc")},
			{Pat: `(a)|b`, In: bs("b")},
			{Pat: `(?P<n1>a+)(b)?`, In: bs("aab a")},
			{Pat: `^|$|\b`, In: bs("ab cd")},
			{Pat: `(?m:^)[[:alpha:]]*?$`, In: bs("ab\ncd\n")},
			{Pat: `(?i)é|k`, In: bs("ÉK")},
			{Pat: `\d+|\s|`, In: bs("1 22\xe6\x97")},
			// witnesses of repaired defects (found by this leg)
			{Pat: `[[:digit:]]`, In: bs("\u0663")},          // 88438d2
			{Pat: `[[:space:]]|日`, In: bs("\\\u00a0")},      // 503cb91
			{Pat: `\x{FFFD}`, In: bs("\xff")},               // 898afa2
			{Pat: `a\x{FFFD}|[\x{FFFD}]`, In: bs("a\xffb")}, // 898afa2
			{Pat: `\D|.z`, In: bs("xy")},                    // 0185758
			{Pat: `(?m:\D)a*(?-i:|\x{e9}{1,3}|-)|.{2,}?zz`, In: bs(" \\\\y")},
			{Pat: `(?P<n1>a+)(b)?`, In: bs("aab")}, // mixed named/unnamed groups: compiled with OptionMaintainCaptureOrder
		}
		// Leg K: fixed minimal cases of the divergence classes that are carried as known findings
		// (design.d/C06.md). The generator of leg G stays clear of them; each has its own key.
		probe := func(name, pat, in string) c06Case { return c06Case{Pat: pat, In: bs(in), Plain: true, Probe: name} }
		probes := []c06Case{
			// carried as a known finding: regexp folds \w before negating, regexp2 folds the negated class
			probe("fold-negated-perl-class", `(?i)\W`, "k"),
		}
		if want("K") {
			core.RunLeg(c, core.Leg[c06Case]{
				Name: "K", Kind: "oracle",
				Rule:   "fixed minimal inputs, one per known class of divergence between compat (RE2 option alone) and regexp; same comparison as leg G; a class that agrees again is counted as such",
				Corpus: probes, N: 0, Gen: c06GenCase, Check: c06Check,
			})
		}
		if want("G") {
			core.RunLeg(c, core.Leg[c06Case]{
				Name: "G", Kind: "correspondence+oracle",
				Rule:   "patterns printed from random ASTs over literals (incl. escapes \\x41 \\x{e9}), classes ([ab] [^a] ranges, POSIX [[:alpha:]] …, \\d \\w \\s and negations, \\pL, .), anchors ^ $ \\A \\z \\b \\B, alternation with empty branches, capturing / named (?P<n>) / non-capturing / flag groups (?i: ?s: ?m: ?-s:), greedy and lazy * + ? {m} {m,n} {m,} applied only to non-nullable atoms, optional leading (?i)/(?s)/(?m); inputs of 0-13 items over ASCII, multi-byte (é É 日 😀 U+212A U+017F U+00A0 U+FFFD) and invalid UTF-8 pieces (\\xff, truncated and overlong sequences, surrogate, > U+10FFFF); n in {-1,0,1,2,3}; patterns either engine rejects are skipped and counted. non-trivial = regexp finds a match; distinct by (pattern, input). Oracle: all 21 methods of compat.Matcher (8 find-all methods x 5 n) on compat.Compile(p, RE2) vs regexp.Compile(p), reflect.DeepEqual incl. nil-ness; regexp2's single-position attempt at every rune position vs regexp's \\A(?s:.{p})(P). Correspondence: Lean compatForEach, findAll, stdAll over that table vs compat.FindAllStringSubmatchIndex, compat.FindAllStringIndex, regexp.FindAllStringIndex",
				Corpus: corpus, N: c.N(3000, 100000), Gen: c06GenCase, Check: c06Check, Batch: 1000,
			})
		}
		if want("Gm") {
			c06MethodsLeg(c)
		}
	})
}
